(* Proofs/RoundTripMainP.v -- C06, layer 4: Reconfigure(Config()) is accepted and changes no response.
   Main results: [origins_rt], [round_trip], [config_is_accepted], [same_responses],
   [constructors_agree], [reconfigure_config_noop], [origins_stable], [stable_after_one_round_trip],
   [stable_partial]. *)
Require Import Base.Bytes Gen.Tables.
Require Import Model.Util Model.Headers Model.Methods Model.Origins Model.Netip Model.Pattern Model.Radix
  Model.CfgErrors Model.Config Model.Serve Model.Mw.
Require Import Spec.Origins Spec.Wire Spec.ConfigDoc.
Require Import Proofs.RadixP Proofs.HeadersP Proofs.ParseP Proofs.Rel Proofs.ConfigP.
Require Import Proofs.RoundTripP Proofs.RoundTripTreeP Proofs.RoundTripParseP Proofs.RoundTripStableP.
From Coq Require Import Sorted Permutation ZifyBool ZifyNat ZifyN.
Open Scope N_scope.

(* ------------------------------------------------------------------------------------------ *)
(* 1. newInternalConfig from its parts (converse of [accepted_parts])                          *)

Lemma nic_of_parts ace_ok ip6 is_psl c vs t anym mset ast auth hset acah acma aceh :
  validate_status (c_status c) = inl vs ->
  c_pna c && c_pna_nocors c = false ->
  validate_origins ace_ok ip6 is_psl (c_credentialed c) (c_pna c || c_pna_nocors c)
                   (c_tol_insecure c) (c_tol_psl c) (c_origins c) = inl t ->
  validate_methods (c_methods c) = inl (anym, mset) ->
  validate_req_headers (c_credentialed c) (c_req_headers c) = inl (ast, auth, hset, acah) ->
  validate_max_age (c_max_age c) = inl acma ->
  validate_res_headers (c_credentialed c) (c_res_headers c) = inl aceh ->
  new_internal_config ace_ok ip6 is_psl c =
  inl {| i_tree := t; i_methods := mset; i_req_hdrs := hset; i_acah := acah; i_status_m200 := vs;
         i_cred := c_credentialed c; i_any_method := anym; i_asterisk_req := ast; i_allow_auth := auth;
         i_pna := c_pna c; i_pna_nocors := c_pna_nocors c; i_acma := acma; i_aceh := aceh;
         i_tol_psl := c_tol_psl c; i_tol_insecure := c_tol_insecure c |}.
Proof.
  intros Es Ep Eo Em Eh Ea Ee. unfold new_internal_config. cbv zeta.
  rewrite Es, Ep, Eo, Em, Eh, Ea, Ee. reflexivity.
Qed.

(* ------------------------------------------------------------------------------------------ *)
(* 2. origins                                                                                  *)

Lemma has_prefix_app a r : has_prefix a (a ++ r) = true.
Proof. induction a as [|x a IH]; [reflexivity|]. cbn [app has_prefix]. rewrite N.eqb_refl. exact IH. Qed.

(* every valid pattern denotes some tuple origin *)
Lemma pattern_witness p : valid_pattern p -> exists o, valid_origin o /\ denotes p o = true.
Proof.
  unfold valid_pattern. intros Hp.
  set (q := if (pport p =? 65536)%Z then 0%Z else pport p).
  assert (Hq : (0 <= q <= 65535)%Z) by (unfold q; destruct (pport p =? 65536)%Z eqn:E; lia).
  assert (Hpd : port_denotes (pport p) q = true).
  { unfold port_denotes, wildcard_port, q. destruct (pport p =? 65536)%Z eqn:E; [reflexivity|].
    rewrite Z.eqb_refl. apply orb_true_r. }
  destruct (host_denotes_cases (pvalue p) (match pvalue p with 42 :: s' => 0 :: s' | v => v end))
    as [(s' & Hv & Hd) | (Hn & Hd)].
  - exists {| oscheme := pscheme p; ohost := {| hvalue := 0 :: s'; assume_ip := false |}; oport := q |}.
    split; [exact Hq|]. unfold denotes. cbn [oscheme ohost oport hvalue].
    rewrite RadixP.beqb_refl, Hpd. rewrite Hv in Hd. rewrite Hv, Hd. cbn [andb].
    unfold has_suffix. cbn [rev length]. rewrite has_prefix_app. cbn [andb]. apply Nat.ltb_lt. lia.
  - exists {| oscheme := pscheme p; ohost := {| hvalue := pvalue p; assume_ip := false |}; oport := q |}.
    split; [exact Hq|]. unfold denotes. cbn [oscheme ohost oport hvalue].
    rewrite RadixP.beqb_refl, Hpd.
    destruct (host_denotes_cases (pvalue p) (pvalue p)) as [(s' & Hv & _) | (_ & ->)].
    + exfalso. exact (Hn _ Hv).
    + rewrite RadixP.beqb_refl. reflexivity.
Qed.

Lemma In_sort_bytes x l : In x (sort_bytes l) <-> In x l.
Proof. rewrite <- !mem_In, mem_sort_bytes. reflexivity. Qed.

Section Origins.
Variable ace_ok : bytes -> bool.
Variable ip6 : bytes -> ipres.
Variable is_psl : bytes -> bool.
Hypothesis Hsane : ip6_sane ip6.
Variables cred pna ti tp : bool.

Let oitem := origin_item ace_ok ip6 is_psl cred pna ti tp.
Let vorig := validate_origins ace_ok ip6 is_psl cred pna ti tp.

Lemma validate_origins_ok pats : pats <> [] -> (forall raw, In raw pats -> fst (oitem raw) = []) ->
  exists t, vorig pats = inl t.
Proof.
  intros Hne Hok. unfold vorig, validate_origins. destruct pats as [|p0 pats']; [congruence|].
  remember (p0 :: pats') as pats eqn:Ep. fold oitem.
  assert (E : flat_map fst (map oitem pats) = []).
  { clear Ep Hne. induction pats as [|x r IH]; [reflexivity|]. cbn [map flat_map].
    rewrite (Hok x (or_introl eq_refl)), IH; [reflexivity|]. intros raw Hr. apply Hok. right. exact Hr. }
  rewrite E. destruct (existsb _ pats); eexists; reflexivity.
Qed.

(* the errors of a list occurrence depend on the parsed pattern only *)
Lemma origin_item_same raw raw' p :
  parse_pattern ace_ok ip6 raw = inl p -> parse_pattern ace_ok ip6 raw' = inl p ->
  fst (oitem raw) = [] -> fst (oitem raw') = [].
Proof.
  intros H H'. unfold oitem, origin_item.
  assert (Hs : forall r, parse_pattern ace_ok ip6 r = inl p -> beqb r star = false).
  { intros r Hr. destruct (beqb r star) eqn:E; [|reflexivity]. apply beqb_true_iff in E. subst r.
    rewrite parse_pattern_star in Hr. discriminate. }
  rewrite (Hs _ H), (Hs _ H'), H, H'. cbn [fst].
  destruct (is_deemed_insecure p && negb ti), cred, pna,
    (pkind_eqb (pkind_of p) KSubdomains && negb tp && host_is_etld is_psl p); cbn [app];
    intros E; try discriminate E; reflexivity.
Qed.

Lemma pats_of_inl raw p : parse_pattern ace_ok ip6 raw = inl p -> pats_of ace_ok ip6 raw = [p].
Proof. unfold pats_of. intros ->. reflexivity. Qed.

Lemma In_pats_of raw p : In p (pats_of ace_ok ip6 raw) -> parse_pattern ace_ok ip6 raw = inl p.
Proof. unfold pats_of. destruct (parse_pattern ace_ok ip6 raw); [intros [<-|[]]; reflexivity | intros []]. Qed.

Theorem origins_rt origins t : vorig origins = inl t ->
  exists t1, vorig (if tree_is_empty t then [star] else tree_elems t) = inl t1 /\
             tree_is_empty t1 = tree_is_empty t /\
             forall o, valid_origin o -> tree_contains t1 o = tree_contains t o.
Proof.
  intros H. destruct (validate_origins_inl _ _ _ _ _ _ _ _ _ H) as [Hne [Hok Ht]]. fold oitem in Hok.
  destruct (lists_star origins) eqn:Est.
  - (* "*" listed: the empty tree *)
    subst t. change (tree_is_empty empty_tree) with true. cbv iota.
    apply lists_star_in in Est.
    destruct (origin_item_star ace_ok ip6 is_psl cred pna ti tp (Hok _ Est)) as [Hc Hp].
    exists empty_tree. split; [|split; reflexivity].
    unfold vorig, validate_origins. cbn [map flat_map]. unfold origin_item.
    change (beqb star star) with true. cbv iota. rewrite Hc, Hp. reflexivity.
  - remember (flat_map (pats_of ace_ok ip6) origins) as ps eqn:Eps.
    assert (Hps : ps <> []) by (rewrite Eps; eapply pats_nonempty; eassumption).
    assert (Hvalid : Forall valid_pattern ps).
    { apply Forall_forall. intros p Hp. rewrite Eps in Hp. apply in_flat_map in Hp. destruct Hp as [raw [_ Hp]].
      exact (parse_pattern_valid _ _ _ _ (In_pats_of _ _ Hp)). }
    assert (Hemp : tree_is_empty t = false) by (rewrite Ht; apply build_not_empty, Hps).
    rewrite Hemp. unfold tree_elems. rewrite node_elems_entries.
    set (L1 := sort_bytes (map render_entry (entries t []))).
    (* every listed element is the rendering of a pattern of the first configuration *)
    assert (Hfrom : forall raw1, In raw1 L1 ->
              exists p raw, In (entry_of p) (entries t []) /\ raw1 = render_entry (entry_of p) /\
                            In raw origins /\ parse_pattern ace_ok ip6 raw = inl p /\
                            parse_pattern ace_ok ip6 raw1 = inl p).
    { intros raw1 Hin. apply In_sort_bytes, in_map_iff in Hin. destruct Hin as [e [<- He]].
      pose proof He as He'. rewrite Ht in He'. apply entries_build in He'. destruct He' as [p [Hp ->]].
      rewrite Eps in Hp. apply in_flat_map in Hp. destruct Hp as [raw [Hraw Hp]]. apply In_pats_of in Hp.
      exists p, raw. split; [exact He|]. split; [reflexivity|]. split; [exact Hraw|]. split; [exact Hp|].
      exact (reparse ace_ok ip6 Hsane raw p Hp). }
    assert (Hto : forall e, In e (entries t []) -> In (render_entry e) L1).
    { intros e He. apply In_sort_bytes, in_map. exact He. }
    (* the tree has at least one entry *)
    assert (Hent : entries t [] <> []).
    { clear Eps. destruct ps as [|p0 ps']; [congruence|].
      destruct (pattern_witness p0 (Forall_inv Hvalid)) as [o [Ho Hd]].
      pose proof (tree_contains_build _ o Hvalid Ho) as Hc.
      rewrite tree_contains_entries, <- Ht in Hc by exact Ho.
      unfold allowed_by in Hc. cbn [existsb] in Hc. rewrite Hd in Hc. cbn [orb] in Hc.
      intros Hnil. rewrite Hnil in Hc. discriminate Hc. }
    assert (HL1 : L1 <> []).
    { destruct (entries t []) as [|e0 r0] eqn:Ee; [congruence|].
      intros Hnil. pose proof (Hto e0 (or_introl eq_refl)) as Hin. rewrite Hnil in Hin. destruct Hin. }
    assert (Hok1 : forall raw1, In raw1 L1 -> fst (oitem raw1) = []).
    { intros raw1 Hin. destruct (Hfrom _ Hin) as [p [raw [_ [_ [Hraw [Hp Hp1]]]]]].
      apply (origin_item_same raw raw1 p Hp Hp1). apply Hok, Hraw. }
    destruct (validate_origins_ok L1 HL1 Hok1) as [t1 H1]. exists t1. split; [exact H1|].
    destruct (validate_origins_inl _ _ _ _ _ _ _ _ _ H1) as [_ [_ Ht1]].
    assert (Hst1 : lists_star L1 = false).
    { destruct (lists_star L1) eqn:E; [|reflexivity]. apply lists_star_in in E.
      destruct (Hfrom _ E) as [p [_ [_ [_ [_ [_ Hp1]]]]]]. rewrite parse_pattern_star in Hp1. discriminate. }
    rewrite Hst1 in Ht1. set (ps1 := flat_map (pats_of ace_ok ip6) L1) in *.
    assert (Hps1 : ps1 <> []) by (eapply pats_nonempty; eassumption).
    assert (Hvalid1 : Forall valid_pattern ps1).
    { apply Forall_forall. intros p Hp. apply in_flat_map in Hp. destruct Hp as [raw [_ Hp]].
      exact (parse_pattern_valid _ _ _ _ (In_pats_of _ _ Hp)). }
    split; [rewrite Ht1; apply build_not_empty, Hps1|].
    intros o Ho. rewrite Ht1, (tree_contains_build _ _ Hvalid1 Ho).
    rewrite Ht, (tree_contains_entries _ _ Ho), <- Ht.
    unfold allowed_by. apply eq_true_iff_eq. rewrite !existsb_exists. split.
    + intros [p1 [Hin Hd]]. apply in_flat_map in Hin. destruct Hin as [raw1 [Hraw1 Hin]].
      destruct (Hfrom _ Hraw1) as [p [_ [He [_ [_ [_ Hp1]]]]]].
      rewrite (pats_of_inl _ _ Hp1) in Hin. destruct Hin as [<-|[]].
      exists (entry_of p). split; [exact He|].
      rewrite ematch_entry_of; [exact Hd | exact (parse_pattern_valid _ _ _ _ Hp1) | exact Ho].
    + intros [e [He Hm]]. pose proof (Hto e He) as Hin.
      rewrite Ht in He. apply entries_build in He. destruct He as [p' [Hp' ->]].
      rewrite Eps in Hp'. apply in_flat_map in Hp'. destruct Hp' as [raw2 [_ Hp2]]. apply In_pats_of in Hp2.
      pose proof (reparse ace_ok ip6 Hsane raw2 p' Hp2) as Hr.
      exists p'. split.
      * apply in_flat_map. exists (render_entry (entry_of p')). split; [exact Hin|].
        rewrite (pats_of_inl _ _ Hr). left. reflexivity.
      * rewrite <- (ematch_entry_of p' o (parse_pattern_valid _ _ _ _ Hp2) Ho). exact Hm.
Qed.

End Origins.

(* ------------------------------------------------------------------------------------------ *)
(* 3. the round trip                                                                           *)

(* what one round trip preserves: every observation of [serve], and moreover every field that
   Config() prints other than the origin list *)
Record rt_rel (ic ic1 : icfg) : Prop := {
  rt_obs : same_obs ic ic1;
  rt_tol_psl : i_tol_psl ic1 = i_tol_psl ic;
  rt_tol_insecure : i_tol_insecure ic1 = i_tol_insecure ic;
  rt_auth : negb (i_cred ic) && i_asterisk_req ic = true -> i_allow_auth ic1 = i_allow_auth ic
}.

Theorem round_trip ace_ok ip6 is_psl c ic : ip6_sane ip6 ->
  new_internal_config ace_ok ip6 is_psl c = inl ic ->
  exists ic1, new_internal_config ace_ok ip6 is_psl (new_config ic) = inl ic1 /\ rt_rel ic ic1.
Proof.
  intros Hsane H.
  destruct (accepted_parts _ _ _ _ _ H)
    as [vs [t [anym [mset [ast [auth [hset [acah [acma [aceh [Es [Ep [Eo [Em [Eh [Ea [Ee ->]]]]]]]]]]]]]]]]].
  clear H.
  destruct (origins_rt ace_ok ip6 is_psl Hsane _ _ _ _ _ _ Eo) as [t1 [Eo1 [Hemp Htree]]].
  destruct (validate_req_headers_rt _ _ _ _ _ _ Eh) as [auth' [Eh1 Hauth]].
  pose proof (status_rt _ _ Es) as Es1. pose proof (max_age_rt _ _ Ea) as Ea1.
  pose proof (validate_methods_rt _ _ _ Em) as Em1. pose proof (validate_res_headers_rt _ _ _ Ee) as Ee1.
  set (ic := {| i_tree := t; i_methods := mset; i_req_hdrs := hset; i_acah := acah; i_status_m200 := vs;
                i_cred := c_credentialed c; i_any_method := anym; i_asterisk_req := ast; i_allow_auth := auth;
                i_pna := c_pna c; i_pna_nocors := c_pna_nocors c; i_acma := acma; i_aceh := aceh;
                i_tol_psl := c_tol_psl c; i_tol_insecure := c_tol_insecure c |}).
  eexists. split.
  - apply (nic_of_parts ace_ok ip6 is_psl (new_config ic) vs t1 anym mset ast auth' hset acah acma aceh).
    + exact Es1.
    + exact Ep.
    + exact Eo1.
    + exact Em1.
    + exact Eh1.
    + exact Ea1.
    + exact Ee1.
  - cbn [new_config ic c_credentialed c_pna c_pna_nocors c_tol_psl c_tol_insecure
         i_cred i_pna i_pna_nocors i_tol_psl i_tol_insecure].
    constructor; [constructor|..];
      cbn [i_tree i_methods i_req_hdrs i_acah i_status_m200 i_cred i_any_method i_asterisk_req
           i_allow_auth i_pna i_pna_nocors i_acma i_aceh i_tol_psl i_tol_insecure ic];
      try reflexivity; try assumption.
    intros Hx. apply andb_true_iff in Hx. destruct Hx as [Hc Ha]. apply negb_true_iff in Hc.
    apply Hauth; assumption.
Qed.

Theorem config_is_accepted ace ip6 psl c ic : ip6_sane ip6 ->
  new_internal_config ace ip6 psl c = inl ic ->
  exists ic1, new_internal_config ace ip6 psl (new_config ic) = inl ic1.
Proof. intros Hs H. destruct (round_trip _ _ _ _ _ Hs H) as [ic1 [H1 _]]. exists ic1. exact H1. Qed.

Theorem same_responses ace ip6 psl c ic ic1 : ip6_sane ip6 ->
  new_internal_config ace ip6 psl c = inl ic ->
  new_internal_config ace ip6 psl (new_config ic) = inl ic1 ->
  forall dbg r pre, serve (Some ic1) dbg r pre = serve (Some ic) dbg r pre.
Proof.
  intros Hs H H1. destruct (round_trip _ _ _ _ _ Hs H) as [ic1' [H1' R]].
  rewrite H1 in H1'. injection H1' as <-. intros dbg r pre. apply serve_ext. exact (rt_obs _ _ R).
Qed.

Theorem constructors_agree ace ip6 psl c :
  fst (mw_new ace ip6 psl c) =
  match new_internal_config ace ip6 psl c with
  | inl _ => Some (fst (step ace ip6 psl zero_mw (OReconfigure (Some c))))
  | inr _ => None
  end.
Proof. unfold mw_new, step. destruct (new_internal_config ace ip6 psl c); reflexivity. Qed.

Theorem reconfigure_config_noop ace ip6 psl c ic dbg : ip6_sane ip6 ->
  new_internal_config ace ip6 psl c = inl ic ->
  let st := (Some ic, dbg) in
  exists st', step ace ip6 psl st (OReconfigure (mw_config st)) = (st', None) /\ snd st' = dbg /\
              forall r pre, mw_serve st' r pre = mw_serve st r pre.
Proof.
  intros Hs H st. destruct (round_trip _ _ _ _ _ Hs H) as [ic1 [H1 R]].
  exists (Some ic1, dbg). unfold st, mw_config, step. cbn [fst snd]. rewrite H1.
  split; [reflexivity|]. split; [reflexivity|]. intros r pre. unfold mw_serve. cbn [fst snd].
  apply serve_ext. exact (rt_obs _ _ R).
Qed.


(* ------------------------------------------------------------------------------------------ *)
(* 4. stability: the second round trip rebuilds the same tree                                  *)

Definition oelems (t : node) : list bytes := if tree_is_empty t then [star] else tree_elems t.

Section Stable.
Variable ace_ok : bytes -> bool.
Variable ip6 : bytes -> ipres.
Variable is_psl : bytes -> bool.
Hypothesis Hsane : ip6_sane ip6.
Variables cred pna ti tp : bool.

Let vorig := validate_origins ace_ok ip6 is_psl cred pna ti tp.
Let rd (p : pattern) : bytes := render_entry (entry_of p).

(* lists of renderings of patterns that parse back to themselves *)
Lemma pats_of_renderings K : (forall p, In p K -> parse_pattern ace_ok ip6 (rd p) = inl p) ->
  flat_map (pats_of ace_ok ip6) (map rd K) = K.
Proof.
  induction K as [|p r IH]; intros H; [reflexivity|]. cbn [map flat_map].
  rewrite (pats_of_inl ace_ok ip6 _ _ (H p (or_introl eq_refl))), IH; [reflexivity|].
  intros q Hq. apply H. right. exact Hq.
Qed.

Lemma renderings_of_pats Q L :
  (forall raw1, In raw1 L -> exists p, raw1 = rd p /\ parse_pattern ace_ok ip6 raw1 = inl p /\ Q p) ->
  map rd (flat_map (pats_of ace_ok ip6) L) = L /\
  forall p, In p (flat_map (pats_of ace_ok ip6) L) -> parse_pattern ace_ok ip6 (rd p) = inl p /\ Q p.
Proof.
  induction L as [|x r IH]; intros H; [split; [reflexivity | intros p []]|].
  destruct (H x (or_introl eq_refl)) as [p [Hx [Hp HQ]]].
  destruct IH as [I1 I2]; [intros y Hy; apply H; right; exact Hy|].
  cbn [flat_map]. rewrite (pats_of_inl ace_ok ip6 _ _ Hp). cbn [app map]. split.
  - rewrite I1, <- Hx. reflexivity.
  - intros q [<-|Hq]; [rewrite <- Hx; auto | apply I2, Hq].
Qed.

Theorem origins_stable origins t0 t1 t2 :
  vorig origins = inl t0 -> vorig (oelems t0) = inl t1 -> vorig (oelems t1) = inl t2 -> t2 = t1.
Proof.
  intros H0 H1 H2.
  destruct (validate_origins_inl _ _ _ _ _ _ _ _ _ H0) as [Hne0 [Hok0 Ht0]].
  destruct (validate_origins_inl _ _ _ _ _ _ _ _ _ H1) as [_ [_ Ht1]].
  destruct (validate_origins_inl _ _ _ _ _ _ _ _ _ H2) as [_ [_ Ht2]].
  destruct (lists_star origins) eqn:Est.
  - (* "*" all along *)
    subst t0. change (oelems empty_tree) with [star] in *.
    change (lists_star [star]) with true in Ht1. subst t1.
    change (oelems empty_tree) with [star] in *. change (lists_star [star]) with true in Ht2. exact Ht2.
  - remember (flat_map (pats_of ace_ok ip6) origins) as ps0 eqn:Eps0.
    assert (Hps0 : ps0 <> []) by (rewrite Eps0; eapply pats_nonempty; eassumption).
    assert (Hparse0 : forall p, In p ps0 -> exists raw, parse_pattern ace_ok ip6 raw = inl p).
    { intros p Hp. rewrite Eps0 in Hp. apply in_flat_map in Hp. destruct Hp as [raw [_ Hp]].
      exists raw. exact (In_pats_of _ _ _ _ Hp). }
    assert (Hvalid0 : Forall valid_pattern ps0).
    { apply Forall_forall. intros p Hp. destruct (Hparse0 p Hp) as [raw Hr]. exact (parse_pattern_valid _ _ _ _ Hr). }
    assert (Hemp0 : tree_is_empty t0 = false) by (rewrite Ht0; apply build_not_empty, Hps0).
    unfold oelems in H1, Ht1. rewrite Hemp0 in H1, Ht1.
    set (S0 := entries t0 []) in *.
    assert (HS0 : I1set S0) by (unfold S0; rewrite Ht0; apply i1set_build, Hvalid0).
    set (L1 := tree_elems t0) in *.
    assert (HL1 : L1 = sort_bytes (map render_entry S0)) by (unfold L1, tree_elems; rewrite node_elems_entries; reflexivity).
    (* the elements of the first tree and the patterns they parse to *)
    destruct (renderings_of_pats (fun p => In (entry_of p) S0) L1) as [R1 R2].
    { intros raw1 Hin. rewrite HL1 in Hin. apply In_sort_bytes, in_map_iff in Hin. destruct Hin as [e [<- He]].
      pose proof He as He'. unfold S0 in He'. rewrite Ht0 in He'. apply entries_build in He'.
      destruct He' as [p [Hp ->]]. destruct (Hparse0 p Hp) as [raw Hr].
      exists p. split; [reflexivity|]. split; [exact (reparse ace_ok ip6 Hsane raw p Hr) | exact He]. }
    set (ps1 := flat_map (pats_of ace_ok ip6) L1) in *.
    assert (Hst1 : lists_star L1 = false).
    { destruct (lists_star L1) eqn:E; [|reflexivity]. apply lists_star_in in E.
      rewrite <- R1 in E. apply in_map_iff in E. destruct E as [p [Hp Hin]].
      destruct (R2 p Hin) as [Hpp _]. unfold rd in Hp, Hpp. rewrite Hp, parse_pattern_star in Hpp. discriminate. }
    rewrite Hst1 in Ht1.
    assert (Hvalid1 : Forall valid_pattern ps1).
    { apply Forall_forall. intros p Hp. exact (parse_pattern_valid _ _ _ _ (proj1 (R2 p Hp))). }
    (* the second tree is built from the insertions that were not absorbed *)
    destruct (build_kept S0 HS0 ps1 empty_tree wf2_empty eq_refl Hvalid1 (fun p Hp => proj2 (R2 p Hp)))
      as [K [K1 [K2 K3]]]; [intros x []|].
    change (fold_left tree_insert ps1 empty_tree) with (build ps1) in K2.
    change (fold_left tree_insert K empty_tree) with (build K) in K2, K3.
    change (entries empty_tree []) with (@nil (bytes * bytes * Z)) in K3. cbn [app] in K3.
    rewrite <- Ht1 in K2.
    assert (HKparse : forall p, In p K -> parse_pattern ace_ok ip6 (rd p) = inl p).
    { intros p Hp. apply R2. exact (subseq_In _ _ K1 p Hp). }
    (* its element list is the list of renderings of K, in K's order *)
    assert (HL2 : tree_elems t1 = map rd K).
    { unfold tree_elems. rewrite node_elems_entries, K2. apply sort_bytes_of_perm.
      - rewrite (Permutation_map render_entry K3), map_map. reflexivity.
      - apply (subseq_sorted_ble _ (map rd ps1)); [apply subseq_map, K1|].
        rewrite R1, HL1. apply sort_bytes_sorted. }
    destruct (origins_rt ace_ok ip6 is_psl Hsane cred pna ti tp _ _ H0) as [t1' [H1' [Hemp1 _]]].
    fold vorig in H1'. rewrite Hemp0 in H1', Hemp1. fold L1 in H1'. rewrite H1 in H1'. injection H1' as <-.
    unfold oelems in Ht2. rewrite Hemp1, HL2 in Ht2.
    assert (Hst2 : lists_star (map rd K) = false).
    { destruct (lists_star (map rd K)) eqn:E; [|reflexivity]. apply lists_star_in in E.
      apply in_map_iff in E. destruct E as [p [Hp Hin]]. pose proof (HKparse p Hin) as Hpp.
      rewrite Hp, parse_pattern_star in Hpp. discriminate. }
    rewrite Hst2, (pats_of_renderings K HKparse) in Ht2. rewrite Ht2, K2. reflexivity.
Qed.

End Stable.

(* the fields of Config() other than the origin list *)
Definition same_but_origins (x y : config) : Prop :=
  c_credentialed x = c_credentialed y /\ c_methods x = c_methods y /\ c_req_headers x = c_req_headers y /\
  c_max_age x = c_max_age y /\ c_res_headers x = c_res_headers y /\ c_status x = c_status y /\
  c_pna x = c_pna y /\ c_pna_nocors x = c_pna_nocors y /\
  c_tol_insecure x = c_tol_insecure y /\ c_tol_psl x = c_tol_psl y.

Lemma rt_rel_config ic ic1 : rt_rel ic ic1 -> same_but_origins (new_config ic1) (new_config ic).
Proof.
  intros [O T1 T2 A]. destruct O. unfold same_but_origins, new_config.
  cbn [c_credentialed c_methods c_req_headers c_max_age c_res_headers c_status c_pna c_pna_nocors
       c_tol_insecure c_tol_psl].
  rewrite so_methods, so_req, so_status, so_cred, so_any, so_ast, so_pna, so_pna_nocors, so_acma, so_aceh, T1, T2.
  repeat split; try reflexivity.
  destruct (negb (i_cred ic) && i_asterisk_req ic) eqn:E; [rewrite (A eq_refl); reflexivity | reflexivity].
Qed.

(* valid for ANY accepted configuration, hence in particular between the 2nd and 3rd forms *)
Theorem stable_partial ace ip6 psl c ic ic1 : ip6_sane ip6 ->
  new_internal_config ace ip6 psl c = inl ic ->
  new_internal_config ace ip6 psl (new_config ic) = inl ic1 ->
  same_but_origins (new_config ic1) (new_config ic).
Proof.
  intros Hs H H1. destruct (round_trip _ _ _ _ _ Hs H) as [ic1' [H1' R]].
  rewrite H1 in H1'. injection H1' as <-. apply rt_rel_config, R.
Qed.

Lemma config_eq x y : c_origins x = c_origins y -> same_but_origins x y -> x = y.
Proof.
  destruct x, y. unfold same_but_origins. cbn. intros -> (-> & -> & -> & -> & -> & -> & -> & -> & -> & ->).
  reflexivity.
Qed.

Theorem stable_after_one_round_trip ace ip6 psl c ic ic1 ic2 : ip6_sane ip6 ->
  new_internal_config ace ip6 psl c = inl ic ->
  new_internal_config ace ip6 psl (new_config ic) = inl ic1 ->
  new_internal_config ace ip6 psl (new_config ic1) = inl ic2 ->
  new_config ic2 = new_config ic1.
Proof.
  intros Hs H H1 H2. apply config_eq; [|exact (stable_partial _ _ _ _ _ _ Hs H1 H2)].
  destruct (accepted_parts _ _ _ _ _ H)
    as [vs [t [anym [mset [ast [auth [hset [acah [acma [aceh [_ [_ [Eo [_ [_ [_ [_ Eic]]]]]]]]]]]]]]]]].
  destruct (accepted_parts _ _ _ _ _ H1)
    as [vs1 [t1 [anym1 [mset1 [ast1 [auth1 [hset1 [acah1 [acma1 [aceh1 [_ [_ [Eo1 [_ [_ [_ [_ Eic1]]]]]]]]]]]]]]]]].
  destruct (accepted_parts _ _ _ _ _ H2)
    as [vs2 [t2 [anym2 [mset2 [ast2 [auth2 [hset2 [acah2 [acma2 [aceh2 [_ [_ [Eo2 [_ [_ [_ [_ Eic2]]]]]]]]]]]]]]]]].
  assert (E0 : i_tree ic = t) by (rewrite Eic; reflexivity).
  assert (E1 : i_tree ic1 = t1) by (rewrite Eic1; reflexivity).
  assert (E2 : i_tree ic2 = t2) by (rewrite Eic2; reflexivity).
  assert (F1 : c_origins (new_config ic) = oelems t) by (unfold new_config, oelems; cbn [c_origins]; rewrite E0; reflexivity).
  assert (F2 : c_origins (new_config ic1) = oelems t1) by (unfold new_config, oelems; cbn [c_origins]; rewrite E1; reflexivity).
  rewrite F1 in Eo1. rewrite F2 in Eo2.
  assert (G : forall x, c_credentialed (new_config x) = i_cred x /\ c_pna (new_config x) = i_pna x /\
                        c_pna_nocors (new_config x) = i_pna_nocors x /\
                        c_tol_insecure (new_config x) = i_tol_insecure x /\ c_tol_psl (new_config x) = i_tol_psl x)
    by (intros x; repeat split; reflexivity).
  destruct (G ic) as (G1 & G2 & G3 & G4 & G5). destruct (G ic1) as (G1' & G2' & G3' & G4' & G5').
  rewrite G1, G2, G3, G4, G5 in Eo1. rewrite G1', G2', G3', G4', G5' in Eo2.
  destruct (round_trip _ _ _ _ _ Hs H) as [ic1' [H1' R]]. rewrite H1 in H1'. injection H1' as <-.
  destruct R as [O T1 T2 _]. destruct O.
  rewrite so_cred, so_pna, so_pna_nocors, T1, T2 in Eo2.
  assert (Ec : i_cred ic = c_credentialed c /\ i_pna ic = c_pna c /\ i_pna_nocors ic = c_pna_nocors c /\
               i_tol_insecure ic = c_tol_insecure c /\ i_tol_psl ic = c_tol_psl c)
    by (rewrite Eic; repeat split; reflexivity).
  destruct Ec as (C1 & C2 & C3 & C4 & C5). rewrite C1, C2, C3, C4, C5 in Eo1, Eo2.
  pose proof (origins_stable ace ip6 psl Hs _ _ _ _ _ _ _ _ Eo Eo1 Eo2) as Et.
  unfold new_config. cbn [c_origins]. rewrite E1, E2, Et. reflexivity.
Qed.

Print Assumptions round_trip.
Print Assumptions reconfigure_config_noop.
Print Assumptions stable_after_one_round_trip.
