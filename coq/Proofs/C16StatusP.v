(* Proofs/C16StatusP.v -- C16, the status half: a preflight is answered with status 403 or with the configured
   success status, never a third one, in both debug modes (Spec.Wire.c16_status_ok).  No hypothesis on the response
   headers [pre] is needed: handle_preflight's status does not depend on them. *)
Require Import Base.Bytes Gen.Tables.
Require Import Model.Util Model.Headers Model.Methods Model.Origins Model.Netip Model.Pattern Model.Radix
  Model.CfgErrors Model.Config Model.Serve Model.MwRt Model.Prov Gen.MwSrc.
Require Import Spec.Origins Spec.Wire Spec.ConfigDoc.
Require Import Proofs.RadixP Proofs.Rel Proofs.ConfigP Proofs.MwSrcP.
From Coq Require Import ZArith Bool Lia.
Open Scope N_scope.

(* the status written by handle_preflight is one of two values, whatever the request, the headers and the debug flag *)
Lemma handle_preflight_status : forall ic res req org acrm dbg,
  snd (handle_preflight ic res req org acrm dbg) = 403%Z \/
  snd (handle_preflight ic res req org acrm dbg) = success_status ic.
Proof.
  intros ic res req org acrm dbg. unfold handle_preflight.
  destruct (process_origin_preflight ic [] org) as [b1 [|]]; [|left; reflexivity].
  destruct (process_acrpn ic b1 req) as [b2 [|]]; [|destruct dbg; [right|left]; reflexivity].
  destruct (process_acrm ic b2 acrm) as [b3 [|]]; [|destruct dbg; [right|left]; reflexivity].
  destruct (process_acrh ic b3 req dbg) as [b4 [|]]; [right; reflexivity|].
  destruct dbg; [right|left]; reflexivity.
Qed.

Lemma serve_preflight_status : forall ic dbg r pre,
  is_preflight r = true ->
  exists org acrm,
    o_status (serve (Some ic) dbg r pre) = Some (snd (handle_preflight ic pre (r_hdrs r) org acrm dbg)).
Proof.
  intros ic dbg r pre Hp. unfold is_preflight in Hp. apply andb_true_iff in Hp. destruct Hp as [Hm Hp].
  unfold serve. change method_options with m_options. rewrite Hm.
  change headers_Origin with h_origin. change headers_ACRM with h_acrm.
  destruct (first (r_hdrs r) h_origin) as [org|]; [|discriminate].
  destruct (first (r_hdrs r) h_acrm) as [acrm|]; [|discriminate].
  exists org, acrm.
  destruct (handle_preflight ic pre (r_hdrs r) org acrm dbg) as [h s]. reflexivity.
Qed.

Lemma c16_status_rel : forall ace ip6 c ic dbg r pre,
  icfg_rel ace ip6 c ic -> is_preflight r = true ->
  c16_status_ok c (serve (Some ic) dbg r pre) = true.
Proof.
  intros ace ip6 c ic dbg r pre Hrel Hp.
  destruct (serve_preflight_status ic dbg r pre Hp) as [org [acrm Hs]].
  unfold c16_status_ok. rewrite Hs.
  assert (Hst : success_status ic = spec_success_status c).
  { unfold success_status, spec_success_status. exact (proj1 (rel_status _ _ _ _ Hrel)). }
  apply orb_true_iff.
  destruct (handle_preflight_status ic pre (r_hdrs r) org acrm dbg) as [E|E]; rewrite E.
  - left. reflexivity.
  - right. rewrite Hst. apply Z.eqb_refl.
Qed.

Lemma c16_status_accepted : forall ace ip6 psl c ic dbg r pre,
  new_internal_config ace ip6 psl c = inl ic -> is_preflight r = true ->
  c16_status_ok c (serve (Some ic) dbg r pre) = true.
Proof.
  intros ace ip6 psl c ic dbg r pre Hacc Hp.
  apply (c16_status_rel ace ip6); [eapply accepted_rel; exact Hacc | exact Hp].
Qed.

Lemma go_c16_status_accepted : forall ace ip6 psl c ic dbg r pre,
  new_internal_config ace ip6 psl c = inl ic -> is_preflight r = true ->
  c16_status_ok c (go_serve (Some ic) dbg r pre) = true.
Proof. intros. rewrite go_serve_eq. eapply c16_status_accepted; eassumption. Qed.

(* the success status of an accepted configuration is never 403 (it is a 2xx): the two cases are distinct *)
Lemma c16_success_status_2xx : forall ace ip6 psl c ic,
  new_internal_config ace ip6 psl c = inl ic -> (200 <= spec_success_status c <= 299)%Z.
Proof.
  intros ace ip6 psl c ic Hacc. pose proof (rel_status _ _ _ _ (accepted_rel _ _ _ _ _ Hacc)) as [H1 H2].
  unfold spec_success_status. rewrite <- H1. exact H2.
Qed.
