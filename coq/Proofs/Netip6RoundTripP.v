(* Proofs/Netip6RoundTripP.v -- C06 with the IPv6 oracle instantiated by the executable model
   (Model/Netip6.v): the hypothesis [ip6_sane] is a theorem of the model ([ip6_model_star]). *)
Require Import Base.Bytes.
Require Import Model.Headers Model.Netip Model.Netip6 Model.CfgErrors Model.Config Model.Serve Model.Mw.
Require Import Proofs.RoundTripParseP Proofs.RoundTripMainP Proofs.Netip6P.
Open Scope N_scope.

Theorem ip6_model_sane : ip6_sane ip6_model.
Proof. exact ip6_model_star. Qed.

Theorem config_is_accepted_netip6 ace psl c ic :
  new_internal_config ace ip6_model psl c = inl ic ->
  exists ic1, new_internal_config ace ip6_model psl (new_config ic) = inl ic1.
Proof. exact (config_is_accepted ace ip6_model psl c ic ip6_model_sane). Qed.

Theorem same_responses_netip6 ace psl c ic ic1 :
  new_internal_config ace ip6_model psl c = inl ic ->
  new_internal_config ace ip6_model psl (new_config ic) = inl ic1 ->
  forall dbg r pre, serve (Some ic1) dbg r pre = serve (Some ic) dbg r pre.
Proof. exact (same_responses ace ip6_model psl c ic ic1 ip6_model_sane). Qed.

Theorem reconfigure_config_noop_netip6 ace psl c ic dbg :
  new_internal_config ace ip6_model psl c = inl ic ->
  let st := (Some ic, dbg) in
  exists st', step ace ip6_model psl st (OReconfigure (mw_config st)) = (st', None) /\ snd st' = dbg /\
              forall r pre, mw_serve st' r pre = mw_serve st r pre.
Proof. exact (reconfigure_config_noop ace ip6_model psl c ic dbg ip6_model_sane). Qed.

Theorem stable_after_one_round_trip_netip6 ace psl c ic ic1 ic2 :
  new_internal_config ace ip6_model psl c = inl ic ->
  new_internal_config ace ip6_model psl (new_config ic) = inl ic1 ->
  new_internal_config ace ip6_model psl (new_config ic1) = inl ic2 ->
  new_config ic2 = new_config ic1.
Proof. exact (stable_after_one_round_trip ace ip6_model psl c ic ic1 ic2 ip6_model_sane). Qed.

Theorem stable_partial_netip6 ace psl c ic ic1 :
  new_internal_config ace ip6_model psl c = inl ic ->
  new_internal_config ace ip6_model psl (new_config ic) = inl ic1 ->
  same_but_origins (new_config ic1) (new_config ic).
Proof. exact (stable_partial ace ip6_model psl c ic ic1 ip6_model_sane). Qed.

Theorem origins_stable_netip6 ace psl cred pna ti tp origins t0 t1 t2 :
  validate_origins ace ip6_model psl cred pna ti tp origins = inl t0 ->
  validate_origins ace ip6_model psl cred pna ti tp (oelems t0) = inl t1 ->
  validate_origins ace ip6_model psl cred pna ti tp (oelems t1) = inl t2 -> t2 = t1.
Proof. exact (origins_stable ace ip6_model psl ip6_model_sane cred pna ti tp origins t0 t1 t2). Qed.
