(* Proofs/Rel.v -- what an accepted configuration's internal form is, in terms of the Config the
   user wrote. Definitions only. [accepted_rel] (Proofs/ConfigP.v) shows that newInternalConfig
   establishes it; the request-level theorems take it as their only link to validation. *)
Require Import Base.Bytes Gen.Tables.
Require Import Model.Util Model.Headers Model.Methods Model.Origins Model.Netip Model.Pattern Model.Radix
  Model.CfgErrors Model.Config Model.Serve.
Require Import Spec.Origins Spec.Wire Spec.ConfigDoc.
Require Import Proofs.RadixP Proofs.HeadersP.
Open Scope N_scope.

Definition is_star (n : bytes) : bool := beqb n v_star.
Definition opt_or_nil (o : option bytes) : bytes := match o with Some v => v | None => [] end.

Section Oracles.
Variable ace_ok : bytes -> bool.
Variable ip6 : bytes -> ipres.
Variable is_psl : bytes -> bool.

Record icfg_rel (c : config) (ic : icfg) : Prop := {
  (* origins *)
  rel_tree : i_tree ic = if lists_star (c_origins c) then empty_tree else build (cfg_patterns ace_ok ip6 c);
  rel_tree_empty : tree_is_empty (i_tree ic) = lists_star (c_origins c);
  rel_star : lists_star (c_origins c) = true ->
             c_credentialed c = false /\ c_pna c = false /\ c_pna_nocors c = false;
  (* switches *)
  rel_cred : i_cred ic = c_credentialed c;
  rel_pna : i_pna ic = c_pna c;
  rel_pna_nocors : i_pna_nocors ic = c_pna_nocors c;
  rel_pna_one : c_pna c && c_pna_nocors c = false;
  rel_tol_insecure : i_tol_insecure ic = c_tol_insecure c;
  rel_tol_psl : i_tol_psl ic = c_tol_psl c;
  (* methods *)
  rel_any_method : i_any_method ic = lists_star (c_methods c);
  rel_methods : forall m, set_contains (i_methods ic) m =
                  negb (lists_star (c_methods c)) && mem m (map method_normalize (c_methods c)) &&
                  negb (method_is_safelisted m);
  (* request headers *)
  rel_asterisk : i_asterisk_req ic = lists_star (c_req_headers c);
  rel_auth : i_allow_auth ic = existsb (fun n => beqb (lower n) headers_Authorization) (c_req_headers c);
  rel_req_inv : sset_inv (i_req_hdrs ic);
  rel_req_elems : forall n, mem n (elems (i_req_hdrs ic)) =
                    negb (lists_star (c_req_headers c)) &&
                    mem n (map lower (filter (fun x => negb (is_star x)) (c_req_headers c)));
  rel_acah : i_acah ic = if sset_size (i_req_hdrs ic) =? 0 then None
                         else Some (join headers_ValueSep (elems (i_req_hdrs ic)));
  (* rendered values *)
  rel_acma : i_acma ic = spec_max_age c;
  rel_aceh : i_aceh ic = opt_or_nil (spec_aceh c);
  rel_aceh_nonempty : forall v, spec_aceh c = Some v -> v <> [];
  rel_status : (i_status_m200 ic + 200 = if c_status c =? 0 then 204 else c_status c)%Z /\
               (200 <= i_status_m200 ic + 200 <= 299)%Z
}.

End Oracles.
