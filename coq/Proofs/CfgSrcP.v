(* Proofs/CfgSrcP.v -- the Gallina functions generated from config.go (Gen/CfgSrc.v) compute exactly what the
   hand-written model (Model/Config.v) computes, for all inputs. *)
Require Import Base.Bytes Gen.Tables Model.Util Model.Headers Model.Methods Model.Origins Model.Netip Model.Pattern
  Model.Radix Model.CfgErrors Model.Config Model.CfgRt Gen.CfgSrc.
From Coq Require Import List Bool ZArith NArith Lia.
Import ListNotations.
Open Scope bool_scope.

(* ---------- generic fold lemmas ---------- *)

Lemma fold_left_rel {S T B : Type} (R : S -> T -> Prop) (f : S -> B -> S) (g : T -> B -> T) :
  (forall s t b, R s t -> R (f s b) (g t b)) ->
  forall l s t, R s t -> R (fold_left f l s) (fold_left g l t).
Proof.
  intros Hstep l; induction l as [|a l IH]; intros s t HR; cbn [fold_left]; [exact HR|].
  apply IH, Hstep, HR.
Qed.

(* the model-side step of the three "item" validators: (accumulated container, errors, wildcard seen) *)
Definition item_step {X Y : Type} (item : bytes -> list cerr * option X) (add : Y -> X -> Y)
  (st : Y * list cerr * bool) (b : bytes) : Y * list cerr * bool :=
  let '(t, e, a) := st in
  (match snd (item b) with Some p => add t p | None => t end, e ++ fst (item b), a || beqb b star).

Lemma fold_item_step {X Y : Type} (item : bytes -> list cerr * option X) (add : Y -> X -> Y) :
  forall l t e a,
  fold_left (item_step item add) l (t, e, a) =
  (fold_left (fun t it => match snd it with Some p => add t p | None => t end) (map item l) t,
   e ++ flat_map fst (map item l),
   a || existsb (fun n => beqb n star) l).
Proof.
  induction l as [|b l IH]; intros t e a; cbn [fold_left map flat_map existsb].
  - rewrite app_nil_r, orb_false_r; reflexivity.
  - unfold item_step at 2. rewrite IH. rewrite <- app_assoc, <- orb_assoc. reflexivity.
Qed.

Lemma is_nil_map {A B} (f : A -> B) l : is_nil (map f l) = is_nil l.
Proof. destruct l; reflexivity. Qed.

(* ---------- record eta ---------- *)

Lemma eta_status ic : seti_status_m200 ic (i_status_m200 ic) = ic.
Proof. destruct ic; reflexivity. Qed.
Lemma eta_tree ic : seti_tree ic (i_tree ic) = ic.
Proof. destruct ic; reflexivity. Qed.
Lemma eta_acma ic : seti_acma ic (i_acma ic) = ic.
Proof. destruct ic; reflexivity. Qed.
Lemma eta_aceh ic : seti_aceh ic (i_aceh ic) = ic.
Proof. destruct ic; reflexivity. Qed.
Lemma eta_any ic : seti_any_method ic (i_any_method ic) = ic.
Proof. destruct ic; reflexivity. Qed.
Lemma eta_methods ic : seti_methods ic (i_methods ic) = ic.
Proof. destruct ic; reflexivity. Qed.
Lemma eta_rh ic :
  seti_acah (seti_req_hdrs (seti_allow_auth (seti_asterisk_req ic (i_asterisk_req ic)) (i_allow_auth ic))
                           (i_req_hdrs ic)) (i_acah ic) = ic.
Proof. destruct ic; reflexivity. Qed.
Lemma eta_rh2 ic : seti_allow_auth (seti_asterisk_req ic (i_asterisk_req ic)) (i_allow_auth ic) = ic.
Proof. destruct ic; reflexivity. Qed.

Lemma methods_noop ic v : i_methods ic = sset_empty ->
  seti_methods (seti_any_method ic v) sset_empty = seti_any_method ic v.
Proof. destruct ic; cbn; intros ->; reflexivity. Qed.

(* ---------- validatePreflightStatus ---------- *)

Lemma go_status_eq ic s :
  go_validatePreflightStatus ic s =
  (seti_status_m200 ic (val_of (i_status_m200 ic) (validate_status s)), err_of (validate_status s)).
Proof.
  unfold go_validatePreflightStatus, validate_status.
  destruct (s =? 0)%Z; [reflexivity|].
  change st_lower with 200%Z; change st_upper with 299%Z.
  destruct (negb ((200 <=? s)%Z && (s <=? 299)%Z)); cbn [val_of err_of]; [|reflexivity].
  rewrite eta_status; reflexivity.
Qed.

(* ---------- validateMaxAge ---------- *)

Lemma go_maxage_eq ic d :
  i_acma ic = None ->
  go_validateMaxAge ic d = (seti_acma ic (val_of None (validate_max_age d)), err_of (validate_max_age d)).
Proof.
  intros Hacma. unfold go_validateMaxAge, validate_max_age.
  change ma_disable with (-1)%Z; change ma_upper with 86400%Z; change ma_default with 5%Z.
  destruct ((d <? -1)%Z || (86400 <? d)%Z); cbn [val_of err_of].
  - rewrite <- Hacma, eta_acma; reflexivity.
  - destruct (d =? -1)%Z; [reflexivity|].
    destruct (d =? 0)%Z; [|reflexivity].
    cbn [val_of err_of]. rewrite <- Hacma, eta_acma; reflexivity.
Qed.

(* ---------- validateMethods ---------- *)

Definition is_star (n : bytes) : bool := beqb n star.

Lemma go_methods_eq ic names :
  i_any_method ic = false -> i_methods ic = sset_empty ->
  go_validateMethods ic names =
  let r := validate_methods names in
  (seti_methods (seti_any_method ic (match r with inl (a, _) => a | inr _ => existsb is_star names end))
                (match r with inl (_, s) => s | inr _ => sset_empty end),
   err_of r).
Proof.
  intros Hany Hms. unfold go_validateMethods, validate_methods.
  destruct names as [|n0 names0].
  { cbn [is_nil err_of]. cbv zeta. rewrite <- Hany, eta_any, <- Hms, eta_methods. reflexivity. }
  cbn [is_nil]. set (names := n0 :: names0). cbv zeta.
  match goal with |- context[fold_left ?f names ?s0] =>
    assert (HR := fold_left_rel
      (fun (s : icfg * sset * list (etree cerr)) (t : sset * list cerr * bool) =>
         let '(ic', set, errs) := s in let '(set', e, a) := t in
         ic' = seti_any_method ic a /\ set = set' /\ errs = map Leaf e)
      f (item_step method_item sset_add)) end.
  match type of HR with ?P -> _ => assert (Hstep : P) end.
  { clear. intros [[ic' set] errs] [[set' e] a] b (H1 & H2 & H3). subst ic' set errs.
    unfold item_step, method_item, star.
    destruct (beqb b headers_ValueWildcard).
    { cbn [fst snd]. rewrite orb_true_r, app_nil_r. repeat split; reflexivity. }
    rewrite orb_false_r.
    destruct (negb (method_is_valid b)).
    { cbn [fst snd opt_list]. rewrite map_app. repeat split; reflexivity. }
    destruct (method_is_safelisted (method_normalize b)).
    { cbn [fst snd]. rewrite app_nil_r. repeat split; reflexivity. }
    destruct (method_is_forbidden (method_normalize b)).
    { cbn [fst snd opt_list]. rewrite map_app. repeat split; reflexivity. }
    cbn [fst snd]. rewrite app_nil_r. repeat split; reflexivity. }
  specialize (HR Hstep names (ic, sset_empty, []) (sset_empty, [], false)).
  rewrite fold_item_step in HR. cbn [app orb] in HR.
  match type of HR with ?P -> _ => assert (H0 : P) end.
  { rewrite <- Hany, eta_any. repeat split; reflexivity. }
  specialize (HR H0). clear H0 Hstep.
  match type of HR with context[fold_left ?f names ?s0] => destruct (fold_left f names s0) as [[ic' set] errs] end.
  destruct HR as (H1 & H2 & H3). subst ic' set errs.
  rewrite is_nil_map.
  change (fun n : bytes => beqb n star) with is_star.
  destruct (flat_map fst (map method_item names)) as [|x xs].
  - cbn [is_nil negb]. cbn [i_any_method seti_any_method upd_icfg].
    destruct (existsb is_star names); cbn [err_of].
    + rewrite methods_noop by exact Hms. reflexivity.
    + reflexivity.
  - cbn [is_nil negb err_of]. rewrite methods_noop by exact Hms. reflexivity.
Qed.

(* ---------- validateResponseHeaders ---------- *)

Lemma go_reshdrs_eq ic names :
  i_aceh ic = [] ->
  go_validateResponseHeaders ic names =
  let r := validate_res_headers (i_cred ic) names in
  (seti_aceh ic (val_of [] r), err_of r).
Proof.
  intros Haceh. unfold go_validateResponseHeaders, validate_res_headers.
  destruct names as [|n0 names0].
  { cbn [is_nil err_of val_of]. cbv zeta. rewrite <- Haceh, eta_aceh. reflexivity. }
  cbn [is_nil]. set (names := n0 :: names0). cbv zeta.
  match goal with |- context[fold_left ?f names ?s0] =>
    assert (HR := fold_left_rel
      (fun (s : sset * list (etree cerr) * bool) (t : sset * list cerr * bool) =>
         let '(set, errs, a) := s in let '(set', e, a') := t in
         set = set' /\ errs = map Leaf e /\ a = a')
      f (item_step (res_item (i_cred ic)) sset_add)) end.
  match type of HR with ?P -> _ => assert (Hstep : P) end.
  { clear. intros [[set errs] a] [[set' e] a'] b (H1 & H2 & H3). subst a set errs.
    unfold item_step, res_item, star.
    destruct (beqb b headers_ValueWildcard).
    { cbn [fst snd]. rewrite orb_true_r.
      destruct (i_cred ic); cbn [opt_list]; rewrite ?map_app, ?app_nil_r; repeat split; reflexivity. }
    rewrite orb_false_r.
    destruct (negb (is_valid_name b)).
    { cbn [fst snd opt_list]. rewrite map_app. repeat split; reflexivity. }
    destruct (is_forbidden_res (lower b)).
    { cbn [fst snd opt_list]. rewrite map_app. repeat split; reflexivity. }
    destruct (is_prohibited_res (lower b)).
    { cbn [fst snd opt_list]. rewrite map_app. repeat split; reflexivity. }
    destruct (is_safelisted_res (lower b)).
    { cbn [fst snd]. rewrite app_nil_r. repeat split; reflexivity. }
    cbn [fst snd]. rewrite app_nil_r. repeat split; reflexivity. }
  specialize (HR Hstep names (sset_empty, [], false) (sset_empty, [], false)).
  rewrite fold_item_step in HR. cbn [app orb] in HR.
  match type of HR with ?P -> _ => assert (H0 : P) end.
  { repeat split; reflexivity. }
  specialize (HR H0). clear H0 Hstep.
  match type of HR with context[fold_left ?f names ?s0] => destruct (fold_left f names s0) as [[set errs] a] end.
  destruct HR as (H1 & H2 & H3). subst a set errs.
  rewrite is_nil_map.
  destruct (flat_map fst (map (res_item (i_cred ic)) names)) as [|x xs].
  - cbn [is_nil negb].
    destruct (existsb (fun n => beqb n star) names); cbn [err_of val_of]; [reflexivity|].
    match goal with |- context[sset_size ?s] => generalize s end.
    intros [el ml]. unfold sset_size. cbn [elems].
    destruct el as [|e1 el]; cbn [length N.of_nat N.eqb negb].
    + cbn [join]. rewrite <- Haceh, eta_aceh. reflexivity.
    + reflexivity.
  - cbn [is_nil negb err_of val_of]. rewrite <- Haceh, eta_aceh. reflexivity.
Qed.

(* ---------- validateRequestHeaders ---------- *)

Lemma go_reqhdrs_eq ic names :
  i_asterisk_req ic = false -> i_allow_auth ic = false -> i_req_hdrs ic = sset_empty -> i_acah ic = None ->
  go_validateRequestHeaders ic names =
  let r := validate_req_headers (i_cred ic) names in
  let st := fold_left (rh_step (i_cred ic)) names rh_init in
  (seti_acah (seti_req_hdrs (seti_allow_auth (seti_asterisk_req ic
       (match r with inl (a, _, _, _) => a | inr _ => rh_asterisk st end))
       (match r with inl (_, b, _, _) => b | inr _ => rh_auth st end))
       (match r with inl (_, _, s, _) => s | inr _ => sset_empty end))
       (match r with inl (_, _, _, h) => h | inr _ => None end),
   err_of r).
Proof.
  intros Hast Hauth Hset Hacah. unfold go_validateRequestHeaders, validate_req_headers.
  assert (Heta : forall a b, seti_acah (seti_req_hdrs (seti_allow_auth (seti_asterisk_req ic a) b) sset_empty) None
                             = seti_allow_auth (seti_asterisk_req ic a) b).
  { intros a b. destruct ic; cbn in *; subst; reflexivity. }
  assert (Heta2 : seti_allow_auth (seti_asterisk_req ic false) false = ic).
  { destruct ic; cbn in *; subst; reflexivity. }
  destruct names as [|n0 names0].
  { cbn [is_nil err_of]. cbv beta iota zeta. rewrite Heta, Heta2. reflexivity. }
  cbn [is_nil]. set (names := n0 :: names0). cbv zeta.
  match goal with |- context[fold_left ?f names ?s0] =>
    assert (HR := fold_left_rel
      (fun (s : icfg * sset * list (etree cerr)) (st : rh_state) =>
         let '(ic', set, errs) := s in
         ic' = seti_allow_auth (seti_asterisk_req ic (rh_asterisk st)) (rh_auth st)
         /\ set = rh_set st /\ errs = map Leaf (rh_errs st))
      f (rh_step (i_cred ic))) end.
  match type of HR with ?P -> _ => assert (Hstep : P) end.
  { clear. intros [[ic' set] errs] [a au s e] b (H1 & H2 & H3).
    cbn [rh_asterisk rh_auth rh_set rh_errs] in *. subst ic' set errs.
    unfold rh_step, star. cbn [rh_asterisk rh_auth rh_set rh_errs].
    destruct (beqb b headers_ValueWildcard).
    { cbn [rh_asterisk rh_auth rh_set rh_errs]. repeat split; reflexivity. }
    destruct (negb (is_valid_name b)).
    { cbn [rh_asterisk rh_auth rh_set rh_errs opt_list]. rewrite map_app. repeat split; reflexivity. }
    destruct (beqb (lower b) headers_Authorization).
    { cbn [i_allow_auth seti_allow_auth upd_icfg].
      destruct au.
      { cbn [rh_asterisk rh_auth rh_set rh_errs]. repeat split; reflexivity. }
      cbn [i_asterisk_req i_cred seti_allow_auth seti_asterisk_req upd_icfg].
      destruct (negb a || negb (i_cred ic)); cbn [rh_asterisk rh_auth rh_set rh_errs]; repeat split; reflexivity. }
    destruct (is_forbidden_req (lower b)).
    { cbn [rh_asterisk rh_auth rh_set rh_errs opt_list]. rewrite map_app. repeat split; reflexivity. }
    destruct (is_prohibited_req (lower b)).
    { cbn [rh_asterisk rh_auth rh_set rh_errs opt_list]. rewrite map_app. repeat split; reflexivity. }
    cbn [rh_asterisk rh_auth rh_set rh_errs]. repeat split; reflexivity. }
  specialize (HR Hstep names (ic, sset_empty, []) rh_init).
  match type of HR with ?P -> _ => assert (H0 : P) end.
  { unfold rh_init; cbn [rh_asterisk rh_auth rh_set rh_errs]. rewrite Heta2.
    repeat split; reflexivity. }
  specialize (HR H0). clear H0 Hstep.
  match type of HR with context[fold_left ?f names (ic, ?x, ?y)] =>
    destruct (fold_left f names (ic, x, y)) as [[ic' set] errs] end.
  destruct HR as (H1 & H2 & H3). subst ic' set errs.
  rewrite is_nil_map.
  generalize (fold_left (rh_step (i_cred ic)) names rh_init). intros st.
  destruct (rh_errs st) as [|x xs].
  - cbn [is_nil negb]. cbn [i_asterisk_req seti_allow_auth seti_asterisk_req upd_icfg].
    destruct (negb (rh_asterisk st) && negb (sset_size (rh_set st) =? 0)%N); cbn [err_of].
    + reflexivity.
    + rewrite Heta. reflexivity.
  - cbn [is_nil negb err_of]. rewrite Heta. reflexivity.
Qed.

(* ---------- validateOrigins ---------- *)

Section Oracles.
Variable ace_ok : bytes -> bool.
Variable ip6 : bytes -> ipres.
Variable is_psl : bytes -> bool.

Lemma go_origins_eq ic pats :
  i_tree ic = empty_tree ->
  go_validateOrigins ace_ok ip6 is_psl ic pats =
  let r := validate_origins ace_ok ip6 is_psl (i_cred ic) (i_pna ic || i_pna_nocors ic)
             (i_tol_insecure ic) (i_tol_psl ic) pats in
  (seti_tree ic (val_of empty_tree r), err_of r).
Proof.
  intros Htree. unfold go_validateOrigins, validate_origins.
  assert (Heta : seti_tree ic empty_tree = ic) by (rewrite <- Htree; apply eta_tree).
  destruct pats as [|n0 pats0].
  { cbn [is_nil err_of val_of]. cbv zeta. cbn [err_of val_of]. rewrite Heta. reflexivity. }
  cbn [is_nil]. set (pats := n0 :: pats0). cbv zeta.
  set (item := origin_item ace_ok ip6 is_psl (i_cred ic) (i_pna ic || i_pna_nocors ic)
                 (i_tol_insecure ic) (i_tol_psl ic)).
  match goal with |- context[fold_left ?f pats ?s0] => set (F := f);
    assert (HR := fold_left_rel
      (fun (s : node * bytes * list (etree cerr) * bool) (t : node * list cerr * bool) =>
         let '(tr, d, errs, a) := s in let '(tr', e, a') := t in
         tr = tr' /\ errs = map Leaf e /\ a = a')
      F (item_step item tree_insert)) end.
  match type of HR with ?P -> _ => assert (Hstep : P) end.
  { clear. intros [[[tr d] errs] a] [[tr' e] a'] b (H1 & H2 & H3). subst a tr errs.
    unfold F, item_step, item, origin_item, star, parse_pattern2.
    destruct (beqb b headers_ValueWildcard).
    { cbn [fst snd]. rewrite orb_true_r.
      destruct (i_cred ic), (i_pna ic || i_pna_nocors ic); cbn [opt_list app];
        rewrite ?map_app, ?app_nil_r, <- ?app_assoc; repeat split; reflexivity. }
    rewrite orb_false_r.
    destruct (parse_pattern ace_ok ip6 b) as [p|r].
    2:{ cbn [is_some fst snd opt_list]. rewrite map_app. repeat split; reflexivity. }
    cbn [is_some fst snd].
    destruct (is_deemed_insecure p && negb (i_tol_insecure ic)), (i_cred ic), (i_pna ic || i_pna_nocors ic),
      (pkind_eqb (pkind_of p) KSubdomains), (negb (i_tol_psl ic)), (host_is_etld is_psl p);
      cbn [andb negb opt_list app];
      match goal with |- context[if ?c then _ else _] => destruct c | _ => idtac end;
      rewrite ?map_app, ?app_nil_r, <- ?app_assoc; cbn [map app]; repeat split; reflexivity. }
  match goal with |- context[fold_left F pats ?s0] =>
    specialize (HR Hstep pats s0 (empty_tree, [], false)) end.
  rewrite fold_item_step in HR. cbn [app orb] in HR.
  match type of HR with ?P -> _ => assert (H0 : P) end.
  { repeat split; reflexivity. }
  specialize (HR H0). clear H0 Hstep.
  match goal with |- context[fold_left F pats ?s0] =>
    destruct (fold_left F pats s0) as [[[tr d] errs] a] end.
  destruct HR as (H1 & H2 & H3). subst a tr errs.
  rewrite is_nil_map.
  destruct (flat_map fst (map item pats)) as [|x xs].
  - cbn [is_nil negb].
    destruct (existsb (fun n => beqb n star) pats); cbn [err_of val_of]; [|reflexivity].
    rewrite Heta. reflexivity.
  - cbn [is_nil negb err_of val_of]. rewrite Heta. reflexivity.
Qed.

(* ---------- newInternalConfig ---------- *)

Lemma errs_step (errs : list (etree cerr)) (e : option (etree cerr)) :
  (if is_some e then errs ++ opt_list e else errs) = errs ++ opt_list e.
Proof. destruct e; cbn [is_some opt_list]; [reflexivity|]. rewrite app_nil_r; reflexivity. Qed.

Theorem go_newInternalConfig_eq0 : forall c,
  go_newInternalConfig ace_ok ip6 is_psl c = new_internal_config ace_ok ip6 is_psl c.
Proof.
  intros c. unfold go_newInternalConfig, new_internal_config.
  rewrite go_status_eq. cbv beta iota zeta.
  rewrite go_origins_eq by reflexivity. cbv beta iota zeta.
  rewrite go_methods_eq by reflexivity. cbv beta iota zeta.
  rewrite go_reqhdrs_eq by reflexivity. cbv beta iota zeta.
  rewrite go_maxage_eq by reflexivity. cbv beta iota zeta.
  rewrite go_reshdrs_eq by reflexivity. cbv beta iota zeta.
  rewrite !errs_step.
  cbn [i_cred i_pna i_pna_nocors i_tol_insecure i_tol_psl i_status_m200
       seti_status_m200 seti_tree seti_methods seti_any_method seti_req_hdrs seti_acah seti_allow_auth
       seti_asterisk_req seti_acma seti_aceh seti_pna seti_pna_nocors seti_tol_insecure seti_tol_psl seti_cred
       upd_icfg zero_icfg].
  generalize (fold_left (rh_step (c_credentialed c)) (c_req_headers c) rh_init); intros st.
  generalize (existsb is_star (c_methods c)); intros bm.
  destruct (validate_status (c_status c)) as [v1|e1];
  destruct (validate_origins ace_ok ip6 is_psl (c_credentialed c) (c_pna c || c_pna_nocors c)
              (c_tol_insecure c) (c_tol_psl c) (c_origins c)) as [v2|e2];
  destruct (validate_methods (c_methods c)) as [[a3 s3]|e3];
  destruct (validate_req_headers (c_credentialed c) (c_req_headers c)) as [[[[a4 b4] s4] h4]|e4];
  destruct (validate_max_age (c_max_age c)) as [v5|e5];
  destruct (validate_res_headers (c_credentialed c) (c_res_headers c)) as [v6|e6];
  destruct (c_pna c && c_pna_nocors c); reflexivity.
Qed.

End Oracles.

Theorem go_newInternalConfig_eq : forall ace_ok ip6 is_psl c,
  go_newInternalConfig ace_ok ip6 is_psl c = new_internal_config ace_ok ip6 is_psl c.
Proof. exact go_newInternalConfig_eq0. Qed.

(* ---------- newConfig ---------- *)

Lemma elems_size0 (s : sset) : N.eqb (sset_size s) 0 = true -> elems s = [].
Proof.
  destruct s as [el ml]. unfold sset_size. cbn [elems].
  destruct el; [reflexivity|]. cbn [length]. intros H. apply N.eqb_eq in H. lia.
Qed.

Theorem go_newConfig_eq : forall ic, go_newConfig ic = new_config ic.
Proof.
  intros ic. unfold go_newConfig, new_config. cbv zeta.
  change headers_ValueSep with [44%N]. unfold split_sep, star.
  change headers_ValueWildcard with [42%N].
  assert (Hm : (if negb (N.eqb (sset_size (i_methods ic)) 0) then elems (i_methods ic) else [])
               = elems (i_methods ic)).
  { destruct (N.eqb (sset_size (i_methods ic)) 0) eqn:E; cbn [negb]; [|reflexivity].
    symmetry; apply elems_size0, E. }
  assert (Hr : (if negb (N.eqb (sset_size (i_req_hdrs ic)) 0) then elems (i_req_hdrs ic) else [])
               = elems (i_req_hdrs ic)).
  { destruct (N.eqb (sset_size (i_req_hdrs ic)) 0) eqn:E; cbn [negb]; [|reflexivity].
    symmetry; apply elems_size0, E. }
  rewrite <- Hm, <- Hr. clear Hm Hr.
  destruct (tree_is_empty (i_tree ic)), (i_any_method ic),
    (negb (N.eqb (sset_size (i_methods ic)) 0)), (negb (i_cred ic) && i_asterisk_req ic && i_allow_auth ic),
    (i_asterisk_req ic), (negb (N.eqb (sset_size (i_req_hdrs ic)) 0));
  (destruct (i_acma ic) as [v|]; cbn [is_some negb opt_get];
   [destruct (Z.of_N (atoi v) =? 0)%Z|]);
  (destruct (i_aceh ic) as [|x xs]; cbn [is_nil negb]);
  destruct (((i_status_m200 ic + 200) mod 256 =? cors_defaultPreflightStatus)%Z); cbn [negb];
  reflexivity.
Qed.

Print Assumptions go_newInternalConfig_eq.
Print Assumptions go_newConfig_eq.
