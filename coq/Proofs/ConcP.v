(* Proofs/ConcP.v -- the RWMutex protocol of Model/Conc.v: an invariant over machines that holds
   for every schedule, and its consequences (C07). *)
Require Import Base.Bytes Model.Conc.
From Coq Require Import Lia PeanoNat.
Open Scope nat_scope.

(* ------------------------------------------------------------------------------------------ *)
(* 1. lists: set_nth, nth_error, counting                                                      *)
(* ------------------------------------------------------------------------------------------ *)

Definition b2n (b : bool) : nat := if b then 1 else 0.
Definition cnt {A} (f : A -> bool) (l : list A) : nat := length (filter f l).

Lemma cnt_cons : forall A (f : A -> bool) a l, cnt f (a :: l) = b2n (f a) + cnt f l.
Proof. intros A f a l. unfold cnt. cbn [filter]. destruct (f a); reflexivity. Qed.

Lemma nth_error_set_nth : forall A (l : list A) n x i,
  nth_error (set_nth n x l) i =
  if Nat.eqb i n then match nth_error l n with Some _ => Some x | None => None end
  else nth_error l i.
Proof.
  induction l as [|a l IH]; intros n x i.
  - destruct n; cbn [set_nth]; destruct i; cbn [nth_error]; destruct (Nat.eqb _ _); reflexivity.
  - destruct n as [|n]; cbn [set_nth].
    + destruct i; reflexivity.
    + destruct i as [|i]; [reflexivity|]. cbn [nth_error]. rewrite IH. reflexivity.
Qed.

Lemma cnt_set_nth : forall A (f : A -> bool) l n x old, nth_error l n = Some old ->
  cnt f (set_nth n x l) + b2n (f old) = cnt f l + b2n (f x).
Proof.
  intros A f. induction l as [|a l IH]; intros n x old H.
  - destruct n; discriminate.
  - destruct n as [|n]; cbn [set_nth nth_error] in *.
    + injection H as ->. rewrite !cnt_cons. lia.
    + rewrite !cnt_cons. specialize (IH n x old H). lia.
Qed.

Lemma cnt_ge : forall A (f : A -> bool) l n t, nth_error l n = Some t -> f t = true -> 1 <= cnt f l.
Proof.
  intros A f. induction l as [|a l IH]; intros n t H E.
  - destruct n; discriminate.
  - rewrite cnt_cons. destruct n as [|n]; cbn [nth_error] in H.
    + injection H as ->. rewrite E. cbn. lia.
    + specialize (IH n t H E). lia.
Qed.

Lemma cnt_zero : forall A (f : A -> bool) l n t, cnt f l = 0 -> nth_error l n = Some t -> f t = false.
Proof.
  intros A f l n t H E. destruct (f t) eqn:F; [|reflexivity].
  pose proof (cnt_ge A f l n t E F). lia.
Qed.

Lemma cnt_others : forall A (f : A -> bool) l n t i u,
  nth_error l n = Some t -> f t = true -> cnt f l <= 1 -> i <> n -> nth_error l i = Some u -> f u = false.
Proof.
  intros A f. induction l as [|a l IH]; intros n t i u H E C D Hi.
  - destruct n; discriminate.
  - rewrite cnt_cons in C. destruct n as [|n]; destruct i as [|i]; cbn [nth_error] in *.
    + contradiction.
    + injection H as ->. rewrite E in C. cbn in C. apply (cnt_zero A f l i u); [lia | exact Hi].
    + injection Hi as ->. destruct (f u) eqn:F; [|reflexivity].
      pose proof (cnt_ge A f l n t H E). cbn in C. lia.
    + apply (IH n t i u H E); [lia | congruence | exact Hi].
Qed.

Lemma Forall_nth_error : forall A (P : A -> Prop) l,
  Forall P l <-> (forall i u, nth_error l i = Some u -> P u).
Proof.
  intros A P l. rewrite Forall_forall. split.
  - intros H i u E. apply H. apply (nth_error_In l i E).
  - intros H u Hin. apply In_nth_error in Hin. destruct Hin as [i Hi]. apply (H i u Hi).
Qed.

Lemma cnt_map_const : forall A B (f : B -> bool) (g : A -> B) l,
  (forall a, f (g a) = false) -> cnt f (map g l) = 0.
Proof.
  intros A B f g l H. induction l as [|a l IH]; [reflexivity|].
  cbn [map]. rewrite cnt_cons, H, IH. reflexivity.
Qed.

(* ------------------------------------------------------------------------------------------ *)
(* 2. the per-thread invariant: one case per program point                                     *)
(* ------------------------------------------------------------------------------------------ *)

Definition isSome (v : option cfgid) : bool := match v with Some _ => true | None => false end.
Notation mk := Build_thread.

(* [tstate_ok ci cd t]: t is at a program point of one of the method bodies, holds exactly the
   locks that program point requires, has never touched the shared fields without the lock, and
   what it has read so far under the read lock equals the CURRENT shared pair (ci, cd) *)
Inductive tstate_ok (ci : option cfgid) (cd : bool) : thread -> Prop :=
| OK_init p : method_body p -> tstate_ok ci cd (new_thread p)
(* ServeHTTP *)
| OK_R1 k : tstate_ok ci cd (mk (IReadIcfg :: IReadDebug :: IRUnlock :: repeat IUse k) None None true false None 0 [])
| OK_R2 k : tstate_ok ci cd (mk (IReadDebug :: IRUnlock :: repeat IUse k) (Some ci) None true false None 0 [])
| OK_R3 k : tstate_ok ci cd (mk (IRUnlock :: repeat IUse k) (Some ci) (Some cd) true false None 0 [])
| OK_R4 j wi wd us : Forall (fun u => u = (Some wi, Some wd)) us ->
    tstate_ok ci cd (mk (repeat IUse j) (Some wi) (Some wd) false false (Some (wi, wd)) 0 us)
(* Config *)
| OK_C1 : tstate_ok ci cd (mk [IReadIcfg; IRUnlock; IUse] None None true false None 0 [])
| OK_C2 : tstate_ok ci cd (mk [IRUnlock; IUse] (Some ci) None true false None 0 [])
| OK_C3 wi wd : tstate_ok ci cd (mk [IUse] (Some wi) None false false (Some (wi, wd)) 0 [])
| OK_C4 wi wd : tstate_ok ci cd (mk [] (Some wi) None false false (Some (wi, wd)) 0 [(Some wi, None)])
(* Reconfigure / SetDebug *)
| OK_W1 v : tstate_ok ci cd (mk [IWriteIcfg v; IWriteDebugReconf (isSome v); IUnlock] None None false true None 0 [])
| OK_W2 : tstate_ok ci cd (mk [IWriteDebugReconf (isSome ci); IUnlock] None None false true None 0 [])
| OK_S1 bb : tstate_ok ci cd (mk [IWriteDebugSet bb; IUnlock] None None false true None 0 [])
| OK_W3 : (ci = None -> cd = false) -> tstate_ok ci cd (mk [IUnlock] None None false true None 0 [])
| OK_done : tstate_ok ci cd (mk [] None None false false None 0 []).

(* a thread holding no lock does not care about the shared pair *)
Lemma tstate_ok_frame : forall ci cd ci' cd' t,
  tstate_ok ci cd t -> t_holds_r t = false -> t_holds_w t = false -> tstate_ok ci' cd' t.
Proof.
  intros ci cd ci' cd' t H. destruct H; cbn; intros Hr Hw; try discriminate; try (constructor; assumption).
Qed.

Lemma tstate_ok_unprotected : forall ci cd t, tstate_ok ci cd t -> t_unprotected t = 0.
Proof. intros ci cd t H. destruct H; reflexivity. Qed.

Definition snapshot_ok (t : thread) : Prop :=
  (t_uses t <> [] -> t_witness t <> None) /\
  forall w, t_witness t = Some w ->
    t_icfg t = Some (fst w) /\ (t_debug t = None \/ t_debug t = Some (snd w)) /\
    Forall (fun u => fst u = Some (fst w) /\ (snd u = None \/ snd u = Some (snd w))) (t_uses t).

Lemma tstate_ok_snapshot : forall ci cd t, tstate_ok ci cd t -> snapshot_ok t.
Proof.
  intros ci cd t H. unfold snapshot_ok.
  destruct H; cbn [t_uses t_witness t_icfg t_debug new_thread]; split;
    try (intros E; exfalso; apply E; reflexivity); try (intros w E; discriminate); try discriminate.
  - intros w E. injection E as <-. cbn [fst snd]. repeat split; auto.
    apply (Forall_impl _ (P := fun u => u = (Some wi, Some wd))); [|assumption].
    intros u ->. cbn. auto.
  - intros w E. injection E as <-. cbn [fst snd]. repeat split; auto.
  - intros w E. injection E as <-. cbn [fst snd]. repeat split; auto.
Qed.

Definition coh (sh : shared) : Prop := s_icfg sh = None -> s_debug sh = false.

Ltac absurd_neq := try (exfalso; match goal with H : ?x <> ?x |- _ => apply H; reflexivity end).

(* one step of a thread that satisfies the per-thread invariant, in a shared state consistent with
   the locks it holds *)
Lemma tstep_ok : forall sh t sh' t',
  tstate_ok (s_icfg sh) (s_debug sh) t ->
  (t_holds_r t = true -> 1 <= s_readers sh) ->
  (t_holds_w t = true -> s_writer sh = true) ->
  (s_writer sh = true -> s_readers sh = 0) ->
  tstep sh t = Some (sh', t') ->
  tstate_ok (s_icfg sh') (s_debug sh') t' /\
  s_readers sh' + b2n (t_holds_r t) = s_readers sh + b2n (t_holds_r t') /\
  b2n (s_writer sh') + b2n (t_holds_w t) = b2n (s_writer sh) + b2n (t_holds_w t') /\
  (s_writer sh' = true -> s_readers sh' = 0) /\
  ((s_icfg sh' = s_icfg sh /\ s_debug sh' = s_debug sh) \/ t_holds_w t = true) /\
  ((s_writer sh = false -> coh sh) -> s_writer sh' = false -> coh sh') /\
  (t_witness t = None -> t_witness t' <> None ->
     t_holds_r t = true /\ t_witness t' = Some (s_icfg sh, s_debug sh)).
Proof.
  intros sh t sh' t' Hok Hr Hw Hwr Hstep.
  destruct sh as [si sd sw sr]. cbn [s_icfg s_debug s_writer s_readers] in *.
  inversion Hok as [p Hp| k | k | k | j wi wd us Hus | | | wi wd | wi wd | v | | bb | Hc | ]; subst t; clear Hok.
  - (* a fresh thread *)
    destruct Hp; unfold new_thread, prog_request, prog_reconfigure, prog_reconfigure_rejected,
      prog_setdebug, prog_config in *; cbn in Hstep, Hr, Hw; try discriminate;
      destruct sw; try discriminate; destruct sr; try discriminate;
      injection Hstep as <- <-; cbn; unfold coh; cbn;
      (split; [constructor|]); repeat split; auto; try lia; try discriminate;
      absurd_neq.
  - cbn in Hstep. injection Hstep as <- <-. cbn. unfold coh. cbn.
    split; [constructor|]. repeat split; auto; absurd_neq.
  - cbn in Hstep. injection Hstep as <- <-. cbn. unfold coh. cbn.
    split; [constructor|]. repeat split; auto; absurd_neq.
  - cbn in Hstep, Hr. injection Hstep as <- <-. cbn. unfold coh. cbn. specialize (Hr eq_refl).
    split; [constructor; constructor|]. repeat split; auto; try lia; intro E; specialize (Hwr E); lia.
  - destruct j as [|j]; cbn in Hstep; [discriminate|]. injection Hstep as <- <-. cbn. unfold coh. cbn.
    split. { constructor. apply Forall_app. split; [assumption | constructor; [reflexivity | constructor]]. }
    repeat split; auto; try discriminate.
  - cbn in Hstep. injection Hstep as <- <-. cbn. unfold coh. cbn.
    split; [constructor|]. repeat split; auto; absurd_neq.
  - cbn in Hstep, Hr. injection Hstep as <- <-. cbn. unfold coh. cbn. specialize (Hr eq_refl).
    split; [constructor|]. repeat split; auto; try lia; intro E; specialize (Hwr E); lia.
  - cbn in Hstep. injection Hstep as <- <-. cbn. unfold coh. cbn.
    split; [constructor|]. repeat split; auto; try discriminate.
  - cbn in Hstep. discriminate.
  - cbn in Hstep, Hw. injection Hstep as <- <-. cbn. unfold coh. cbn. specialize (Hw eq_refl). subst sw.
    split; [constructor|]. repeat split; auto; try discriminate; absurd_neq.
  - cbn in Hstep, Hw. injection Hstep as <- <-. cbn. unfold coh. cbn. specialize (Hw eq_refl). subst sw.
    split. { constructor. intros ->. reflexivity. }
    repeat split; auto; try discriminate; absurd_neq.
  - cbn in Hstep, Hw. injection Hstep as <- <-. cbn. unfold coh. cbn. specialize (Hw eq_refl). subst sw.
    split. { constructor. intros ->. apply andb_false_r. }
    repeat split; auto; try discriminate; absurd_neq.
  - cbn in Hstep, Hw. injection Hstep as <- <-. cbn. unfold coh. cbn. specialize (Hw eq_refl). subst sw.
    split; [apply OK_done|]. repeat split; auto; try discriminate; absurd_neq.
  - cbn in Hstep. discriminate.
Qed.

(* ------------------------------------------------------------------------------------------ *)
(* 3. the machine invariant                                                                    *)
(* ------------------------------------------------------------------------------------------ *)

(* [C]: whether the initial shared pair was coherent *)
Definition minv (C : Prop) (m : machine) : Prop :=
  Forall (tstate_ok (s_icfg (fst m)) (s_debug (fst m))) (snd m) /\
  s_readers (fst m) = cnt t_holds_r (snd m) /\
  b2n (s_writer (fst m)) = cnt t_holds_w (snd m) /\
  (s_writer (fst m) = true -> s_readers (fst m) = 0) /\
  (C -> s_writer (fst m) = false -> coh (fst m)).

Lemma minv_init : forall (C : Prop) ic dbg progs, Forall method_body progs ->
  (C -> ic = None -> dbg = false) -> minv C (init_machine ic dbg progs).
Proof.
  intros C ic dbg progs H HC. unfold minv, init_machine. cbn [fst snd init_shared s_icfg s_debug s_writer s_readers].
  split; [|split; [|split; [|split]]].
  - apply Forall_forall. intros t Hin. apply in_map_iff in Hin. destruct Hin as [p [<- Hp]].
    constructor. apply (proj1 (Forall_forall _ _) H p Hp).
  - symmetry. apply cnt_map_const. reflexivity.
  - symmetry. apply cnt_map_const. reflexivity.
  - discriminate.
  - intros c _. unfold coh. cbn. apply HC. exact c.
Qed.

(* what one machine step does, given the invariant *)
Lemma mstep_inv_gen : forall C m tid t sh' t',
  minv C m -> nth_error (snd m) tid = Some t -> tstep (fst m) t = Some (sh', t') ->
  minv C (sh', set_nth tid t' (snd m)) /\
  (t_witness t = None -> t_witness t' <> None ->
     s_writer (fst m) = false /\ t_holds_r t = true /\ t_witness t' = Some (s_icfg (fst m), s_debug (fst m))).
Proof.
  intros C [sh ts] tid t sh' t' (Hall & Hrd & Hwr & Hex & Hcoh) Hn Hstep.
  cbn [fst snd] in *.
  assert (Hok : tstate_ok (s_icfg sh) (s_debug sh) t).
  { apply (proj1 (Forall_nth_error _ _ _) Hall tid t Hn). }
  assert (Hr : t_holds_r t = true -> 1 <= s_readers sh).
  { intro E. rewrite Hrd. apply (cnt_ge _ _ _ _ _ Hn E). }
  assert (Hw : t_holds_w t = true -> s_writer sh = true).
  { intro E. pose proof (cnt_ge _ _ _ _ _ Hn E). destruct (s_writer sh); [reflexivity | cbn in Hwr; lia]. }
  destruct (tstep_ok sh t sh' t' Hok Hr Hw Hex Hstep) as (Hok' & Hrd' & Hwr' & Hex' & Hfr & Hcoh' & Hwit).
  pose proof (cnt_set_nth _ t_holds_r ts tid t' t Hn) as Cr.
  pose proof (cnt_set_nth _ t_holds_w ts tid t' t Hn) as Cw.
  split.
  - unfold minv. cbn [fst snd]. repeat split.
    + apply Forall_nth_error. intros i u Hi. rewrite nth_error_set_nth in Hi.
      destruct (Nat.eqb i tid) eqn:Ei.
      * rewrite Hn in Hi. injection Hi as <-. exact Hok'.
      * apply Nat.eqb_neq in Ei.
        pose proof (proj1 (Forall_nth_error _ _ _) Hall i u Hi) as Hu.
        destruct Hfr as [[E1 E2] | E].
        -- rewrite E1, E2. exact Hu.
        -- (* t holds the write lock: nobody else holds any lock *)
           pose proof (Hw E) as Esw. pose proof (Hex Esw) as Ern.
           apply (tstate_ok_frame _ _ _ _ _ Hu).
           ++ apply (cnt_zero _ t_holds_r ts i u); [lia | exact Hi].
           ++ apply (cnt_others _ t_holds_w ts tid t i u Hn E); [|exact Ei | exact Hi].
              rewrite <- Hwr, Esw. cbn. lia.
    + lia.
    + lia.
    + exact Hex'.
    + intros c. apply Hcoh'. apply Hcoh. exact c.
  - intros W1 W2. destruct (Hwit W1 W2) as [R E]. repeat split; try assumption.
    specialize (Hr R). destruct (s_writer sh); [|reflexivity]. specialize (Hex eq_refl). lia.
Qed.

Lemma mstep_inv : forall C m tid, minv C m -> minv C (mstep m tid).
Proof.
  intros C m tid H. unfold mstep.
  destruct (nth_error (snd m) tid) as [t|] eqn:Hn; [|exact H].
  destruct (tstep (fst m) t) as [[sh' t']|] eqn:Hs; [|exact H].
  apply (mstep_inv_gen C m tid t sh' t' H Hn Hs).
Qed.

Lemma mrun_inv : forall C sched m, minv C m -> minv C (mrun m sched).
Proof.
  intros C. unfold mrun. induction sched as [|tid r IH]; intros m H; [exact H|].
  cbn [fold_left]. apply IH. apply mstep_inv. exact H.
Qed.

Lemma reach_inv : forall (C : Prop) ic dbg progs sched, Forall method_body progs ->
  (C -> ic = None -> dbg = false) -> minv C (mrun (init_machine ic dbg progs) sched).
Proof. intros. apply mrun_inv. apply minv_init; assumption. Qed.

(* ------------------------------------------------------------------------------------------ *)
(* 4. the theorems                                                                             *)
(* ------------------------------------------------------------------------------------------ *)

Lemma lock_discipline : forall ic dbg progs sched, Forall method_body progs ->
  let m := mrun (init_machine ic dbg progs) sched in
  Forall (fun t => t_unprotected t = 0) (snd m) /\
  (s_writer (fst m) = true -> s_readers (fst m) = 0) /\
  s_readers (fst m) = length (filter t_holds_r (snd m)) /\
  (if s_writer (fst m) then length (filter t_holds_w (snd m)) = 1 else length (filter t_holds_w (snd m)) = 0).
Proof.
  intros ic dbg progs sched H m.
  destruct (reach_inv False ic dbg progs sched H (fun f => match f with end)) as (Hall & Hrd & Hwr & Hex & _).
  fold m in Hall, Hrd, Hwr, Hex. repeat split.
  - apply (Forall_impl _ (tstate_ok_unprotected _ _) Hall).
  - exact Hex.
  - exact Hrd.
  - unfold cnt in Hwr. destruct (s_writer (fst m)); cbn in Hwr; symmetry; exact Hwr.
Qed.

Lemma atomic_snapshot : forall ic dbg progs sched, Forall method_body progs ->
  let m := mrun (init_machine ic dbg progs) sched in
  Forall (fun t =>
            (t_uses t <> [] -> t_witness t <> None) /\
            forall w, t_witness t = Some w ->
              t_icfg t = Some (fst w) /\ (t_debug t = None \/ t_debug t = Some (snd w)) /\
              Forall (fun u => fst u = Some (fst w) /\ (snd u = None \/ snd u = Some (snd w))) (t_uses t))
         (snd m).
Proof.
  intros ic dbg progs sched H m.
  destruct (reach_inv False ic dbg progs sched H (fun f => match f with end)) as (Hall & _).
  apply (Forall_impl _ (tstate_ok_snapshot _ _) Hall).
Qed.

Lemma no_torn_state : forall ic dbg progs sched, Forall method_body progs -> (ic = None -> dbg = false) ->
  let m := mrun (init_machine ic dbg progs) sched in
  s_writer (fst m) = false -> (s_icfg (fst m) = None -> s_debug (fst m) = false).
Proof.
  intros ic dbg progs sched H H0 m.
  destruct (reach_inv True ic dbg progs sched H (fun _ => H0)) as (_ & _ & _ & _ & Hc).
  intro E. apply (Hc I E).
Qed.

(* the step that records a witness: it is an RUnlock by a thread that still holds the read lock,
   hence no writer is inside its critical section at that instant, and the witness is the
   shared pair of that instant *)
Lemma witness_taken_without_writer : forall ic dbg progs sched tid t sh' t', Forall method_body progs ->
  let m := mrun (init_machine ic dbg progs) sched in
  nth_error (snd m) tid = Some t -> tstep (fst m) t = Some (sh', t') ->
  t_witness t = None -> t_witness t' <> None ->
  s_writer (fst m) = false /\ t_holds_r t = true /\ t_witness t' = Some (s_icfg (fst m), s_debug (fst m)) /\
  mstep m tid = (sh', set_nth tid t' (snd m)).
Proof.
  intros ic dbg progs sched tid t sh' t' H m Hn Hs W1 W2.
  pose proof (reach_inv False ic dbg progs sched H (fun f => match f with end)) as Hinv. fold m in Hinv.
  destruct (mstep_inv_gen False m tid t sh' t' Hinv Hn Hs) as [_ Hw].
  destruct (Hw W1 W2) as (A & B & D). repeat split; try assumption.
  unfold mstep. rewrite Hn, Hs. reflexivity.
Qed.

(* ------------------------------------------------------------------------------------------ *)
(* 5. request-shaped threads: the snapshot is complete (both fields) before the first use      *)
(* ------------------------------------------------------------------------------------------ *)

(* program points of ServeHTTP with k interactions; thread-local, independent of the shared state *)
Definition req_pt (k : nat) (t : thread) : Prop :=
  (t_witness t = None /\ t_uses t = [] /\
   (t_prog t = prog_request k \/
    t_prog t = IReadIcfg :: IReadDebug :: IRUnlock :: repeat IUse k \/
    t_prog t = IReadDebug :: IRUnlock :: repeat IUse k \/
    (t_prog t = IRUnlock :: repeat IUse k /\ t_debug t <> None))) \/
  (t_witness t <> None /\ t_debug t <> None /\ exists j, t_prog t = repeat IUse j /\ length (t_uses t) + j = k).

Lemma req_pt_step : forall k sh t sh' t', req_pt k t -> tstep sh t = Some (sh', t') -> req_pt k t'.
Proof.
  intros k sh t sh' t' H Hs. unfold tstep in Hs.
  destruct H as [(W & U & [P | [P | [P | [P D]]]]) | (W & D & j & P & L)]; rewrite P in Hs.
  - unfold prog_request in Hs. cbn [app] in Hs. destruct (s_writer sh); [discriminate|].
    injection Hs as <- <-. left. cbn. auto 10.
  - injection Hs as <- <-. left. cbn. auto 10.
  - injection Hs as <- <-. left. cbn. repeat split; auto. right. right. right. split; [reflexivity | discriminate].
  - injection Hs as <- <-. right. cbn. repeat split; try discriminate; auto.
    exists k. rewrite U. auto.
  - destruct j as [|j]; cbn [repeat] in Hs; [discriminate|].
    injection Hs as <- <-. right. cbn. repeat split; auto.
    exists j. split; [reflexivity|]. rewrite app_length. cbn. lia.
Qed.

Definition req_inv (progs : list (list instr)) (ts : list thread) : Prop :=
  forall tid k, nth_error progs tid = Some (prog_request k) ->
    exists t, nth_error ts tid = Some t /\ req_pt k t.

Lemma req_inv_init : forall progs, req_inv progs (map new_thread progs).
Proof.
  intros progs tid k H. exists (new_thread (prog_request k)). split.
  - rewrite nth_error_map, H. reflexivity.
  - left. cbn. auto.
Qed.

Lemma req_inv_step : forall progs m tid, req_inv progs (snd m) -> req_inv progs (snd (mstep m tid)).
Proof.
  intros progs m tid H. unfold mstep.
  destruct (nth_error (snd m) tid) as [t|] eqn:Hn; [|exact H].
  destruct (tstep (fst m) t) as [[sh' t']|] eqn:Hs; [|exact H].
  cbn [snd]. intros i k Hi. destruct (H i k Hi) as (u & Hu & Pu).
  rewrite nth_error_set_nth. destruct (Nat.eqb i tid) eqn:Ei.
  - apply Nat.eqb_eq in Ei. subst i. rewrite Hn. exists t'. split; [reflexivity|].
    rewrite Hn in Hu. injection Hu as <-. apply (req_pt_step k _ _ _ _ Pu Hs).
  - exists u. auto.
Qed.

Lemma req_inv_run : forall progs sched m, req_inv progs (snd m) -> req_inv progs (snd (mrun m sched)).
Proof.
  intros progs. unfold mrun. induction sched as [|tid r IH]; intros m H; [exact H|].
  cbn [fold_left]. apply IH. apply req_inv_step. exact H.
Qed.

Lemma request_snapshot_complete : forall ic dbg progs sched tid k, Forall method_body progs ->
  nth_error progs tid = Some (prog_request k) ->
  let m := mrun (init_machine ic dbg progs) sched in
  exists t, nth_error (snd m) tid = Some t /\
    (t_uses t <> [] -> t_witness t <> None) /\
    (exists j, j <= k /\ length (t_uses t) = k - j /\
               (t_witness t <> None -> t_prog t = repeat IUse j)) /\
    forall w, t_witness t = Some w ->
      t_icfg t = Some (fst w) /\ t_debug t = Some (snd w) /\
      Forall (fun u => u = (Some (fst w), Some (snd w))) (t_uses t).
Proof.
  intros ic dbg progs sched tid k H Hp m.
  destruct (req_inv_run progs sched (init_machine ic dbg progs) (req_inv_init progs) tid k Hp) as (t & Ht & Pt).
  fold m in Ht. exists t. split; [exact Ht|].
  pose proof (atomic_snapshot ic dbg progs sched H) as Hall. cbv zeta in Hall. fold m in Hall.
  destruct (proj1 (Forall_nth_error _ _ _) Hall tid t Ht) as [S1 S2].
  split; [exact S1|]. split.
  - destruct Pt as [(W & U & _) | (W & D & j & P & L)].
    + exists k. rewrite U. repeat split; [lia | cbn; lia | intro E; contradiction].
    + exists j. repeat split; [lia | lia | intros _; exact P].
  - intros w Hw. destruct (S2 w Hw) as (A & B & F).
    assert (D : t_debug t = Some (snd w)).
    { destruct Pt as [(W & _) | (_ & D & _)]; [congruence|]. destruct B as [B|B]; [contradiction | exact B]. }
    repeat split; [exact A | exact D |].
    (* every use recorded the pair (t_icfg, t_debug) of its instant; both were already set *)
    pose proof (reach_inv False ic dbg progs sched H (fun f => match f with end)) as (Hok & _). fold m in Hok.
    pose proof (proj1 (Forall_nth_error _ _ _) Hok tid t Ht) as Hk.
    destruct Hk; cbn [t_witness t_debug t_uses new_thread] in *; try discriminate.
    injection Hw as <-. assumption.
Qed.

(* ---- the source-level event sequences extracted by tools/genconc are the modelled shapes ---- *)
Require Import Gen.ConcSrc.

Lemma collapse_repeat_other k : collapse (repeat GOther (S k)) = [GOther].
Proof. induction k as [|k IH]; [reflexivity|]. change (repeat GOther (S (S k))) with (GOther :: GOther :: repeat GOther k). cbn [collapse]. exact IH. Qed.

Lemma map_ev_repeat_use k : map ev_of (repeat IUse k) = repeat GOther k.
Proof. induction k as [|k IH]; [reflexivity|]. cbn [repeat map ev_of]. rewrite IH. reflexivity. Qed.

Lemma source_shape :
  (forall k, go_Wrap = shape (prog_request (S k))) /\
  (forall v, go_Reconfigure = GOther :: shape (prog_reconfigure v)) /\
  (forall b, go_SetDebug = shape (prog_setdebug b)) /\
  go_Config = shape prog_config /\
  go_other_methods_touching_state = 0%nat.
Proof.
  split; [|split; [|split; [|split]]].
  - intros k. unfold shape, prog_request. rewrite map_app, map_ev_repeat_use. cbn [map ev_of app].
    assert (H : forall l, collapse (GRLock :: GReadIcfg :: GReadDebug :: GRUnlock :: l)
                       = GRLock :: GReadIcfg :: GReadDebug :: GRUnlock :: collapse l) by reflexivity.
    rewrite H, collapse_repeat_other. reflexivity.
  - intros v. reflexivity.
  - intros b. reflexivity.
  - reflexivity.
  - reflexivity.
Qed.
