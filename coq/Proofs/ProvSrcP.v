(* Proofs/ProvSrcP.v -- the header writes extracted from middleware.go on this run (Gen/ProvSrc.v) against
   the provenance model: every tag the model uses comes from a write that exists in the source, every write
   in the source is one the model accounts for, and the two functions that run before the wrapped handler
   install only freshly allocated or request-owned slices. *)
Require Import Base.Bytes Gen.Tables Model.Headers Model.Config Model.Serve Model.Prov Gen.ProvSrc Proofs.ProvP.
Open Scope N_scope.

Definition all_go_writes : list wev :=
  go_writes_handleNonCORS ++ go_writes_handleCORSPreflight ++ go_writes_processOriginForPreflight ++
  go_writes_processACRPN ++ go_writes_handleCORSActual ++ go_writes_processACRM ++ go_writes_processACRH.

Definition src_has_tag (t : ptag) : bool :=
  existsb (fun w => match tag_of_w (snd w) with Some t' => ptag_eqb t t' | None => false end) all_go_writes.

Lemma source_handler_paths_private :
  forallb handler_safe_w (go_writes_handleNonCORS ++ go_writes_handleCORSActual) = true.
Proof. vm_compute. reflexivity. Qed.

Lemma source_every_write_is_modelled : forallb modelled_w all_go_writes = true /\ go_header_writes_elsewhere = 0%nat.
Proof. split; vm_compute; reflexivity. Qed.

Lemma model_tags_come_from_source : forall st dbg r pre,
  Forall (fun kt => src_has_tag (snd kt) = true) (fst (pserve st dbg r pre)).
Proof.
  intros st dbg r pre.
  change (tall (fun t => src_has_tag t = true) (fst (pserve st dbg r pre))).
  assert (HO : src_has_tag Own = true) by (vm_compute; reflexivity).
  assert (HR : forall k, k = headers_Origin \/ k = headers_ACRM \/ k = headers_ACRH -> src_has_tag (ReqSlice k) = true).
  { intros k [H|[H|H]]; subst k; vm_compute; reflexivity. }
  assert (HS : forall s, src_has_tag (Shared s) = true) by (intros s; destruct s; vm_compute; reflexivity).
  assert (HC : forall a, src_has_tag (CfgSlice a) = true) by (intros a; destruct a; vm_compute; reflexivity).
  unfold pserve. destruct st as [ic|]; [|apply tall_nil].
  destruct (first (r_hdrs r) headers_Origin) as [org|]; [|apply tall_non_cors; exact HO].
  assert (B : tall (fun t => src_has_tag t = true) (p_actual ic org (beqb (r_method r) method_options))).
  { apply tall_actual; [exact HO | apply HR; left; reflexivity]. }
  destruct (first (r_hdrs r) headers_ACRM) as [acrm|]; [|exact B].
  destruct (beqb (r_method r) method_options); cbn [fst]; [|exact B].
  apply tall_preflight; assumption.
Qed.
