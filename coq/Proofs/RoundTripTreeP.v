(* Proofs/RoundTripTreeP.v -- C06, layer 2: the entries of a radix tree.
   [entries n acc] enumerates what [node_elems] renders: (reversed host key, scheme, stored port code).
   Main results:
     node_elems_entries : node_elems = map render_entry (entries ...)
     wf2 / wf2_insert   : RadixP's [wf] strengthened with "a child's suffix starts with its edge label"
                          and "schemes of a node are strictly sorted"
     contains_entries   : on a wf2 tree, [contains] is [existsb] of [ematch] over the entries
     entries_insert     : every entry after [insert] is an old one or the inserted one
     entries_build      : every entry of [build ps] is [entry_of p] for some p in ps. *)
Require Import Base.Bytes Gen.Tables Model.Origins Model.Pattern Model.Radix Spec.Origins.
Require Import Proofs.RadixP Proofs.HeadersP.
From Coq Require Import Sorted ZifyBool ZifyNat ZifyN.
Open Scope N_scope.

Notation entry := (bytes * bytes * Z)%type (only parsing).

Definition ents_entries (k : bytes) (e : ents_t) : list entry :=
  flat_map (fun sp => map (fun p => (k, fst sp, p)) (snd sp)) e.

Fixpoint entries (n : node) (acc : bytes) {struct n} : list entry :=
  match n with
  | Node suf kids ents =>
      let tot := acc ++ suf in
      ents_entries tot ents ++
      (fix go (ks : list (N * node)) : list entry :=
         match ks with
         | [] => []
         | (_, ch) :: r => entries ch tot ++ go r
         end) kids
  end.

Definition kids_entries (tot : bytes) (kids : list (N * node)) : list entry :=
  flat_map (fun kv => entries (snd kv) tot) kids.

Lemma entries_eq suf kids ents acc :
  entries (Node suf kids ents) acc = ents_entries (acc ++ suf) ents ++ kids_entries (acc ++ suf) kids.
Proof.
  cbn [entries]. cbv zeta. f_equal. unfold kids_entries.
  induction kids as [|[l ch] r IH]; [reflexivity|]. cbn [flat_map snd]. rewrite IH. reflexivity.
Qed.

Definition bracket (h : bytes) : bytes := if memN host_port_sep h then [91] ++ h ++ [93] else h.

Definition render_entry (e : entry) : bytes :=
  match e with (k, sch, p) => render sch (bracket (rev k)) p end.

Lemma node_elems_eq suf kids ents acc :
  node_elems (Node suf kids ents) acc =
  flat_map (fun e => map (render (fst e) (bracket (rev (acc ++ suf)))) (snd e)) ents ++
  flat_map (fun kv => node_elems (snd kv) (acc ++ suf)) kids.
Proof.
  cbn [node_elems]. cbv zeta. f_equal.
  induction kids as [|[l ch] r IH]; [reflexivity|]. cbn [flat_map snd]. rewrite IH. reflexivity.
Qed.

Lemma node_elems_entries : forall n acc, node_elems n acc = map render_entry (entries n acc).
Proof.
  induction n as [suf kids ents IH] using node_ind'. intros acc.
  rewrite node_elems_eq, entries_eq, map_app. f_equal.
  - unfold ents_entries. generalize (acc ++ suf). intros k.
    induction ents as [|[s ps] r IHe]; [reflexivity|]. cbn [flat_map fst snd]. rewrite map_app, IHe.
    f_equal. rewrite map_map. reflexivity.
  - unfold kids_entries. generalize (acc ++ suf). intros k.
    induction IH as [|[l ch] r Hch _ IHk]; [reflexivity|]. cbn [flat_map snd] in *.
    rewrite map_app, IHk, Hch. reflexivity.
Qed.

Definition rsuf_of (n : node) : bytes := match n with Node suf _ _ => suf end.

(* every key below a node extends acc ++ the node's suffix *)
Lemma entries_key_prefix : forall n acc e, In e (entries n acc) ->
  exists k', fst (fst e) = acc ++ rsuf_of n ++ k'.
Proof.
  induction n as [suf kids ents IH] using node_ind'. intros acc e. rewrite entries_eq.
  intros H. apply in_app_or in H. destruct H as [H|H].
  - unfold ents_entries in H. apply in_flat_map in H. destruct H as [[s ps] [_ H]].
    apply in_map_iff in H. destruct H as [p [<- _]]. exists []. cbn [fst rsuf_of]. rewrite !app_nil_r. reflexivity.
  - unfold kids_entries in H. apply in_flat_map in H. destruct H as [[l ch] [Hin H]].
    rewrite Forall_forall in IH. destruct (IH _ Hin (acc ++ suf) e H) as [k' Hk].
    cbn [snd] in Hk. exists (rsuf_of ch ++ k'). rewrite Hk. cbn [rsuf_of]. rewrite <- app_assoc. reflexivity.
Qed.

(* ------------------------------------------------------------------------------------------ *)
(* scheme lists                                                                                *)

Definition ents_sorted (e : ents_t) : Prop := StronglySorted blt (map fst e).

Lemma bltb_false_neq x y : bltb x y = false -> beqb x y = false -> blt y x.
Proof.
  intros H1 H2. apply blt_bcmp. rewrite bcmp_antisym. unfold bltb in H1.
  destruct (bcmp x y) eqn:E; try discriminate; [|reflexivity].
  apply bcmp_eq in E. subst y. rewrite RadixP.beqb_refl in H2. discriminate.
Qed.

Lemma In_fst_ents_put sch ps e x : In x (map fst (ents_put sch ps e)) -> x = sch \/ In x (map fst e).
Proof.
  induction e as [|[s q] r IH]; cbn [ents_put map fst In].
  - intros [H|[]]; auto.
  - destruct (beqb sch s) eqn:E1.
    + cbn [map fst In]. intros [H|H]; auto.
    + destruct (bltb sch s); cbn [map fst In]; intros [H|H]; auto.
      destruct (IH H); auto.
Qed.

Lemma ents_put_sorted sch ps e : ents_sorted e -> ents_sorted (ents_put sch ps e).
Proof.
  unfold ents_sorted. induction e as [|[s q] r IH]; intros HS; cbn [ents_put map fst].
  - constructor; constructor.
  - apply StronglySorted_inv in HS. cbn [map fst] in HS. destruct HS as [HS HF].
    destruct (beqb sch s) eqn:E1.
    + apply RadixP.beqb_eq in E1. subst s. cbn [map fst]. constructor; assumption.
    + destruct (bltb sch s) eqn:E2; cbn [map fst].
      * constructor; [constructor; assumption|]. constructor; [exact E2|].
        rewrite Forall_forall in HF |- *. intros z Hz. eapply blt_trans; [exact E2 | apply HF; exact Hz].
      * constructor; [apply IH; exact HS|]. rewrite Forall_forall in HF |- *. intros z Hz.
        destruct (In_fst_ents_put _ _ _ _ Hz) as [->|Hz']; [apply bltb_false_neq; assumption | apply HF; exact Hz'].
Qed.

Lemma ents_add_sorted e sch p w : ents_sorted e -> ents_sorted (ents_add e sch p w).
Proof.
  intros H. unfold ents_add. destruct (ents_contains e sch (shift w p) w); [exact H|].
  destruct (ents_find sch e); apply ents_put_sorted; exact H.
Qed.

Lemma ents_sorted_nil : ents_sorted []. Proof. constructor. Qed.

(* ------------------------------------------------------------------------------------------ *)
(* strengthened well-formedness                                                                *)

Definition starts (l : N) (n : node) : Prop := exists t, rsuf_of n = l :: t.

Inductive wf2 : node -> Prop :=
| wf2_Node suf kids ents :
    ents_sorted ents -> lab_sorted kids ->
    Forall (fun kv => wf2 (snd kv)) kids -> Forall (fun kv => starts (fst kv) (snd kv)) kids ->
    wf2 (Node suf kids ents).

Lemma wf2_inv suf kids ents : wf2 (Node suf kids ents) ->
  ents_sorted ents /\ lab_sorted kids /\ Forall (fun kv => wf2 (snd kv)) kids /\
  Forall (fun kv => starts (fst kv) (snd kv)) kids.
Proof. intros H. inversion H. auto. Qed.

Lemma wf2_empty : wf2 empty_tree.
Proof. constructor; [apply ents_sorted_nil | exact I | constructor | constructor]. Qed.

Lemma wf2_leaf s sch p w : wf2 (Node s [] (ents_add [] sch p w)).
Proof. constructor; [apply ents_add_sorted, ents_sorted_nil | exact I | constructor | constructor]. Qed.

Lemma Forall2_insert_kids (Q : N -> node -> Prop) f c ks :
  Q c (f None) ->
  Forall (fun kv => Q (fst kv) (snd kv) /\ (c = fst kv -> Q (fst kv) (f (Some (snd kv))))) ks ->
  Forall (fun kv => Q (fst kv) (snd kv)) (insert_kids f c ks).
Proof.
  intros H0 H. induction H as [|[l ch] r [H1 H2] Hr IH]; cbn [insert_kids].
  - constructor; [exact H0 | constructor].
  - assert (Hr' : Forall (fun kv => Q (fst kv) (snd kv)) r).
    { eapply Forall_impl; [|exact Hr]. intros a Ha. apply Ha. }
    cbn [fst snd] in *.
    destruct (c <? l); [constructor; [exact H0 | constructor; assumption]|].
    destruct (c =? l) eqn:E; [|constructor; assumption].
    constructor; [|exact Hr']. cbn [fst snd]. apply H2. lia.
Qed.

Lemma Forall2_upsert2 (Q : N -> node -> Prop) l2 x l1 y : Q l2 x -> Q l1 y ->
  Forall (fun kv => Q (fst kv) (snd kv)) (upsert l2 x [(l1, y)]).
Proof.
  intros Hx Hy. cbn [upsert]. destruct (l2 =? l1); [repeat constructor; assumption|].
  destruct (l2 <? l1); repeat constructor; assumption.
Qed.

Lemma common_prefix_head c s t :
  match common_prefix (c :: s) (c :: t) with (_, _, com) => exists com', com = c :: com' end.
Proof.
  cbn [common_prefix]. rewrite N.eqb_refl. destruct (common_prefix s t) as [[ra rc] com]. eexists. reflexivity.
Qed.

Lemma wf2_insert sch p w : forall n, wf2 n -> forall s, wf2 (insert n s sch p w).
Proof.
  induction n as [suf kids ents IH] using node_ind'. intros Hwf s.
  apply wf2_inv in Hwf. destruct Hwf as (Hes & Hs & Hk & Hl).
  rewrite insert_eq. destruct s as [|c s'].
  - constructor; [apply ents_add_sorted|..]; assumption.
  - destruct (ents_contains ents sch p true); [constructor; assumption|].
    assert (G : Forall (fun kv => wf2 (snd kv) /\ starts (fst kv) (snd kv))
                       (insert_kids (ins_child sch p w (c :: s')) c kids)).
    { apply (Forall2_insert_kids (fun l ch => wf2 ch /\ starts l ch)).
      - split; [apply wf2_leaf | exists s'; reflexivity].
      - rewrite Forall_forall in *. intros [l ch] Hin.
        specialize (IH _ Hin). specialize (Hk _ Hin). specialize (Hl _ Hin). cbn [fst snd] in *.
        split; [split; assumption|]. intros <-.
        destruct ch as [csuf ckids cents]. destruct Hl as [t Ht]. cbn [rsuf_of] in Ht. subst csuf.
        unfold ins_child.
        pose proof (common_prefix_head c s' t) as Hh.
        pose proof (common_prefix_spec (c :: s') (c :: t)) as Hcp.
        destruct (common_prefix (c :: s') (c :: t)) as [[ps pc] com].
        destruct Hh as [com' ->]. destruct Hcp as (Hs1 & Hc1 & _).
        destruct pc as [|l1 pc'].
        + split; [apply IH, Hk|].
          pose proof (insert_rsuf (Node (c :: t) ckids cents) ps sch p w) as Hr.
          destruct (insert (Node (c :: t) ckids cents) ps sch p w) as [a k e]. subst a. exists t. reflexivity.
        + apply wf2_inv in Hk. destruct Hk as (Hes' & Hs' & Hk' & Hl').
          assert (Hg : wf2 (Node (l1 :: pc') ckids cents)) by (constructor; assumption).
          assert (Hgs : starts l1 (Node (l1 :: pc') ckids cents)) by (exists pc'; reflexivity).
          destruct ps as [|l2 ps'].
          * split; [|exists com'; reflexivity].
            constructor; [apply ents_add_sorted, ents_sorted_nil | | |].
            -- cbn. split; [constructor | exact I].
            -- constructor; [exact Hg | constructor].
            -- constructor; [exact Hgs | constructor].
          * split; [|exists com'; reflexivity].
            pose proof (Forall2_upsert2 (fun l ch => wf2 ch /\ starts l ch) l2
                          (Node (l2 :: ps') [] (ents_add [] sch p w)) l1 (Node (l1 :: pc') ckids cents)) as HU.
            cbn beta in HU. specialize (HU (conj (wf2_leaf _ _ _ _) (ex_intro _ ps' eq_refl)) (conj Hg Hgs)).
            constructor; [apply ents_sorted_nil | apply lab_sorted_upsert2 | |].
            -- eapply Forall_impl; [|exact HU]. intros a Ha. apply Ha.
            -- eapply Forall_impl; [|exact HU]. intros a Ha. apply Ha. }
    constructor; [exact Hes | apply lab_sorted_insert_kids, Hs | |].
    + eapply Forall_impl; [|exact G]. intros a Ha. apply Ha.
    + eapply Forall_impl; [|exact G]. intros a Ha. apply Ha.
Qed.

Lemma wf2_tree_insert t p : wf2 t -> wf2 (tree_insert t p).
Proof.
  intros H. destruct (tree_insert_cases t p) as [(s' & _ & ->) | (_ & ->)]; apply wf2_insert, H.
Qed.

Lemma wf2_build ps : wf2 (build ps).
Proof.
  unfold build. generalize wf2_empty. generalize empty_tree.
  induction ps as [|p ps IH]; intros t Ht; [exact Ht|]. cbn [fold_left]. apply IH, wf2_tree_insert, Ht.
Qed.

Lemma rsuf_tree_insert t p : rsuf_of (tree_insert t p) = rsuf_of t.
Proof.
  destruct (tree_insert_cases t p) as [(s' & _ & ->) | (_ & ->)];
    match goal with |- rsuf_of (insert ?n ?s ?a ?c ?d) = _ =>
      pose proof (insert_rsuf n s a c d) as H; destruct (insert n s a c d); destruct n; exact H end.
Qed.

Lemma rsuf_build ps : rsuf_of (build ps) = [].
Proof.
  unfold build. assert (H : rsuf_of empty_tree = []) by reflexivity. revert H. generalize empty_tree.
  induction ps as [|p ps IH]; intros t Ht; [exact Ht|]. cbn [fold_left]. apply IH.
  rewrite rsuf_tree_insert. exact Ht.
Qed.

(* ------------------------------------------------------------------------------------------ *)
(* contains = existsb over the entries                                                         *)

(* entry (key, scheme, code) against a reversed host, a scheme and a port *)
Definition ematch (h sch : bytes) (q : Z) (e : entry) : bool :=
  match e with
  | (k, s, code) =>
      beqb s sch &&
      (if (code <? 0)%Z then ((code =? q - 65537)%Z || (code =? -1)%Z) && hostm true k h
       else ((code =? q)%Z || (code =? 65536)%Z) && hostm false k h)
  end.

Lemma memZ_existsb x l : memZ x l = existsb (fun y => (y =? x)%Z) l.
Proof. induction l as [|y l IH]; [reflexivity|]. cbn [memZ existsb]. rewrite IH, (Z.eqb_sym x y). reflexivity. Qed.

Lemma existsb_map {A B} (f : A -> B) (g : B -> bool) l : existsb g (map f l) = existsb (fun a => g (f a)) l.
Proof. induction l as [|x l IH]; [reflexivity|]. cbn [map existsb]. rewrite IH. reflexivity. Qed.

Lemma existsb_orb {A} (f g : A -> bool) l : existsb (fun a => f a || g a) l = existsb f l || existsb g l.
Proof.
  induction l as [|x l IH]; [reflexivity|]. cbn [existsb]. rewrite IH.
  destruct (f x), (g x), (existsb f l), (existsb g l); reflexivity.
Qed.

Lemma existsb_false {A} (f : A -> bool) l : (forall x, In x l -> f x = false) -> existsb f l = false.
Proof.
  induction l as [|x l IH]; intros H; [reflexivity|]. cbn [existsb].
  rewrite (H x (or_introl eq_refl)), IH; [reflexivity|]. intros y Hy. apply H. right. exact Hy.
Qed.

Lemma existsb_false_inv {A} (f : A -> bool) l : existsb f l = false -> forall x, In x l -> f x = false.
Proof.
  induction l as [|y r IH]; intros H x Hx; [destruct Hx|]. cbn [existsb] in H. apply orb_false_iff in H.
  destruct Hx as [<-|Hx]; [apply H | apply IH; [apply H | exact Hx]].
Qed.

Lemma existsb_ext_in' {A} (f g : A -> bool) l : (forall x, In x l -> f x = g x) -> existsb f l = existsb g l.
Proof.
  induction l as [|y r IH]; intros H; [reflexivity|]. cbn [existsb].
  rewrite (H y (or_introl eq_refl)), IH; [reflexivity|]. intros x Hx. apply H. right. exact Hx.
Qed.

(* the scheme/port part of an entry test, for the two entry classes *)
Definition code_match (w : bool) (q code : Z) : bool :=
  if w then (code =? q - 65537)%Z || (code =? -1)%Z else (code =? q)%Z || (code =? 65536)%Z.

Definition sc_match (w : bool) (sch : bytes) (q : Z) (en : entry) : bool :=
  match en with (_, s, code) => beqb s sch && code_match w q code end.

Lemma ents_entries_cons k s ps r :
  ents_entries k ((s, ps) :: r) = map (fun p => (k, s, p)) ps ++ ents_entries k r.
Proof. reflexivity. Qed.

Lemma In_ents_entries k e en : In en (ents_entries k e) <->
  exists s ps code, In (s, ps) e /\ In code ps /\ en = (k, s, code).
Proof.
  unfold ents_entries. rewrite in_flat_map. split.
  - intros [[s ps] [H1 H2]]. apply in_map_iff in H2. destruct H2 as [code [<- H2]].
    exists s, ps, code. auto.
  - intros [s [ps [code [H1 [H2 ->]]]]]. exists (s, ps). split; [exact H1|].
    apply in_map_iff. exists code. auto.
Qed.

Lemma ents_contains_entries k e sch q w : ents_sorted e ->
  ents_contains e sch q w = existsb (sc_match w sch q) (ents_entries k e).
Proof.
  unfold ents_contains, ents_sorted. induction e as [|[s ps] r IH]; intros HS; [reflexivity|].
  cbn [map fst] in HS. apply StronglySorted_inv in HS. destruct HS as [HS HF].
  rewrite ents_entries_cons. cbn [ents_find]. rewrite existsb_app, existsb_map.
  destruct (beqb sch s) eqn:E.
  - apply RadixP.beqb_eq in E. subst s.
    assert (Hr : existsb (sc_match w sch q) (ents_entries k r) = false).
    { apply existsb_false. intros en Hin. apply In_ents_entries in Hin.
      destruct Hin as [s2 [ps2 [code [Hin2 [_ ->]]]]]. unfold sc_match.
      destruct (beqb s2 sch) eqn:E2; [|reflexivity]. apply RadixP.beqb_eq in E2. subst s2.
      exfalso. rewrite Forall_forall in HF. apply (blt_irrefl sch). apply HF.
      apply in_map_iff. exists (sch, ps2). split; [reflexivity | exact Hin2]. }
    rewrite Hr, orb_false_r. unfold sc_match. rewrite RadixP.beqb_refl.
    unfold code_match, shift. rewrite off_eq, wild_eq, !memZ_existsb, <- existsb_orb.
    apply existsb_ext_in'. intros x _. cbn [andb]. destruct w; [|reflexivity].
    replace (65536 - 65537)%Z with (-1)%Z by lia. reflexivity.
  - rewrite (existsb_false _ ps).
    + cbn [orb]. apply IH. exact HS.
    + intros x _. unfold sc_match. rewrite (RadixP.beqb_sym s sch), E. reflexivity.
Qed.

Lemma cut_prefix_self a r : cut_prefix a (a ++ r) = Some r.
Proof. induction a as [|x a IH]; [reflexivity|]. cbn [app cut_prefix]. rewrite N.eqb_refl. exact IH. Qed.

Lemma cut_prefix_some p : forall h r, cut_prefix p h = Some r -> h = p ++ r.
Proof.
  induction p as [|x p IH]; intros h r H; [cbn in H; injection H as <-; reflexivity|].
  destruct h as [|y h]; [discriminate|]. cbn [cut_prefix] in H.
  destruct (x =? y) eqn:E; [|discriminate]. assert (x = y) by lia. subst y.
  cbn [app]. f_equal. apply IH. exact H.
Qed.

Lemma hostm_prefix w a k h : hostm w (a ++ k) (a ++ h) = hostm w k h.
Proof. rewrite hostm_app, cut_prefix_self. reflexivity. Qed.

Lemma hostm_cons_ne w c t c' t' : c <> c' -> hostm w (c :: t) (c' :: t') = false.
Proof. intros H. unfold hostm. cbn [cut_prefix]. destruct (c =? c') eqn:E; [lia | reflexivity]. Qed.

Lemma ematch_prefix a h sch q k s code :
  ematch (a ++ h) sch q (a ++ k, s, code) = ematch h sch q (k, s, code).
Proof. unfold ematch. rewrite !hostm_prefix. reflexivity. Qed.

(* a child whose suffix is not a prefix of the remaining host contributes nothing *)
Lemma child_nomatch ch tot h sch q :
  match cut_prefix (rsuf_of ch) h with Some _ => False | None => True end ->
  existsb (ematch (tot ++ h) sch q) (entries ch tot) = false.
Proof.
  intros Hc. apply existsb_false. intros [[k s] code] Hin.
  destruct (entries_key_prefix _ _ _ Hin) as [k' Hk]. cbn [fst] in Hk. subst k.
  rewrite ematch_prefix. unfold ematch. rewrite !hostm_app.
  destruct (cut_prefix (rsuf_of ch) h); [destruct Hc|]. rewrite !andb_false_r. destruct (code <? 0)%Z; apply andb_false_r.
Qed.

Lemma contains_entries : forall n, wf2 n -> forall acc h sch q, (0 <= q <= 65535)%Z ->
  contains n h sch q = existsb (ematch (acc ++ rsuf_of n ++ h) sch q) (entries n acc).
Proof.
  induction n as [suf kids ents IH] using node_ind'. intros Hwf acc h sch q Hq.
  apply wf2_inv in Hwf. destruct Hwf as (Hes & Hs & Hk & Hl).
  rewrite contains_eq, entries_eq, existsb_app. cbn [rsuf_of]. rewrite app_assoc.
  set (tot := acc ++ suf).
  (* the entries stored in this node *)
  assert (Hhere : existsb (ematch (tot ++ h) sch q) (ents_entries tot ents) =
                  ents_contains ents sch q (negb (nilb h))).
  { rewrite (ents_contains_entries tot _ _ _ _ Hes). apply existsb_ext_in'.
    intros [[k s] code] Hin. unfold ents_entries in Hin. apply in_flat_map in Hin.
    destruct Hin as [[s2 ps2] [_ Hin]]. apply in_map_iff in Hin. destruct Hin as [p0 [Heq _]].
    injection Heq as <- _ _. rewrite <- (app_nil_r tot) at 2. rewrite ematch_prefix.
    unfold ematch, sc_match, code_match, hostm. cbn [cut_prefix].
    destruct (beqb s sch); cbn [andb]; [|reflexivity].
    destruct h as [|c t]; cbn [nilb negb]; destruct (code <? 0)%Z eqn:E; rewrite ?andb_true_r, ?andb_false_r;
      try reflexivity; lia. }
  rewrite Hhere. destruct h as [|c t].
  - (* nothing left of the host: no child matches *)
    cbn [nilb negb]. rewrite existsb_false; [rewrite orb_false_r; reflexivity|].
    intros e Hin. unfold kids_entries in Hin. apply in_flat_map in Hin. destruct Hin as [[l ch] [Hch Hin]].
    cbn [snd] in Hin. rewrite Forall_forall in Hl. destruct (Hl _ Hch) as [t Ht]. cbn [fst snd] in Ht.
    pose proof (child_nomatch ch tot [] sch q) as Hn. rewrite Ht in Hn. specialize (Hn I).
    exact (existsb_false_inv _ _ Hn _ Hin).
  - cbn [nilb negb]. destruct (ents_contains ents sch q true); [reflexivity|]. cbn [orb].
    (* exactly the child labelled c can match *)
    clear Hhere Hes. unfold kids_entries.
    induction kids as [|[l ch] r IHk]; [reflexivity|].
    destruct Hs as [Hgt Hs]. inversion IH as [|? ? IH1 IH2]; subst. inversion Hk as [|? ? Hk1 Hk2]; subst.
    inversion Hl as [|? ? Hl1 Hl2]; subst. cbn [fst snd] in *.
    cbn [find_kid flat_map snd]. rewrite existsb_app. destruct Hl1 as [t' Ht'].
    destruct (l =? c) eqn:E.
    + assert (l = c) by lia. subst l.
      (* the later children have larger labels *)
      assert (Hrest : existsb (ematch (tot ++ c :: t) sch q) (flat_map (fun kv => entries (snd kv) tot) r) = false).
      { apply existsb_false. intros e Hin. apply in_flat_map in Hin. destruct Hin as [[l2 ch2] [Hch2 Hin]].
        cbn [snd] in Hin. rewrite Forall_forall in Hl2. destruct (Hl2 _ Hch2) as [t2 Ht2]. cbn [fst snd] in Ht2.
        unfold labels_gt in Hgt. rewrite Forall_forall in Hgt. specialize (Hgt _ Hch2). cbn [fst] in Hgt.
        pose proof (child_nomatch ch2 tot (c :: t) sch q) as Hn. rewrite Ht2 in Hn. cbn [cut_prefix] in Hn.
        destruct (l2 =? c) eqn:E2; [lia|]. specialize (Hn I). exact (existsb_false_inv _ _ Hn _ Hin). }
      rewrite Hrest, orb_false_r. unfold contains_child. destruct ch as [csuf ckids cents]. cbn [rsuf_of] in *.
      destruct (cut_prefix csuf (c :: t)) as [h'|] eqn:Ecp.
      * rewrite (IH1 Hk1 tot h' sch q Hq). cbn [rsuf_of].
        rewrite (cut_prefix_some _ _ _ Ecp). reflexivity.
      * symmetry. apply child_nomatch. cbn [rsuf_of]. rewrite Ecp. exact I.
    + rewrite (child_nomatch ch tot (c :: t) sch q).
      * cbn [orb]. apply IHk; assumption.
      * rewrite Ht'. cbn [cut_prefix]. rewrite E. exact I.
Qed.

(* ------------------------------------------------------------------------------------------ *)
(* where entries come from                                                                     *)

Lemma ents_find_In sch e ps : ents_find sch e = Some ps -> In (sch, ps) e.
Proof.
  induction e as [|[s q] r IH]; [discriminate|]. cbn [ents_find].
  destruct (beqb sch s) eqn:E.
  - apply RadixP.beqb_eq in E. subst s. intros H. injection H as <-. left. reflexivity.
  - intros H. right. exact (IH H).
Qed.

Lemma In_ents_put sch ps e s' ps' : In (s', ps') (ents_put sch ps e) -> (s' = sch /\ ps' = ps) \/ In (s', ps') e.
Proof.
  induction e as [|[s q] r IH]; cbn [ents_put].
  - intros [H|[]]. injection H as <- <-. auto.
  - destruct (beqb sch s).
    + intros [H|H]; [injection H as <- <-; auto | right; right; exact H].
    + destruct (bltb sch s).
      * intros [H|H]; [injection H as <- <-; auto | right; exact H].
      * intros [H|H]; [right; left; exact H|]. destruct (IH H) as [H'|H']; [auto | right; right; exact H'].
Qed.

Lemma In_insert_sortedZ x y l : In x (insert_sortedZ y l) -> x = y \/ In x l.
Proof.
  induction l as [|z l IH]; cbn [insert_sortedZ].
  - intros [H|[]]; auto.
  - destruct (y <=? z)%Z.
    + intros [H|H]; auto.
    + intros [H|H]; [right; left; exact H|]. destruct (IH H); [auto | right; right; assumption].
Qed.

Lemma In_delete_same_sign x l v : In x (delete_same_sign l v) -> In x l.
Proof. unfold delete_same_sign. destruct (v <? 0)%Z; intros H; apply filter_In in H; apply H. Qed.

Lemma ents_entries_add k e sch p w en :
  In en (ents_entries k (ents_add e sch p w)) -> In en (ents_entries k e) \/ en = (k, sch, shift w p).
Proof.
  unfold ents_add. destruct (ents_contains e sch (shift w p) w); [auto|].
  intros H. apply In_ents_entries in H. destruct H as [s [ps [code [H1 [H2 ->]]]]].
  destruct (ents_find sch e) as [ps0|] eqn:Ef; apply In_ents_put in H1; destruct H1 as [[-> ->]|H1].
  - apply In_insert_sortedZ in H2. destruct H2 as [->|H2]; [right; reflexivity|]. left.
    apply In_ents_entries. exists sch, ps0, code. split; [apply ents_find_In, Ef|]. split; [|reflexivity].
    destruct (shift w p =? shift w origins_wildcardPort)%Z; [apply In_delete_same_sign in H2|]; exact H2.
  - left. apply In_ents_entries. exists s, ps, code. auto.
  - destruct H2 as [<-|[]]. right. reflexivity.
  - left. apply In_ents_entries. exists s, ps, code. auto.
Qed.

Lemma In_insert_kids f c ks kv : In kv (insert_kids f c ks) ->
  In kv ks \/ kv = (c, f None) \/ exists ch, In (c, ch) ks /\ kv = (c, f (Some ch)).
Proof.
  induction ks as [|[l ch] r IH]; cbn [insert_kids].
  - intros [<-|[]]. auto.
  - destruct (c <? l).
    + intros [<-|H]; auto.
    + destruct (c =? l) eqn:E.
      * assert (c = l) by lia. subst l. intros [<-|H]; [|left; right; exact H].
        right. right. exists ch. split; [left; reflexivity | reflexivity].
      * intros [<-|H]; [left; left; reflexivity|].
        destruct (IH H) as [H'|[H'|[ch' [H1 H2]]]]; [left; right; exact H' | auto |].
        right. right. exists ch'. split; [right; exact H1 | exact H2].
Qed.

Lemma In_upsert2 l2 (x : node) l1 y kv : In kv (upsert l2 x [(l1, y)]) -> kv = (l2, x) \/ kv = (l1, y).
Proof.
  cbn [upsert]. destruct (l2 =? l1); [intros [<-|[]]; auto|].
  destruct (l2 <? l1); intros [<-|[<-|[]]]; auto.
Qed.

Lemma entries_leaf s sch p w tot en :
  In en (entries (Node s [] (ents_add [] sch p w)) tot) -> en = (tot ++ s, sch, shift w p).
Proof.
  rewrite entries_eq. unfold kids_entries. cbn [flat_map]. rewrite app_nil_r. intros H.
  apply ents_entries_add in H. destruct H as [H|H]; [destruct H | exact H].
Qed.

(* moving a prefix of the suffix into the accumulator *)
Lemma entries_resuf a c kids ents tot :
  entries (Node c kids ents) (tot ++ a) = entries (Node (a ++ c) kids ents) tot.
Proof. rewrite !entries_eq, <- !app_assoc. reflexivity. Qed.

Lemma entries_insert sch p w : forall n s acc en,
  In en (entries (insert n s sch p w) acc) ->
  In en (entries n acc) \/ en = (acc ++ rsuf_of n ++ s, sch, shift w p).
Proof.
  induction n as [suf kids ents IH] using node_ind'. intros s acc en.
  rewrite insert_eq. cbn [rsuf_of]. destruct s as [|c s'].
  - rewrite !entries_eq, app_nil_r. intros H. apply in_app_or in H. destruct H as [H|H].
    + apply ents_entries_add in H. destruct H as [H|H]; [left; apply in_or_app; left; exact H | right; exact H].
    + left. apply in_or_app. right. exact H.
  - destruct (ents_contains ents sch p true); [auto|].
    rewrite !entries_eq. intros H. apply in_app_or in H. destruct H as [H|H].
    { left. apply in_or_app. left. exact H. }
    unfold kids_entries in H. apply in_flat_map in H. destruct H as [kv [Hkv H]].
    apply In_insert_kids in Hkv. destruct Hkv as [Hkv|[->|[ch [Hch ->]]]].
    + left. apply in_or_app. right. unfold kids_entries. apply in_flat_map. exists kv. auto.
    + right. cbn [snd ins_child] in H. apply entries_leaf in H. rewrite H, <- app_assoc. reflexivity.
    + cbn [snd] in H. rewrite Forall_forall in IH. specialize (IH _ Hch). cbn [snd] in IH.
      assert (Hold : forall e0, In e0 (entries ch (acc ++ suf)) ->
                       In e0 (ents_entries (acc ++ suf) ents ++ kids_entries (acc ++ suf) kids)).
      { intros e0 H0. apply in_or_app. right. unfold kids_entries. apply in_flat_map. exists (c, ch). auto. }
      destruct ch as [csuf ckids cents]. unfold ins_child in H.
      pose proof (common_prefix_spec (c :: s') csuf) as Hcp.
      destruct (common_prefix (c :: s') csuf) as [[ps pc] com]. destruct Hcp as (Hs1 & Hc1 & _).
      rewrite Hs1. destruct pc as [|l1 pc'].
      * rewrite app_nil_r in Hc1. subst csuf. apply IH in H. cbn [rsuf_of] in H.
        destruct H as [H|H]; [left; apply Hold; exact H | right; rewrite H, <- !app_assoc; reflexivity].
      * subst csuf. destruct ps as [|l2 ps'].
        -- rewrite entries_eq in H. apply in_app_or in H. destruct H as [H|H].
           ++ apply ents_entries_add in H. destruct H as [[]|H]. right. rewrite H, app_nil_r, <- app_assoc. reflexivity.
           ++ unfold kids_entries in H. cbn [flat_map snd] in H. rewrite app_nil_r in H.
              rewrite entries_resuf in H. left. apply Hold. exact H.
        -- rewrite entries_eq in H. apply in_app_or in H. destruct H as [[]|H].
           unfold kids_entries in H. apply in_flat_map in H. destruct H as [kv [Hkv H]].
           apply In_upsert2 in Hkv. destruct Hkv as [->| ->]; cbn [snd] in H.
           ++ apply entries_leaf in H. right. rewrite H, <- !app_assoc. reflexivity.
           ++ rewrite entries_resuf in H. left. apply Hold. exact H.
Qed.

(* the entry a pattern is stored as *)
Definition entry_of (p : pattern) : entry :=
  match pvalue p with
  | 42 :: s' => (rev s', pscheme p, shift true (pport p))
  | s => (rev s, pscheme p, shift false (pport p))
  end.

Lemma entry_of_cases p :
  (exists s', pvalue p = 42 :: s' /\ entry_of p = (rev s', pscheme p, shift true (pport p))) \/
  ((forall s', pvalue p <> 42 :: s') /\ entry_of p = (rev (pvalue p), pscheme p, shift false (pport p))).
Proof.
  unfold entry_of. destruct (pvalue p) as [|c s']; [right; split; [discriminate | reflexivity]|].
  destruct (N.eq_dec c 42) as [->|Hc]; [left; exists s'; split; reflexivity|].
  right. split; [congruence|]. not_star c Hc.
Qed.

Lemma entries_tree_insert t p en : rsuf_of t = [] ->
  In en (entries (tree_insert t p) []) -> In en (entries t []) \/ en = entry_of p.
Proof.
  intros Hr H.
  destruct (tree_insert_cases t p) as [(s' & Hv & E) | (Hn & E)]; rewrite E in H;
    apply entries_insert in H; (destruct H as [H|H]; [left; exact H | right]); rewrite H, Hr; cbn [app];
    destruct (entry_of_cases p) as [(s'' & Hv' & ->) | (Hn' & ->)].
  - rewrite Hv in Hv'. injection Hv' as <-. reflexivity.
  - exfalso. exact (Hn' _ Hv).
  - exfalso. exact (Hn _ Hv').
  - reflexivity.
Qed.

Lemma entries_fold ps : forall t en, rsuf_of t = [] ->
  In en (entries (fold_left tree_insert ps t) []) -> In en (entries t []) \/ exists p, In p ps /\ en = entry_of p.
Proof.
  induction ps as [|p ps IH]; intros t en Hr H; [left; exact H|]. cbn [fold_left] in H.
  apply IH in H; [|rewrite rsuf_tree_insert; exact Hr].
  destruct H as [H|[p' [H1 H2]]].
  - apply entries_tree_insert in H; [|exact Hr]. destruct H as [H|H]; [left; exact H|].
    right. exists p. split; [left; reflexivity | exact H].
  - right. exists p'. split; [right; exact H1 | exact H2].
Qed.

Theorem entries_build ps en : In en (entries (build ps) []) -> exists p, In p ps /\ en = entry_of p.
Proof.
  intros H. apply entries_fold in H; [|reflexivity]. destruct H as [H|H]; [|exact H].
  cbn in H. destruct H.
Qed.

(* an entry of a pattern matches exactly the origins the pattern denotes *)
Lemma ematch_entry_of p o : valid_pattern p -> valid_origin o ->
  ematch (rev (hvalue (ohost o))) (oscheme o) (oport o) (entry_of p) = denotes p o.
Proof.
  unfold valid_pattern, valid_origin. intros Hp Ho. unfold denotes, port_denotes, wildcard_port.
  destruct (entry_of_cases p) as [(s' & Hv & ->) | (Hn & ->)]; unfold ematch, shift; rewrite ?off_eq.
  - replace (pport p - 65537 <? 0)%Z with true by lia.
    destruct (host_denotes_cases (pvalue p) (hvalue (ohost o))) as [(s'' & Hv' & ->) | (Hn & _)].
    + rewrite Hv in Hv'. injection Hv' as <-. rewrite hostm_true. unfold has_suffix. rewrite !rev_length.
      rewrite <- andb_assoc. f_equal. f_equal. lia.
    + exfalso. exact (Hn _ Hv).
  - replace (pport p <? 0)%Z with false by lia.
    destruct (host_denotes_cases (pvalue p) (hvalue (ohost o))) as [(s'' & Hv' & _) | (_ & ->)].
    + exfalso. exact (Hn _ Hv').
    + rewrite hostm_false, beqb_rev. rewrite <- andb_assoc. f_equal. f_equal. lia.
Qed.

(* Tree.Contains on a built tree, through its entries *)
Theorem tree_contains_entries ps o : valid_origin o ->
  tree_contains (build ps) o =
  existsb (ematch (rev (hvalue (ohost o))) (oscheme o) (oport o)) (entries (build ps) []).
Proof.
  intros Ho. unfold tree_contains.
  rewrite (contains_entries _ (wf2_build ps) [] _ _ _ Ho), rsuf_build. reflexivity.
Qed.

Print Assumptions tree_contains_entries.
Print Assumptions entries_build.
