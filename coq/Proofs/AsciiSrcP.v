(* Proofs/AsciiSrcP.v -- the generated translation of internal/util/asciiset.go (Gen/AsciiSrc.v):
   membership in the bit set built by MakeASCIISet is membership in the defining string. *)
Require Import Base.Bytes Model.AsciiRt Gen.AsciiSrc.
From Coq Require Import ZifyBool ZifyNat ZifyN.
Ltac Zify.zify_post_hook ::= Z.div_mod_to_equations.
Open Scope N_scope.

(* ---- set_word ---- *)

Lemma set_word_nat_length (l : list N) : forall (i : nat) (w : N),
  length (set_word_nat l i w) = length l.
Proof.
  induction l as [|x r IH]; intros i w; [reflexivity|].
  destruct i as [|i']; cbn [set_word_nat length]; [reflexivity|].
  now rewrite IH.
Qed.

Lemma set_word_nat_nth_same (l : list N) : forall (i : nat) (w d : N),
  (i < length l)%nat -> nth i (set_word_nat l i w) d = w.
Proof.
  induction l as [|x r IH]; intros i w d Hi; cbn [length] in Hi; [lia|].
  destruct i as [|i']; cbn [set_word_nat nth]; [reflexivity|].
  apply IH. lia.
Qed.

Lemma set_word_nat_nth_other (l : list N) : forall (i j : nat) (w d : N),
  j <> i -> nth j (set_word_nat l i w) d = nth j l d.
Proof.
  induction l as [|x r IH]; intros i j w d Hji; [reflexivity|].
  destruct i as [|i']; destruct j as [|j']; cbn [set_word_nat nth]; try reflexivity; try lia.
  apply IH. lia.
Qed.

Lemma set_word_nat_out (l : list N) : forall (i : nat) (w : N),
  (length l <= i)%nat -> set_word_nat l i w = l.
Proof.
  induction l as [|x r IH]; intros i w Hi; [reflexivity|].
  cbn [length] in Hi. destruct i as [|i']; [lia|].
  cbn [set_word_nat]. f_equal. apply IH. lia.
Qed.

(* ---- one bit ---- *)

Lemma u32_pow2 (k : N) : k < 32 -> u32 (N.shiftl 1 k) = 2 ^ k.
Proof.
  intros Hk. unfold u32. rewrite N.shiftl_1_l.
  apply N.mod_small.
  change 4294967296 with (2 ^ 32).
  apply N.pow_lt_mono_r; lia.
Qed.

Lemma land_pow2_testbit (x k : N) :
  negb (N.land x (2 ^ k) =? 0) = N.testbit x k.
Proof.
  destruct (N.testbit x k) eqn:Hb.
  - destruct (N.eqb_spec (N.land x (2 ^ k)) 0) as [He|Hne]; [|reflexivity].
    exfalso.
    assert (Ht : N.testbit (N.land x (2 ^ k)) k = true).
    { rewrite N.land_spec, Hb, N.pow2_bits_true. reflexivity. }
    rewrite He, N.bits_0 in Ht. discriminate.
  - assert (He : N.land x (2 ^ k) = 0).
    { apply N.bits_inj_iff. intros m.
      rewrite N.land_spec, N.bits_0, N.pow2_bits_eqb.
      destruct (N.eqb_spec k m) as [->|Hne].
      - rewrite Hb. reflexivity.
      - apply andb_false_r. }
    rewrite He. reflexivity.
Qed.

(* ---- the loop body and the abstraction ---- *)

Definition step (a : list N) (ch : N) : list N :=
  set_word a (ch / 32)
    (N.lor (nth (N.to_nat (ch / 32)) a 0) (u32 (N.shiftl 1 (ch mod 32)))).

Definition bit (a : list N) (c : N) : bool :=
  N.testbit (nth (N.to_nat (c / 32)) a 0) (c mod 32).

Lemma mod32_lt (c : N) : c mod 32 < 32.
Proof. apply N.mod_lt. discriminate. Qed.

Lemma contains_bit (a : list N) (c : N) : go_ASCIISet_Contains a c = bit a c.
Proof.
  unfold go_ASCIISet_Contains, bit.
  rewrite (u32_pow2 (c mod 32) (mod32_lt c)).
  apply land_pow2_testbit.
Qed.

Lemma step_length (a : list N) (ch : N) : length (step a ch) = length a.
Proof. unfold step, set_word. apply set_word_nat_length. Qed.

Lemma step_bit (a : list N) (ch c : N) :
  length a = 8%nat -> c < 256 -> bit (step a ch) c = (c =? ch) || bit a c.
Proof.
  intros Hlen Hc.
  assert (Hq : c / 32 < 8) by lia.
  destruct (N.ltb_spec (ch / 32) 8) as [Hin|Hout].
  - unfold bit, step, set_word.
    destruct (N.eq_dec (c / 32) (ch / 32)) as [Heq|Hne].
    + rewrite Heq.
      rewrite set_word_nat_nth_same by lia.
      rewrite (u32_pow2 (ch mod 32) (mod32_lt ch)).
      rewrite N.lor_spec, N.pow2_bits_eqb.
      rewrite orb_comm. f_equal.
      destruct (N.eqb_spec (ch mod 32) (c mod 32)) as [Hm|Hm];
        destruct (N.eqb_spec c ch) as [Hcc|Hcc]; try reflexivity; exfalso.
      * apply Hcc.
        rewrite (N.div_mod c 32) by discriminate.
        rewrite (N.div_mod ch 32) by discriminate.
        rewrite Heq, Hm. reflexivity.
      * apply Hm. rewrite Hcc. reflexivity.
    + rewrite set_word_nat_nth_other by lia.
      destruct (N.eqb_spec c ch) as [Hcc|Hcc]; [|reflexivity].
      exfalso. apply Hne. rewrite Hcc. reflexivity.
  - assert (Hstep : step a ch = a).
    { unfold step, set_word. apply set_word_nat_out. lia. }
    rewrite Hstep.
    destruct (N.eqb_spec c ch) as [Hcc|Hcc]; [|reflexivity].
    exfalso. rewrite Hcc in Hq. lia.
Qed.

Lemma fold_step_inv (chars : bytes) : forall (a : list N),
  length a = 8%nat ->
  length (fold_left step chars a) = 8%nat /\
  forall c, c < 256 -> bit (fold_left step chars a) c = memN c chars || bit a c.
Proof.
  induction chars as [|ch r IH]; intros a Hlen.
  - split; [exact Hlen|]. intros c Hc. reflexivity.
  - cbn [fold_left memN].
    assert (Hlen' : length (step a ch) = 8%nat) by (rewrite step_length; exact Hlen).
    destruct (IH (step a ch) Hlen') as [HL HB].
    split; [exact HL|].
    intros c Hc. rewrite (HB c Hc), (step_bit a ch c Hlen Hc).
    rewrite orb_assoc. f_equal. apply orb_comm.
Qed.

(* ---- "for i := range len(chars)" is a fold over the bytes ---- *)

Lemma fold_index_range_gen (suf : bytes) : forall (pre : bytes) (a : list N),
  fold_left (fun (v_as : list N) (v_i : Z) => step v_as (nth (Z.to_nat v_i) (pre ++ suf) 0))
            (map Z.of_nat (seq (length pre) (length suf))) a
  = fold_left step suf a.
Proof.
  induction suf as [|ch r IH]; intros pre a; [reflexivity|].
  cbn [length seq map fold_left].
  rewrite Nat2Z.id.
  rewrite app_nth2 by lia.
  rewrite Nat.sub_diag. cbn [nth].
  specialize (IH (pre ++ [ch]) (step a ch)).
  rewrite <- app_assoc in IH. cbn [app] in IH.
  rewrite app_length in IH. cbn [length] in IH.
  rewrite Nat.add_1_r in IH.
  exact IH.
Qed.

Lemma go_MakeASCIISet_fold (chars : bytes) :
  go_MakeASCIISet chars = fold_left step chars zero_asciiset.
Proof.
  unfold go_MakeASCIISet, index_range.
  exact (fold_index_range_gen chars [] zero_asciiset).
Qed.

Lemma go_MakeASCIISet_length (chars : bytes) : length (go_MakeASCIISet chars) = 8%nat.
Proof.
  rewrite go_MakeASCIISet_fold.
  apply (fold_step_inv chars zero_asciiset). reflexivity.
Qed.

Lemma bit_zero (c : N) : bit zero_asciiset c = false.
Proof.
  unfold bit, zero_asciiset.
  assert (H0 : nth (N.to_nat (c / 32)) [0; 0; 0; 0; 0; 0; 0; 0] 0 = 0).
  { generalize (N.to_nat (c / 32)). intros n.
    do 9 (destruct n as [|n]; [reflexivity|]). reflexivity. }
  rewrite H0. apply N.bits_0.
Qed.

Theorem go_ASCIISet_Contains_Make (chars : bytes) (c : N) :
  (c < 256)%N -> go_ASCIISet_Contains (go_MakeASCIISet chars) c = memN c chars.
Proof.
  intros Hc.
  rewrite contains_bit, go_MakeASCIISet_fold.
  destruct (fold_step_inv chars zero_asciiset eq_refl) as [_ HB].
  rewrite (HB c Hc), bit_zero. apply orb_false_r.
Qed.
