(* Proofs/FirstSrcP.v -- headers.First as translated by tools/genutil (Gen/UtilSrc.v) is the `first3` under which
   tools/genmw reads its call sites (Model/MwRt.v). *)
Require Import Base.Bytes Gen.Tables Model.Util Model.Headers Model.UtilRt Gen.UtilSrc Model.MwRt.

Lemma go_headers_First_eq (h : hmap) (k : bytes) : go_headers_First h k = first3 h k.
Proof.
  unfold go_headers_First, first3, first, map_lookup2.
  destruct (hget h k) as [[|x r]|]; reflexivity.
Qed.
