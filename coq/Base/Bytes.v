(* Base/Bytes.v -- byte strings as lists of N, with Go's string comparison.
   No proofs here: definitions only (so the model still runs when a proof breaks). *)
From Coq Require Export List NArith ZArith Bool Lia.
From Coq Require Ascii String.
Export ListNotations.
Open Scope N_scope.

Definition byte := N.
Definition bytes := list N.

(* string literals -> bytes *)
Fixpoint b (s : String.string) : bytes :=
  match s with
  | String.EmptyString => []
  | String.String c r => Ascii.N_of_ascii c :: b r
  end.

Fixpoint beqb (x y : bytes) : bool :=
  match x, y with
  | [], [] => true
  | a :: x', c :: y' => (a =? c) && beqb x' y'
  | _, _ => false
  end.

(* Go string comparison: lexicographic on bytes *)
Fixpoint bcmp (x y : bytes) : comparison :=
  match x, y with
  | [], [] => Eq
  | [], _ :: _ => Lt
  | _ :: _, [] => Gt
  | a :: x', c :: y' =>
      match a ?= c with
      | Eq => bcmp x' y'
      | r => r
      end
  end.

Definition bltb (x y : bytes) : bool := match bcmp x y with Lt => true | _ => false end.
Definition bleb (x y : bytes) : bool := match bcmp x y with Gt => false | _ => true end.

Fixpoint mem (x : bytes) (l : list bytes) : bool :=
  match l with
  | [] => false
  | y :: r => beqb x y || mem x r
  end.

Fixpoint memN (x : N) (l : list N) : bool :=
  match l with
  | [] => false
  | y :: r => (x =? y) || memN x r
  end.

Fixpoint memZ (x : Z) (l : list Z) : bool :=
  match l with
  | [] => false
  | y :: r => Z.eqb x y || memZ x r
  end.

(* strings.HasPrefix / CutPrefix *)
Fixpoint has_prefix (p s : bytes) : bool :=
  match p, s with
  | [], _ => true
  | a :: p', c :: s' => (a =? c) && has_prefix p' s'
  | _ :: _, [] => false
  end.

Fixpoint cut_prefix (p s : bytes) : option bytes :=
  match p, s with
  | [], _ => Some s
  | a :: p', c :: s' => if a =? c then cut_prefix p' s' else None
  | _ :: _, [] => None
  end.

Definition has_suffix (p s : bytes) : bool := has_prefix (rev p) (rev s).

(* strings.TrimSuffix with a one-byte suffix *)
Definition trim_suffix_byte (c : N) (s : bytes) : bytes :=
  match rev s with
  | x :: r => if x =? c then rev r else s
  | [] => s
  end.

(* strings.IndexByte as a split: the part before the first occurrence of c and the part after it *)
Fixpoint cut_byte (c : N) (s : bytes) : option (bytes * bytes) :=
  match s with
  | [] => None
  | x :: r =>
      if x =? c then Some ([], r)
      else match cut_byte c r with
           | Some (u, v) => Some (x :: u, v)
           | None => None
           end
  end.

(* strings.Split(s, sep) for a one-byte separator: never returns the empty list *)
Fixpoint split_byte (c : N) (s : bytes) : list bytes :=
  match s with
  | [] => [[]]
  | x :: r =>
      if x =? c then [] :: split_byte c r
      else match split_byte c r with
           | h :: t => (x :: h) :: t
           | [] => [[x]]
           end
  end.

(* strings.Join *)
Fixpoint join (sep : bytes) (l : list bytes) : bytes :=
  match l with
  | [] => []
  | [x] => x
  | x :: r => x ++ sep ++ join sep r
  end.

(* ASCII case mapping (strings.ToLower / ToUpper restricted to ASCII input) *)
Definition lower_byte (c : N) : N := if (65 <=? c) && (c <=? 90) then c + 32 else c.
Definition upper_byte (c : N) : N := if (97 <=? c) && (c <=? 122) then c - 32 else c.
Definition lower (s : bytes) : bytes := map lower_byte s.
Definition upper (s : bytes) : bytes := map upper_byte s.

(* sorted insertion w.r.t. Go string order; models append + slices.Sort on a sorted slice *)
Fixpoint insert_sorted (x : bytes) (l : list bytes) : list bytes :=
  match l with
  | [] => [x]
  | y :: r => if bleb x y then x :: l else y :: insert_sorted x r
  end.

Definition sort_bytes (l : list bytes) : list bytes := fold_right insert_sorted [] l.

Fixpoint insert_sortedZ (x : Z) (l : list Z) : list Z :=
  match l with
  | [] => [x]
  | y :: r => if Z.leb x y then x :: l else y :: insert_sortedZ x r
  end.

(* decimal rendering (strconv.Itoa for non-negative values) *)
Fixpoint digits_fuel (fuel : nat) (n : N) (acc : bytes) : bytes :=
  match fuel with
  | O => acc
  | S f =>
      let d := 48 + n mod 10 in
      if n <? 10 then d :: acc else digits_fuel f (n / 10) (d :: acc)
  end.
Definition itoa (n : N) : bytes := digits_fuel 40 n [].

(* decimal parsing of an all-digit string (strconv.Atoi on such strings) *)
Definition is_digit (c : N) : bool := (48 <=? c) && (c <=? 57).
Fixpoint atoi_acc (s : bytes) (acc : N) : N :=
  match s with
  | [] => acc
  | c :: r => atoi_acc r (10 * acc + (c - 48))
  end.
Definition atoi (s : bytes) : N := atoi_acc s 0.

Definition blen (s : bytes) : N := N.of_nat (length s).

Definition last_opt {A} (l : list A) : option A :=
  match rev l with x :: _ => Some x | [] => None end.

Fixpoint all_bytes (p : N -> bool) (s : bytes) : bool :=
  match s with [] => true | c :: r => p c && all_bytes p r end.
