(* Properties/C17u.v -- no index or slice expression of internal/origins/radix.go is ever out of range: for the
   CHECKED translation of the file (tools/genradix -checked -> Gen/RadixChk.v, regenerated on every run), in which every
   function also returns a flag that is true iff every x[i] and x[lo:hi] evaluated on the way was in range, the flag
   is true on every tree the code can build (invariant gwf, preserved by Insert: Properties/C01t.v) and for every
   pattern with a non-empty host value (what ParsePattern produces: C17_pattern_value_nonempty) and every origin --
   and the other components are exactly what the unchecked translation computes. With Properties/C17t.v (the loops
   terminate) this is "Tree.Insert, Tree.Contains and Tree.Elems return without an index panic" for the translated
   source. Not expressed: nil dereference (the receivers and arguments are never nil at the call sites, which pass
   addresses of locals) and memory exhaustion. Theorems only. *)
Require Import Base.Bytes Gen.Tables Model.Origins Model.Pattern Model.Radix Model.LoopRt Model.RadixRt Gen.RadixSrc Gen.RadixChk.
Require Import Proofs.RadixAbs Proofs.RadixChkP.
Open Scope N_scope.

Theorem C17_source_radix_contains_indexes_in_range : forall t o, gwf t ->
  exists v, chk_Tree_Contains t o = Some (v, true) /\ go_Tree_Contains t o = Some v.
Proof. exact chk_Tree_Contains_ok. Qed.
Print Assumptions C17_source_radix_contains_indexes_in_range.

Theorem C17_source_radix_insert_indexes_in_range : forall t p, gwf t -> pvalue p <> [] ->
  exists t', chk_Tree_Insert t p = Some (t', true) /\ go_Tree_Insert t p = Some t'.
Proof. exact chk_Tree_Insert_ok. Qed.
Print Assumptions C17_source_radix_insert_indexes_in_range.

Theorem C17_source_radix_elems_indexes_in_range : forall t, gwf t ->
  exists l, chk_Tree_Elems t = Some (l, true) /\ go_Tree_Elems t = Some l.
Proof. exact chk_Tree_Elems_ok. Qed.
Print Assumptions C17_source_radix_elems_indexes_in_range.

Theorem C17_source_radix_is_empty_indexes_in_range : forall t, chk_Tree_IsEmpty t = (go_Tree_IsEmpty t, true).
Proof. exact chk_Tree_IsEmpty_ok. Qed.
Print Assumptions C17_source_radix_is_empty_indexes_in_range.

(* the flag is not vacuous: the "non-empty by construction" read of s[0] is flagged on an empty host value, and an
   insertion index beyond the slice is flagged in the generic insert *)
Example C17_source_flag_detects_out_of_range :
  (option_map snd (chk_Tree_Insert zero_gnode {| pscheme := [104]; pvalue := []; pkind_of := KDomain; pport := 0%Z |}),
   snd (chk_insert 0 [1; 2; 3] 5%Z 9))
  = (Some false, false).
Proof. vm_compute. reflexivity. Qed.
