(* Properties/C04.v -- an accepted configuration respects every documented prohibition, and a
   rejected one yields a non-empty error and no middleware.
   [doc_ok] (Spec/ConfigDoc.v) is the conjunction of the prohibitions of the documentation of
   cors.Config / cors.ExtraConfig, written independently of the code.
   Oracles: [ace] (x/net/idna), [ip6] (net/netip) and [psl] (public-suffix list) are arbitrary. *)
Require Import Base.Bytes.
Require Import Model.Netip Model.CfgErrors Model.Config Model.Mw.
Require Import Spec.ConfigDoc.
Require Import Proofs.ValidateP.
Require Import Properties.C05.
Open Scope N_scope.
Import Coq.Strings.String.StringSyntax.
Arguments b _%string_scope.

Theorem C04_accepted_respects_every_prohibition : forall ace ip6 psl c ic,
  new_internal_config ace ip6 psl c = inl ic -> doc_ok ace ip6 psl c = true.
Proof. exact accepted_doc_ok. Qed.
Print Assumptions C04_accepted_respects_every_prohibition.

Theorem C04_rejected_means_error_and_nil_middleware : forall ace ip6 psl c e,
  new_internal_config ace ip6 psl c = inr e ->
  flatten e <> [] /\ mw_new ace ip6 psl c = (None, Some e).
Proof. exact rejected_error_nil_mw. Qed.
Print Assumptions C04_rejected_means_error_and_nil_middleware.

(* Reconfigure with a rejected configuration: same error, middleware state untouched *)
Theorem C04_rejected_reconfigure_keeps_state : forall ace ip6 psl st c e,
  new_internal_config ace ip6 psl c = inr e ->
  step ace ip6 psl st (OReconfigure (Some c)) = (st, Some e).
Proof. exact rejected_reconfigure_keeps_state. Qed.
Print Assumptions C04_rejected_reconfigure_keeps_state.

Theorem C04_doc_ok_iff_no_violation : forall ace ip6 psl c,
  doc_ok ace ip6 psl c = true <-> violations ace ip6 psl c = [].
Proof. exact doc_ok_iff_no_violation. Qed.
Print Assumptions C04_doc_ok_iff_no_violation.

(* ---- non-vacuity (example configurations and oracles of Properties/C05.v) ---- *)
Example C04_ex_accepted :
  match new_internal_config ex_ace ex_ip6 ex_psl ex_good with inl _ => True | inr _ => False end /\
  doc_ok ex_ace ex_ip6 ex_psl ex_good = true.
Proof. vm_compute. split; [exact I | reflexivity]. Qed.

Example C04_ex_rejected :
  doc_ok ex_ace ex_ip6 ex_psl ex_bad = false /\
  fst (mw_new ex_ace ex_ip6 ex_psl ex_bad) = None /\
  match snd (mw_new ex_ace ex_ip6 ex_psl ex_bad) with Some e => length (flatten e) = 18%nat | None => False end.
Proof. vm_compute. repeat split; reflexivity. Qed.

(* each prohibition alone is enough for a rejection: one-field variations of the good example *)
Definition with_origins (l : list bytes) (c : config) : config :=
  {| c_origins := l; c_credentialed := c_credentialed c; c_methods := c_methods c;
     c_req_headers := c_req_headers c; c_max_age := c_max_age c; c_res_headers := c_res_headers c;
     c_status := c_status c; c_pna := c_pna c; c_pna_nocors := c_pna_nocors c;
     c_tol_insecure := c_tol_insecure c; c_tol_psl := c_tol_psl c |}.
Definition with_tol (ti tp : bool) (c : config) : config :=
  {| c_origins := c_origins c; c_credentialed := c_credentialed c; c_methods := c_methods c;
     c_req_headers := c_req_headers c; c_max_age := c_max_age c; c_res_headers := c_res_headers c;
     c_status := c_status c; c_pna := c_pna c; c_pna_nocors := c_pna_nocors c;
     c_tol_insecure := ti; c_tol_psl := tp |}.

Definition rejected (c : config) : bool :=
  match new_internal_config ex_ace ex_ip6 ex_psl c with inl _ => false | inr _ => true end.

Example C04_ex_single_prohibitions :
  map (fun l => (rejected (with_origins l ex_good), doc_ok ex_ace ex_ip6 ex_psl (with_origins l ex_good)))
      [ []; [b "*"]; [b "http://example.com"]; [b "https://*.com"]; [b "https://example.com/"] ]
  = [(true, false); (true, false); (true, false); (true, false); (true, false)] /\
  (* the two tolerance switches lift exactly their own prohibition *)
  rejected (with_tol true false (with_origins [b "http://example.com"] ex_good)) = false /\
  rejected (with_tol false true (with_origins [b "http://example.com"] ex_good)) = true /\
  rejected (with_tol false true (with_origins [b "https://*.com"] ex_good)) = false /\
  rejected (with_tol true false (with_origins [b "https://*.com"] ex_good)) = true.
Proof. vm_compute. repeat split; reflexivity. Qed.
