(* Properties/C12t.v -- the structural facts that make "no history, no shared state" checkable at the source: facts
   about /repo's build that tools/gentables (go/packages, full type information) regenerates into Gen/Tables.v on
   every run. The source translators read named files and give every function value semantics; that is only sound if
   (a) the library consists of exactly the files they read, all of them unconditionally part of the build, and
   (b) no package-level variable is ever written outside its declaration (no init function, no blank variable with
   an initialiser run for its side effect, no assignment, increment, range-assignment or in-place library call rooted
   in a package-level variable anywhere in a function body). Theorems only. *)
Require Import Base.Bytes Gen.Tables.
Import Coq.Strings.String.StringSyntax. Arguments b _%string_scope.

Theorem C12_source_no_package_level_state_is_written :
  build_package_variable_writes = [] /\ build_init_functions = [] /\ build_blank_variables = [] /\
  build_constrained_files = [].
Proof. repeat split; reflexivity. Qed.
Print Assumptions C12_source_no_package_level_state_is_written.

(* every non-test file of the module, as compiled by the default build: each is either translated (middleware.go,
   config.go, radix.go, origins.go, pattern.go, acrh.go, ows.go, common.go, req.go, res.go, methods.go, asciiset.go,
   bytecase.go, set.go, sortedset.go, cfgerrors.go's All) or a doc.go *)
Theorem C12_source_files_are_the_translated_ones :
  build_files =
  [b "cfgerrors/cfgerrors.go"; b "config.go"; b "doc.go";
   b "internal/headers/acrh.go"; b "internal/headers/common.go"; b "internal/headers/doc.go"; b "internal/headers/ows.go";
   b "internal/headers/req.go"; b "internal/headers/res.go";
   b "internal/methods/doc.go"; b "internal/methods/methods.go";
   b "internal/origins/doc.go"; b "internal/origins/origins.go"; b "internal/origins/pattern.go"; b "internal/origins/radix.go";
   b "internal/util/asciiset.go"; b "internal/util/bytecase.go"; b "internal/util/doc.go"; b "internal/util/set.go";
   b "internal/util/sortedset.go"; b "middleware.go"].
Proof. vm_compute. reflexivity. Qed.
Print Assumptions C12_source_files_are_the_translated_ones.
