(* Properties/C14.v -- headers.Check (the ACRH scanner with its bounded look-ahead window) decides
   exactly the naive reading of Access-Control-Request-Headers field lines (Spec/AcrhList.v):
   comma-separated elements, at most one OWS byte on each side of an element, at most 16 empty
   elements overall, and the non-empty elements being allowed names in strictly increasing
   (Go string) order -- for every SortedSet reachable through SortedSet.Add.

   Definitions used in the statements (Proofs/HeadersP.v):
     blt x y        := bltb x y = true                         (Go's x < y on strings)
     sset_inv s     := StronglySorted blt (elems s) /\ maxlen s = fold_right N.max 0 (map blen (elems s))
     subseq l1 l2   := l1 is a subsequence of l2               (inductive: nil / skip / take)
     clean_name n   := n <> [] /\ ~ In 44 n /\ is_ows (hd 0 n) = false /\ is_ows (last n 0) = false *)
Require Import Base.Bytes Model.Util Model.Headers Spec.AcrhList Proofs.HeadersP.
From Coq Require Import Sorted.
Open Scope N_scope.

(* the invariant holds for the empty set and is preserved by SortedSet.Add, hence by NewSet *)
Theorem C14_sset_inv_empty : sset_inv sset_empty.
Proof. exact sset_inv_empty. Qed.
Print Assumptions C14_sset_inv_empty.

Theorem C14_sset_inv_add : forall s e, sset_inv s -> sset_inv (sset_add s e).
Proof. exact sset_inv_add. Qed.
Print Assumptions C14_sset_inv_add.

Theorem C14_sset_inv_fold : forall l, sset_inv (fold_left sset_add l sset_empty).
Proof. exact sset_inv_fold. Qed.
Print Assumptions C14_sset_inv_fold.

(* main theorem: scanner = specification *)
Theorem C14_check_spec : forall set lines,
  sset_inv set -> check set lines = spec_check (elems set) lines.
Proof. exact check_spec. Qed.
Print Assumptions C14_check_spec.

Theorem C14_check_spec_new_set : forall l lines,
  check (new_set l) lines = spec_check (elems (new_set l)) lines.
Proof. exact check_spec_new_set. Qed.
Print Assumptions C14_check_spec_new_set.

(* soundness: an approved list parses, and each of its non-empty element names is an allowed name *)
Theorem C14_sound : forall set lines, sset_inv set -> check set lines = true ->
  forall names, all_names (flat_map (split_byte 44) lines) = Some names ->
  forall n, In n names -> n <> [] -> mem n (elems set) = true.
Proof. exact check_sound_names. Qed.
Print Assumptions C14_sound.

Theorem C14_sound_full : forall set lines, sset_inv set -> check set lines = true ->
  exists names, all_names (flat_map (split_byte 44) lines) = Some names /\
    (length (filter is_empty names) <= 16)%nat /\
    (forall n, In n names -> n <> [] -> mem n (elems set) = true) /\
    strictly_increasing (filter (fun x => negb (is_empty x)) names) = true.
Proof. exact check_sound. Qed.
Print Assumptions C14_sound_full.

(* completeness for Fetch-compliant browsers: any sub-list of the allowed names, in set order and
   joined with commas, is approved (names non-empty, comma-free, without OWS at either end) *)
Theorem C14_complete_for_browsers : forall set sub,
  sset_inv set -> subseq sub (elems set) -> Forall clean_name sub ->
  check set [join [44] sub] = true.
Proof. exact check_complete. Qed.
Print Assumptions C14_complete_for_browsers.

(* non-vacuity *)
From Coq Require String.
Import String.StringSyntax.
Local Open Scope string_scope.
Definition C14_set : sset :=
  new_set [b "x-foo"; b "authorization"; b "content-type"].

Example C14_example_accept :
  check C14_set [b "authorization,content-type"; b ",, x-foo "] = true /\
  spec_check (elems C14_set) [b "authorization,content-type"; b ",, x-foo "] = true.
Proof. vm_compute. split; reflexivity. Qed.

(* out of order; a foreign name; a comma beyond the look-ahead window; two OWS bytes; 17 empties *)
Example C14_example_reject :
  map (fun l => (check C14_set l, spec_check (elems C14_set) l))
      [ [b "content-type,authorization"];
        [b "authorization,x-bar"];
        [b "authorization-and-a-lot-more,x-foo"];
        [b "authorization,  x-foo"];
        [b ",,,,,,,,"; b ",,,,,,,,"] ]
  = [(false, false); (false, false); (false, false); (false, false); (false, false)].
Proof. vm_compute. reflexivity. Qed.

Example C14_example_complete :
  subseq [b "authorization"; b "x-foo"] (elems C14_set) /\
  check C14_set [join [44] [b "authorization"; b "x-foo"]] = true.
Proof. split; [vm_compute; apply subseq_take, subseq_skip, subseq_take, subseq_nil | vm_compute; reflexivity]. Qed.
