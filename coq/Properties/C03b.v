(* Properties/C03b.v -- what "the Origin value of a tuple origin" means in C03, independently of the
   parser's code.  Spec/OriginValue.v gives a declarative grammar [origin_value v sch h ip p] of Origin
   header VALUES (RFC 6454 serialized origins as jub0bs/cors reads them, leniently, on the request
   side); the executable model of origins.Parse (Model/Origins.v: parse, validated against the Go code)
   is sound and complete for it, hence the grammar is functional in the value.  The corollaries spell
   out what can NOT be an Origin value of any origin: upper-case / NUL / non-ASCII bytes (outside
   brackets), anything after the host or the port (path, query, fragment, userinfo, space), malformed
   ports, over-long values.  All proofs are in Proofs/OriginValueP.v. *)
Require Import Base.Bytes Gen.Tables Model.Origins Spec.OriginValue Proofs.OriginValueP.
Import Coq.Strings.String.StringSyntax.
Arguments b _%string_scope.
Open Scope N_scope.

(* the byte classes typed into the specification are the tables of the code *)
Theorem C03_scheme_bytes_table : forall c, is_scheme_byte c = in_set origins_laterSchemeBytes c.
Proof. exact scheme_byte_table. Qed.
Print Assumptions C03_scheme_bytes_table.
Theorem C03_label_bytes_table : forall c, is_label_byte c = in_set origins_asciiLabelBytes c.
Proof. exact label_byte_table. Qed.
Print Assumptions C03_label_bytes_table.
Theorem C03_lower_letters_table : forall c, is_lower_letter c = in_set origins_lowerAlpha c.
Proof. exact lower_letter_table. Qed.
Print Assumptions C03_lower_letters_table.
Theorem C03_digits_table : forall c, is_digit c = in_set origins_digits c.
Proof. exact digit_table. Qed.
Print Assumptions C03_digits_table.

(* ---- soundness, completeness, functionality ---- *)
Theorem C03_parse_sound : forall v o, parse v = Some o ->
  origin_value v (oscheme o) (hvalue (ohost o)) (assume_ip (ohost o)) (oport o).
Proof. exact parse_sound. Qed.
Print Assumptions C03_parse_sound.

Theorem C03_parse_complete : forall v sch h ip p, origin_value v sch h ip p ->
  parse v = Some {| oscheme := sch; ohost := {| hvalue := h; assume_ip := ip |}; oport := p |}.
Proof. exact parse_complete. Qed.
Print Assumptions C03_parse_complete.

Theorem C03_parse_functional : forall v sch h ip p sch' h' ip' p',
  origin_value v sch h ip p -> origin_value v sch' h' ip' p' -> sch = sch' /\ h = h' /\ ip = ip' /\ p = p'.
Proof. exact parse_functional. Qed.
Print Assumptions C03_parse_functional.

Theorem C03_parse_iff : forall v o, parse v = Some o <->
  origin_value v (oscheme o) (hvalue (ohost o)) (assume_ip (ohost o)) (oport o).
Proof. exact parse_iff. Qed.
Print Assumptions C03_parse_iff.

(* soundness, unfolded: a parsed value IS  scheme "://" hosttext porttext  and nothing else *)
Theorem C03_nothing_follows : forall v o, parse v = Some o ->
  exists hosttext porttext,
    v = oscheme o ++ b "://" ++ hosttext ++ porttext /\ (length v <= 327)%nat /\
    scheme_shape (oscheme o) /\
    host_shape hosttext porttext (hvalue (ohost o)) (assume_ip (ohost o)) /\
    port_shape porttext (oport o).
Proof. exact parse_sound. Qed.
Print Assumptions C03_nothing_follows.

(* ---- bytes: no upper-case letter, NUL or non-ASCII byte in the scheme or in a plain host ---- *)
Theorem C03_parsed_bytes : forall v o, parse v = Some o ->
  every is_scheme_byte (oscheme o) /\
  (~ In 91 v -> every (fun c => is_label_byte c || (c =? 46)) (hvalue (ohost o))).
Proof. exact parse_bytes. Qed.
Print Assumptions C03_parsed_bytes.

Theorem C03_scheme_byte_lower_ascii : forall c, is_scheme_byte c = true -> 0 < c < 128 /\ ~ (65 <= c <= 90).
Proof. exact scheme_byte_lower_ascii. Qed.
Print Assumptions C03_scheme_byte_lower_ascii.
Theorem C03_host_byte_lower_ascii : forall c,
  is_label_byte c || (c =? 46) = true -> 0 < c < 128 /\ ~ (65 <= c <= 90).
Proof. exact host_byte_lower_ascii. Qed.
Print Assumptions C03_host_byte_lower_ascii.

(* all bytes of a bracket-less value are  a-z 0-9 + - . _ : /  *)
Theorem C03_plain_value_bytes : forall v o, parse v = Some o -> ~ In 91 v ->
  every (fun c => is_scheme_byte c || (c =? 58) || (c =? 47)) v.
Proof. exact parse_plain_bytes. Qed.
Print Assumptions C03_plain_value_bytes.

Theorem C03_rejects_upper_nul_nonascii : forall v c,
  ~ In 91 v -> In c v -> (c = 0 \/ 128 <= c \/ 65 <= c <= 90) -> parse v = None.
Proof. exact parse_rejects_bad_byte. Qed.
Print Assumptions C03_rejects_upper_nul_nonascii.

(* ---- nothing after a complete value: path, query, fragment, userinfo, space, ... ---- *)
Theorem C03_rejects_trailing_junk : forall s o c t, parse s = Some o ->
  is_label_byte c = false -> c <> 46 -> c <> 58 -> parse (s ++ [c] ++ t) = None.
Proof. exact parse_trailing_junk. Qed.
Print Assumptions C03_rejects_trailing_junk.

Theorem C03_rejects_path_query_fragment_userinfo : forall s o c t, parse s = Some o ->
  In c [47; 63; 35; 64; 32] (* / ? # @ space *) -> parse (s ++ [c] ++ t) = None.
Proof. exact parse_no_path_query_fragment_userinfo. Qed.
Print Assumptions C03_rejects_path_query_fragment_userinfo.

(* ---- ports ---- *)
Theorem C03_port_range : forall v o, parse v = Some o -> (0 <= oport o <= 65535)%Z.
Proof. exact parse_port_range'. Qed.
Print Assumptions C03_port_range.

(* a complete port-less value followed by ":" and any text *)
Theorem C03_port_suffix : forall s o ds, parse s = Some o -> oport o = 0%Z ->
  parse (s ++ [58] ++ ds) =
  match parse_port ds with
  | Some (p, []) => if (length (s ++ [58%N] ++ ds) <=? 327)%nat
                    then Some {| oscheme := oscheme o; ohost := ohost o; oport := p |} else None
  | _ => None
  end.
Proof. exact parse_port_suffix. Qed.
Print Assumptions C03_port_suffix.

Theorem C03_rejects_bad_port : forall s o ds, parse s = Some o -> oport o = 0%Z ->
  (forall p, ~ port_shape ([58] ++ ds) p) -> parse (s ++ [58] ++ ds) = None.
Proof. exact parse_bad_port. Qed.
Print Assumptions C03_rejects_bad_port.

Theorem C03_rejects_leading_zero_port : forall s o ds, parse s = Some o -> oport o = 0%Z ->
  parse (s ++ [58; 48] ++ ds) = None.                                        (* ":0", ":080" *)
Proof. exact parse_port_leading_zero. Qed.
Print Assumptions C03_rejects_leading_zero_port.

Theorem C03_rejects_empty_port : forall s o, parse s = Some o -> oport o = 0%Z -> parse (s ++ [58]) = None.
Proof. exact parse_port_empty. Qed.
Print Assumptions C03_rejects_empty_port.

Theorem C03_rejects_long_port : forall s o ds, parse s = Some o -> oport o = 0%Z -> (6 <= length ds)%nat ->
  parse (s ++ [58] ++ ds) = None.
Proof. exact parse_port_too_long. Qed.
Print Assumptions C03_rejects_long_port.

Theorem C03_rejects_big_port : forall s o ds, parse s = Some o -> oport o = 0%Z -> 65535 < atoi ds ->
  parse (s ++ [58] ++ ds) = None.
Proof. exact parse_port_too_big. Qed.
Print Assumptions C03_rejects_big_port.

(* ---- length ---- *)
Theorem C03_rejects_long_value : forall v, (327 < length v)%nat -> parse v = None.
Proof. exact parse_too_long. Qed.
Print Assumptions C03_rejects_long_value.

(* ---- examples ---- *)
Definition mk (sch h : bytes) (ip : bool) (p : Z) : option origin :=
  Some {| oscheme := sch; ohost := {| hvalue := h; assume_ip := ip |}; oport := p |}.

Example ex_acc_1 : parse (b "https://example.com") = mk (b "https") (b "example.com") false 0.
Proof. vm_compute. reflexivity. Qed.
Example ex_acc_2 : parse (b "http://[::1]:9090") = mk (b "http") (b "::1") true 9090.
Proof. vm_compute. reflexivity. Qed.
Example ex_acc_3 : parse (b "https://a.b.c.:65535") = mk (b "https") (b "a.b.c.") false 65535.
Proof. vm_compute. reflexivity. Qed.
Example ex_acc_4 : parse (b "a://x") = mk (b "a") (b "x") false 0.
Proof. vm_compute. reflexivity. Qed.
(* a bracketed host is taken verbatim, whatever it contains (here: not an IP address; upper case) *)
Example ex_acc_5 : parse (b "https://[x.example.com]") = mk (b "https") (b "x.example.com") true 0.
Proof. vm_compute. reflexivity. Qed.
Example ex_acc_5b : parse (b "https://[EXAMPLE.com]") = mk (b "https") (b "EXAMPLE.com") true 0.
Proof. vm_compute. reflexivity. Qed.
(* the empty host, when a port follows *)
Example ex_acc_6 : parse (b "https://:8080") = mk (b "https") [] false 8080.
Proof. vm_compute. reflexivity. Qed.
Example ex_acc_7 : parse (b "https://[]:1") = mk (b "https") [] true 1.
Proof. vm_compute. reflexivity. Qed.
Example ex_acc_8 : parse (b "http://127.0.0.1:80") = mk (b "http") (b "127.0.0.1") true 80.
Proof. vm_compute. reflexivity. Qed.
Example ex_acc_9 : parse (b "x+y-z._0://foo.1bar.") = mk (b "x+y-z._0") (b "foo.1bar.") true 0.
Proof. vm_compute. reflexivity. Qed.

(* the relation holds of concrete values (through soundness) and determines the parser (completeness) *)
Example ex_rel_1 : origin_value (b "https://example.com") (b "https") (b "example.com") false 0.
Proof. apply (parse_sound (b "https://example.com") {| oscheme := b "https"; ohost := {| hvalue := b "example.com"; assume_ip := false |}; oport := 0 |}). vm_compute. reflexivity. Qed.
Example ex_rel_2 : origin_value (b "http://[::1]:9090") (b "http") (b "::1") true 9090.
Proof. apply (parse_sound (b "http://[::1]:9090") {| oscheme := b "http"; ohost := {| hvalue := b "::1"; assume_ip := true |}; oport := 9090 |}). vm_compute. reflexivity. Qed.
Example ex_rel_3 : ~ origin_value (b "https://example.com") (b "https") (b "example.com") false 443.
Proof. intros H. apply parse_complete in H. vm_compute in H. discriminate. Qed.

Example ex_rej_1 : parse (b "https://EXAMPLE.com") = None. Proof. vm_compute. reflexivity. Qed.
Example ex_rej_2 : parse (b "https://example.com/") = None. Proof. vm_compute. reflexivity. Qed.
Example ex_rej_3 : parse (b "https://user@example.com") = None. Proof. vm_compute. reflexivity. Qed.
Example ex_rej_4 : parse (b "https://example.com:080") = None. Proof. vm_compute. reflexivity. Qed.
Example ex_rej_5 : parse (b "https://example.com:65536") = None. Proof. vm_compute. reflexivity. Qed.
Example ex_rej_6 : parse (b "null") = None. Proof. vm_compute. reflexivity. Qed.
(* "https://ex\u00e9.com" in UTF-8 *)
Example ex_rej_7 : parse (b "https://ex" ++ [195; 169] ++ b ".com") = None. Proof. vm_compute. reflexivity. Qed.
Example ex_rej_8 : parse (b "https://example.com:0") = None. Proof. vm_compute. reflexivity. Qed.
Example ex_rej_9 : parse (b "https://example.com:123456") = None. Proof. vm_compute. reflexivity. Qed.
Example ex_rej_10 : parse (b "https://example.com?x") = None. Proof. vm_compute. reflexivity. Qed.
Example ex_rej_11 : parse (b "https://example.com#x") = None. Proof. vm_compute. reflexivity. Qed.
Example ex_rej_12 : parse (b "https://example.com ") = None. Proof. vm_compute. reflexivity. Qed.
Example ex_rej_13 : parse (b "https://") = None. Proof. vm_compute. reflexivity. Qed.
Example ex_rej_14 : parse (b "https://[x]") = None. Proof. vm_compute. reflexivity. Qed.   (* fewer than 4 bytes after "://" *)
Example ex_rej_15 : parse (b "https://a..b") = None. Proof. vm_compute. reflexivity. Qed.
Example ex_rej_16 : parse (b "https://.a") = None. Proof. vm_compute. reflexivity. Qed.
Example ex_rej_17 : parse (b "HTTPS://example.com") = None. Proof. vm_compute. reflexivity. Qed.
Example ex_rej_18 : parse (b "https://ex" ++ [0] ++ b ".com") = None. Proof. vm_compute. reflexivity. Qed.
(* 327 bytes are accepted, 328 are not *)
Example ex_len_327 : parse (b "https://" ++ repeat 97 319) <> None /\ parse (b "https://" ++ repeat 97 320) = None.
Proof. vm_compute. split; [discriminate | reflexivity]. Qed.

(* the hypotheses of the corollaries are satisfiable *)
Example ex_junk : parse (b "https://example.com") <> None /\
  parse (b "https://example.com" ++ [47] ++ b "path") = None /\
  parse (b "https://example.com:8080" ++ [64] ++ b "host") = None.
Proof. vm_compute. repeat split; discriminate. Qed.
