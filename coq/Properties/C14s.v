(* Properties/C14s.v -- C14: the small helper functions it rests on, stated for the SOURCE.  [go_*] are the Gallina
   functions that tools/genutil regenerates on every run from internal/util/{bytecase,sortedset,set}.go,
   internal/methods/methods.go, internal/headers/{req,res}.go, headers.IsValid and headers.isOWS (coq/Gen/UtilSrc.v);
   standard-library calls are the contract functions of Model/UtilRt.v.  Proofs: Proofs/UtilSrcP.v. *)
Require Import Base.Bytes Gen.Tables Model.Util Model.Headers Model.Methods Model.UtilRt Gen.UtilSrc.
Require Import Proofs.HeadersP Proofs.UtilSrcP.
Import Coq.Strings.String.StringSyntax.
Arguments b _%string_scope.

Theorem C14_source_IndexAfter_is_the_model : forall s n e, sset_inv s -> (-1 <= n)%Z ->
  go_SortedSet_IndexAfter s n e = index_after s n e.
Proof. exact go_SortedSet_IndexAfter_eq. Qed.
Print Assumptions C14_source_IndexAfter_is_the_model.

Theorem C14_source_Add_is_the_model : forall s e, sset_inv s -> go_SortedSet_Add s e = sset_add s e.
Proof. exact go_SortedSet_Add_eq. Qed.
Print Assumptions C14_source_Add_is_the_model.

Theorem C14_source_isOWS_is_the_model : forall c, go_isOWS c = is_ows c.
Proof. exact go_isOWS_eq. Qed.
Print Assumptions C14_source_isOWS_is_the_model.

(* non-vacuity: the translated set functions on a concrete set *)
Example C14_source_runs :
  let s := go_NewSet [b "x-foo"; b "content-type"; b "x-bar"; b "x-foo"] in
  (elems s, maxlen s, go_SortedSet_IndexAfter s (-1) (b "x-bar"), go_SortedSet_IndexAfter s 1 (b "x-bar"),
   go_SortedSet_IndexAfter s 1 (b "x-foo"), map go_isOWS [9; 32; 160; 137]%N)
  = ([b "content-type"; b "x-bar"; b "x-foo"], 12%N, 1%Z, (-1)%Z, 2%Z, [true; true; false; false]).
Proof. vm_compute. reflexivity. Qed.
