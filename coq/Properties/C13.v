(* Properties/C13.v -- the documented grammar of origin patterns (Spec/Grammar.v) against the parsers.
   1. every documented form is accepted, with the expected parse result;
   2. a documented non-wildcard pattern matches the origin written with the same text, at every
      length up to all maxima at once (64-byte scheme, 253-byte host + trailing dot, port 65535);
   3. the documented defect classes are rejected, the error naming the offending string.
   All proofs are in Proofs/GrammarP.v.

   Two side conditions had to be added to the grammar's [g_valid] (both about bracketed hosts, both
   vacuous for real IPv6 texts, whose length is 2..39):
     [g_ip6_min]: the bracket content has at least 2 bytes (fastParseHost reads "[x]" with nothing
                  after it -- 3 bytes -- through its generic loop, not as a bracketed host);
     [g_ip6_max]: the bracket content has at most 39 bytes (only for the 327-byte cap of Parse). *)
Require Import Base.Bytes Gen.Tables Model.Origins Model.Netip Model.Idna Model.Pattern Model.Radix
  Model.CfgErrors Model.Config Spec.Origins Proofs.RadixP Spec.Grammar Proofs.GrammarP.
Open Scope N_scope.
Import Coq.Strings.String.StringSyntax.
Arguments b _%string_scope.

(* ---- the auxiliary notions used below, spelled out (definitions live in Proofs/GrammarP.v) ---- *)
Example g_ip6_min_def : forall g,
  g_ip6_min g = match g_host g with GIPv6 c => (2 <=? length c)%nat | _ => true end.
Proof. reflexivity. Qed.
Example g_ip6_max_def : forall g,
  g_ip6_max g = match g_host g with GIPv6 c => (length c <=? 39)%nat | _ => true end.
Proof. reflexivity. Qed.
Example rejected_def : forall ace ip6 s, rejected ace ip6 s <-> exists r, parse_pattern ace ip6 s = inr r.
Proof. reflexivity. Qed.
Example wtext_def : forall w, wtext w = if w then b "*." else [].
Proof. reflexivity. Qed.
(* the bytes fastParseHost's loop lets through: a-z 0-9 '-' '_' (labels), and '.' *)
Example label_byte_def : forall c, label_byte c = ldh_byte c || (c =? 95).
Proof. reflexivity. Qed.
Example host_byte_def : forall c, host_byte c = label_byte c || (c =? 46).
Proof. reflexivity. Qed.
Example stop_byte_def : forall c, stop_byte c = negb (c =? 46) && negb (label_byte c).
Proof. reflexivity. Qed.
Example stops_def : forall s, stops s = match s with [] => true | c :: _ => stop_byte c end.
Proof. reflexivity. Qed.
Example bad_host_byte_def : forall c, bad_host_byte c = stop_byte c && negb (memN c [58; 91; 42]).
Proof. reflexivity. Qed.
(* a lexable label: non-empty, label bytes only; a digit field: non-empty, digits only *)
Example lab_def : forall l, lab l = match l with [] => false | _ => all_bytes label_byte l end.
Proof. reflexivity. Qed.
Example dig_label_def : forall l, dig_label l = match l with [] => false | _ => all_bytes is_dig l end.
Proof. reflexivity. Qed.
Example last_dig_def : forall ls, last_dig ls = is_dig (nth 0 (last ls []) 0).
Proof. reflexivity. Qed.
Example later_byte_def : forall c, later_byte c = scheme_tail_byte c || (c =? 95).
Proof. reflexivity. Qed.
Example head_fails_def : forall p s, head_fails p s = match s with [] => True | c :: _ => p c = false end.
Proof. reflexivity. Qed.
Example bad_octet_def : forall f,
  bad_octet f = ((2 <=? length f)%nat && (nth 0 f 0 =? 48)) || (255 <? atoi f) || (3 <? length f)%nat.
Proof. reflexivity. Qed.
Example is_ip_host_def : forall h, is_ip_host h = match h with GDomain _ _ => false | _ => true end.
Proof. reflexivity. Qed.
Example host_lex_def : forall h,
  host_lex h = match h with
               | GDomain ls td => negb (match ls with [] => true | _ => false end) && forallb lab ls
               | GIPv4 a c d e => (a <=? 255) && (c <=? 255) && (d <=? 255) && (e <=? 255)
               | GIPv6 c => negb (memN 93 c)
               end.
Proof. reflexivity. Qed.

(* ========================================================================================== *)
(* 1. every documented form is accepted, with the expected result                              *)
Theorem C13_documented_forms_accepted : forall ace ip6 g,
  g_valid ace ip6 g = true -> g_ip6_min g = true ->
  parse_pattern ace ip6 (Spec.Grammar.render g) = inl (expected ip6 g).
Proof. exact documented_forms_accepted. Qed.
Print Assumptions C13_documented_forms_accepted.

(* 2. self-match at every length *)
Theorem C13_self_match : forall ace ip6 g,
  g_valid ace ip6 g = true -> g_ip6_min g = true -> g_ip6_max g = true ->
  g_wild g = false -> g_port g <> GAnyPort ->
  exists o, parse (Spec.Grammar.render g) = Some o /\
            tree_contains (tree_insert empty_tree (expected ip6 g)) o = true.
Proof. exact self_match. Qed.
Print Assumptions C13_self_match.

(* the two lexical interfaces everything is derived from: both parsers on
   scheme "://" ["*."] host rest, for any rest that ends the host (empty, or starting with a byte
   that is neither a label byte nor '.') *)
Theorem C13_parse_pattern_front : forall ace ip6 sch w h rest,
  scheme_ok sch = true -> host_ok ace ip6 sch w h = true -> stops rest = true -> ip6_room h rest ->
  parse_pattern ace ip6 (sch ++ b "://" ++ wtext w ++ host_text h ++ rest) =
  after_host sch (wtext w ++ host_value h) (hkind ip6 w h) rest.
Proof. exact parse_pattern_front. Qed.
Print Assumptions C13_parse_pattern_front.

Theorem C13_parse_front : forall sch h rest,
  scheme_lex sch = true -> host_lex h = true -> stops rest = true -> ip6_room h rest ->
  (length (sch ++ b "://" ++ host_text h ++ rest) <= 327)%nat ->
  parse (sch ++ b "://" ++ host_text h ++ rest) =
  after_host_o sch {| hvalue := host_value h; assume_ip := host_is_ip h |} rest.
Proof. exact parse_front. Qed.
Print Assumptions C13_parse_front.

(* ========================================================================================== *)
(* 3. documented defects are rejected                                                          *)

(* the error value of validateOrigins names the string *)
Theorem C13_error_names_the_string : forall ace ip6 psl cred pna ti tp raw r,
  parse_pattern ace ip6 raw = inr r -> raw <> star ->
  fst (origin_item ace ip6 psl cred pna ti tp raw) = [EOrigin raw r].
Proof. exact error_names_the_string. Qed.
Print Assumptions C13_error_names_the_string.

(* 3a. null, the empty string, the file scheme, scheme lexing, missing "://" *)
Theorem C13_reject_null : forall ace ip6, parse_pattern ace ip6 (b "null") = inr RProhibited.
Proof. exact reject_null. Qed.
Print Assumptions C13_reject_null.

Theorem C13_reject_empty : forall ace ip6, parse_pattern ace ip6 [] = inr RInvalid.
Proof. exact reject_empty. Qed.
Print Assumptions C13_reject_empty.

Theorem C13_reject_file_scheme : forall ace ip6 s rest,
  parse_scheme s = Some (b "file", rest) -> parse_pattern ace ip6 s = inr RProhibited.
Proof. exact reject_file_scheme. Qed.
Print Assumptions C13_reject_file_scheme.

Theorem C13_reject_file : forall ace ip6 t,
  head_fails later_byte t -> parse_pattern ace ip6 (b "file" ++ t) = inr RProhibited.
Proof. exact reject_file. Qed.
Print Assumptions C13_reject_file.

(* leading whitespace, an upper-case letter, a digit, any non-letter as the first byte *)
Theorem C13_reject_bad_first_byte : forall ace ip6 c t, is_lower c = false -> rejected ace ip6 (c :: t).
Proof. exact reject_bad_first_byte. Qed.
Print Assumptions C13_reject_bad_first_byte.

Theorem C13_reject_no_scheme_separator : forall ace ip6 s,
  (forall u v, s <> u ++ b "://" ++ v) -> rejected ace ip6 s.
Proof. exact reject_no_sep. Qed.
Print Assumptions C13_reject_no_scheme_separator.

(* 3b. junk after a valid pattern text: path, query, fragment, whitespace, '@' (userinfo) *)
Theorem C13_reject_junk : forall ace ip6 g c t,
  g_valid ace ip6 g = true -> junk_start c = true -> rejected ace ip6 (Spec.Grammar.render g ++ c :: t).
Proof. exact reject_junk. Qed.
Print Assumptions C13_reject_junk.

(* 3c. ports *)
Theorem C13_reject_bad_port : forall ace ip6 g p,
  g_valid ace ip6 g = true -> g_port g = GNoPort -> bad_port_text p = true ->
  rejected ace ip6 (Spec.Grammar.render g ++ [58] ++ p).
Proof. exact reject_bad_port. Qed.
Print Assumptions C13_reject_bad_port.

Theorem C13_reject_default_port_http : forall ace ip6 g,
  g_valid ace ip6 g = true -> g_port g = GNoPort -> g_scheme g = b "http" ->
  parse_pattern ace ip6 (Spec.Grammar.render g ++ b ":80") = inr RProhibited.
Proof. exact reject_default_port_http. Qed.
Print Assumptions C13_reject_default_port_http.

Theorem C13_reject_default_port_https : forall ace ip6 g,
  g_valid ace ip6 g = true -> g_port g = GNoPort -> g_scheme g = b "https" ->
  parse_pattern ace ip6 (Spec.Grammar.render g ++ b ":443") = inr RProhibited.
Proof. exact reject_default_port_https. Qed.
Print Assumptions C13_reject_default_port_https.

(* 3d. a foreign byte in the host (u: the host bytes read so far), misplaced wildcards *)
Theorem C13_reject_bad_host_byte : forall ace ip6 sch w u c t,
  scheme_ok sch = true -> all_bytes host_byte u = true -> bad_host_byte c = true ->
  rejected ace ip6 (sch ++ b "://" ++ wtext w ++ u ++ c :: t).
Proof. exact reject_bad_host_byte. Qed.
Print Assumptions C13_reject_bad_host_byte.

Theorem C13_upper_or_nonascii_is_bad : forall c,
  ((65 <=? c) && (c <=? 90)) || (128 <=? c) = true -> bad_host_byte c = true.
Proof. exact upper_or_nonascii_bad. Qed.
Print Assumptions C13_upper_or_nonascii_is_bad.

Theorem C13_junk_is_bad : forall c, junk_start c = true -> bad_host_byte c = true.
Proof. exact junk_bad. Qed.
Print Assumptions C13_junk_is_bad.

(* '*' that is not the whole leading label: "a*.x", "x.*", "*x", "*.*.x", "**.x" *)
Theorem C13_reject_misplaced_wildcard : forall ace ip6 sch w u t,
  scheme_ok sch = true -> all_bytes host_byte u = true ->
  w = true \/ u <> [] \/ has_prefix [46] t = false ->
  rejected ace ip6 (sch ++ b "://" ++ wtext w ++ u ++ 42 :: t).
Proof. exact reject_misplaced_wildcard. Qed.
Print Assumptions C13_reject_misplaced_wildcard.

(* "*." before an IP literal *)
Theorem C13_reject_wildcard_ip : forall ace ip6 g,
  scheme_ok (g_scheme g) = true -> g_wild g = true -> is_ip_host (g_host g) = true ->
  host_lex (g_host g) = true -> rejected ace ip6 (Spec.Grammar.render g).
Proof. exact reject_wildcard_ip_g. Qed.
Print Assumptions C13_reject_wildcard_ip.

(* 3e. length limits, for hosts without an "xn--" label (with one, the IDNA oracle decides) *)
Theorem C13_reject_long_label_or_domain : forall ace ip6 g ls td,
  scheme_ok (g_scheme g) = true -> g_host g = GDomain ls td ->
  ls <> [] -> forallb lab ls = true -> existsb is_ace_label ls = false -> last_dig ls = false ->
  existsb (fun l => (63 <? length l)%nat) ls = true \/ (253 < length (join dot ls))%nat ->
  rejected ace ip6 (Spec.Grammar.render g).
Proof. exact reject_long_label_or_domain_g. Qed.
Print Assumptions C13_reject_long_label_or_domain.

(* "*." before more than 251 bytes (trailing dot included; any labels, "xn--" or not) *)
Theorem C13_reject_long_wildcard_domain : forall ace ip6 g ls td,
  scheme_ok (g_scheme g) = true -> g_host g = GDomain ls td -> g_wild g = true ->
  ls <> [] -> forallb lab ls = true -> (251 < length (domain_text ls td))%nat ->
  rejected ace ip6 (Spec.Grammar.render g).
Proof. exact reject_long_wildcard_domain_g. Qed.
Print Assumptions C13_reject_long_wildcard_domain.

(* 3f. IP literals *)
(* a dotted text whose last label starts with a digit is an IPv4 attempt: everything but the
   canonical text of four octets is rejected *)
Theorem C13_reject_noncanonical_ipv4 : forall ace ip6 g ls td,
  scheme_ok (g_scheme g) = true -> g_host g = GDomain ls td ->
  ls <> [] -> forallb lab ls = true -> last_dig ls = true ->
  (forall a c d e, a <= 255 -> c <= 255 -> d <= 255 -> e <= 255 ->
                   domain_text ls td <> host_value (GIPv4 a c d e)) ->
  rejected ace ip6 (Spec.Grammar.render g).
Proof. exact reject_noncanonical_ipv4_g. Qed.
Print Assumptions C13_reject_noncanonical_ipv4.

(* dotted digit fields: a trailing dot, a field count other than 4, a leading zero, a value above
   255, more than 3 digits *)
Theorem C13_reject_bad_ipv4_fields : forall ace ip6 g fs td,
  scheme_ok (g_scheme g) = true -> g_host g = GDomain fs td ->
  fs <> [] -> forallb dig_label fs = true ->
  td = true \/ length fs <> 4%nat \/ existsb bad_octet fs = true ->
  rejected ace ip6 (Spec.Grammar.render g).
Proof. exact reject_bad_ipv4_fields_g. Qed.
Print Assumptions C13_reject_bad_ipv4_fields.

(* bracketed content netip refuses, or accepts with a zone / as IPv4-mapped / with another
   canonical form *)
Theorem C13_reject_bad_ipv6 : forall ace ip6 g c6,
  scheme_ok (g_scheme g) = true -> g_host g = GIPv6 c6 -> memN 93 c6 = false -> first_special c6 = 58 ->
  match ip6 c6 with IPOk canon _ => negb (beqb canon c6) | _ => true end = true ->
  rejected ace ip6 (Spec.Grammar.render g).
Proof. exact reject_bad_ipv6_g. Qed.
Print Assumptions C13_reject_bad_ipv6.

(* ========================================================================================== *)
(* non-vacuity                                                                                 *)

Definition ip6t (s : bytes) : ipres :=
  if beqb s (b "::1") then IPOk s true
  else if beqb s (b "2001:db8::1") then IPOk s false
  else if beqb s (b ":") then IPOk s false               (* a deliberately silly oracle answer *)
  else if beqb s (b "::ffff:1.2.3.4") then IP4in6
  else if beqb s (b "fe80::1%eth0") then IPZone
  else if beqb s (b "0::1") then IPOk (b "::1") true
  else IPErr.
Definition acet (s : bytes) : bool := beqb s (b "xn--bcher-kva.example").

Definition mk (s : String.string) (w : bool) (h : ghost) (p : gport) : gpat :=
  {| g_scheme := b s; g_wild := w; g_host := h; g_port := p |}.
Arguments mk _%string_scope.
Definition l63 : bytes := repeat 97 63.
Definition dom253 : list bytes := [l63; l63; l63; repeat 97 61].
Definition sch64 : bytes := repeat 97 64.
Definition g_max : gpat :=
  {| g_scheme := sch64; g_wild := false; g_host := GDomain dom253 true; g_port := GPort 65535 |}.

Definition valid_examples : list gpat := [
  mk "https" false (GDomain [b "com"] false) GNoPort;
  mk "https" false (GDomain [b "example"; b "com"] false) GNoPort;
  mk "https" false (GDomain [b "a"; b "example"; b "com"] true) GNoPort;
  mk "https" true (GDomain [b "a"; b "b"; b "example"; b "com"] false) GAnyPort;
  mk "https" true (GDomain [b "1a"; b "com"] true) (GPort 8080);
  mk "http" false (GDomain [b "1a"; b "c-0m"] true) (GPort 65535);
  mk "http" false (GDomain [b "1"; b "c1"] true) (GPort 1);
  mk "http" false (GDomain [b "xn--bcher-kva"; b "example"] false) (GPort 443);
  mk "http" false (GDomain [l63; b "com"] false) (GPort 443);
  mk "https" false (GDomain dom253 true) (GPort 80);
  mk "https" true (GDomain [l63; l63; l63; repeat 97 58] true) (GPort 80);
  g_max;
  {| g_scheme := sch64; g_wild := false; g_host := GDomain dom253 true; g_port := GAnyPort |};
  mk "a+b-c.d1" false (GDomain [b "localhost"] false) GNoPort;
  mk "http" false (GIPv4 127 0 0 1) GNoPort;
  mk "http" false (GIPv4 255 255 255 255) GAnyPort;
  mk "http" false (GIPv4 0 0 0 0) (GPort 9090);
  mk "http" false (GIPv6 (b "::1")) (GPort 9090);
  mk "http" false (GIPv6 (b "::1")) GNoPort;
  mk "http" false (GIPv6 (b "2001:db8::1")) GAnyPort ].

Definition pattern_eqb (p q : pattern) : bool :=
  beqb (pscheme p) (pscheme q) && beqb (pvalue p) (pvalue q) &&
  pkind_eqb (pkind_of p) (pkind_of q) && (pport p =? pport q)%Z.

Example C13_hyp_valid_examples :
  forallb (fun g => g_valid acet ip6t g && g_ip6_min g && g_ip6_max g) valid_examples = true.
Proof. vm_compute. reflexivity. Qed.

Example C13_ex_accepted :
  forallb (fun g => match parse_pattern acet ip6t (Spec.Grammar.render g) with
                    | inl p => pattern_eqb p (expected ip6t g) | inr _ => false end) valid_examples = true.
Proof. vm_compute. reflexivity. Qed.

(* all maxima at once: 64-byte scheme, 253-byte host and trailing dot, port 65535 = 327 bytes *)
Example C13_ex_all_maxima :
  g_valid acet ip6t g_max = true /\ length (Spec.Grammar.render g_max) = 327%nat /\
  match parse (Spec.Grammar.render g_max) with
  | Some o => tree_contains (tree_insert empty_tree (expected ip6t g_max)) o
  | None => false
  end = true.
Proof. vm_compute. repeat split; reflexivity. Qed.

(* [g_ip6_min] is needed: with an oracle that accepts ":", "[:]" is documented-valid yet rejected,
   while "[:]:*" is accepted *)
Example C13_ip6_min_needed :
  let g := mk "http" false (GIPv6 (b ":")) GNoPort in
  (g_valid acet ip6t g, parse_pattern acet ip6t (Spec.Grammar.render g)) = (true, inr RProhibited) /\
  let g' := mk "http" false (GIPv6 (b ":")) GAnyPort in
  (g_valid acet ip6t g', match parse_pattern acet ip6t (Spec.Grammar.render g') with inl _ => true | inr _ => false end)
  = (true, true).
Proof. vm_compute. split; reflexivity. Qed.

(* [g_ip6_max] is needed: an oracle accepting an over-long content makes the rendered origin
   longer than 327 bytes, which Parse refuses *)
Example C13_ip6_max_needed :
  let c := b "::" ++ repeat 49 320 in
  let g := {| g_scheme := b "http"; g_wild := false; g_host := GIPv6 c; g_port := GNoPort |} in
  (g_valid acet (fun s => IPOk s false) g, g_ip6_min g, parse (Spec.Grammar.render g)) = (true, true, None).
Proof. vm_compute. reflexivity. Qed.

(* the defect classes on concrete strings *)
Definition verdict (s : bytes) : option reason :=
  match parse_pattern acet ip6t s with inl _ => None | inr r => Some r end.

Example C13_ex_defects :
  map verdict
    [ b "null"; b ""; b "file:///x"; b "file://host"; b " https://a.com"; b "Https://a.com"; b "1https://a.com"; b "https:a.com";
      b "https//a.com"; b "https://a.com/"; b "https://a.com?q"; b "https://a.com#f"; b "https://a.com "; b "https://user@a.com";
      b "https://a.com:*/"; b "https://a.com:8080/x"; b "https://a.com:"; b "https://a.com:0"; b "https://a.com:080";
      b "https://a.com:65536"; b "https://a.com:123456"; b "https://a.com:8*"; b "https://a.com:*8"; b "https://a.com:x";
      b "http://a.com:80"; b "https://a.com:443"; b "https://A.com"; b "https://a.Com";
      b "https://a*.com"; b "https://*a.com"; b "https://a.*"; b "https://*.*.com"; b "http://*.1.2.3.4"; b "http://*.[::1]";
      b "http://01.2.3.4"; b "http://256.1.1.1"; b "http://1.2.3"; b "http://1.2.3.4.5"; b "http://1.2.3.4."; b "http://a.1";
      b "http://[::g]"; b "http://[fe80::1%eth0]"; b "http://[::ffff:1.2.3.4]"; b "http://[0::1]"; b "https://[::1]";
      b "https://127.0.0.1" ]
  = [ Some RProhibited; Some RInvalid; Some RProhibited; Some RProhibited; Some RInvalid; Some RInvalid; Some RInvalid;
      Some RInvalid; Some RInvalid; Some RInvalid; Some RInvalid; Some RInvalid; Some RInvalid; Some RInvalid;
      Some RInvalid; Some RInvalid; Some RInvalid; Some RInvalid; Some RInvalid;
      Some RInvalid; Some RInvalid; Some RInvalid; Some RInvalid; Some RInvalid;
      Some RProhibited; Some RProhibited; Some RProhibited; Some RInvalid;
      Some RInvalid; Some RProhibited; Some RInvalid; Some RProhibited; Some RInvalid; Some RInvalid;
      Some RInvalid; Some RInvalid; Some RInvalid; Some RInvalid; Some RInvalid; Some RInvalid;
      Some RInvalid; Some RInvalid; Some RProhibited; Some RProhibited; Some RInvalid;
      Some RInvalid ].
Proof. vm_compute. reflexivity. Qed.

(* the hypotheses of the host-level defect theorems on concrete values *)
Definition verdict_g (g : gpat) : option reason :=
  match parse_pattern acet ip6t (Spec.Grammar.render g) with inl _ => None | inr r => Some r end.

Example C13_hyp_long_label :
  let ls := [repeat 97 64; b "com"] in
  (forallb lab ls, existsb is_ace_label ls, last_dig ls, existsb (fun l => (63 <? length l)%nat) ls,
   verdict_g (mk "https" false (GDomain ls false) GNoPort))
  = (true, false, false, true, Some RProhibited).
Proof. vm_compute. reflexivity. Qed.

Example C13_hyp_long_domain :
  let ls := [l63; l63; l63; repeat 97 62] in
  (forallb lab ls, existsb is_ace_label ls, last_dig ls, (253 <? length (join dot ls))%nat,
   verdict_g (mk "https" false (GDomain ls true) (GPort 8080)))
  = (true, false, false, true, Some RProhibited).
Proof. vm_compute. reflexivity. Qed.

Example C13_hyp_long_wildcard_domain :
  let ls := [l63; l63; l63; repeat 97 60] in
  (forallb lab ls, (251 <? length (domain_text ls false))%nat,
   verdict_g (mk "https" true (GDomain ls false) GNoPort), verdict_g (mk "https" false (GDomain ls false) GNoPort))
  = (true, true, Some RInvalid, None).
Proof. vm_compute. reflexivity. Qed.

Example C13_hyp_bad_ipv4_fields :
  map (fun fs => (forallb dig_label fs, negb (length fs =? 4)%nat, existsb bad_octet fs,
                  verdict_g (mk "http" false (GDomain fs false) GNoPort)))
      [ [b "01"; b "2"; b "3"; b "4"]; [b "256"; b "1"; b "1"; b "1"]; [b "1"; b "2"; b "3"];
        [b "1"; b "2"; b "3"; b "0004"]; [b "1"; b "2"; b "3"; b "4"] ]
  = [ (true, false, true, Some RInvalid); (true, false, true, Some RInvalid); (true, true, false, Some RInvalid);
      (true, false, true, Some RInvalid); (true, false, false, None) ].
Proof. vm_compute. reflexivity. Qed.

Example C13_hyp_bad_host_byte :
  (all_bytes host_byte (b "a.b-c_d.9"), map bad_host_byte [65; 90; 128; 255; 47; 64; 32; 37; 94],
   map bad_host_byte [58; 91; 42; 46; 97; 48; 45; 95])
  = (true, [true; true; true; true; true; true; true; true; true],
     [false; false; false; false; false; false; false; false]).
Proof. vm_compute. reflexivity. Qed.

(* ========================================================================================== *)
(* the IPv6 oracle instantiated by the executable model of net/netip (Model/Netip6.v, compared  *)
(* with the real library on every run by the `netip` family): the two side conditions on        *)
(* bracketed hosts are theorems of the model, and "canonical RFC 5952 text" is computed          *)
Require Import Model.Netip6 Proofs.Netip6P Proofs.Netip6GrammarP.

(* the model never runs out of fuel, a parse yields eight groups, their canonical text has 2..39 bytes *)
Theorem C13_netip6_fuel : forall a, parse6 a <> NoFuel.
Proof. exact parse6_fuel. Qed.
Print Assumptions C13_netip6_fuel.

Theorem C13_netip6_eight_groups : forall a gs, parse6 a = Groups gs -> length gs = 8%nat.
Proof. exact parse6_len. Qed.
Print Assumptions C13_netip6_eight_groups.

Theorem C13_netip6_render_length : forall gs, length gs = 8%nat -> (2 <= length (render6 gs) <= 39)%nat.
Proof. exact render6_len. Qed.
Print Assumptions C13_netip6_render_length.

Theorem C13_netip6_canonical_text : forall s canon lb,
  ip6_model s = IPOk canon lb ->
  exists gs, length gs = 8%nat /\ canon = render6 gs /\ lb = is_loopback6 gs /\ is_4in6 gs = false.
Proof. exact ip6_model_ok_inv. Qed.
Print Assumptions C13_netip6_canonical_text.

Theorem C13_netip6_bracket_content_length : forall ace g c,
  g_valid ace ip6_model g = true -> g_host g = GIPv6 c -> (2 <= length c <= 39)%nat.
Proof. exact g_valid_ip6_len. Qed.
Print Assumptions C13_netip6_bracket_content_length.

Theorem C13_netip6_ip6_min : forall ace g, g_valid ace ip6_model g = true -> g_ip6_min g = true.
Proof. exact g_valid_ip6_min. Qed.
Print Assumptions C13_netip6_ip6_min.

Theorem C13_netip6_ip6_max : forall ace g, g_valid ace ip6_model g = true -> g_ip6_max g = true.
Proof. exact g_valid_ip6_max. Qed.
Print Assumptions C13_netip6_ip6_max.

(* 1. and 2. without the side conditions *)
Theorem C13_documented_forms_accepted_netip6 : forall ace g,
  g_valid ace ip6_model g = true ->
  parse_pattern ace ip6_model (Spec.Grammar.render g) = inl (expected ip6_model g).
Proof. exact documented_forms_accepted_netip6. Qed.
Print Assumptions C13_documented_forms_accepted_netip6.

Theorem C13_self_match_netip6 : forall ace g,
  g_valid ace ip6_model g = true -> g_wild g = false -> g_port g <> GAnyPort ->
  exists o, parse (Spec.Grammar.render g) = Some o /\
            tree_contains (tree_insert empty_tree (expected ip6_model g)) o = true.
Proof. exact self_match_netip6. Qed.
Print Assumptions C13_self_match_netip6.

(* round trip: the canonical text (Addr.String) of ANY eight 16-bit groups parses back to exactly
   those groups; hence every canonical text of an address that is not IPv4-mapped is accepted as
   itself, and is a documented-valid bracketed host ("RFC 5952 canonical form" is computed, not
   relative to an oracle) *)
Example g16_def : forall gs, g16 gs = Forall (fun x => x < 65536) gs.
Proof. reflexivity. Qed.

Theorem C13_netip6_parse_render : forall gs, length gs = 8%nat -> g16 gs -> parse6 (render6 gs) = Groups gs.
Proof. exact parse6_render. Qed.
Print Assumptions C13_netip6_parse_render.

Theorem C13_netip6_round_trip : forall gs, length gs = 8%nat -> g16 gs -> is_4in6 gs = false ->
  ip6_model (render6 gs) = IPOk (render6 gs) (is_loopback6 gs).
Proof. exact ip6_model_round_trip. Qed.
Print Assumptions C13_netip6_round_trip.

Theorem C13_netip6_parse_addr_round_trip : forall gs, length gs = 8%nat -> g16 gs -> is_4in6 gs = false ->
  parse_addr ip6_model (render6 gs) = IPOk (render6 gs) (is_loopback6 gs).
Proof. exact parse_addr_round_trip. Qed.
Print Assumptions C13_netip6_parse_addr_round_trip.

Theorem C13_canonical_ipv6_valid : forall ace sch p gs,
  scheme_ok sch = true -> beqb sch (b "https") = false -> port_ok sch p = true ->
  length gs = 8%nat -> g16 gs -> is_4in6 gs = false ->
  g_valid ace ip6_model {| g_scheme := sch; g_wild := false; g_host := GIPv6 (render6 gs); g_port := p |} = true.
Proof. exact canonical_ipv6_valid. Qed.
Print Assumptions C13_canonical_ipv6_valid.

Theorem C13_canonical_ipv6_accepted : forall ace sch p gs,
  scheme_ok sch = true -> beqb sch (b "https") = false -> port_ok sch p = true ->
  length gs = 8%nat -> g16 gs -> is_4in6 gs = false ->
  let g := {| g_scheme := sch; g_wild := false; g_host := GIPv6 (render6 gs); g_port := p |} in
  parse_pattern ace ip6_model (Spec.Grammar.render g) = inl (expected ip6_model g).
Proof. exact canonical_ipv6_accepted. Qed.
Print Assumptions C13_canonical_ipv6_accepted.

Example C13_hyp_round_trip :
  let gs := [8193; 3512; 0; 0; 1; 0; 0; 1] in
  (length gs, forallb (fun x => x <? 65536) gs, is_4in6 gs, render6 gs, ip6_model (render6 gs),
   is_4in6 [0; 0; 0; 0; 0; 65535; 258; 772], render6 [0; 0; 0; 0; 0; 0; 0; 1], is_loopback6 [0; 0; 0; 0; 0; 0; 0; 1])
  = (8%nat, true, false, b "2001:db8::1:0:0:1", IPOk (b "2001:db8::1:0:0:1") false, true, b "::1", true).
Proof. vm_compute. reflexivity. Qed.

(* non-vacuity: the documented examples are valid under the model too (the IPv6 ones now by computation) *)
Example C13_hyp_valid_examples_netip6 :
  forallb (fun g => g_valid acet ip6_model g) valid_examples = true.
Proof. vm_compute. reflexivity. Qed.

Definition show6 (s : bytes) : bytes :=
  match ip6_model s with
  | IPErr => b "err" | IPZone => b "zone" | IP4in6 => b "v4in6"
  | IPOk c lb => c ++ (if lb then b " loopback" else [])
  end.

(* the model on concrete literals (each of them is also a case of the `netip` family) *)
Example C13_ex_netip6 :
  map show6 [ b "::1"; b "::"; b "2001:DB8:0:0:1:0:0:1"; b "1:0:0:2:0:0:0:3"; b "1:0:0:2:0:0:3:4"; b "1:2:3:4:5:6:7::"; b "1:2:3:0:5:6:7:8";
              b "0:0:0:0:0:0:0:1"; b "64:ff9b::1.2.3.4"; b "1:2:3:4:5:6:1.2.3.4"; b "::ffff:1.2.3.4"; b "::ffff:102:304"; b "fe80::1%eth0";
              b "fe80::1%"; b "1:2:3:4:5:6:7"; b "1:2:3:4:5:6:7:8:9"; b "::1:2:3:4:5:6:7:8"; b "1::2::3"; b ":::"; b "1:"; b ":1"; b "12345::"; b "::g";
              b "1:2:3:4:5:6:7:1.2.3.4"; b "1:2:3:4:5:1.2.3.4"; b "::01.2.3.4"; b "*::1"; b "ffff:ffff:ffff:ffff:ffff:ffff:ffff:ffff" ]
  = [ b "::1 loopback"; b "::"; b "2001:db8::1:0:0:1"; b "1:0:0:2::3"; b "1::2:0:0:3:4"; b "1:2:3:4:5:6:7:0"; b "1:2:3:0:5:6:7:8";
      b "::1 loopback"; b "64:ff9b::102:304"; b "1:2:3:4:5:6:102:304"; b "v4in6"; b "v4in6"; b "zone";
      b "err"; b "err"; b "err"; b "err"; b "err"; b "err"; b "err"; b "err"; b "err"; b "err";
      b "err"; b "err"; b "err"; b "err"; b "ffff:ffff:ffff:ffff:ffff:ffff:ffff:ffff" ].
Proof. vm_compute. reflexivity. Qed.
