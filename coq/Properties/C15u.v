(* Properties/C15u.v -- the origin-list half of C15 (order and repetition of Origins are irrelevant) for the radix tree
   AS TRANSLATED FROM internal/origins/radix.go on this run (tools/genradix -> Gen/RadixSrc.v). Theorems only. *)
Require Import Base.Bytes Gen.Tables Model.Origins Model.Pattern Model.Radix Model.LoopRt Model.RadixRt Gen.RadixSrc.
Require Import Spec.Origins Proofs.RadixP Proofs.RadixAbs Proofs.RadixSrcXferP.
Open Scope N_scope.

(* two lists with the same elements -- any order, any multiplicities -- give trees (of possibly different shapes: which
   node is split where depends on the insertion order) on which the translated Contains answers alike *)
Theorem C15_source_tree_order_and_multiplicity : forall ps ps' o,
  Forall valid_pattern ps -> Forall valid_pattern ps' -> valid_origin o ->
  (forall p, In p ps <-> In p ps') ->
  exists t t', go_build ps = Some t /\ go_build ps' = Some t' /\ go_Tree_Contains t o = go_Tree_Contains t' o.
Proof. exact go_tree_contains_build_perm. Qed.
Print Assumptions C15_source_tree_order_and_multiplicity.

Definition ex_pat (sch v : bytes) (port : Z) : pattern := {| pscheme := sch; pvalue := v; pkind_of := KDomain; pport := port |}.
Import Coq.Strings.String.StringSyntax. Arguments b _%string_scope.
(* the two orders give different Go trees (the split happens at different moments) with the same abstraction here *)
Example C15_source_runs :
  let p1 := ex_pat (b "https") (b "*.example.com") 0%Z in
  let p2 := ex_pat (b "https") (b "xample.com") 0%Z in
  let o := {| oscheme := b "https"; ohost := {| hvalue := b "a.example.com"; assume_ip := false |}; oport := 0%Z |} in
  match go_build [p1; p2; p1], go_build [p2; p1] with
  | Some t, Some t' => (go_Tree_Contains t o, go_Tree_Contains t' o)
  | _, _ => (None, None)
  end = (Some true, Some true).
Proof. vm_compute. reflexivity. Qed.
