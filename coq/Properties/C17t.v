(* Properties/C17t.v -- "returns" is part of "returns without panicking": the two unbounded `for { }` loops of
   internal/origins/radix.go (Tree.Insert, Tree.Contains) and the recursion of node.elems, AS TRANSLATED on this run
   (tools/genradix -> Gen/RadixSrc.v, loops run with explicit fuel: length of the remaining string + 1), terminate
   within that fuel on every tree the code can build -- every descent consumes at least one byte because a child's
   suffix is non-empty and ends with its edge label (the invariant gwf, which Insert re-establishes). The translation
   does not express index panics (an out-of-range index yields the default element): those are the subject of
   Properties/C17.v (Model/Index.v) and of the crash families. Theorems only. *)
Require Import Base.Bytes Gen.Tables Model.Origins Model.Pattern Model.Radix Model.LoopRt Model.RadixRt Gen.RadixSrc.
Require Import Proofs.RadixP Proofs.RadixAbs Proofs.RadixSrcContainsP Proofs.RadixSrcInsertP Proofs.RadixSrcElemsP Proofs.RadixSrcXferP.
Open Scope N_scope.

Theorem C17_source_insert_returns : forall t p, gwf t -> exists t', go_Tree_Insert t p = Some t' /\ gwf t'.
Proof. intros t p H. destruct (go_Tree_Insert_eq t p H) as (t' & H1 & _ & H3). exists t'. split; assumption. Qed.
Print Assumptions C17_source_insert_returns.

Theorem C17_source_contains_returns : forall t o, gwf t -> exists v, go_Tree_Contains t o = Some v.
Proof. intros t o H. eexists. apply go_Tree_Contains_eq. exact H. Qed.
Print Assumptions C17_source_contains_returns.

(* for every list of patterns whatsoever (valid or not): building never exhausts the fuel, and every lookup returns *)
Theorem C17_source_build_and_lookup_return : forall ps o,
  exists t v, go_build ps = Some t /\ go_Tree_Contains t o = Some v.
Proof.
  intros ps o. destruct (go_build_spec ps) as (t & H1 & _ & H3).
  exists t. eexists. split; [exact H1|]. apply go_Tree_Contains_eq. exact H3.
Qed.
Print Assumptions C17_source_build_and_lookup_return.

Theorem C17_source_elems_returns : forall ps, Forall valid_pattern ps ->
  exists t l, go_build ps = Some t /\ go_Tree_Elems t = Some l.
Proof. intros ps H. destruct (go_tree_elems_build ps H) as (t & H1 & H2). exists t. eexists. split; eassumption. Qed.
Print Assumptions C17_source_elems_returns.
