(* Properties/C07z.v -- C07 is proved about the hand-written model; it is a statement about /repo because the code on its path,
   AS TRANSLATED ON THIS RUN, is that model: the state-changing methods (NewMiddleware, Reconfigure, SetDebug, Config as sequential transformers).
   A change to any file on the path breaks this obligation of C07 (Proofs/TiesP.v spells the bundles out). Theorems only. *)
Require Import Proofs.TiesP.

Theorem C07_source_path_is_the_model : state_path_ties.
Proof. exact state_path_is_the_model. Qed.
Print Assumptions C07_source_path_is_the_model.
