(* Properties/C18.v -- allocation behaviour of the middleware, read off the provenance tags of
   Model/Prov.v: one allocation site is executed per Own slice (Header.Add / Header.Set / append);
   everything else installed into the response header map is an existing slice
   (the request's own, a package-level singleton, or one owned by the configuration).
     own_count m := number of keys tagged Own in m *)
Require Import Base.Bytes Gen.Tables Model.Util Model.Headers Model.Methods Model.Origins
  Model.Pattern Model.Radix Model.Netip Model.Config Model.Serve Model.Prov Proofs.ProvP.
Import Coq.Strings.String.StringSyntax. Arguments b _%string_scope.
Open Scope N_scope.

Theorem C18_bounded_allocation_sites : forall st dbg r pre,
  (own_count (fst (pserve st dbg r pre)) <= 3)%nat.
Proof. exact bounded_allocation_sites. Qed.
Print Assumptions C18_bounded_allocation_sites.

(* a preflight (the handler is not invoked) allocates at most the Vary list, and only when the
   response already carries a Vary header *)
Theorem C18_preflight_allocates_at_most_vary : forall st dbg r pre,
  snd (pserve st dbg r pre) = false -> (own_count (fst (pserve st dbg r pre)) <= 1)%nat.
Proof. exact preflight_allocates_at_most_vary. Qed.
Print Assumptions C18_preflight_allocates_at_most_vary.

(* every tag is one of the four kinds; values derived from the request are sub-slices of the
   request's Origin / Access-Control-Request-Method / Access-Control-Request-Headers lists *)
Theorem C18_request_data_is_reflected_not_copied : forall st dbg r pre k t,
  In (k, t) (fst (pserve st dbg r pre)) ->
  match t with ReqSlice k' => k' = headers_Origin \/ k' = headers_ACRM \/ k' = headers_ACRH | _ => True end.
Proof. exact request_data_is_reflected_not_copied. Qed.
Print Assumptions C18_request_data_is_reflected_not_copied.

(* ---- non-vacuity ---- *)
Definition c18_cfg : config :=
  {| c_origins := [b "https://example.com"]; c_credentialed := true; c_methods := [b "PUT"];
     c_req_headers := [b "Authorization"]; c_max_age := 30%Z; c_res_headers := [b "X-Foo"];
     c_status := 0%Z; c_pna := false; c_pna_nocors := false; c_tol_insecure := false; c_tol_psl := false |}.
Definition c18_st : option icfg :=
  match new_internal_config (fun _ => true) (fun _ => IPErr) (fun _ => false) c18_cfg with
  | inl ic => Some ic | inr _ => None end.
Definition c18_actual : request :=
  {| r_method := b "GET"; r_hdrs := [(headers_Origin, [b "https://example.com"])] |}.
Definition c18_preflight : request :=
  {| r_method := b "OPTIONS";
     r_hdrs := [(headers_Origin, [b "https://example.com"]); (headers_ACRM, [b "PUT"]);
                (headers_ACRH, [b "authorization"])] |}.

(* the bound 3 is attained by an actual request (Vary, ACAC, ACEH) *)
Example C18_ex_actual_three : own_count (fst (pserve c18_st false c18_actual [])) = 3%nat.
Proof. vm_compute; reflexivity. Qed.

(* a successful preflight on a fresh response allocates nothing; with a pre-existing Vary, one list *)
Example C18_ex_preflight_zero :
  snd (pserve c18_st false c18_preflight []) = false /\
  own_count (fst (pserve c18_st false c18_preflight [])) = 0%nat /\
  length (fst (pserve c18_st false c18_preflight [])) = 6%nat.
Proof. vm_compute; repeat split; reflexivity. Qed.

Example C18_ex_preflight_one :
  own_count (fst (pserve c18_st false c18_preflight [(headers_Vary, [b "Accept-Encoding"])])) = 1%nat.
Proof. vm_compute; reflexivity. Qed.

Example C18_ex_reflected :
  In (headers_ACAM, ReqSlice headers_ACRM) (fst (pserve c18_st false c18_preflight [])) /\
  In (headers_ACAH, ReqSlice headers_ACRH) (fst (pserve c18_st false c18_preflight [])) /\
  In (headers_ACAO, ReqSlice headers_Origin) (fst (pserve c18_st false c18_actual [])).
Proof. vm_compute; tauto. Qed.

(* ---- tie to the source: on the preflight path (the only one fed with attacker-sized ACRM / ACRH values)
   the source contains no allocating write at all except the append to a pre-existing Vary: every other
   write installs a shared singleton, a configuration-owned slice or the request's own slice
   (Gen/ProvSrc.v is regenerated from middleware.go on every run). ---- *)
Require Import Gen.ProvSrc Proofs.ProvSrcP.

Theorem C18_source_preflight_path_reflects :
  forallb (fun w => match snd w with WShared _ | WReq _ | WCfg _ | WCopy | WAppend => true | _ => false end)
          (go_writes_handleCORSPreflight ++ go_writes_processOriginForPreflight ++ go_writes_processACRPN ++
           go_writes_processACRM ++ go_writes_processACRH) = true.
Proof. vm_compute. reflexivity. Qed.
Print Assumptions C18_source_preflight_path_reflects.
