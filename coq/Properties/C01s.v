(* Properties/C01s.v -- C01 stated for the SOURCE: [go_newInternalConfig] / [go_newConfig] are the Gallina functions
   that tools/gencfg regenerates from /repo/config.go on every run (coq/Gen/CfgSrc.v: validatePreflightStatus,
   validateOrigins, validateMethods, validateRequestHeaders, validateMaxAge, validateResponseHeaders,
   newInternalConfig, newConfig, translated statement by statement; loops are folds over the loop-carried variables).
   A change to any of these functions changes the generated definitions; these theorems are then re-checked against
   what the code says now.  Proofs: Proofs/CfgSrcP.v (generated = hand-written model, for all inputs) and
   Proofs/CfgSrcXferP.v. *)
Require Import Base.Bytes Gen.Tables.
Require Import Model.Util Model.Headers Model.Methods Model.Origins Model.Netip Model.Pattern Model.Radix
  Model.CfgErrors Model.Config Model.CfgRt Gen.CfgSrc Model.Serve Model.Mw.
Require Import Spec.Origins Spec.Wire Spec.ConfigDoc Spec.Equiv.
Require Import Proofs.RadixP Proofs.ServeP Proofs.RoundTripParseP Proofs.CfgSrcP Proofs.CfgSrcXferP.
Require Import Properties.C05.

Theorem C01_source_validation_is_the_model : forall ace ip6 psl c,
  go_newInternalConfig ace ip6 psl c = new_internal_config ace ip6 psl c.
Proof. exact go_newInternalConfig_eq. Qed.
Print Assumptions C01_source_validation_is_the_model.

Theorem C01_source_middleware : forall ace ip6 psl c ic dbg r pre v o,
  go_newInternalConfig ace ip6 psl c = inl ic -> c_pna_nocors c = false -> cors_free pre ->
  beqb (r_method r) method_options = false ->
  first (r_hdrs r) headers_Origin = Some v -> parse v = Some o ->
  (hget (o_hdrs (serve (Some ic) dbg r pre)) headers_ACAO <> None <->
   (lists_star (c_origins c) = true \/ allowed_by (cfg_patterns ace ip6 c) o = true)).
Proof. exact go_c01_middleware. Qed.
Print Assumptions C01_source_middleware.

(* non-vacuity: the translated source, run on the example configurations of Properties/C05.v *)
Example C01_source_runs :
  (match go_newInternalConfig ex_ace ex_ip6 ex_psl ex_good with inl ic => go_newConfig ic = new_config ic | inr _ => False end) /\
  (match go_newInternalConfig ex_ace ex_ip6 ex_psl ex_bad with inl _ => False | inr e => flatten e = violations ex_ace ex_ip6 ex_psl ex_bad end).
Proof. split; vm_compute; reflexivity. Qed.
