(* Properties/C07.v -- the RWMutex protocol of Middleware (Model/Conc.v), for EVERY schedule:
   a schedule is any list of thread indices; a blocked, finished or absent thread leaves the
   machine unchanged. Threads run the five method bodies of [method_body] (ServeHTTP with k
   interactions, Reconfigure(v), a rejected Reconfigure, SetDebug(b), Config()).
   Ghost fields of a thread: t_witness (the shared pair at the instant it executed RUnlock),
   t_unprotected (accesses to m.icfg / m.debug made without the right lock), t_uses (the local
   snapshot seen by each interaction with the outside world).
   Proofs/ConcP.v: invariant [minv] = per-thread program-point invariant [tstate_ok] (which suffix
   of the body is left, which locks are held, what has been read -- and, under the read lock, that
   the local copy equals the current shared value) + lock-count invariants. *)
Require Import Base.Bytes Model.Conc Proofs.ConcP.
Open Scope nat_scope.

(* every read/write of m.icfg, m.debug happens under the right lock; a writer excludes readers;
   the lock counters are exactly the numbers of holders; at most one writer *)
Theorem C07_lock_discipline : forall ic dbg progs sched, Forall method_body progs ->
  let m := mrun (init_machine ic dbg progs) sched in
  Forall (fun t => t_unprotected t = 0) (snd m) /\
  (s_writer (fst m) = true -> s_readers (fst m) = 0) /\
  s_readers (fst m) = length (filter t_holds_r (snd m)) /\
  (if s_writer (fst m) then length (filter t_holds_w (snd m)) = 1 else length (filter t_holds_w (snd m)) = 0).
Proof. exact lock_discipline. Qed.
Print Assumptions C07_lock_discipline.

(* the outside world is touched only after the snapshot is complete; the snapshot is the shared
   pair of ONE instant (the witness, taken at RUnlock); nothing else is ever used *)
Theorem C07_atomic_snapshot : forall ic dbg progs sched, Forall method_body progs ->
  let m := mrun (init_machine ic dbg progs) sched in
  Forall (fun t =>
            (t_uses t <> [] -> t_witness t <> None) /\
            forall w, t_witness t = Some w ->
              t_icfg t = Some (fst w) /\ (t_debug t = None \/ t_debug t = Some (snd w)) /\
              Forall (fun u => fst u = Some (fst w) /\ (snd u = None \/ snd u = Some (snd w))) (t_uses t))
         (snd m).
Proof. exact atomic_snapshot. Qed.
Print Assumptions C07_atomic_snapshot.

(* the witness is taken while the thread still holds the read lock, so (C07_lock_discipline: a
   writer excludes readers) no writer is inside its critical section at that instant; the witness
   is the shared pair of that very machine state *)
Theorem C07_witness_taken_without_writer : forall ic dbg progs sched tid t sh' t', Forall method_body progs ->
  let m := mrun (init_machine ic dbg progs) sched in
  nth_error (snd m) tid = Some t -> tstep (fst m) t = Some (sh', t') ->
  t_witness t = None -> t_witness t' <> None ->
  s_writer (fst m) = false /\ t_holds_r t = true /\ t_witness t' = Some (s_icfg (fst m), s_debug (fst m)) /\
  mstep m tid = (sh', set_nth tid t' (snd m)).
Proof. exact witness_taken_without_writer. Qed.
Print Assumptions C07_witness_taken_without_writer.

(* ServeHTTP threads: once the witness is set BOTH fields are set and equal to it, every use saw
   exactly that pair, and k - j interactions have happened when j are left *)
Theorem C07_request_snapshot_complete : forall ic dbg progs sched tid k, Forall method_body progs ->
  nth_error progs tid = Some (prog_request k) ->
  let m := mrun (init_machine ic dbg progs) sched in
  exists t, nth_error (snd m) tid = Some t /\
    (t_uses t <> [] -> t_witness t <> None) /\
    (exists j, j <= k /\ length (t_uses t) = k - j /\
               (t_witness t <> None -> t_prog t = repeat IUse j)) /\
    forall w, t_witness t = Some w ->
      t_icfg t = Some (fst w) /\ t_debug t = Some (snd w) /\
      Forall (fun u => u = (Some (fst w), Some (snd w))) (t_uses t).
Proof. exact request_snapshot_complete. Qed.
Print Assumptions C07_request_snapshot_complete.

(* whenever no writer is inside its critical section the pair is coherent (debug implies a
   non-nil configuration): pointer and flag are committed together *)
Theorem C07_no_torn_state : forall ic dbg progs sched, Forall method_body progs -> (ic = None -> dbg = false) ->
  let m := mrun (init_machine ic dbg progs) sched in
  s_writer (fst m) = false -> (s_icfg (fst m) = None -> s_debug (fst m) = false).
Proof. exact no_torn_state. Qed.
Print Assumptions C07_no_torn_state.

(* ---- non-vacuity: ServeHTTP (2 interactions) || Reconfigure(cfg 7) || SetDebug(true),
        starting from (cfg 3, debug off) ---- *)
Definition c07_progs := [prog_request 2; prog_reconfigure (Some 7); prog_setdebug true].
Definition c07_m0 := init_machine (Some 3) false c07_progs.
Definition c07_view (m : machine) :=
  (s_icfg (fst m), s_debug (fst m), s_writer (fst m), s_readers (fst m),
   map (fun t => (t_prog t, t_witness t, t_uses t)) (snd m)).

Example C07_ex_progs : Forall method_body c07_progs.
Proof. repeat constructor. Qed.

(* schedule 1: the request runs to completion first, then the two writers *)
Example C07_ex_request_first :
  c07_view (mrun c07_m0 [0;0;0;0;0;0;1;1;1;1;2;2;2]) =
  (Some 7, true, false, 0,
   [([], Some (Some 3, false), [(Some (Some 3), Some false); (Some (Some 3), Some false)]);
    ([], None, []); ([], None, [])]).
Proof. vm_compute; reflexivity. Qed.

(* schedule 2: both writers first: the request sees the new pair in both interactions *)
Example C07_ex_writers_first :
  c07_view (mrun c07_m0 [1;1;1;1;2;2;2;0;0;0;0;0;0]) =
  (Some 7, true, false, 0,
   [([], Some (Some 7, true), [(Some (Some 7), Some true); (Some (Some 7), Some true)]);
    ([], None, []); ([], None, [])]).
Proof. vm_compute; reflexivity. Qed.

(* schedule 3: interleaved; the writers are scheduled while the request holds the read lock and
   are blocked (the machine does not move), thread 5 does not exist *)
Example C07_ex_blocked_writers :
  c07_view (mrun c07_m0 [0;1;1;0;2;0]) =
  (Some 3, false, false, 1,
   [([IRUnlock; IUse; IUse], None, []);
    ([ILock; IWriteIcfg (Some 7); IWriteDebugReconf true; IUnlock], None, []);
    ([ILock; IWriteDebugSet true; IUnlock], None, [])]).
Proof. vm_compute; reflexivity. Qed.

Example C07_ex_interleaved :
  c07_view (mrun c07_m0 [0;1;1;0;2;0;1;0;1;1;5;1;2;0;1;2;2;0]) =
  (Some 7, true, true, 0,
   [([], Some (Some 3, false), [(Some (Some 3), Some false); (Some (Some 3), Some false)]);
    ([], None, []); ([IUnlock], None, [])]).
Proof. vm_compute; reflexivity. Qed.

(* the hypothesis [s_writer = false] of C07_no_torn_state is needed: inside Reconfigure(nil)'s
   critical section the pair (nil, debug on) is visible -- to nobody, since the lock is held *)
Example C07_ex_torn_inside_critical_section :
  c07_view (mrun (init_machine (Some 3) true [prog_reconfigure None; prog_config]) [0;0;1]) =
  (None, true, true, 0,
   [([IWriteDebugReconf false; IUnlock], None, []); ([IRLock; IReadIcfg; IRUnlock; IUse], None, [])]).
Proof. vm_compute; reflexivity. Qed.

(* ---- tie to the source: the lock operations and shared-field accesses that tools/genconc extracts
   from middleware.go on this run (Gen/ConcSrc.v) are exactly the shapes of the modelled programs:
   one critical section per method; the request path reads both fields inside ONE read-locked section and
   touches neither afterwards; writers build outside the lock and write both fields inside one section.
   A change such as reading the debug flag in a second critical section, re-reading m.icfg later, calling
   the wrapped handler under the lock or dropping the lock makes this theorem fail to check. ---- *)
Require Import Gen.ConcSrc.
Theorem C07_source_has_the_modelled_shape :
  (forall k, go_Wrap = shape (prog_request (S k))) /\
  (forall v, go_Reconfigure = GOther :: shape (prog_reconfigure v)) /\       (* validation runs before the critical section *)
  (forall b, go_SetDebug = shape (prog_setdebug b)) /\
  go_Config = shape prog_config /\
  go_other_methods_touching_state = 0%nat.
Proof. exact source_shape. Qed.
Print Assumptions C07_source_has_the_modelled_shape.

(* the shared state of the source is exactly the modelled one: a lock, the configuration pointer, the debug flag *)
Theorem C07_source_state_is_the_modelled_state : go_Middleware_fields = [FMu; FIcfg; FDebug].
Proof. reflexivity. Qed.
Print Assumptions C07_source_state_is_the_modelled_state.
