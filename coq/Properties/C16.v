(* Properties/C16.v -- with debug off, a preflight response discloses nothing about the configuration.
   For every accepted configuration [c] with internal form [ic] (Proofs.Rel.icfg_rel), every preflight
   request and every response-header map [pre] with pairwise distinct keys and no CORS response
   header, the outcome of the non-debug handler satisfies Spec.Wire.c16_ok: either the status is 403
   and the headers differ from [pre] at Vary only, or the status is the configured 2xx status and,
   besides Vary, only CORS response headers were added, each carrying a value the client sent itself
   (its Origin, its requested method, its requested header list), "*", "true", "*,authorization",
   or the configured max-age; Access-Control-Expose-Headers is never sent.
   All proofs are in Proofs/ServeP.v. *)
Require Import Base.Bytes Gen.Tables.
Require Import Model.Util Model.Headers Model.Methods Model.Origins Model.Netip Model.Pattern Model.Radix
  Model.CfgErrors Model.Config Model.Serve.
Require Import Spec.Origins Spec.Wire Spec.ConfigDoc.
Require Import Proofs.RadixP Proofs.Rel Proofs.ServeP.
Require Import Properties.C03.
Import Coq.Strings.String.StringSyntax.
Arguments b _%string_scope.

Example cors_free_def : forall pre,
  cors_free pre <-> (forall k, mem k grant_names = true -> hget pre k = None).
Proof. intros pre. reflexivity. Qed.

Theorem C16_no_disclosure_debug_off : forall ace ip6 c ic r pre,
  icfg_rel ace ip6 c ic -> NoDup (map fst pre) -> cors_free pre -> is_preflight r = true ->
  c16_ok c r pre (serve (Some ic) false r pre) = true.
Proof. exact c16_holds. Qed.
Print Assumptions C16_no_disclosure_debug_off.

(* the same under the weakest condition on [pre] that [same_except] tolerates: every entry of the
   association list is the one a lookup of its key finds *)
Example hconsistent_def : forall m,
  hconsistent m <-> (forall k v, In (k, v) m -> hget m k = Some v).
Proof. intros m. reflexivity. Qed.

Theorem C16_no_disclosure_debug_off_consistent : forall ace ip6 c ic r pre,
  icfg_rel ace ip6 c ic -> hconsistent pre -> cors_free pre -> is_preflight r = true ->
  c16_ok c r pre (serve (Some ic) false r pre) = true.
Proof. exact c16_holds_consistent. Qed.
Print Assumptions C16_no_disclosure_debug_off_consistent.

(* ---- non-vacuity, on the configuration and requests of Properties/C03.v ---- *)
Example C16_hyp_pre0 : NoDup (map fst pre0) /\ cors_free pre0.
Proof.
  split; [|exact C03_hyp_pre0].
  cbn [map fst pre0]. constructor; [|constructor; [intros []|constructor]].
  cbn [In]. intros [H|[]]. revert H. apply beqb_neq. vm_compute. reflexivity.
Qed.

Example C16_hyp_preflight : map is_preflight [r_ok; r_bad_origin; r_bad_method; r_actual] = [true; true; true; false].
Proof. vm_compute. reflexivity. Qed.

(* a succeeding preflight and two failing ones: status, what was added to [pre0], verdict *)
Example C16_ex :
  map (fun r =>
         let out := serve (Some ex_ic) false r pre0 in
         (o_status out, map (hget (o_hdrs out)) [h_acao; h_acac; h_acam; h_acah; h_acma; b "Content-Type"],
          c16_ok ex_c r pre0 out))
      [r_ok; r_bad_origin; r_bad_method]
  = [(Some 204%Z, [Some [b "https://foo.example.com"]; Some [b "true"]; Some [b "PUT"]; Some [b "x-foo"];
                   Some [b "30"]; Some [b "text/plain"]], true);
     (Some 403%Z, [None; None; None; None; None; Some [b "text/plain"]], true);
     (Some 403%Z, [None; None; None; None; None; Some [b "text/plain"]], true)].
Proof. vm_compute. reflexivity. Qed.

(* the predicate is not trivially true: the debug-mode answer to the request with a method that is
   not allowed (status 204, partial grants, no 403) is still fine, but a response that lists the
   configured header names to a client that did not send them is rejected, as is a 403 that carries a grant *)
Example C16_ex_rejects :
  map (fun '(s, h) => c16_ok ex_c r_bad_method pre0 {| o_hdrs := pre0 ++ h; o_status := Some s; o_delegated := false |})
      [(204%Z, [(h_acah, [b "x-foo,x-secret"])]); (403%Z, [(h_acao, [b "https://foo.example.com"])]);
       (204%Z, [(h_aceh, [b "x-bar"])]); (204%Z, [(h_acao, [b "https://foo.example.com"])])]
  = [false; false; false; true].
Proof. vm_compute. reflexivity. Qed.

(* the distinct-keys hypothesis is needed: [same_except] compares entries, and an association list
   that binds a key twice with different values (which no Go map does) is not even equal to itself *)
Example C16_distinct_keys_needed :
  let pre := [(b "X", [b "1"]); (b "X", [b "2"])] in
  (Extract.Driver.cors_free pre, is_preflight r_ok, same_except [] pre pre,
   c16_ok ex_c r_ok pre (serve (Some ex_ic) false r_ok pre),
   c16_ok ex_c r_bad_origin pre (serve (Some ex_ic) false r_bad_origin pre))
  = (true, true, false, false, false).
Proof. vm_compute. reflexivity. Qed.

(* ---- the same, for every configuration accepted by validation (composition with accepted_rel) ---- *)
Require Import Proofs.ComposeP.

Theorem C16_no_disclosure_debug_off_accepted : forall ace ip6 psl c ic r pre,
  new_internal_config ace ip6 psl c = inl ic -> NoDup (map fst pre) -> cors_free pre -> is_preflight r = true ->
  c16_ok c r pre (serve (Some ic) false r pre) = true.
Proof. exact c16_accepted. Qed.
Print Assumptions C16_no_disclosure_debug_off_accepted.
