(* Properties/C01t.v -- C01 for the radix tree AS TRANSLATED FROM internal/origins/radix.go on this run
   (tools/genradix -> Gen/RadixSrc.v: Go-layout nodes with parallel slices, pointers as paths, the two `for { }`
   loops run with explicit fuel). Theorems only. *)
Require Import Base.Bytes Gen.Tables Model.Origins Model.Pattern Model.Radix Model.LoopRt Model.RadixRt Gen.RadixSrc.
Require Import Spec.Origins Proofs.RadixP Proofs.RadixAbs Proofs.RadixSrcContainsP Proofs.RadixSrcInsertP Proofs.RadixSrcXferP.
Open Scope N_scope.

(* the tie: on every well-formed Go tree the translated Insert terminates within the translator's fuel, keeps the
   invariant, and computes what the hand-written model computes on the abstraction of the tree ... *)
Theorem C01_source_insert_is_the_model : forall t p, gwf t ->
  exists t', go_Tree_Insert t p = Some t' /\ abs t' = tree_insert (abs t) p /\ gwf t'.
Proof. exact go_Tree_Insert_eq. Qed.
Print Assumptions C01_source_insert_is_the_model.

(* ... and so does the translated Contains *)
Theorem C01_source_contains_is_the_model : forall t o, gwf t ->
  go_Tree_Contains t o = Some (tree_contains (abs t) o).
Proof. exact go_Tree_Contains_eq. Qed.
Print Assumptions C01_source_contains_is_the_model.

(* every tree the translated code builds from the zero Tree is well-formed and stands for the model's tree *)
Theorem C01_source_build : forall ps, exists t, go_build ps = Some t /\ abs t = build ps /\ gwf t.
Proof. exact go_build_spec. Qed.
Print Assumptions C01_source_build.

(* C01 itself, for the translated source: for EVERY list of valid patterns (any order, duplicates, subsuming
   pairs) and every valid origin, the translated Contains on the tree built by the translated Insert answers
   exactly "some listed pattern denotes the origin" *)
Theorem C01_source_tree : forall ps o, Forall valid_pattern ps -> valid_origin o ->
  exists t, go_build ps = Some t /\ go_Tree_Contains t o = Some (allowed_by ps o).
Proof. exact go_tree_contains_build. Qed.
Print Assumptions C01_source_tree.

Theorem C01_source_order_and_multiplicity : forall ps ps' o,
  Forall valid_pattern ps -> Forall valid_pattern ps' -> valid_origin o ->
  (forall p, In p ps <-> In p ps') ->
  exists t t', go_build ps = Some t /\ go_build ps' = Some t' /\ go_Tree_Contains t o = go_Tree_Contains t' o.
Proof. exact go_tree_contains_build_perm. Qed.
Print Assumptions C01_source_order_and_multiplicity.

(* the translated code runs: two patterns sharing a suffix that is not a label boundary (the GHSA-vhxv-fg4m-p2w8
   shape), a wildcard, a duplicate; four probes *)
Definition ex_pat (sch v : bytes) (port : Z) : pattern := {| pscheme := sch; pvalue := v; pkind_of := KDomain; pport := port |}.
Definition ex_orig (sch h : bytes) (port : Z) : origin := {| oscheme := sch; ohost := {| hvalue := h; assume_ip := false |}; oport := port |}.
Import Coq.Strings.String.StringSyntax. Arguments b _%string_scope.
Example C01_source_runs :
  let ps := [ex_pat (b "https") (b "foo.com") 0%Z; ex_pat (b "https") (b "bar.com") 0%Z; ex_pat (b "https") (b "*.bar.com") 8080%Z;
             ex_pat (b "https") (b "bar.com") 0%Z; ex_pat (b "http") (b "oo.com") 65536%Z] in
  match go_build ps with
  | Some t => map (go_Tree_Contains t) [ex_orig (b "https") (b "foo.com") 0%Z; ex_orig (b "https") (b "oo.com") 0%Z;
                                         ex_orig (b "https") (b "a.bar.com") 8080%Z; ex_orig (b "http") (b "oo.com") 81%Z;
                                         ex_orig (b "https") (b "xbar.com") 0%Z]
  | None => []
  end = [Some true; Some false; Some true; Some true; Some false].
Proof. vm_compute. reflexivity. Qed.
