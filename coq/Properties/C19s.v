(* Properties/C19s.v -- C19 stated for the SOURCE: [go_All_prog] is the body of cfgerrors.All as tools/genall translates it
   on every run (coq/Gen/AllSrc.v), a term of the four-construct language of Model/AllRt.v whose interpreter [run]
   gives range-over-func its desugared meaning.  Proofs: Proofs/AllSrcP.v. *)
Require Import Base.Bytes Model.CfgErrors Model.AllRt Gen.AllSrc Proofs.CfgErrorsP Proofs.AllSrcP.

Theorem C19_source_All_is_the_model : forall (A S : Type) (t : etree A) (yield : A -> S -> S * bool) s,
  run go_All_prog t yield s = all t yield s.
Proof. exact @go_All_eq. Qed.
Print Assumptions C19_source_All_is_the_model.

(* the property itself, over the translated iterator: exactly the leaves, each once, in order; a consumer that breaks
   after k+1 elements receives exactly the first k+1 leaves and is never called again *)
Theorem C19_source_all_yields_leaves_and_stops :
  forall (A : Type) (t : etree A) (k : Z), (-1 <= k)%Z ->
    go_yielded t k = ((if (k <? 0)%Z then flatten t else firstn (Z.to_nat k + 1) (flatten t)), 0%Z).
Proof. intros A t k Hk. rewrite go_yielded_eq. apply yielded_spec. exact Hk. Qed.
Print Assumptions C19_source_all_yields_leaves_and_stops.

Example C19_source_runs :
  go_yielded (Join [Join [Leaf 1%N; Leaf 2%N]; Leaf 3%N; Join [Join [Leaf 4%N]; Leaf 5%N]]) 2 = ([1; 2; 3]%N, 0%Z) /\
  go_yielded (Join [Join [Leaf 1%N; Leaf 2%N]; Leaf 3%N]) (-1) = ([1; 2; 3]%N, 0%Z).
Proof. split; vm_compute; reflexivity. Qed.
