(* Properties/C12s.v -- C12 stated for the SOURCE: [go_serve] is the composition of the Gallina functions that
   tools/genmw regenerates from /repo/middleware.go on every run (coq/Gen/MwSrc.v: handleNonCORS,
   processOriginForPreflight, processACRPN, processACRM, processACRH, handleCORSPreflight, handleCORSActual and the
   handler closure of Wrap, translated statement by statement).  A change to any of these functions changes the
   generated definitions; these theorems are then re-checked against what the code says now.
   Proofs: Proofs/MwSrcP.v (go_serve = serve) and Proofs/MwSrcXferP.v. *)
Require Import Base.Bytes Gen.Tables.
Require Import Model.Util Model.Headers Model.Methods Model.Origins Model.Netip Model.Pattern Model.Radix
  Model.CfgErrors Model.Config Model.Serve Model.MwRt Model.Prov Gen.MwSrc.
Require Import Spec.Origins Spec.Wire Spec.ConfigDoc Spec.AcrhList Spec.Fetch.
Require Import Proofs.RadixP Proofs.Rel Proofs.ServeP Proofs.DispatchP Proofs.ProvP Proofs.FetchP Proofs.MwSrcP Proofs.MwSrcXferP.
Require Import Properties.C03.
Import Coq.Strings.String.StringSyntax.
Arguments b _%string_scope.

Theorem C12_source_is_the_model : forall st debug r pre, go_serve st debug r pre = serve st debug r pre.
Proof. exact go_serve_eq. Qed.
Print Assumptions C12_source_is_the_model.

(* the provenance model follows the translated source: same path, and the source changes no key that it does not tag *)
Theorem C12_source_prov_accounts_for_every_write : forall st dbg r pre,
  snd (pserve st dbg r pre) = o_delegated (go_serve st dbg r pre) /\
  forall k, ~ In k (map fst (fst (pserve st dbg r pre))) ->
            hget (o_hdrs (go_serve st dbg r pre)) k = hget pre k.
Proof. exact go_prov_accounts_for_every_write. Qed.
Print Assumptions C12_source_prov_accounts_for_every_write.

(* non-vacuity: the translated source, run on the configuration and requests of Properties/C03.v *)
Example C12_source_runs :
  map (fun '(dbg, r) => let out := go_serve (Some ex_ic) dbg r pre0 in
         (map (hget (o_hdrs out)) [h_acao; h_acac; h_acam], o_status out, o_delegated out))
      [(false, r_ok); (false, r_bad_origin); (true, r_bad_method); (false, r_actual)]
  = [([Some [b "https://foo.example.com"]; Some [b "true"]; Some [b "PUT"]], Some 204%Z, false);
     ([None; None; None], Some 403%Z, false);
     ([Some [b "https://foo.example.com"]; Some [b "true"]; None], Some 204%Z, false);
     ([Some [b "https://foo.example.com"]; Some [b "true"]; None], None, true)].
Proof. vm_compute. reflexivity. Qed.
