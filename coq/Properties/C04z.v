(* Properties/C04z.v -- C04 is proved about the hand-written model; it is a statement about /repo because the code on its path,
   AS TRANSLATED ON THIS RUN, is that model: the configuration path (config.go validation and rendering, ParsePattern and the Pattern methods, Tree.Insert/Elems/IsEmpty, the sets and predicates).
   A change to any file on the path breaks this obligation of C04 (Proofs/TiesP.v spells the bundles out). Theorems only. *)
Require Import Proofs.TiesP.

Theorem C04_source_path_is_the_model : cfg_path_ties.
Proof. exact cfg_path_is_the_model. Qed.
Print Assumptions C04_source_path_is_the_model.
