(* Properties/C09b.v -- debug mode, the "and nothing else" clause for ALL preflights (complements
   Properties/C09.v, which covers non-preflights and preflights that succeed with debug off).

   The documentation says debug mode "changes only the diagnostics attached to failing preflights
   (ok status, partial headers, full allowed-header list) and nothing else".

   C09_debug_changes_only_diagnostics (no hypothesis on ic, r beyond being a preflight; pre arbitrary,
   duplicate keys included): in both modes the wrapped handler is bypassed; the status is the same or a
   403 becomes the configured ok status; no header outside the six names of [diag_names] differs, in
   particular Vary is identical.

   C09_debug_failing_preflight_headers_are_a_prefix_of_success: every diagnostic header shown with
   debug on for a preflight that fails with debug off (and that the handler's map did not already
   hold) carries a value a succeeding step legitimately produces.

   FINDING (the requested clause "Access-Control-Max-Age is never attached to a failing preflight" is
   FALSE for the model, and for middleware.go): when the failing step is the header-names step and
   the configuration lists discrete request-header names, processACRH in debug mode answers the
   configured list AND REPORTS SUCCESS, so the debug-on response is the complete successful preflight
   response, Max-Age included (C09b_max_age_on_failing_preflight below).  The Max-Age clause therefore
   reads: the value is the configured one, and (when the ok status is not 403, which holds for every
   accepted configuration) the request carries Access-Control-Request-Headers, the configured list is
   what Access-Control-Allow-Headers shows, and the status is the ok status.  Conversely
   (C09_debug_failing_preflight_no_max_age) no Max-Age is attached when there is no rendered list or no
   Access-Control-Request-Headers line.  [success_status ic <> 403] is needed only to tell "fails with
   debug off" (status 403) from a success of an internal configuration whose ok status is itself 403;
   validation never produces one (the _accepted variants). *)
Require Import Base.Bytes Gen.Tables Model.Util Model.Headers Model.Radix Model.Netip Model.CfgErrors
  Model.Config Model.Serve.
Require Import Spec.Wire Proofs.DispatchP Proofs.DebugDiagP.
Open Scope N_scope.

Theorem C09_debug_changes_only_diagnostics : forall ic r pre, is_preflight r = true ->
  let on := serve (Some ic) true r pre in
  let off := serve (Some ic) false r pre in
  o_delegated on = false /\ o_delegated off = false /\
  (o_status on = o_status off \/ (o_status off = Some 403%Z /\ o_status on = Some (success_status ic))) /\
  (forall k, mem k diag_names = false -> hget (o_hdrs on) k = hget (o_hdrs off) k).
Proof. exact debug_changes_only_diagnostics. Qed.
Print Assumptions C09_debug_changes_only_diagnostics.

Theorem C09_debug_failing_preflight_headers_are_a_prefix_of_success : forall ic r pre k vs,
  is_preflight r = true -> o_status (serve (Some ic) false r pre) = Some 403%Z ->
  mem k diag_names = true -> hget pre k = None ->
  hget (o_hdrs (serve (Some ic) true r pre)) k = Some vs ->
  (beqb k headers_ACAO = true ->
     vs = headers_WildcardSgl \/ exists o, first (r_hdrs r) headers_Origin = Some o /\ vs = [o]) /\
  (beqb k headers_ACAC = true -> vs = headers_TrueSgl) /\
  (beqb k headers_ACAPN = true -> vs = headers_TrueSgl) /\
  (beqb k headers_ACAM = true ->
     vs = headers_WildcardSgl \/ exists m, first (r_hdrs r) headers_ACRM = Some m /\ vs = [m]) /\
  (beqb k headers_ACAH = true ->
     vs = headers_WildcardSgl \/ vs = headers_WildcardAuthSgl \/ hget (r_hdrs r) headers_ACRH = Some vs \/
     exists v, i_acah ic = Some v /\ vs = [v]) /\
  (beqb k headers_ACMA = true ->
     (exists v, i_acma ic = Some v /\ vs = [v]) /\
     (success_status ic <> 403%Z ->
        hget (r_hdrs r) headers_ACRH <> None /\
        (exists a, i_acah ic = Some a /\
                   hget (o_hdrs (serve (Some ic) true r pre)) headers_ACAH = Some [a]) /\
        o_status (serve (Some ic) true r pre) = Some (success_status ic))).
Proof. exact debug_failing_preflight_headers_are_a_prefix_of_success. Qed.
Print Assumptions C09_debug_failing_preflight_headers_are_a_prefix_of_success.

(* the value clauses hold for every preflight, failing or not (the 403 hypothesis only serves the
   second half of the Max-Age clause above) *)
Theorem C09_debug_preflight_header_values : forall ic r pre k vs,
  is_preflight r = true -> mem k diag_names = true -> hget pre k = None ->
  hget (o_hdrs (serve (Some ic) true r pre)) k = Some vs ->
  (beqb k headers_ACAO = true ->
     vs = headers_WildcardSgl \/ exists o, first (r_hdrs r) headers_Origin = Some o /\ vs = [o]) /\
  (beqb k headers_ACAC = true -> vs = headers_TrueSgl) /\
  (beqb k headers_ACAPN = true -> vs = headers_TrueSgl) /\
  (beqb k headers_ACAM = true ->
     vs = headers_WildcardSgl \/ exists m, first (r_hdrs r) headers_ACRM = Some m /\ vs = [m]) /\
  (beqb k headers_ACAH = true ->
     vs = headers_WildcardSgl \/ vs = headers_WildcardAuthSgl \/ hget (r_hdrs r) headers_ACRH = Some vs \/
     exists v, i_acah ic = Some v /\ vs = [v]) /\
  (beqb k headers_ACMA = true -> exists v, i_acma ic = Some v /\ vs = [v]).
Proof. exact debug_failing_preflight_headers. Qed.
Print Assumptions C09_debug_preflight_header_values.

Theorem C09_debug_failing_preflight_max_age : forall ace ip6 psl c ic r pre vs,
  new_internal_config ace ip6 psl c = inl ic -> is_preflight r = true ->
  o_status (serve (Some ic) false r pre) = Some 403%Z ->
  hget pre headers_ACMA = None ->
  hget (o_hdrs (serve (Some ic) true r pre)) headers_ACMA = Some vs ->
  hget (r_hdrs r) headers_ACRH <> None /\
  (exists a, i_acah ic = Some a /\ hget (o_hdrs (serve (Some ic) true r pre)) headers_ACAH = Some [a]) /\
  o_status (serve (Some ic) true r pre) = Some (success_status ic).
Proof. exact debug_failing_preflight_max_age_accepted. Qed.
Print Assumptions C09_debug_failing_preflight_max_age.

Theorem C09_debug_failing_preflight_no_max_age : forall ace ip6 psl c ic r pre,
  new_internal_config ace ip6 psl c = inl ic -> is_preflight r = true ->
  o_status (serve (Some ic) false r pre) = Some 403%Z ->
  hget pre headers_ACMA = None ->
  i_acah ic = None \/ hget (r_hdrs r) headers_ACRH = None ->
  hget (o_hdrs (serve (Some ic) true r pre)) headers_ACMA = None.
Proof. exact debug_failing_preflight_no_max_age_accepted. Qed.
Print Assumptions C09_debug_failing_preflight_no_max_age.

(* ---- non-vacuity ---- *)
Import Coq.Strings.String.StringSyntax.
Arguments b _%string_scope.
Definition C09b_ace (_ : bytes) := true.
Definition C09b_ip6 (_ : bytes) := IPErr.
Definition C09b_psl (_ : bytes) := false.
Definition C09b_cfg : config :=
  {| c_origins := [b "https://example.com"]; c_credentialed := true; c_methods := [b "PUT"];
     c_req_headers := [b "X-Foo"; b "Authorization"]; c_max_age := 30; c_res_headers := [];
     c_status := 0; c_pna := false; c_pna_nocors := false; c_tol_insecure := false; c_tol_psl := false |}.
(* the same without allowed request-header names: no rendered list *)
Definition C09b_cfg_nohdrs : config :=
  {| c_origins := [b "https://example.com"]; c_credentialed := true; c_methods := [b "PUT"];
     c_req_headers := []; c_max_age := 30; c_res_headers := [];
     c_status := 0; c_pna := false; c_pna_nocors := false; c_tol_insecure := false; c_tol_psl := false |}.
Definition C09b_dummy : icfg :=
  {| i_tree := empty_tree; i_methods := sset_empty; i_req_hdrs := sset_empty; i_acah := None;
     i_status_m200 := 4; i_cred := false; i_any_method := false; i_asterisk_req := false;
     i_allow_auth := false; i_pna := false; i_pna_nocors := false; i_acma := None; i_aceh := [];
     i_tol_psl := false; i_tol_insecure := false |}.
Definition C09b_ic : icfg :=
  match new_internal_config C09b_ace C09b_ip6 C09b_psl C09b_cfg with inl ic => ic | inr _ => C09b_dummy end.
Definition C09b_ic_nohdrs : icfg :=
  match new_internal_config C09b_ace C09b_ip6 C09b_psl C09b_cfg_nohdrs with inl ic => ic | inr _ => C09b_dummy end.
Definition C09b_pre : hmap := [(b "Content-Type", [b "text/plain"])].
Definition C09b_pf (org meth : bytes) (extra : hmap) : request :=
  {| r_method := b "OPTIONS";
     r_hdrs := [(b "Origin", [org]); (b "Access-Control-Request-Method", [meth])] ++ extra |}.
Definition C09b_vary : bytes * list bytes :=
  (b "Vary", [b "Access-Control-Request-Headers, Access-Control-Request-Method, Access-Control-Request-Private-Network, Origin"]).

Example C09b_configs :
  new_internal_config C09b_ace C09b_ip6 C09b_psl C09b_cfg = inl C09b_ic /\
  new_internal_config C09b_ace C09b_ip6 C09b_psl C09b_cfg_nohdrs = inl C09b_ic_nohdrs /\
  i_acah C09b_ic = Some (b "authorization,x-foo") /\ i_acah C09b_ic_nohdrs = None /\
  success_status C09b_ic = 204%Z /\
  forallb (fun k => match hget C09b_pre k with None => true | Some _ => false end) diag_names = true.
Proof. vm_compute. repeat split; reflexivity. Qed.

(* unlisted method: 403 and only Vary with debug off; ok status and the origin step's headers with debug on *)
Definition C09b_r_method : request := C09b_pf (b "https://example.com") (b "DELETE") [].
Example C09b_method_step_fails :
  is_preflight C09b_r_method = true /\
  serve (Some C09b_ic) false C09b_r_method C09b_pre =
    {| o_hdrs := [(b "Content-Type", [b "text/plain"]); C09b_vary];
       o_status := Some 403%Z; o_delegated := false |} /\
  serve (Some C09b_ic) true C09b_r_method C09b_pre =
    {| o_hdrs := [(b "Content-Type", [b "text/plain"]); C09b_vary;
                  (b "Access-Control-Allow-Origin", [b "https://example.com"]);
                  (b "Access-Control-Allow-Credentials", [b "true"])];
       o_status := Some 204%Z; o_delegated := false |}.
Proof. vm_compute. repeat split; reflexivity. Qed.

(* wrong origin: 403 and only Vary in both modes *)
Definition C09b_r_origin : request := C09b_pf (b "https://evil.example") (b "PUT") [].
Example C09b_origin_step_fails :
  is_preflight C09b_r_origin = true /\
  serve (Some C09b_ic) false C09b_r_origin C09b_pre =
    {| o_hdrs := [(b "Content-Type", [b "text/plain"]); C09b_vary];
       o_status := Some 403%Z; o_delegated := false |} /\
  serve (Some C09b_ic) true C09b_r_origin C09b_pre = serve (Some C09b_ic) false C09b_r_origin C09b_pre.
Proof. vm_compute. repeat split; reflexivity. Qed.

(* private-network access requested but not enabled *)
Definition C09b_r_pna : request :=
  C09b_pf (b "https://example.com") (b "PUT") [(b "Access-Control-Request-Private-Network", [b "true"])].
Example C09b_pna_step_fails :
  is_preflight C09b_r_pna = true /\
  o_status (serve (Some C09b_ic) false C09b_r_pna C09b_pre) = Some 403%Z /\
  serve (Some C09b_ic) true C09b_r_pna C09b_pre =
    {| o_hdrs := [(b "Content-Type", [b "text/plain"]); C09b_vary;
                  (b "Access-Control-Allow-Origin", [b "https://example.com"]);
                  (b "Access-Control-Allow-Credentials", [b "true"])];
       o_status := Some 204%Z; o_delegated := false |}.
Proof. vm_compute. repeat split; reflexivity. Qed.

(* the counterexample to "Max-Age is never attached to a failing preflight": an unlisted request-header
   name; with debug on the response is the complete successful one *)
Definition C09b_r_hdr : request :=
  C09b_pf (b "https://example.com") (b "PUT") [(b "Access-Control-Request-Headers", [b "x-bar"])].
Example C09b_max_age_on_failing_preflight :
  is_preflight C09b_r_hdr = true /\
  serve (Some C09b_ic) false C09b_r_hdr C09b_pre =
    {| o_hdrs := [(b "Content-Type", [b "text/plain"]); C09b_vary];
       o_status := Some 403%Z; o_delegated := false |} /\
  serve (Some C09b_ic) true C09b_r_hdr C09b_pre =
    {| o_hdrs := [(b "Content-Type", [b "text/plain"]); C09b_vary;
                  (b "Access-Control-Allow-Origin", [b "https://example.com"]);
                  (b "Access-Control-Allow-Credentials", [b "true"]);
                  (b "Access-Control-Allow-Methods", [b "PUT"]);
                  (b "Access-Control-Allow-Headers", [b "authorization,x-foo"]);
                  (b "Access-Control-Max-Age", [b "30"])];
       o_status := Some 204%Z; o_delegated := false |}.
Proof. vm_compute. repeat split; reflexivity. Qed.

(* the same request against the configuration without allowed request-header names: the header-names
   step fails in debug mode too, and no Max-Age is attached *)
Example C09b_header_step_fails_no_list :
  serve (Some C09b_ic_nohdrs) false C09b_r_hdr C09b_pre =
    {| o_hdrs := [(b "Content-Type", [b "text/plain"]); C09b_vary];
       o_status := Some 403%Z; o_delegated := false |} /\
  serve (Some C09b_ic_nohdrs) true C09b_r_hdr C09b_pre =
    {| o_hdrs := [(b "Content-Type", [b "text/plain"]); C09b_vary;
                  (b "Access-Control-Allow-Origin", [b "https://example.com"]);
                  (b "Access-Control-Allow-Credentials", [b "true"]);
                  (b "Access-Control-Allow-Methods", [b "PUT"])];
       o_status := Some 204%Z; o_delegated := false |}.
Proof. vm_compute. repeat split; reflexivity. Qed.

(* a handler map that already carries Vary and a stale grant header: Vary is extended identically in
   both modes, and the stale value shows through (why the second theorem asks [hget pre k = None]) *)
Example C09b_pre_with_vary_and_stale_grant :
  let pre := [(b "Vary", [b "Accept-Encoding"]); (b "Access-Control-Allow-Origin", [b "stale"])] in
  hget (o_hdrs (serve (Some C09b_ic) false C09b_r_origin pre)) headers_Vary =
    Some [b "Accept-Encoding"; headers_ValueVaryOptions] /\
  hget (o_hdrs (serve (Some C09b_ic) true C09b_r_origin pre)) headers_Vary =
    Some [b "Accept-Encoding"; headers_ValueVaryOptions] /\
  hget (o_hdrs (serve (Some C09b_ic) true C09b_r_origin pre)) headers_ACAO = Some [b "stale"] /\
  hget (o_hdrs (serve (Some C09b_ic) false C09b_r_origin pre)) headers_ACAO = Some [b "stale"].
Proof. vm_compute. repeat split; reflexivity. Qed.
