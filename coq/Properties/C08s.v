(* Properties/C08s.v -- C08 stated for the SOURCE: [go_newInternalConfig] / [go_newConfig] are the Gallina functions
   that tools/gencfg regenerates from /repo/config.go on every run (coq/Gen/CfgSrc.v: validatePreflightStatus,
   validateOrigins, validateMethods, validateRequestHeaders, validateMaxAge, validateResponseHeaders,
   newInternalConfig, newConfig, translated statement by statement; loops are folds over the loop-carried variables).
   A change to any of these functions changes the generated definitions; these theorems are then re-checked against
   what the code says now.  Proofs: Proofs/CfgSrcP.v (generated = hand-written model, for all inputs) and
   Proofs/CfgSrcXferP.v. *)
Require Import Base.Bytes Gen.Tables.
Require Import Model.Util Model.Headers Model.Methods Model.Origins Model.Netip Model.Pattern Model.Radix
  Model.CfgErrors Model.Config Model.CfgRt Gen.CfgSrc Model.Serve Model.Mw.
Require Import Spec.Origins Spec.Wire Spec.ConfigDoc Spec.Equiv.
Require Import Proofs.RadixP Proofs.ServeP Proofs.RoundTripParseP Proofs.CfgSrcP Proofs.CfgSrcXferP.
Require Import Properties.C05.

Theorem C08_source_validation_is_the_model : forall ace ip6 psl c,
  go_newInternalConfig ace ip6 psl c = new_internal_config ace ip6 psl c.
Proof. exact go_newInternalConfig_eq. Qed.
Print Assumptions C08_source_validation_is_the_model.

Theorem C08_source_rejected_reconfigure_is_noop : forall ace ip6 psl st c e,
  go_newInternalConfig ace ip6 psl c = inr e ->
  step ace ip6 psl st (OReconfigure (Some c)) = (st, Some e).
Proof. exact go_step_rejected. Qed.
Print Assumptions C08_source_rejected_reconfigure_is_noop.

(* non-vacuity: the translated source, run on the example configurations of Properties/C05.v *)
Example C08_source_runs :
  (match go_newInternalConfig ex_ace ex_ip6 ex_psl ex_good with inl ic => go_newConfig ic = new_config ic | inr _ => False end) /\
  (match go_newInternalConfig ex_ace ex_ip6 ex_psl ex_bad with inl _ => False | inr e => flatten e = violations ex_ace ex_ip6 ex_psl ex_bad end).
Proof. split; vm_compute; reflexivity. Qed.

(* ---- Reconfigure itself, translated from middleware.go ---- *)
Require Import Model.MwRt Gen.MwSrc Proofs.MwSrcP Proofs.SrcXferP.

Theorem C08_source_Reconfigure_rejected_is_noop : forall ace ip6 psl st c e,
  go_newInternalConfig ace ip6 psl c = inr e -> go_Reconfigure ace ip6 psl st (Some c) = (st, Some e).
Proof. exact go_Reconfigure_rejected. Qed.
Print Assumptions C08_source_Reconfigure_rejected_is_noop.

Example C08_source_rejected_runs :
  forall st, fst (go_Reconfigure ex_ace ex_ip6 ex_psl st (Some ex_bad)) = st.
Proof. intros st. rewrite (go_Reconfigure_rejected ex_ace ex_ip6 ex_psl st ex_bad (match go_newInternalConfig ex_ace ex_ip6 ex_psl ex_bad with inr e => e | inl _ => Join [] end)); [reflexivity|]. vm_compute. reflexivity. Qed.
