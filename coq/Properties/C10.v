(* Properties/C10.v -- Vary is sufficient (a 2-safety property of the request handler): two
   requests with the same method that agree on every request-header field named in the first
   response's Vary field get the same response (headers, status, delegation); and Vary values
   already present in the response are kept, as a prefix.

   [c10_ok], [vary_names], [agree_on], [outcome_eqb], [vary_preserved] are the predicates of
   Spec/Wire.v. Two hypotheses:
   - NoDup (map fst pre): the response header map is an association list and the spec's map
     comparison goes through [hget] (first entry for a key); a Go map has distinct keys. Without it
     [outcome_eqb o o] fails (C10_distinct_keys_needed). The structural form
     C10_vary_sufficient_eq (equal outcomes, Coq equality) needs no such hypothesis.
   - tree_cred_ok st (Proofs/DispatchP.v):
       match st with Some ic => tree_is_empty (i_tree ic) = true -> i_cred ic = false | None => True end
     "allow all origins" excludes credentialed access -- the only consequence of validation that is
     needed (C10_tree_cred_ok_of_accepted); an internal configuration violating it (never produced by
     validation) answers GET differently with and without Origin while listing nothing in Vary
     (C10_tree_cred_ok_needed). *)
Require Import Base.Bytes Gen.Tables Model.Util Model.Headers Model.Radix Model.Netip Model.Config Model.Serve.
Require Import Spec.Wire Proofs.Rel Proofs.DispatchP Proofs.DispatchRelP.
Open Scope N_scope.

Theorem C10_vary_sufficient : forall st dbg r1 r2 pre, NoDup (map fst pre) -> tree_cred_ok st ->
  c10_ok r1 r2 (serve st dbg r1 pre) (serve st dbg r2 pre) = true.
Proof. exact c10_vary_sufficient. Qed.
Print Assumptions C10_vary_sufficient.

Theorem C10_vary_sufficient_eq : forall st dbg r1 r2 pre, tree_cred_ok st ->
  beqb (r_method r1) (r_method r2) = true ->
  forallb (agree_on r1 r2) (vary_names (o_hdrs (serve st dbg r1 pre))) = true ->
  serve st dbg r1 pre = serve st dbg r2 pre.
Proof. exact c10_vary_sufficient_eq. Qed.
Print Assumptions C10_vary_sufficient_eq.

Theorem C10_vary_preserved : forall st dbg r pre, vary_preserved pre (serve st dbg r pre) = true.
Proof. exact serve_vary_preserved. Qed.
Print Assumptions C10_vary_preserved.

(* all that the handler reads from a request *)
Theorem C10_request_fields_read : forall st dbg r1 r2 pre,
  r_method r1 = r_method r2 ->
  hget (r_hdrs r1) headers_Origin = hget (r_hdrs r2) headers_Origin ->
  hget (r_hdrs r1) headers_ACRM = hget (r_hdrs r2) headers_ACRM ->
  hget (r_hdrs r1) headers_ACRH = hget (r_hdrs r2) headers_ACRH ->
  hget (r_hdrs r1) headers_ACRPN = hget (r_hdrs r2) headers_ACRPN ->
  serve st dbg r1 pre = serve st dbg r2 pre.
Proof. exact serve_ext. Qed.
Print Assumptions C10_request_fields_read.

Theorem C10_tree_cred_ok_of_accepted : forall ace ip6 c ic, icfg_rel ace ip6 c ic -> tree_cred_ok (Some ic).
Proof. exact rel_tree_cred_ok. Qed.
Print Assumptions C10_tree_cred_ok_of_accepted.

Theorem C10_tree_cred_ok_needed :
  let r1 := {| r_method := [71; 69; 84]; r_hdrs := [] |} in
  let r2 := {| r_method := [71; 69; 84]; r_hdrs := [(headers_Origin, [[120]])] |} in
  vary_names (o_hdrs (serve (Some c10_cred_empty) false r1 [])) = [] /\
  c10_ok r1 r2 (serve (Some c10_cred_empty) false r1 []) (serve (Some c10_cred_empty) false r2 []) = false.
Proof. exact c10_needs_tree_cred_ok. Qed.
Print Assumptions C10_tree_cred_ok_needed.

Theorem C10_distinct_keys_needed :
  let r := {| r_method := []; r_hdrs := [] |} in
  let pre := [([1], [[2]]); ([1], [[3]])] in
  c10_ok r r (serve None false r pre) (serve None false r pre) = false.
Proof. exact c10_needs_distinct_keys. Qed.
Print Assumptions C10_distinct_keys_needed.

(* non-vacuity *)
Import Coq.Strings.String.StringSyntax.
Arguments b _%string_scope.
Definition C10_cfg : config :=
  {| c_origins := [b "https://example.com"; b "https://*.example.org"]; c_credentialed := true;
     c_methods := [b "PUT"]; c_req_headers := [b "X-Foo"]; c_max_age := 30; c_res_headers := [b "X-Bar"];
     c_status := 0; c_pna := false; c_pna_nocors := false; c_tol_insecure := false; c_tol_psl := false |}.
Definition C10_st : option icfg :=
  match new_internal_config (fun _ => true) (fun _ => IPErr) (fun _ => false) C10_cfg with
  | inl ic => Some ic | inr _ => None end.
Definition C10_pre : hmap := [(b "Vary", [b "Accept-Encoding"]); (b "Content-Type", [b "text/plain"])].
Definition C10_get (org : bytes) (extra : hmap) : request :=
  {| r_method := b "GET"; r_hdrs := (b "Origin", [org]) :: extra |}.
Definition C10_preflight (org acrh : bytes) : request :=
  {| r_method := b "OPTIONS";
     r_hdrs := [(b "Origin", [org]); (b "Access-Control-Request-Method", [b "PUT"]);
                (b "Access-Control-Request-Headers", [acrh])] |}.

Example C10_example_hypotheses :
  (match C10_st with Some ic => negb (tree_is_empty (i_tree ic)) | None => false end) = true /\
  vary_names (o_hdrs (serve C10_st false (C10_get (b "https://example.com") []) C10_pre))
    = [b "Accept-Encoding"; b "Origin"] /\
  vary_names (o_hdrs (serve C10_st false (C10_preflight (b "https://example.com") (b "x-foo")) C10_pre))
    = [b "Accept-Encoding"; h_acrh; h_acrm; h_acrpn; h_origin].
Proof. vm_compute. repeat split; reflexivity. Qed.

(* same Origin, different other fields: equal outcomes; different Origin: the premise fails,
   and the outcomes do differ *)
Example C10_example_pairs :
  let a := C10_get (b "https://example.com") [] in
  let c := C10_get (b "https://example.com") [(b "Cookie", [b "k=v"]); (b "Access-Control-Request-Method", [b "PUT"])] in
  let d := C10_get (b "https://a.example.org") [] in
  (forallb (agree_on a c) (vary_names (o_hdrs (serve C10_st false a C10_pre))),
   outcome_eqb (serve C10_st false a C10_pre) (serve C10_st false c C10_pre),
   forallb (agree_on a d) (vary_names (o_hdrs (serve C10_st false a C10_pre))),
   outcome_eqb (serve C10_st false a C10_pre) (serve C10_st false d C10_pre))
  = (true, true, false, false).
Proof. vm_compute. reflexivity. Qed.

Example C10_example_preflight_pairs :
  let a := C10_preflight (b "https://example.com") (b "x-foo") in
  let c := C10_preflight (b "https://example.com") (b "x-baz") in
  (c10_ok a c (serve C10_st false a C10_pre) (serve C10_st false c C10_pre),
   forallb (agree_on a c) (vary_names (o_hdrs (serve C10_st false a C10_pre))),
   outcome_eqb (serve C10_st false a C10_pre) (serve C10_st false c C10_pre),
   vary_preserved C10_pre (serve C10_st false a C10_pre))
  = (true, false, false, true).
Proof. vm_compute. reflexivity. Qed.

(* ---- the same, for every configuration accepted by validation (composition with accepted_rel) ---- *)
Require Import Proofs.ComposeP.

Theorem C10_vary_sufficient_accepted : forall ace ip6 psl c ic dbg r1 r2 pre,
  new_internal_config ace ip6 psl c = inl ic -> NoDup (map fst pre) ->
  c10_ok r1 r2 (serve (Some ic) dbg r1 pre) (serve (Some ic) dbg r2 pre) = true.
Proof. exact c10_accepted. Qed.
Print Assumptions C10_vary_sufficient_accepted.

Theorem C10_vary_sufficient_accepted_eq : forall ace ip6 psl c ic dbg r1 r2 pre,
  new_internal_config ace ip6 psl c = inl ic ->
  beqb (r_method r1) (r_method r2) = true ->
  forallb (agree_on r1 r2) (vary_names (o_hdrs (serve (Some ic) dbg r1 pre))) = true ->
  serve (Some ic) dbg r1 pre = serve (Some ic) dbg r2 pre.
Proof. exact c10_accepted_eq. Qed.
Print Assumptions C10_vary_sufficient_accepted_eq.
