(* Properties/C13s.v -- C13 (and C01/C03, which rest on the same parser), stated for the SOURCE: the request-side origin
   parser.  [go_Parse], [go_parseScheme], [go_fastParseHost], [go_parsePort] are the Gallina functions that
   tools/genloop regenerates on every run from internal/origins/origins.go (coq/Gen/LoopSrc.v); their loops carry
   explicit fuel whose exhaustion would make them return None, so each equality below also says that the fuel the
   translator derives from the loop's form always suffices.  Proofs: Proofs/LoopOriginsP.v. *)
Require Import Base.Bytes Gen.Tables Model.Util Model.Headers Model.Origins Model.UtilRt Gen.UtilSrc Model.LoopRt Gen.LoopSrc.
Require Import Proofs.LoopOriginsP.
Import Coq.Strings.String.StringSyntax.
Arguments b _%string_scope.

Theorem C13_source_Parse_is_the_model : forall s,
  go_Parse s = Some (match parse s with Some o => (o, true) | None => (zero_origin, false) end).
Proof. exact go_Parse_eq. Qed.
Print Assumptions C13_source_Parse_is_the_model.

Theorem C13_source_parseScheme_is_the_model : forall s,
  go_parseScheme s = Some (match parse_scheme s with Some (sch, rest) => (sch, rest, true) | None => ([], s, false) end).
Proof. exact go_parseScheme_eq. Qed.
Print Assumptions C13_source_parseScheme_is_the_model.

Theorem C13_source_parsePort_is_the_model : forall s,
  go_parsePort s = Some (match parse_port s with Some (p, rest) => (p, rest, true) | None => (0%Z, s, false) end).
Proof. exact go_parsePort_eq. Qed.
Print Assumptions C13_source_parsePort_is_the_model.

(* non-vacuity: the translated parser on concrete origins *)
Example C13_source_runs :
  map (fun s => match go_Parse s with Some (o, ok) => (ok, oscheme o, hvalue (ohost o), oport o) | None => (false, [], [], (-1)%Z) end)
      [b "https://foo.example.com:8443"; b "http://[::1]:9"; b "https://a..b"; b "https://example.com:65536"; b "httpx://example.com"]
  = [(true, b "https", b "foo.example.com", 8443%Z); (true, b "http", b "::1", 9%Z); (false, [], [], 0%Z); (false, [], [], 0%Z);
     (true, b "httpx", b "example.com", 0%Z)].
Proof. vm_compute. reflexivity. Qed.
