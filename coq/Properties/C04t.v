(* Properties/C04t.v -- C04: the small helper functions it rests on, stated for the SOURCE.  [go_*] are the Gallina
   functions that tools/genutil regenerates on every run from internal/util/{bytecase,sortedset,set}.go,
   internal/methods/methods.go, internal/headers/{req,res}.go, headers.IsValid and headers.isOWS (coq/Gen/UtilSrc.v);
   standard-library calls are the contract functions of Model/UtilRt.v.  Proofs: Proofs/UtilSrcP.v. *)
Require Import Base.Bytes Gen.Tables Model.Util Model.Headers Model.Methods Model.UtilRt Gen.UtilSrc.
Require Import Proofs.HeadersP Proofs.UtilSrcP.
Import Coq.Strings.String.StringSyntax.
Arguments b _%string_scope.

Theorem C04_source_header_predicates_are_the_model : forall n,
  go_headers_IsValid n = is_valid_name n /\
  go_IsForbiddenRequestHeaderName n = is_forbidden_req n /\ go_IsProhibitedRequestHeaderName n = is_prohibited_req n /\
  go_IsForbiddenResponseHeaderName n = is_forbidden_res n /\ go_IsProhibitedResponseHeaderName n = is_prohibited_res n /\
  go_IsSafelistedResponseHeaderName n = is_safelisted_res n.
Proof. exact go_header_predicates_eq. Qed.
Print Assumptions C04_source_header_predicates_are_the_model.

Theorem C04_source_method_predicates_are_the_model : forall m,
  go_methods_IsValid m = method_is_valid m /\ go_methods_IsForbidden m = method_is_forbidden m /\
  go_methods_IsSafelisted m = method_is_safelisted m /\ go_methods_Normalize m = method_normalize m.
Proof. exact go_methods_eq. Qed.
Print Assumptions C04_source_method_predicates_are_the_model.

Example C04_source_runs :
  map go_IsForbiddenRequestHeaderName [b "cookie"; b "sec-aaaaaaaaaaaaaaaaaaaaaaaaaaaaaaaaaaaaaaaaaaaaaaaa"; b "proxy-"; b "x-foo"] = [true; true; true; false] /\
  map go_methods_IsForbidden [b "connect"; b "TRACE"; b "PATCH"] = [true; true; false] /\
  go_methods_Normalize (b "put") = b "PUT".
Proof. repeat split; vm_compute; reflexivity. Qed.
