(* Properties/C06s.v -- C06 stated for the SOURCE: [go_newInternalConfig] / [go_newConfig] are the Gallina functions
   that tools/gencfg regenerates from /repo/config.go on every run (coq/Gen/CfgSrc.v: validatePreflightStatus,
   validateOrigins, validateMethods, validateRequestHeaders, validateMaxAge, validateResponseHeaders,
   newInternalConfig, newConfig, translated statement by statement; loops are folds over the loop-carried variables).
   A change to any of these functions changes the generated definitions; these theorems are then re-checked against
   what the code says now.  Proofs: Proofs/CfgSrcP.v (generated = hand-written model, for all inputs) and
   Proofs/CfgSrcXferP.v. *)
Require Import Base.Bytes Gen.Tables.
Require Import Model.Util Model.Headers Model.Methods Model.Origins Model.Netip Model.Pattern Model.Radix
  Model.CfgErrors Model.Config Model.CfgRt Gen.CfgSrc Model.Serve Model.Mw.
Require Import Spec.Origins Spec.Wire Spec.ConfigDoc Spec.Equiv.
Require Import Proofs.RadixP Proofs.ServeP Proofs.RoundTripParseP Proofs.CfgSrcP Proofs.CfgSrcXferP.
Require Import Properties.C05.

Theorem C06_source_validation_is_the_model : forall ace ip6 psl c,
  go_newInternalConfig ace ip6 psl c = new_internal_config ace ip6 psl c.
Proof. exact go_newInternalConfig_eq. Qed.
Print Assumptions C06_source_validation_is_the_model.

Theorem C06_source_config_rendering_is_the_model : forall ic, go_newConfig ic = new_config ic.
Proof. exact go_newConfig_eq. Qed.
Print Assumptions C06_source_config_rendering_is_the_model.

Theorem C06_source_config_is_accepted : forall ace ip6 psl c ic, ip6_sane ip6 ->
  go_newInternalConfig ace ip6 psl c = inl ic ->
  exists ic1, go_newInternalConfig ace ip6 psl (go_newConfig ic) = inl ic1.
Proof. exact go_config_is_accepted. Qed.
Print Assumptions C06_source_config_is_accepted.

Theorem C06_source_same_responses : forall ace ip6 psl c ic ic1, ip6_sane ip6 ->
  go_newInternalConfig ace ip6 psl c = inl ic ->
  go_newInternalConfig ace ip6 psl (go_newConfig ic) = inl ic1 ->
  forall dbg r pre, serve (Some ic1) dbg r pre = serve (Some ic) dbg r pre.
Proof. exact go_same_responses. Qed.
Print Assumptions C06_source_same_responses.

(* non-vacuity: the translated source, run on the example configurations of Properties/C05.v *)
Example C06_source_runs :
  (match go_newInternalConfig ex_ace ex_ip6 ex_psl ex_good with inl ic => go_newConfig ic = new_config ic | inr _ => False end) /\
  (match go_newInternalConfig ex_ace ex_ip6 ex_psl ex_bad with inl _ => False | inr e => flatten e = violations ex_ace ex_ip6 ex_psl ex_bad end).
Proof. split; vm_compute; reflexivity. Qed.

(* ---- the constructors and the Reconfigure(Config()) round trip over the translated methods of middleware.go ---- *)
Require Import Model.MwRt Gen.MwSrc Proofs.MwSrcP Proofs.SrcXferP.

Theorem C06_source_constructors_agree : forall ace ip6 psl c,
  fst (go_NewMiddleware ace ip6 psl c) =
  match go_newInternalConfig ace ip6 psl c with
  | inl _ => Some (fst (go_Reconfigure ace ip6 psl zero_mw (Some c)))
  | inr _ => None
  end.
Proof. exact go_constructors_agree. Qed.
Print Assumptions C06_source_constructors_agree.

Theorem C06_source_reconfigure_config_noop : forall ace ip6 psl c ic dbg, ip6_sane ip6 ->
  go_newInternalConfig ace ip6 psl c = inl ic ->
  let st := (Some ic, dbg) in
  exists st', go_Reconfigure ace ip6 psl st (go_Config st) = (st', None) /\ snd st' = dbg /\
              forall r pre, mw_serve st' r pre = mw_serve st r pre.
Proof. exact go_reconfigure_config_noop. Qed.
Print Assumptions C06_source_reconfigure_config_noop.
