(* Properties/C17.v -- no run-time panic in the hand-sliced string code.
   Model/Index.v restates splitAtCommonSuffix (radix.go), parsePort (origins.go), cutAtComma (acrh.go),
   SortedSet.IndexAfter (sortedset.go), headers.First (common.go) and the inner loop of headers.Check
   at INDEX level: every Go index expression s[i] and slice expression s[lo:hi] (including the hoisted
   bounds checks `_ = l[:len(s)]`) is an explicit operation that yields [Panic] when out of range.
   The theorems say: on EVERY input (for IndexAfter: under its documented precondition, which the only
   caller's loop is shown to establish and maintain) the result is [Ok _] -- never [Panic] -- and the
   value is the one computed by the structural models used everywhere else in the development.
   Items 7-8 discharge the "by construction" comments: Tree.Insert's s[0] and hostOnly's value[2:] on
   accepted patterns, uint8(status-200) and Atoi on the rendered max-age of accepted configurations.

   Definitions used in the statements (Proofs/IndexP.v):
     cres_to_idx r      := IFail / IOk p e / IFuel for CFail / COk p e / CFuel      (never IPanic)
     pos_inv set pos    := -1 <= pos < Z.of_nat (length (elems set)) \/ pos = -1
     check_lines_idx    := the outer loop of headers.Check over check_line_idx, as check_lines is over check_line *)
Require Import Base.Bytes Gen.Tables.
Require Import Model.Util Model.Headers Model.Origins Model.Netip Model.Idna Model.Pattern Model.Radix
  Model.CfgErrors Model.Config Model.Index.
Require Import Proofs.IndexP.
Import Coq.Strings.String.StringSyntax.
Arguments b _%string_scope.
Open Scope Z_scope.

(* 1. splitAtCommonSuffix never panics; it splits both strings at their longest common suffix, which
      is the reversed-string common_prefix of the radix-tree model *)
Theorem C17_split_at_common_suffix_safe : forall a c,
  exists ra rc com, split_at_common_suffix a c = Ok (ra, rc, com) /\
    a = ra ++ com /\ c = rc ++ com /\
    common_prefix (rev a) (rev c) = (rev ra, rev rc, rev com).
Proof. exact split_at_common_suffix_safe. Qed.
Print Assumptions C17_split_at_common_suffix_safe.

(* 2. parsePort *)
Theorem C17_parse_port_safe : forall s, parse_port_idx s = Ok (parse_port s).
Proof. exact parse_port_idx_ok. Qed.
Print Assumptions C17_parse_port_safe.

(* 3. cutAtComma, for every string and every window size n >= 0 *)
Theorem C17_cut_at_comma_safe : forall s n, cut_at_comma_idx s (Z.of_nat n) = Ok (cut_at_comma s n).
Proof. exact cut_at_comma_idx_ok. Qed.
Print Assumptions C17_cut_at_comma_safe.

(* 4. IndexAfter under its documented precondition ... *)
Theorem C17_index_after_safe : forall set n e,
  -1 <= n < Z.of_nat (length (elems set)) \/ n = -1 ->
  index_after_idx set n e = Ok (index_after set n e).
Proof. exact index_after_idx_ok. Qed.
Print Assumptions C17_index_after_safe.

(* ... and the precondition is exactly what is needed: IndexAfter panics if and only if the length
   pre-check does not return early and the precondition is violated *)
Theorem C17_index_after_panic_iff : forall set n e,
  index_after_idx set n e = Panic <->
  (maxlen set <? blen e)%N = false /\ ~ (-1 <= n < Z.of_nat (length (elems set)) \/ n = -1).
Proof. exact index_after_idx_panic_iff. Qed.
Print Assumptions C17_index_after_panic_iff.

(* the value returned by IndexAfter is -1 or a position inside the set, beyond n *)
Theorem C17_index_after_range : forall set n e,
  -1 <= n < Z.of_nat (length (elems set)) \/ n = -1 ->
  index_after set n e = -1 \/ n < index_after set n e < Z.of_nat (length (elems set)).
Proof. exact index_after_range. Qed.
Print Assumptions C17_index_after_range.

(* 5. the Check loop maintains that precondition at every call of IndexAfter: for every fuel, window,
      field line and every start position satisfying the invariant it never panics, and it equals
      the structural loop *)
Theorem C17_check_line_safe : forall fuel set win acrh pos emp,
  -1 <= pos < Z.of_nat (length (elems set)) \/ pos = -1 ->
  check_line_idx fuel set (Z.of_nat win) acrh pos emp =
    match check_line fuel set win acrh pos emp with CFail => IFail | COk p e => IOk p e | CFuel => IFuel end.
Proof. exact check_line_idx_ok. Qed.
Print Assumptions C17_check_line_safe.

(* the invariant holds again on exit of one field line, hence across all field lines; Check itself
   starts from pos = -1 *)
Theorem C17_check_line_pos_inv : forall fuel set win acrh pos emp p e,
  pos_inv set pos -> check_line fuel set win acrh pos emp = COk p e -> pos_inv set p.
Proof. exact check_line_pos_inv. Qed.
Print Assumptions C17_check_line_pos_inv.

Theorem C17_check_never_panics : forall set lines,
  check_lines_idx set (Z.of_nat (check_window set)) lines (-1) 0 =
    cres_to_idx (check_lines set (check_window set) lines (-1) 0) /\
  check_lines_idx set (Z.of_nat (check_window set)) lines (-1) 0 <> IPanic.
Proof. exact check_idx_never_panics. Qed.
Print Assumptions C17_check_never_panics.

(* 6. First: v[0] and v[:1] are evaluated only on a non-empty slice *)
Theorem C17_first_safe : forall m k,
  first_idx m k = Ok (match hget m k with Some (x :: _) => Some (x, [x]) | _ => None end) /\
  (forall x sgl, first_idx m k = Ok (Some (x, sgl)) -> first m k = Some x /\ sgl = [x]) /\
  (first_idx m k = Ok None <-> first m k = None).
Proof. exact first_idx_ok. Qed.
Print Assumptions C17_first_safe.

(* 7. "non-empty by construction": Tree.Insert evaluates s[0] on the host pattern's value; hostOnly
      slices value[2:] for wildcard patterns *)
Theorem C17_pattern_value_nonempty : forall ace ip6 raw p,
  parse_pattern ace ip6 raw = inl p -> pvalue p <> [].
Proof. exact pattern_value_nonempty. Qed.
Print Assumptions C17_pattern_value_nonempty.

Theorem C17_wildcard_value_has_prefix : forall ace ip6 raw p,
  parse_pattern ace ip6 raw = inl p -> pkind_of p = KSubdomains ->
  exists rest, pvalue p = 42%N :: 46%N :: rest.
Proof. exact wildcard_value_has_prefix. Qed.
Print Assumptions C17_wildcard_value_has_prefix.

Theorem C17_pattern_host_nonempty : forall ace ip6 raw p,
  parse_pattern ace ip6 raw = inl p -> host_only (pvalue p) (pkind_of p) <> [].
Proof. exact pattern_host_nonempty. Qed.
Print Assumptions C17_pattern_host_nonempty.

(* 8. for accepted configurations uint8(status-200) is exact, and the rendered max-age is a non-empty
      decimal string, so Atoi on it cannot fail *)
Theorem C17_status_fits_uint8 : forall ace ip6 psl c ic,
  new_internal_config ace ip6 psl c = inl ic -> 0 <= i_status_m200 ic <= 99.
Proof. exact status_fits_uint8. Qed.
Print Assumptions C17_status_fits_uint8.

Theorem C17_acma_is_decimal : forall ace ip6 psl c ic v,
  new_internal_config ace ip6 psl c = inl ic -> i_acma ic = Some v ->
  v <> [] /\ all_bytes is_digit v = true.
Proof. exact acma_is_decimal. Qed.
Print Assumptions C17_acma_is_decimal.

(* ---- non-vacuity and concrete runs ---- *)

(* both orders of the length test, a full match, no common suffix *)
Example C17_example_split :
  map (fun ac => split_at_common_suffix (fst ac) (snd ac))
      [ (b "foo.example.com", b "bar.example.com");
        (b "example.com", b "www.example.com");
        (b "www.example.com", b "example.com");
        (b "", b "abc");
        (b "abc", b "xyz") ]
  = [ Ok (b "foo", b "bar", b ".example.com");
      Ok (b "", b "www.", b "example.com");
      Ok (b "www.", b "", b "example.com");
      Ok (b "", b "abc", b "");
      Ok (b "abc", b "xyz", b "") ].
Proof. vm_compute. reflexivity. Qed.

Example C17_example_split_model :
  common_prefix (rev (b "foo.example.com")) (rev (b "bar.example.com"))
  = (rev (b "foo"), rev (b "bar"), rev (b ".example.com")).
Proof. vm_compute. reflexivity. Qed.

(* shorter than, equal to and longer than maxPortLen; leading zero; overflow of uint16 *)
Example C17_example_parse_port :
  map parse_port_idx [b "8080"; b "65535"; b "65536"; b "123456"; b "0"; b "9"; b "80/x"; b ""]
  = [ Ok (Some (8080, b "")); Ok (Some (65535, b "")); Ok None; Ok (Some (12345, b "6"));
      Ok None; Ok (Some (9, b "")); Ok (Some (80, b "/x")); Ok None ].
Proof. vm_compute. reflexivity. Qed.

(* comma inside, at the edge of, and beyond the window; window larger than the string; n = 0 *)
Example C17_example_cut_at_comma :
  map (fun sn => cut_at_comma_idx (fst sn) (snd sn))
      [ (b "ab,cd", 5); (b "ab,cd", 3); (b "ab,cd", 2); (b "ab,cd", 100); (b "ab,cd", 0); (b "", 4); (b ",", 1) ]
  = [ Ok (b "ab", b "cd", true); Ok (b "ab", b "cd", true); Ok (b "ab,cd", b "", false);
      Ok (b "ab", b "cd", true); Ok (b "ab,cd", b "", false); Ok (b "", b "", false); Ok (b "", b "", true) ].
Proof. vm_compute. reflexivity. Qed.

Definition C17_set : sset := new_set [b "x-foo"; b "authorization"; b "content-type"].

(* the precondition of IndexAfter is satisfiable; outside it the slice expression panics, unless the
   length pre-check returns first *)
Example C17_example_index_after :
  map (fun ne => index_after_idx C17_set (fst ne) (snd ne))
      [ (-1, b "authorization"); (0, b "x-foo"); (2, b "x-foo"); (1, b "authorization");
        (3, b "x-foo"); (-2, b "x-foo"); (3, b "a-name-longer-than-every-element") ]
  = [ Ok 0; Ok 2; Ok (-1); Ok (-1); Panic; Panic; Ok (-1) ].
Proof. vm_compute. reflexivity. Qed.

Example C17_example_index_after_empty_set :
  index_after_idx sset_empty (-1) (b "") = Ok (-1) /\ index_after_idx sset_empty 0 (b "") = Panic.
Proof. vm_compute. split; reflexivity. Qed.

Example C17_example_check :
  check_lines_idx C17_set (Z.of_nat (check_window C17_set))
    [b "authorization,content-type"; b ",, x-foo "] (-1) 0 = IOk 2 2 /\
  check_lines_idx C17_set (Z.of_nat (check_window C17_set))
    [b "content-type,authorization"] (-1) 0 = IFail /\
  check_line_idx 30 C17_set (Z.of_nat (check_window C17_set)) (b "x-foo") 3 0 = IPanic.
Proof. vm_compute. repeat split; reflexivity. Qed.

Example C17_example_first :
  let m : hmap := [(b "Origin", [b "https://a"; b "https://b"]); (b "Vary", [])] in
  first_idx m (b "Origin") = Ok (Some (b "https://a", [b "https://a"])) /\
  first_idx m (b "Vary") = Ok None /\ first_idx m (b "Missing") = Ok None.
Proof. vm_compute. repeat split; reflexivity. Qed.

Example C17_example_pattern :
  (exists p, parse_pattern (fun _ => true) (fun _ => IPErr) (b "https://*.example.org:8080") = inl p /\
             pkind_of p = KSubdomains /\ pvalue p = b "*.example.org") /\
  (exists p, parse_pattern (fun _ => true) (fun _ => IPErr) (b "http://127.0.0.1:9090") = inl p /\
             pkind_of p = KLoopbackIP /\ pvalue p = b "127.0.0.1").
Proof. split; eexists; vm_compute; repeat split; reflexivity. Qed.

Example C17_example_config :
  exists ic, new_internal_config (fun _ => true) (fun _ => IPErr) (fun _ => false)
    {| c_origins := [b "https://example.com"; b "https://*.example.org:8080"];
       c_credentialed := true;
       c_methods := [b "get"; b "PUT"];
       c_req_headers := [b "Authorization"; b "X-Foo"];
       c_max_age := 86400;
       c_res_headers := [b "X-Bar"];
       c_status := 299;
       c_pna := false; c_pna_nocors := false; c_tol_insecure := false; c_tol_psl := false |} = inl ic /\
    i_status_m200 ic = 99 /\ i_acma ic = Some (b "86400").
Proof. eexists. vm_compute. repeat split; reflexivity. Qed.
