(* Properties/C12.v -- the wrapped handler only ever sees private slices.
   Model/Prov.v [pserve st debug r pre] mirrors Model/Serve.v [serve] and returns, for every
   response-header key the middleware writes, the provenance of the slice it installs
   (Own: freshly allocated; ReqSlice k: a sub-slice of the request's own value list for k;
   Shared s: a package-level singleton of internal/headers; CfgSlice b: owned by the internal
   configuration), together with whether the wrapped handler is invoked.
     handler_safe t := t is Own or ReqSlice _ *)
Require Import Base.Bytes Gen.Tables Model.Util Model.Headers Model.Methods Model.Origins
  Model.Pattern Model.Radix Model.Netip Model.Config Model.Serve Model.Prov Proofs.ProvP.
Import Coq.Strings.String.StringSyntax. Arguments b _%string_scope.
Open Scope N_scope.

(* whenever the wrapped handler runs, every slice the middleware installed is freshly allocated
   or is the request's own: no package-level singleton and no configuration-owned slice is
   reachable (hence writable in place) by the handler *)
Theorem C12_handler_sees_only_private_slices : forall st dbg r pre,
  snd (pserve st dbg r pre) = true ->
  forallb (fun kv => handler_safe (snd kv)) (fst (pserve st dbg r pre)) = true.
Proof. exact handler_sees_only_private_slices. Qed.
Print Assumptions C12_handler_sees_only_private_slices.

(* pserve and serve take the same path, and serve changes no key that pserve does not tag *)
Theorem C12_prov_accounts_for_every_write : forall st dbg r pre,
  snd (pserve st dbg r pre) = o_delegated (serve st dbg r pre) /\
  forall k, ~ In k (map fst (fst (pserve st dbg r pre))) ->
            hget (o_hdrs (serve st dbg r pre)) k = hget pre k.
Proof. exact prov_accounts_for_every_write. Qed.
Print Assumptions C12_prov_accounts_for_every_write.

(* ---- non-vacuity: a credentialed configuration, an actual request and a preflight ---- *)
Definition c12_cfg : config :=
  {| c_origins := [b "https://example.com"]; c_credentialed := true; c_methods := [b "PUT"];
     c_req_headers := [b "Authorization"]; c_max_age := 30%Z; c_res_headers := [b "X-Foo"];
     c_status := 0%Z; c_pna := false; c_pna_nocors := false; c_tol_insecure := false; c_tol_psl := false |}.
Definition c12_st : option icfg :=
  match new_internal_config (fun _ => true) (fun _ => IPErr) (fun _ => false) c12_cfg with
  | inl ic => Some ic | inr _ => None end.
Definition c12_actual : request :=
  {| r_method := b "GET"; r_hdrs := [(headers_Origin, [b "https://example.com"])] |}.
Definition c12_preflight : request :=
  {| r_method := b "OPTIONS";
     r_hdrs := [(headers_Origin, [b "https://example.com"]); (headers_ACRM, [b "PUT"]);
                (headers_ACRH, [b "authorization"])] |}.

Example C12_ex_cfg_accepted : c12_st <> None.
Proof. vm_compute. discriminate. Qed.

Example C12_ex_actual :
  pserve c12_st false c12_actual [] =
  ([(headers_Vary, Own); (headers_ACAO, ReqSlice headers_Origin); (headers_ACAC, Own); (headers_ACEH, Own)], true).
Proof. vm_compute; reflexivity. Qed.

Example C12_ex_actual_served :
  o_delegated (serve c12_st false c12_actual []) = true /\
  o_hdrs (serve c12_st false c12_actual []) =
  [(headers_Vary, [headers_Origin]); (headers_ACAO, [b "https://example.com"]);
   (headers_ACAC, [headers_ValueTrue]); (headers_ACEH, [b "x-foo"])].
Proof. vm_compute; split; reflexivity. Qed.

(* the preflight installs shared and configuration-owned slices -- but never invokes the handler *)
Example C12_ex_preflight :
  pserve c12_st false c12_preflight [] =
  ([(headers_Vary, Shared ShPreflightVary); (headers_ACAO, ReqSlice headers_Origin);
    (headers_ACAC, Shared ShTrue); (headers_ACAM, ReqSlice headers_ACRM);
    (headers_ACAH, ReqSlice headers_ACRH); (headers_ACMA, CfgSlice false)], false).
Proof. vm_compute; reflexivity. Qed.

Example C12_ex_preflight_not_safe :
  forallb (fun kv => handler_safe (snd kv)) (fst (pserve c12_st false c12_preflight [])) = false.
Proof. vm_compute; reflexivity. Qed.

(* debug mode, pre-existing Vary: the list is appended to (fresh), ACAH is the configuration's slice *)
Example C12_ex_preflight_debug :
  pserve c12_st true c12_preflight [(headers_Vary, [b "Accept-Encoding"])] =
  ([(headers_Vary, Own); (headers_ACAO, ReqSlice headers_Origin);
    (headers_ACAC, Shared ShTrue); (headers_ACAM, ReqSlice headers_ACRM);
    (headers_ACAH, CfgSlice true); (headers_ACMA, CfgSlice false)], false).
Proof. vm_compute; reflexivity. Qed.

(* ---- tie to the source: the writes to header maps that tools/genconc extracts from middleware.go on this
   run (Gen/ProvSrc.v). (1) the two functions that run BEFORE the wrapped handler (handleNonCORS,
   handleCORSActual) install only Header.Add / Header.Set results and sub-slices of the request's own
   headers - never a package-level singleton, never a configuration-owned slice; (2) every header write of
   the file is one the provenance model accounts for (no unknown right-hand side, no Del, no write outside
   the seven modelled functions); (3) every tag the model uses comes from a write that exists in the
   source. Installing a shared or configuration-owned slice on a handler-visible path, or a new kind of
   write, makes these theorems fail to check. ---- *)
Require Import Gen.ProvSrc Proofs.ProvSrcP.

Theorem C12_source_handler_paths_install_only_private_slices :
  forallb handler_safe_w (go_writes_handleNonCORS ++ go_writes_handleCORSActual) = true.
Proof. exact source_handler_paths_private. Qed.
Print Assumptions C12_source_handler_paths_install_only_private_slices.

Theorem C12_source_every_write_is_modelled :
  forallb modelled_w all_go_writes = true /\ go_header_writes_elsewhere = 0%nat.
Proof. exact source_every_write_is_modelled. Qed.
Print Assumptions C12_source_every_write_is_modelled.

Theorem C12_model_tags_come_from_source_writes : forall st dbg r pre,
  Forall (fun kt => src_has_tag (snd kt) = true) (fst (pserve st dbg r pre)).
Proof. exact model_tags_come_from_source. Qed.
Print Assumptions C12_model_tags_come_from_source_writes.
