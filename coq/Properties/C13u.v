(* Properties/C13u.v -- C13, source level: the translated ASCIISet (internal/util/asciiset.go) is exactly
   membership in its defining string, the contract under which the other translators read set.Contains(b). *)
Require Import Base.Bytes Model.AsciiRt Gen.AsciiSrc Proofs.AsciiSrcP.

Theorem C13_source_asciiset_contains_is_membership (chars : bytes) (c : N) :
  (c < 256)%N -> go_ASCIISet_Contains (go_MakeASCIISet chars) c = memN c chars.
Proof. exact (go_ASCIISet_Contains_Make chars c). Qed.
Print Assumptions C13_source_asciiset_contains_is_membership.

Example C13_source_asciiset_runs :
  map (go_ASCIISet_Contains (go_MakeASCIISet [97; 122; 45; 200]%N)) [97; 98; 45; 200; 255; 0]%N = [true; false; true; true; false; false].
Proof. vm_compute. reflexivity. Qed.
