(* Properties/C03t.v -- what C03 needs of the origin tree (an origin is reported as allowed only if a listed pattern
   denotes it), for the radix tree AS TRANSLATED FROM internal/origins/radix.go on this run (tools/genradix ->
   Gen/RadixSrc.v). Theorems only. *)
Require Import Base.Bytes Gen.Tables Model.Origins Model.Pattern Model.Radix Model.LoopRt Model.RadixRt Gen.RadixSrc.
Require Import Spec.Origins Proofs.RadixP Proofs.RadixAbs Proofs.RadixSrcXferP.
Open Scope N_scope.

Theorem C03_source_tree_grants_only_listed : forall ps o, Forall valid_pattern ps -> valid_origin o ->
  exists t, go_build ps = Some t /\
            (go_Tree_Contains t o = Some true -> allowed_by ps o = true) /\
            (exists v, go_Tree_Contains t o = Some v).
Proof.
  intros ps o Hps Ho. destruct (go_tree_contains_build ps o Hps Ho) as (t & H1 & H2).
  exists t. split; [exact H1|]. split.
  - intros H. rewrite H2 in H. inversion H. reflexivity.
  - eexists. exact H2.
Qed.
Print Assumptions C03_source_tree_grants_only_listed.
