(* Properties/C14t.v -- C14 stated for the SOURCE: [go_Check], [go_cutAtComma], [go_TrimOWS] are the Gallina functions
   that tools/genloop regenerates on every run from internal/headers/acrh.go and ows.go (coq/Gen/LoopSrc.v).  The
   equality with the hand-written model also says that the fuel of the translated loops always suffices.  Together
   with C14_check_spec (Properties/C14.v) this makes the translated Check equal to the naive reading of the
   requested-header list.  Proofs: Proofs/LoopHeadersP.v. *)
Require Import Base.Bytes Gen.Tables Model.Util Model.Headers Model.Origins Model.UtilRt Gen.UtilSrc Model.LoopRt Gen.LoopSrc.
Require Import Proofs.HeadersP Proofs.LoopHeadersP.
Import Coq.Strings.String.StringSyntax.
Arguments b _%string_scope.

Theorem C14_source_Check_is_the_model : forall set lines, go_Check set lines = Some (check set lines).
Proof. exact go_Check_eq. Qed.
Print Assumptions C14_source_Check_is_the_model.

Theorem C14_source_cutAtComma_is_the_model : forall s n, (0 <= n)%Z -> go_cutAtComma s n = cut_at_comma s (Z.to_nat n).
Proof. exact go_cutAtComma_eq. Qed.
Print Assumptions C14_source_cutAtComma_is_the_model.

Theorem C14_source_TrimOWS_is_the_model : forall s n, (0 <= n)%Z ->
  go_TrimOWS s n = Some (match trim_ows s (Z.to_N n) with Some t => (t, true) | None => (s, false) end).
Proof. exact go_TrimOWS_eq. Qed.
Print Assumptions C14_source_TrimOWS_is_the_model.

Example C14_source_check_runs :
  let s := new_set [b "x-foo"; b "x-bar"; b "content-type"] in
  map (go_Check s) [[b "content-type, x-bar"; b ",, x-foo"]; [b "x-foo,x-bar"]; [b "x-bar,x-bar"]; [b "x-bar"; b ""; b "x-foo"];
                    [b ",,,,,,,,,,,,,,,,,"]; [b "x-bar  ,x-foo"]]
  = [Some true; Some false; Some false; Some true; Some false; Some false].
Proof. vm_compute. reflexivity. Qed.
