(* Properties/C02.v -- the verdict of a Fetch-compliant browser (Spec/Fetch.v: CORS-preflight
   fetch step 7, CORS check, PNA) on the middleware's two responses equals what the
   documentation says the configuration means ([permits]), in both debug modes and for every
   tolerated rendering of the Access-Control-Request-Headers list.

   Link to validation: [icfg_rel] (Proofs/Rel.v) is a hypothesis, together with

     (EXTRA 1)  every element of the internal request-header set is an RFC 9110 token
                (needed in debug mode only, where the joined list is sent as ACAH and the browser
                parses it; [icfg_rel] does not record the validity of the configured names);

     (EXTRA 2)  under an allow-all configuration, an intent that needs a preflight carries an
                Origin value that origins.Parse accepts.  WITHOUT IT THE STATEMENT IS FALSE: with
                Origins ["*"] the preflight for Origin "null" is refused with 403 (the preflight
                path parses the Origin before looking at the configuration) whereas the actual
                request is answered with ACAO "*"; see [C02_opaque_origin_counterexample] below.
                [C02_exact] gives the verdict without this hypothesis.

   Definitions used (Proofs/FetchP.v):
     parses v := origins.Parse accepts v
     opaque_preflight_under_allow_all c i :=
       lists_star (c_origins c) && needs_preflight i && negb (parses (in_origin i)) *)
Require Import Base.Bytes Gen.Tables.
Require Import Model.Util Model.Headers Model.Methods Model.Origins Model.Netip Model.Pattern Model.Radix
  Model.CfgErrors Model.Config Model.Serve.
Require Import Spec.Origins Spec.Wire Spec.ConfigDoc Spec.AcrhList Spec.Fetch.
Require Import Proofs.RadixP Proofs.HeadersP Proofs.Rel Proofs.FetchP.
Open Scope N_scope.

Theorem C02_browser_verdict_is_what_the_configuration_means :
  forall ace ip6 c ic i lines dbg,
    icfg_rel ace ip6 c ic -> Forall valid_pattern (cfg_patterns ace ip6 c) ->
    (* EXTRA 1 *) Forall (fun n => Spec.Fetch.is_token n = true) (elems (i_req_hdrs ic)) ->
    wf_intent i -> perturb (in_headers i) lines ->
    (* EXTRA 2 *) (lists_star (c_origins c) = true -> needs_preflight i = true -> parse (in_origin i) <> None) ->
    browser_verdict i (serve (Some ic) dbg (preflight_request i lines) [])
                      (serve (Some ic) dbg (actual_request i) []) = permits c (cfg_patterns ace ip6 c) i.
Proof. exact f_C02_main. Qed.
Print Assumptions C02_browser_verdict_is_what_the_configuration_means.

(* the verdict in every cell, without EXTRA 2 *)
Theorem C02_exact :
  forall ace ip6 c ic i lines dbg,
    icfg_rel ace ip6 c ic -> Forall valid_pattern (cfg_patterns ace ip6 c) ->
    (* EXTRA 1 *) Forall (fun n => Spec.Fetch.is_token n = true) (elems (i_req_hdrs ic)) ->
    wf_intent i -> perturb (in_headers i) lines ->
    browser_verdict i (serve (Some ic) dbg (preflight_request i lines) [])
                      (serve (Some ic) dbg (actual_request i) []) =
    permits c (cfg_patterns ace ip6 c) i && negb (opaque_preflight_under_allow_all c i).
Proof. exact f_C02_exact. Qed.
Print Assumptions C02_exact.

(* same verdict with debug on or off (no condition on the Origin value) *)
Theorem C02_debug_invariant :
  forall ace ip6 c ic i lines,
    icfg_rel ace ip6 c ic -> Forall valid_pattern (cfg_patterns ace ip6 c) ->
    (* EXTRA 1 *) Forall (fun n => Spec.Fetch.is_token n = true) (elems (i_req_hdrs ic)) ->
    wf_intent i -> perturb (in_headers i) lines ->
    browser_verdict i (serve (Some ic) true (preflight_request i lines) [])
                      (serve (Some ic) true (actual_request i) []) =
    browser_verdict i (serve (Some ic) false (preflight_request i lines) [])
                      (serve (Some ic) false (actual_request i) []).
Proof. exact f_C02_debug_invariant. Qed.
Print Assumptions C02_debug_invariant.

(* the verdict is unaffected by the tolerated alterations of the ACRH field lines *)
Theorem C02_perturbation_invariant :
  forall ace ip6 c ic i lines lines' dbg,
    icfg_rel ace ip6 c ic -> Forall valid_pattern (cfg_patterns ace ip6 c) ->
    (* EXTRA 1 *) Forall (fun n => Spec.Fetch.is_token n = true) (elems (i_req_hdrs ic)) ->
    wf_intent i -> perturb (in_headers i) lines -> perturb (in_headers i) lines' ->
    browser_verdict i (serve (Some ic) dbg (preflight_request i lines) [])
                      (serve (Some ic) dbg (actual_request i) []) =
    browser_verdict i (serve (Some ic) dbg (preflight_request i lines') [])
                      (serve (Some ic) dbg (actual_request i) []).
Proof. exact f_C02_perturbation_invariant. Qed.
Print Assumptions C02_perturbation_invariant.

(* ---- non-vacuity and examples ---- *)
Import Coq.Strings.String.StringSyntax.
Arguments b _%string_scope.

Definition C02_ace (_ : bytes) : bool := true.
Definition C02_ip6 (_ : bytes) : ipres := IPErr.
Definition C02_psl (_ : bytes) : bool := false.

Definition C02_ic_of (c : config) : option icfg :=
  match new_internal_config C02_ace C02_ip6 C02_psl c with inl ic => Some ic | inr _ => None end.

(* a credentialed configuration with discrete origins, methods and request headers *)
Definition C02_c1 : config :=
  {| c_origins := [b "https://example.com"; b "https://*.example.org:*"]; c_credentialed := true;
     c_methods := [b "PUT"; b "patch"]; c_req_headers := [b "X-Foo"; b "Authorization"];
     c_max_age := 30; c_res_headers := [b "X-Bar"]; c_status := 0;
     c_pna := true; c_pna_nocors := false; c_tol_insecure := false; c_tol_psl := false |}.

(* allow-all, every method, every request header plus Authorization *)
Definition C02_c2 : config :=
  {| c_origins := [b "*"]; c_credentialed := false;
     c_methods := [b "*"]; c_req_headers := [b "*"; b "Authorization"];
     c_max_age := 0; c_res_headers := []; c_status := 279;
     c_pna := false; c_pna_nocors := false; c_tol_insecure := false; c_tol_psl := false |}.

Definition C02_intent o m h cr p : intent :=
  {| in_origin := o; in_method := m; in_headers := h; in_credentials := cr; in_pna := p |}.

Definition C02_verdicts (c : config) (i : intent) (lines : list bytes) : bool * bool * bool :=
  (browser_verdict i (serve (C02_ic_of c) false (preflight_request i lines) [])
                     (serve (C02_ic_of c) false (actual_request i) []),
   browser_verdict i (serve (C02_ic_of c) true (preflight_request i lines) [])
                     (serve (C02_ic_of c) true (actual_request i) []),
   permits c (cfg_patterns C02_ace C02_ip6 c) i).

Example C02_hyp_accepted :
  match C02_ic_of C02_c1, C02_ic_of C02_c2 with Some _, Some _ => true | _, _ => false end = true.
Proof. vm_compute. reflexivity. Qed.

Example C02_hyp_patterns : Forall valid_pattern (cfg_patterns C02_ace C02_ip6 C02_c1).
Proof. vm_compute. repeat constructor; discriminate. Qed.

Example C02_hyp_tokens :
  match C02_ic_of C02_c1 with
  | Some ic => forallb Spec.Fetch.is_token (elems (i_req_hdrs ic)) && negb (sset_size (i_req_hdrs ic) =? 0)
  | None => false
  end = true.
Proof. vm_compute. reflexivity. Qed.

Definition C02_i1 : intent :=
  C02_intent (b "https://api.example.org:8443") (b "PUT") [b "authorization"; b "x-foo"] true true.

Example C02_hyp_wf : wf_intent C02_i1.
Proof.
  unfold wf_intent. split; [vm_compute; reflexivity|]. split; [vm_compute; reflexivity|].
  repeat constructor; vm_compute; reflexivity.
Qed.

Example C02_hyp_perturb :
  perturb (in_headers C02_i1) [b ", authorization" ++ [9] ++ b ","; b " x-foo"].
Proof.
  exists [[]; b "authorization"; []; b "x-foo"]. vm_compute. repeat split; try reflexivity.
  repeat constructor.
Qed.

(* a permitted intent: verdict (debug off, debug on) and [permits], for two renderings *)
Example C02_ex_permitted :
  (C02_verdicts C02_c1 C02_i1 [b "authorization,x-foo"],
   C02_verdicts C02_c1 C02_i1 [b ", authorization" ++ [9] ++ b ","; b " x-foo"]) =
  ((true, true, true), (true, true, true)).
Proof. vm_compute. reflexivity. Qed.

(* refused intents: foreign origin; unlisted method (case matters: "patch" is not normalised);
   unlisted header; and -- allow-all, not credentialed -- credentials mode "include" *)
Example C02_ex_refused :
  [ C02_verdicts C02_c1 (C02_intent (b "https://example.net") (b "PUT") [b "x-foo"] true false) [b "x-foo"];
    C02_verdicts C02_c1 (C02_intent (b "https://example.com") (b "PATCH") [] true false) [];
    C02_verdicts C02_c1 (C02_intent (b "https://example.com") (b "patch") [] true false) [];
    C02_verdicts C02_c1 (C02_intent (b "https://example.com") (b "GET") [b "x-other"] false false) [b "x-other"];
    C02_verdicts C02_c2 (C02_intent (b "https://example.com") (b "DELETE") [b "authorization"; b "x-any"] false false)
                 [b "authorization, x-any"];
    C02_verdicts C02_c2 (C02_intent (b "https://example.com") (b "DELETE") [] true false) [];
    C02_verdicts C02_c2 (C02_intent (b "https://example.com") (b "GET") [] false true) [] ]
  = [(false, false, false); (false, false, false); (true, true, true); (false, false, false);
     (true, true, true); (false, false, false); (false, false, false)].
Proof. vm_compute. reflexivity. Qed.

(* EXTRA 2 is necessary: allow-all configuration, opaque origin, a request that needs a preflight.
   The preflight is refused (403, in both debug modes) although the simple request with the same
   Origin is answered with "*" and the configuration allows every origin. *)
Example C02_opaque_origin_counterexample :
  let i := C02_intent (b "null") (b "DELETE") [] false false in
  let i' := C02_intent (b "null") (b "GET") [] false false in
  (C02_verdicts C02_c2 i [], C02_verdicts C02_c2 i' [],
   o_status (serve (C02_ic_of C02_c2) false (preflight_request i []) []),
   o_status (serve (C02_ic_of C02_c2) true (preflight_request i []) []),
   hget (o_hdrs (serve (C02_ic_of C02_c2) false (actual_request i) [])) h_acao,
   opaque_preflight_under_allow_all C02_c2 i)
  = ((false, false, true), (true, true, true), Some 403%Z, Some 403%Z, Some [b "*"], true).
Proof. vm_compute. reflexivity. Qed.

(* ---- the same, for every configuration accepted by validation (composition with accepted_rel;
   the token hypothesis on the configured names is discharged from validation) ---- *)
Require Import Proofs.Compose2P.

Theorem C02_accepted : forall ace ip6 psl c ic i lines dbg,
  new_internal_config ace ip6 psl c = inl ic -> wf_intent i -> perturb (in_headers i) lines ->
  (lists_star (c_origins c) = true -> needs_preflight i = true -> parse (in_origin i) <> None) ->
  browser_verdict i (serve (Some ic) dbg (preflight_request i lines) [])
                    (serve (Some ic) dbg (actual_request i) []) = permits c (cfg_patterns ace ip6 c) i.
Proof. exact c02_accepted. Qed.
Print Assumptions C02_accepted.

Theorem C02_accepted_exact : forall ace ip6 psl c ic i lines dbg,
  new_internal_config ace ip6 psl c = inl ic -> wf_intent i -> perturb (in_headers i) lines ->
  browser_verdict i (serve (Some ic) dbg (preflight_request i lines) [])
                    (serve (Some ic) dbg (actual_request i) []) =
  permits c (cfg_patterns ace ip6 c) i && negb (opaque_preflight_under_allow_all c i).
Proof. exact c02_accepted_exact. Qed.
Print Assumptions C02_accepted_exact.

Theorem C02_accepted_debug_invariant : forall ace ip6 psl c ic i lines,
  new_internal_config ace ip6 psl c = inl ic -> wf_intent i -> perturb (in_headers i) lines ->
  browser_verdict i (serve (Some ic) true (preflight_request i lines) [])
                    (serve (Some ic) true (actual_request i) []) =
  browser_verdict i (serve (Some ic) false (preflight_request i lines) [])
                    (serve (Some ic) false (actual_request i) []).
Proof. exact c02_accepted_debug_invariant. Qed.
Print Assumptions C02_accepted_debug_invariant.

Theorem C02_accepted_perturbation_invariant : forall ace ip6 psl c ic i lines lines' dbg,
  new_internal_config ace ip6 psl c = inl ic -> wf_intent i ->
  perturb (in_headers i) lines -> perturb (in_headers i) lines' ->
  browser_verdict i (serve (Some ic) dbg (preflight_request i lines) [])
                    (serve (Some ic) dbg (actual_request i) []) =
  browser_verdict i (serve (Some ic) dbg (preflight_request i lines') [])
                    (serve (Some ic) dbg (actual_request i) []).
Proof. exact c02_accepted_perturbation_invariant. Qed.
Print Assumptions C02_accepted_perturbation_invariant.
