(* Properties/C08.v -- a Reconfigure call that returns an error leaves the middleware exactly as
   it was: same state, hence same answers to every request, same Config(), same debug mode; and
   any number of rejected Reconfigure calls interleaved into a history of operations does not
   change the state the history leads to.

   [step], [run], [mw_serve], [mw_config] are the middleware state machine of Model/Mw.v
   (state = (configuration pointer, debug flag)); ace/ip6/psl are the library oracles.

   Definitions used in the statements (Proofs/DispatchP.v):
     interleave l1 l2 m  := m is an interleaving of l1 and l2, each in its own order
                            (inductive: il_nil / il_left / il_right)
     rejected_op ace ip6 psl o := exists c e, o = OReconfigure (Some c) /\ new_internal_config ace ip6 psl c = inr e *)
Require Import Base.Bytes Model.Headers Model.Netip Model.CfgErrors Model.Config Model.Serve Model.Mw.
Require Import Proofs.DispatchP.
Open Scope N_scope.

Theorem C08_rejected_reconfigure_is_noop : forall ace ip6 psl st c e,
  new_internal_config ace ip6 psl c = inr e ->
  step ace ip6 psl st (OReconfigure (Some c)) = (st, Some e).
Proof. exact step_rejected. Qed.
Print Assumptions C08_rejected_reconfigure_is_noop.

Theorem C08_observables_unchanged : forall ace ip6 psl st c e,
  new_internal_config ace ip6 psl c = inr e ->
  let st' := fst (step ace ip6 psl st (OReconfigure (Some c))) in
  (forall r pre, mw_serve st' r pre = mw_serve st r pre) /\ mw_config st' = mw_config st /\ snd st' = snd st.
Proof. exact step_rejected_observables. Qed.
Print Assumptions C08_observables_unchanged.

Theorem C08_over_histories : forall ace ip6 psl st ops bad,
  (forall o, In o bad -> exists c e, o = OReconfigure (Some c) /\ new_internal_config ace ip6 psl c = inr e) ->
  forall merged, interleave ops bad merged -> run ace ip6 psl st merged = run ace ip6 psl st ops.
Proof. exact run_interleave_rejected. Qed.
Print Assumptions C08_over_histories.

(* non-vacuity: a configuration that is rejected, interleaved twice into a history *)
Import Coq.Strings.String.StringSyntax.
Arguments b _%string_scope.
Definition C08_ace (_ : bytes) := true.
Definition C08_ip6 (_ : bytes) := IPErr.
Definition C08_psl (_ : bytes) := false.
Definition C08_good : config :=
  {| c_origins := [b "https://example.com"]; c_credentialed := true; c_methods := [b "PUT"];
     c_req_headers := [b "X-Foo"]; c_max_age := 30; c_res_headers := []; c_status := 0;
     c_pna := false; c_pna_nocors := false; c_tol_insecure := false; c_tol_psl := false |}.
Definition C08_bad : config :=
  {| c_origins := [b "http://*"]; c_credentialed := true; c_methods := [b "PUT"];
     c_req_headers := []; c_max_age := 30; c_res_headers := []; c_status := 0;
     c_pna := false; c_pna_nocors := false; c_tol_insecure := false; c_tol_psl := false |}.

Example C08_example_rejected :
  (match new_internal_config C08_ace C08_ip6 C08_psl C08_bad with inl _ => false | inr _ => true end,
   match new_internal_config C08_ace C08_ip6 C08_psl C08_good with inl _ => true | inr _ => false end) = (true, true).
Proof. vm_compute. reflexivity. Qed.

Example C08_example_interleave :
  interleave [OReconfigure (Some C08_good); OSetDebug true]
             [OReconfigure (Some C08_bad); OReconfigure (Some C08_bad)]
             [OReconfigure (Some C08_bad); OReconfigure (Some C08_good); OReconfigure (Some C08_bad); OSetDebug true].
Proof. apply il_right, il_left, il_right, il_left, il_nil. Qed.

Example C08_example_run :
  let final ops := let st := run C08_ace C08_ip6 C08_psl zero_mw ops in
                   (match fst st with Some _ => true | None => false end, snd st, mw_config st) in
  final [OReconfigure (Some C08_bad); OReconfigure (Some C08_good); OReconfigure (Some C08_bad); OSetDebug true]
  = final [OReconfigure (Some C08_good); OSetDebug true] /\
  fst (final [OReconfigure (Some C08_good); OSetDebug true]) = (true, true).
Proof. vm_compute. split; reflexivity. Qed.
