(* Properties/C18t.v -- the two request-side helpers on the preflight path whose cost C18's site count relies on, AS
   TRANSLATED FROM the source on this run: headers.Check only reads (it is the model's scanner, which builds nothing),
   and headers.First hands back the request's own first value and a one-element prefix of the request's own slice (the
   "reflected, not copied" of Properties/C18.v). A change to either file breaks these obligations. Theorems only. *)
Require Import Base.Bytes Gen.Tables Model.Util Model.Headers Model.UtilRt Gen.UtilSrc Model.LoopRt Gen.LoopSrc Model.MwRt.
Require Import Proofs.LoopHeadersP Proofs.FirstSrcP.

Theorem C18_source_check_is_the_model : forall set lines, go_Check set lines = Some (check set lines).
Proof. exact go_Check_eq. Qed.
Print Assumptions C18_source_check_is_the_model.

Theorem C18_source_first_reflects_the_request : forall h k,
  go_headers_First h k =
  match hget h k with
  | Some (x :: r) => (x, firstn 1 (x :: r), true)
  | _ => ([], [], false)
  end.
Proof. intros h k. rewrite go_headers_First_eq. unfold first3, first. destruct (hget h k) as [[|x r]|]; reflexivity. Qed.
Print Assumptions C18_source_first_reflects_the_request.
