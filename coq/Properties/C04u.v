(* Properties/C04u.v -- the public-suffix test of validateOrigins, for Pattern.HostIsEffectiveTLD AS TRANSLATED FROM
   internal/origins/pattern.go on this run (tools/genloop -> Gen/PatSrc.v). publicsuffix.PublicSuffix is the oracle
   `psl` (the theorem holds for every such function); the model's predicate is the induced "PublicSuffix(h) = h",
   which is what the harness records per host from the real list. Theorems only. *)
Require Import Base.Bytes Gen.Tables Model.Origins Model.Netip Model.Idna Model.Pattern Model.LoopRt Gen.LoopSrc Model.PatRt Gen.PatSrc.
Require Import Proofs.EtldSrcP.
Open Scope N_scope.

Theorem C04_source_public_suffix_test_is_the_model : forall psl p,
  go_HostIsEffectiveTLD psl p =
  let h := trim_suffix_byte label_sep (host_only (pvalue p) (pkind_of p)) in
  if host_is_etld (is_psl_of psl) p then (h, true) else ([], false).
Proof. exact go_HostIsEffectiveTLD_eq. Qed.
Print Assumptions C04_source_public_suffix_test_is_the_model.

(* the `*.` and one trailing full stop are not part of the name that is looked up *)
Example C04_source_public_suffix_runs :
  let psl := fun h : bytes => match h with [99; 111; 109] => h | _ => [] end in   (* "com" is the only public suffix *)
  (go_HostIsEffectiveTLD psl {| pscheme := [104]; pvalue := [42; 46; 99; 111; 109; 46]; pkind_of := KSubdomains; pport := 0%Z |},
   go_HostIsEffectiveTLD psl {| pscheme := [104]; pvalue := [97; 46; 99; 111; 109]; pkind_of := KDomain; pport := 0%Z |})
  = (([99; 111; 109], true), ([], false)).
Proof. vm_compute. reflexivity. Qed.
