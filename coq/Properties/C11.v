(* Properties/C11.v -- preflight requests are answered by the middleware alone; every other
   request reaches the wrapped handler with all response headers intact except the four names
   the middleware owns on that path (Vary, ACAO, ACAC, ACEH), earlier Vary values being kept.

   [c11_ok], [is_preflight], [same_except], [vary_preserved] are the specification predicates of
   Spec/Wire.v. The response header map is an association list; the spec compares maps entry by
   entry through [hget] (first entry for a key), so [pre] must have distinct keys, as every Go
   map has: C11_distinct_keys_needed shows that the comparison otherwise fails on the identity.

   Definitions used in the statements (Proofs/DispatchP.v):
     hsets L m m'  := m' results from m by a sequence of writes [hset _ k v] with k listed in L
     preflight_names := Vary :: grant_names   (Vary and the seven Access-Control-* response names) *)
Require Import Base.Bytes Gen.Tables Model.Util Model.Headers Model.Radix Model.Netip Model.Config Model.Serve.
Require Import Spec.Wire Proofs.DispatchP.
Open Scope N_scope.

Theorem C11_dispatch : forall ic dbg r pre, NoDup (map fst pre) ->
  c11_ok true r pre (serve (Some ic) dbg r pre) = true.
Proof. exact c11_dispatch. Qed.
Print Assumptions C11_dispatch.

Theorem C11_passthrough_identity : forall dbg r pre,
  serve None dbg r pre = {| o_hdrs := pre; o_status := None; o_delegated := true |}.
Proof. exact serve_passthrough. Qed.
Print Assumptions C11_passthrough_identity.

Theorem C11_delegated_iff_not_preflight : forall ic dbg r pre,
  o_delegated (serve (Some ic) dbg r pre) = negb (is_preflight r).
Proof. exact serve_delegated. Qed.
Print Assumptions C11_delegated_iff_not_preflight.

(* on every path the middleware only ever writes Vary and Access-Control-* response names,
   and never introduces duplicate keys *)
Theorem C11_only_cors_names_written : forall st dbg r pre,
  hsets preflight_names pre (o_hdrs (serve st dbg r pre)).
Proof. exact serve_hsets. Qed.
Print Assumptions C11_only_cors_names_written.

Theorem C11_other_headers_intact : forall st dbg r pre k, mem k preflight_names = false ->
  hget (o_hdrs (serve st dbg r pre)) k = hget pre k.
Proof. exact serve_frame. Qed.
Print Assumptions C11_other_headers_intact.

Theorem C11_distinct_keys_kept : forall st dbg r pre,
  NoDup (map fst pre) -> NoDup (map fst (o_hdrs (serve st dbg r pre))).
Proof. exact serve_distinct. Qed.
Print Assumptions C11_distinct_keys_kept.

Theorem C11_distinct_keys_needed :
  let pre := [([1], [[2]]); ([1], [[3]])] in
  c11_ok false {| r_method := []; r_hdrs := [] |} pre (serve None false {| r_method := []; r_hdrs := [] |} pre) = false.
Proof. exact c11_needs_distinct_keys. Qed.
Print Assumptions C11_distinct_keys_needed.

(* non-vacuity *)
Import Coq.Strings.String.StringSyntax.
Arguments b _%string_scope.
Definition C11_cfg : config :=
  {| c_origins := [b "https://example.com"]; c_credentialed := true; c_methods := [b "PUT"];
     c_req_headers := [b "X-Foo"; b "Authorization"]; c_max_age := 30; c_res_headers := [b "X-Bar"];
     c_status := 0; c_pna := false; c_pna_nocors := false; c_tol_insecure := false; c_tol_psl := false |}.
Definition C11_st : option icfg :=
  match new_internal_config (fun _ => true) (fun _ => IPErr) (fun _ => false) C11_cfg with
  | inl ic => Some ic | inr _ => None end.
Definition C11_pre : hmap := [(b "Vary", [b "Accept-Encoding"]); (b "Content-Type", [b "text/plain"])].
Definition C11_preflight : request :=
  {| r_method := b "OPTIONS";
     r_hdrs := [(b "Origin", [b "https://example.com"]); (b "Access-Control-Request-Method", [b "PUT"]);
                (b "Access-Control-Request-Headers", [b "authorization,x-foo"])] |}.
Definition C11_actual : request :=
  {| r_method := b "PUT"; r_hdrs := [(b "Origin", [b "https://example.com"])] |}.

Example C11_example_preflight :
  is_preflight C11_preflight = true /\
  (let out := serve C11_st false C11_preflight C11_pre in
   (o_delegated out, o_status out, hget (o_hdrs out) (b "Content-Type"), hget (o_hdrs out) h_acam))
  = (false, Some 204%Z, Some [b "text/plain"], Some [b "PUT"]).
Proof. vm_compute. split; reflexivity. Qed.

Example C11_example_actual :
  is_preflight C11_actual = false /\
  serve C11_st false C11_actual C11_pre =
  {| o_hdrs := [(b "Vary", [b "Accept-Encoding"; b "Origin"]); (b "Content-Type", [b "text/plain"]);
                (h_acao, [b "https://example.com"]); (h_acac, [b "true"]); (h_aceh, [b "x-bar"])];
     o_status := None; o_delegated := true |}.
Proof. vm_compute. split; reflexivity. Qed.
