(* Properties/C16s.v -- C16 stated for the SOURCE: [go_serve] is the composition of the Gallina functions that
   tools/genmw regenerates from /repo/middleware.go on every run (coq/Gen/MwSrc.v: handleNonCORS,
   processOriginForPreflight, processACRPN, processACRM, processACRH, handleCORSPreflight, handleCORSActual and the
   handler closure of Wrap, translated statement by statement).  A change to any of these functions changes the
   generated definitions; these theorems are then re-checked against what the code says now.
   Proofs: Proofs/MwSrcP.v (go_serve = serve) and Proofs/MwSrcXferP.v. *)
Require Import Base.Bytes Gen.Tables.
Require Import Model.Util Model.Headers Model.Methods Model.Origins Model.Netip Model.Pattern Model.Radix
  Model.CfgErrors Model.Config Model.Serve Model.MwRt Model.Prov Gen.MwSrc.
Require Import Spec.Origins Spec.Wire Spec.ConfigDoc Spec.AcrhList Spec.Fetch.
Require Import Proofs.RadixP Proofs.Rel Proofs.ServeP Proofs.DispatchP Proofs.ProvP Proofs.FetchP Proofs.MwSrcP Proofs.MwSrcXferP.
Require Import Properties.C03.
Import Coq.Strings.String.StringSyntax.
Arguments b _%string_scope.

Theorem C16_source_is_the_model : forall st debug r pre, go_serve st debug r pre = serve st debug r pre.
Proof. exact go_serve_eq. Qed.
Print Assumptions C16_source_is_the_model.

Theorem C16_source_no_disclosure_debug_off : forall ace ip6 psl c ic r pre,
  new_internal_config ace ip6 psl c = inl ic -> NoDup (map fst pre) -> cors_free pre -> is_preflight r = true ->
  c16_ok c r pre (go_serve (Some ic) false r pre) = true.
Proof. exact go_c16_accepted. Qed.
Print Assumptions C16_source_no_disclosure_debug_off.

(* non-vacuity: the translated source, run on the configuration and requests of Properties/C03.v *)
Example C16_source_runs :
  map (fun '(dbg, r) => let out := go_serve (Some ex_ic) dbg r pre0 in
         (map (hget (o_hdrs out)) [h_acao; h_acac; h_acam], o_status out, o_delegated out))
      [(false, r_ok); (false, r_bad_origin); (true, r_bad_method); (false, r_actual)]
  = [([Some [b "https://foo.example.com"]; Some [b "true"]; Some [b "PUT"]], Some 204%Z, false);
     ([None; None; None], Some 403%Z, false);
     ([Some [b "https://foo.example.com"]; Some [b "true"]; None], Some 204%Z, false);
     ([Some [b "https://foo.example.com"]; Some [b "true"]; None], None, true)].
Proof. vm_compute. reflexivity. Qed.
