(* Properties/C16b.v -- C16, "... and the same status whatever the reason": for every configuration accepted by
   validation and every preflight request, the handler answers with status 403 or with the configured success status
   (204 when Config.PreflightSuccessStatus is 0), never with a third status and never without one
   (Spec.Wire.c16_status_ok).  It holds in BOTH debug modes (in debug mode a preflight that fails after the origin step
   is answered with the success status, which the predicate allows), for every response-header map [pre] (the status
   does not depend on it: none of the hypotheses NoDup / cors_free of the header half of C16 is needed), for the model
   [serve] and for [go_serve], the translation of middleware.go.  Proofs: Proofs/C16StatusP.v. *)
Require Import Base.Bytes Gen.Tables.
Require Import Model.Util Model.Headers Model.Methods Model.Origins Model.Netip Model.Pattern Model.Radix
  Model.CfgErrors Model.Config Model.Serve Model.MwRt Model.Prov Gen.MwSrc.
Require Import Spec.Origins Spec.Wire Spec.ConfigDoc.
Require Import Proofs.RadixP Proofs.Rel Proofs.MwSrcP Proofs.C16StatusP.
Require Import Properties.C03.
Import Coq.Strings.String.StringSyntax.
Arguments b _%string_scope.

Theorem C16_same_status_whatever_the_reason : forall ace ip6 psl c ic dbg r pre,
  new_internal_config ace ip6 psl c = inl ic -> is_preflight r = true ->
  c16_status_ok c (serve (Some ic) dbg r pre) = true.
Proof. exact c16_status_accepted. Qed.
Print Assumptions C16_same_status_whatever_the_reason.

Theorem C16_source_same_status_whatever_the_reason : forall ace ip6 psl c ic dbg r pre,
  new_internal_config ace ip6 psl c = inl ic -> is_preflight r = true ->
  c16_status_ok c (go_serve (Some ic) dbg r pre) = true.
Proof. exact go_c16_status_accepted. Qed.
Print Assumptions C16_source_same_status_whatever_the_reason.

(* the same from the characterisation [icfg_rel] of an accepted configuration *)
Theorem C16_same_status_whatever_the_reason_rel : forall ace ip6 c ic dbg r pre,
  icfg_rel ace ip6 c ic -> is_preflight r = true ->
  c16_status_ok c (serve (Some ic) dbg r pre) = true.
Proof. exact c16_status_rel. Qed.
Print Assumptions C16_same_status_whatever_the_reason_rel.

(* the two alternatives of c16_status_ok are distinct: the success status of an accepted configuration is a 2xx *)
Theorem C16_success_status_is_2xx : forall ace ip6 psl c ic,
  new_internal_config ace ip6 psl c = inl ic -> (200 <= spec_success_status c <= 299)%Z.
Proof. exact c16_success_status_2xx. Qed.
Print Assumptions C16_success_status_is_2xx.

(* ---- non-vacuity, on the accepted configuration and the requests of Properties/C03.v ---- *)
Example C16b_hyp : new_internal_config ace ip6 psl ex_c = inl ex_ic /\
  map is_preflight [r_ok; r_bad_origin; r_bad_method; r_actual] = [true; true; true; false].
Proof. split; vm_compute; reflexivity. Qed.

(* the translated source, debug off: a preflight from a disallowed origin and one with a disallowed method both get
   403; the succeeding one gets the success status (c_status = 0, hence 204) *)
Example C16b_source_fails_403 :
  map (fun r => let out := go_serve (Some ex_ic) false r pre0 in (o_status out, c16_status_ok ex_c out))
      [r_bad_origin; r_bad_method]
  = [(Some 403%Z, true); (Some 403%Z, true)].
Proof. vm_compute. reflexivity. Qed.

Example C16b_source_succeeds :
  let out := go_serve (Some ex_ic) false r_ok pre0 in
  (o_status out, spec_success_status ex_c, c16_status_ok ex_c out) = (Some 204%Z, 204%Z, true).
Proof. vm_compute. reflexivity. Qed.

(* debug on: the disallowed origin still gets 403, the disallowed method gets the success status *)
Example C16b_source_debug :
  map (fun r => let out := go_serve (Some ex_ic) true r pre0 in (o_status out, c16_status_ok ex_c out))
      [r_ok; r_bad_origin; r_bad_method]
  = [(Some 204%Z, true); (Some 403%Z, true); (Some 204%Z, true)].
Proof. vm_compute. reflexivity. Qed.

(* a configured success status: 200 instead of the default 204 *)
Definition ex_c200 : config :=
  {| c_origins := c_origins ex_c; c_credentialed := c_credentialed ex_c; c_methods := c_methods ex_c;
     c_req_headers := c_req_headers ex_c; c_max_age := c_max_age ex_c; c_res_headers := c_res_headers ex_c;
     c_status := 200; c_pna := false; c_pna_nocors := false; c_tol_insecure := false; c_tol_psl := false |}.

Example C16b_source_status_200 :
  match new_internal_config ace ip6 psl ex_c200 with
  | inl ic => map (fun r => let out := go_serve (Some ic) false r pre0 in (o_status out, c16_status_ok ex_c200 out))
                  [r_ok; r_bad_origin; r_bad_method]
  | inr _ => []
  end = [(Some 200%Z, true); (Some 403%Z, true); (Some 403%Z, true)].
Proof. vm_compute. reflexivity. Qed.

(* the predicate is not trivially true: a third status, the other 2xx, or no status at all are rejected; and a
   request that is not a preflight (delegated, no status) does not satisfy it, so the hypothesis is needed *)
Example C16b_rejects :
  (map (fun s => c16_status_ok ex_c {| o_hdrs := pre0; o_status := s; o_delegated := false |})
       [Some 403%Z; Some 204%Z; Some 431%Z; Some 200%Z; Some 400%Z; None],
   c16_status_ok ex_c (go_serve (Some ex_ic) false r_actual pre0))
  = ([true; true; false; false; false; false], false).
Proof. vm_compute. reflexivity. Qed.
