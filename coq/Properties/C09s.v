(* Properties/C09s.v -- C09 stated for the SOURCE: [go_serve] is the composition of the Gallina functions that
   tools/genmw regenerates from /repo/middleware.go on every run (coq/Gen/MwSrc.v: handleNonCORS,
   processOriginForPreflight, processACRPN, processACRM, processACRH, handleCORSPreflight, handleCORSActual and the
   handler closure of Wrap, translated statement by statement).  A change to any of these functions changes the
   generated definitions; these theorems are then re-checked against what the code says now.
   Proofs: Proofs/MwSrcP.v (go_serve = serve) and Proofs/MwSrcXferP.v. *)
Require Import Base.Bytes Gen.Tables.
Require Import Model.Util Model.Headers Model.Methods Model.Origins Model.Netip Model.Pattern Model.Radix
  Model.CfgErrors Model.Config Model.Serve Model.MwRt Model.Prov Gen.MwSrc.
Require Import Spec.Origins Spec.Wire Spec.ConfigDoc Spec.AcrhList Spec.Fetch.
Require Import Proofs.RadixP Proofs.Rel Proofs.ServeP Proofs.DispatchP Proofs.ProvP Proofs.FetchP Proofs.MwSrcP Proofs.MwSrcXferP.
Require Import Properties.C03.
Import Coq.Strings.String.StringSyntax.
Arguments b _%string_scope.

Theorem C09_source_is_the_model : forall st debug r pre, go_serve st debug r pre = serve st debug r pre.
Proof. exact go_serve_eq. Qed.
Print Assumptions C09_source_is_the_model.

Theorem C09_source_debug_only_affects_preflights : forall st r pre, is_preflight r = false ->
  go_serve st true r pre = go_serve st false r pre.
Proof. exact go_debug_only_affects_preflights. Qed.
Print Assumptions C09_source_debug_only_affects_preflights.

Theorem C09_source_debug_keeps_preflight_success : forall ace ip6 psl c ic r pre,
  new_internal_config ace ip6 psl c = inl ic -> is_preflight r = true ->
  o_status (go_serve (Some ic) false r pre) <> Some 403%Z ->
  o_status (go_serve (Some ic) true r pre) = o_status (go_serve (Some ic) false r pre) /\
  forall k, beqb k headers_ACAH = false ->
    hget (o_hdrs (go_serve (Some ic) true r pre)) k = hget (o_hdrs (go_serve (Some ic) false r pre)) k.
Proof. exact go_c09_diag_accepted. Qed.
Print Assumptions C09_source_debug_keeps_preflight_success.

(* non-vacuity: the translated source, run on the configuration and requests of Properties/C03.v *)
Example C09_source_runs :
  map (fun '(dbg, r) => let out := go_serve (Some ex_ic) dbg r pre0 in
         (map (hget (o_hdrs out)) [h_acao; h_acac; h_acam], o_status out, o_delegated out))
      [(false, r_ok); (false, r_bad_origin); (true, r_bad_method); (false, r_actual)]
  = [([Some [b "https://foo.example.com"]; Some [b "true"]; Some [b "PUT"]], Some 204%Z, false);
     ([None; None; None], Some 403%Z, false);
     ([Some [b "https://foo.example.com"]; Some [b "true"]; None], Some 204%Z, false);
     ([Some [b "https://foo.example.com"]; Some [b "true"]; None], None, true)].
Proof. vm_compute. reflexivity. Qed.

(* ---- the four methods that touch the state, translated from middleware.go (NewMiddleware, Reconfigure, SetDebug,
   Config): over ANY history of calls they drive (configuration, debug) exactly as the documented state machine ---- *)
Require Import Model.Mw Spec.DebugSM Proofs.SrcXferP.

Theorem C09_source_methods_are_the_model_steps : forall ace ip6 psl ops st,
  fold_left (go_step ace ip6 psl) ops st = run ace ip6 psl st ops.
Proof. exact go_run_eq. Qed.
Print Assumptions C09_source_methods_are_the_model_steps.

Theorem C09_source_refines_state_machine : forall ace ip6 psl st ops, inv st ->
  abs (fold_left (go_step ace ip6 psl) ops st) = sm_run (abs st) (map (sm_of ace ip6 psl) ops) /\
  inv (fold_left (go_step ace ip6 psl) ops st).
Proof. exact go_run_refines. Qed.
Print Assumptions C09_source_refines_state_machine.

Example C09_source_history_runs :
  snd (fold_left (go_step ace ip6 psl) [OSetDebug true; OReconfigure (Some ex_c); OSetDebug true; OReconfigure None; OReconfigure (Some ex_c)] zero_mw) = false /\
  snd (fold_left (go_step ace ip6 psl) [OReconfigure (Some ex_c); OSetDebug true] zero_mw) = true.
Proof. split; vm_compute; reflexivity. Qed.
