(* Properties/C15.v -- equivalent configurations are accepted alike and behave alike.
   [cfg_equiv c c'] (Spec/Equiv.v): the two Configs differ only in the order or repetition of list
   entries, in the letter case of header names, in the spelling of methods that Fetch normalises,
   or in listing CORS-safelisted methods / response-header names. Then newInternalConfig accepts
   both or rejects both, and when it accepts both, the two middlewares give the same outcome
   (response headers, status, delegation) on every request, with debug on or off -- although the
   validation passes change their flags mid-loop ("*" seen yet? Authorization seen yet?) and the
   origin trees may differ in shape.
   Oracles: [ace] (x/net/idna), [ip6] (net/netip) and [psl] (public-suffix list) are arbitrary.
   All proofs are in Proofs/EquivP.v. *)
Require Import Base.Bytes Gen.Tables.
Require Import Model.Headers Model.Netip Model.Radix Model.CfgErrors Model.Config Model.Serve.
Require Import Spec.Wire Spec.Equiv.
Require Import Proofs.EquivP.
Open Scope N_scope.
Import Coq.Strings.String.StringSyntax.
Arguments b _%string_scope.

Theorem C15_equivalent_configs_accepted_alike : forall ace ip6 psl c c', cfg_equiv c c' ->
  ((exists ic, new_internal_config ace ip6 psl c = inl ic) <->
   (exists ic', new_internal_config ace ip6 psl c' = inl ic')).
Proof. exact equiv_accepted_alike. Qed.
Print Assumptions C15_equivalent_configs_accepted_alike.

Theorem C15_equivalent_configs_behave_alike : forall ace ip6 psl c c' ic ic', cfg_equiv c c' ->
  new_internal_config ace ip6 psl c = inl ic -> new_internal_config ace ip6 psl c' = inl ic' ->
  forall dbg r pre, serve (Some ic) dbg r pre = serve (Some ic') dbg r pre.
Proof. exact equiv_behave_alike. Qed.
Print Assumptions C15_equivalent_configs_behave_alike.

(* the instance the property singles out: RequestHeaders ["*"; a] vs [a; "*"] where a is any
   spelling of Authorization, every other field being the same *)
Theorem C15_star_and_authorization_commute : forall ace ip6 psl c c' ic ic' a,
  lower a = headers_Authorization -> c_req_headers c = [star; a] -> c_req_headers c' = [a; star] ->
  c_origins c' = c_origins c -> c_credentialed c' = c_credentialed c -> c_methods c' = c_methods c ->
  c_max_age c' = c_max_age c -> c_res_headers c' = c_res_headers c -> c_status c' = c_status c ->
  c_pna c' = c_pna c -> c_pna_nocors c' = c_pna_nocors c -> c_tol_insecure c' = c_tol_insecure c ->
  c_tol_psl c' = c_tol_psl c ->
  new_internal_config ace ip6 psl c = inl ic -> new_internal_config ace ip6 psl c' = inl ic' ->
  forall dbg r pre, serve (Some ic) dbg r pre = serve (Some ic') dbg r pre.
Proof. exact star_and_authorization_commute. Qed.
Print Assumptions C15_star_and_authorization_commute.

(* [cfg_equiv] is decidable: a boolean test for concrete configurations *)
Theorem C15_cfg_equiv_decision : forall c c', cfg_equivb c c' = true <-> cfg_equiv c c'.
Proof. exact cfg_equivb_iff. Qed.
Print Assumptions C15_cfg_equiv_decision.

(* what the request path can observe of an internal configuration: equal observations, equal answers *)
Theorem C15_serve_observes : forall ic ic', obs_eq ic ic' ->
  forall dbg r pre, serve (Some ic) dbg r pre = serve (Some ic') dbg r pre.
Proof. exact serve_ext. Qed.
Print Assumptions C15_serve_observes.

(* ---- non-vacuity: twins, with the three constant oracles ---- *)
Definition ex_ace (_ : bytes) : bool := true.
Definition ex_ip6 (_ : bytes) : ipres := IPErr.
Definition ex_psl (_ : bytes) : bool := false.
Definition nic := new_internal_config ex_ace ex_ip6 ex_psl.

Definition mk o cr m rh ma eh st pna pnc ti tp : config :=
  {| c_origins := o; c_credentialed := cr; c_methods := m; c_req_headers := rh; c_max_age := ma;
     c_res_headers := eh; c_status := st; c_pna := pna; c_pna_nocors := pnc;
     c_tol_insecure := ti; c_tol_psl := tp |}.

(* order/repetition of origins, method spelling + a safelisted method, header-name case, the
   position of "*" relative to Authorization, a safelisted response-header name *)
Definition twin_a (cred : bool) : config :=
  mk [b "https://foo.a.com"; b "https://*.a.com"] cred [b "put"; b "GET"] [b "*"; b "Authorization"]
     30 [b "X-Foo"; b "Content-Type"] 0 false false false false.
Definition twin_b (cred : bool) : config :=
  mk [b "https://*.a.com"; b "https://foo.a.com"; b "https://*.a.com"] cred [b "PUT"]
     [b "AUTHORIZATION"; b "*"; b "authorization"] 30 [b "x-foo"; b "x-FOO"] 0 false false false false.

Example C15_ex_twins_equiv : cfg_equiv (twin_a false) (twin_b false) /\ cfg_equiv (twin_a true) (twin_b true).
Proof. split; apply cfg_equivb_sound; vm_compute; reflexivity. Qed.

Definition tree_of (r : icfg + etree cerr) : option node :=
  match r with inl ic => Some (i_tree ic) | inr _ => None end.

(* both accepted; the origin trees differ in shape ("foo.a.com" inserted after "*.a.com" is
   subsumed and not stored; "*.a.com" inserted twice is stored twice) *)
Example C15_ex_trees_differ :
  tree_of (nic (twin_a true)) =
    Some (Node [] [(109, Node (rev (b ".a.com"))
                          [(111, Node (rev (b "foo")) [] [(b "https", [0%Z])])]
                          [(b "https", [(-65537)%Z])])] []) /\
  tree_of (nic (twin_b true)) =
    Some (Node [] [(109, Node (rev (b ".a.com")) [] [(b "https", [(-65537)%Z; (-65537)%Z])])] []) /\
  tree_of (nic (twin_a true)) <> tree_of (nic (twin_b true)).
Proof. vm_compute. repeat split; try reflexivity. discriminate. Qed.

(* probe requests: no Origin, actual requests, preflights with and without ACRH / ACRPN *)
Definition req (m : bytes) (h : hmap) : request := {| r_method := m; r_hdrs := h |}.
Definition probe_origins := [b "https://foo.a.com"; b "https://a.com"; b "https://x.y.a.com"; b "http://foo.a.com"; b "null"].
Definition probe_methods := [b "GET"; b "PUT"; b "put"; b "PATCH"; b "DELETE"; b "*"].
Definition probe_acrh : list (list bytes) :=
  [[b "authorization"]; [b "x-foo"]; [b "authorization,x-foo"]; [b "x-foo,x-zoo"]; []; [b "x-foo"; b "x-zoo"]].
Definition probes : list request :=
  [req (b "GET") []; req (b "OPTIONS") []] ++
  flat_map (fun o => [req (b "GET") [(headers_Origin, [o])]; req (b "OPTIONS") [(headers_Origin, [o])]]) probe_origins ++
  flat_map (fun o => flat_map (fun m =>
     [req (b "OPTIONS") [(headers_Origin, [o]); (headers_ACRM, [m])];
      req (b "OPTIONS") [(headers_Origin, [o]); (headers_ACRM, [m]); (headers_ACRPN, [b "true"])];
      req (b "GET") [(headers_Origin, [o]); (headers_ACRM, [m])]] ++
     map (fun a => req (b "OPTIONS") [(headers_Origin, [o]); (headers_ACRM, [m]); (headers_ACRH, a)]) probe_acrh)
     probe_methods) (firstn 3 probe_origins).
Definition probe_pres : list hmap := [[]; [(headers_Vary, [b "Accept"])]].

(* Some true: both accepted and the same answers on every probe; None: both rejected *)
Definition alike ace ip6 psl (c c' : config) : option bool :=
  match new_internal_config ace ip6 psl c, new_internal_config ace ip6 psl c' with
  | inl ic, inl ic' =>
      Some (forallb (fun r => forallb (fun pre => forallb (fun dbg =>
              outcome_eqb (serve (Some ic) dbg r pre) (serve (Some ic') dbg r pre)) [true; false]) probe_pres) probes)
  | inr _, inr _ => None
  | _, _ => Some false
  end.

Example C15_ex_twins_alike :
  length probes = 174%nat /\
  alike ex_ace ex_ip6 ex_psl (twin_a false) (twin_b false) = Some true /\
  alike ex_ace ex_ip6 ex_psl (twin_a true) (twin_b true) = Some true /\
  (* the answers are not trivially equal: the credentialed and the anonymous twins differ *)
  alike ex_ace ex_ip6 ex_psl (twin_a false) (twin_b true) = Some false.
Proof. vm_compute. repeat split; reflexivity. Qed.

(* with credentials, listed names instead of "*": the sorted set and the joined ACAH value coincide *)
Definition twin_c : config :=
  mk [b "https://foo.a.com"; b "https://*.a.com"; b "http://*.a.com:*"] true [b "patch"; b "PATCH"; b "delete"]
     [b "X-Foo"; b "Authorization"; b "x-zoo"] (-1) [] 204 true false true false.
Definition twin_d : config :=
  mk [b "http://*.a.com:*"; b "https://*.a.com"; b "https://foo.a.com"] true [b "DELETE"; b "PATCH"; b "patch"; b "head"]
     [b "X-ZOO"; b "x-foo"; b "AUTHORIZATION"; b "x-foo"] (-1) [b "Content-Length"] 204 true false true false.

Example C15_ex_listed_names :
  cfg_equiv twin_c twin_d /\ alike ex_ace ex_ip6 ex_psl twin_c twin_d = Some true /\
  match nic twin_c, nic twin_d with
  | inl ic, inl ic' => i_req_hdrs ic = i_req_hdrs ic' /\ i_acah ic = Some (b "authorization,x-foo,x-zoo")
  | _, _ => False
  end.
Proof. split; [apply cfg_equivb_sound; vm_compute; reflexivity|]. vm_compute. repeat split; reflexivity. Qed.

(* Methods ["put"; "GET"] vs ["PUT"]; wildcards everywhere *)
Example C15_ex_methods_and_wildcards :
  let c := mk [b "*"] false [b "put"; b "GET"] [b "x-foo"] 0 [b "*"; b "x-foo"] 299 false false false false in
  let c' := mk [b "*"; b "*"] false [b "PUT"] [b "X-Foo"; b "X-FOO"] 0 [b "X-FOO"; b "*"; b "Expires"] 299 false false false false in
  cfg_equiv c c' /\ alike ex_ace ex_ip6 ex_psl c c' = Some true.
Proof. split; [apply cfg_equivb_sound; vm_compute; reflexivity | vm_compute; reflexivity]. Qed.

(* rejected alike, under oracles that reject what the others accept *)
Example C15_ex_rejected_alike :
  let c := mk [b "https://a.com"] true [b "connect"; b "put"] [b "*"; b "Sec-Foo"] 0 [b "*"] 0 false false false false in
  let c' := mk [b "https://a.com"] true [b "PUT"; b "connect"] [b "sec-foo"; b "*"] 0 [b "*"] 0 false false false false in
  cfg_equiv c c' /\ alike ex_ace ex_ip6 ex_psl c c' = None /\
  cfg_equiv (twin_a true) (twin_b true) /\
  alike (fun _ => false) (fun _ => IPErr) (fun _ => true) (twin_a true) (twin_b true) = None.
Proof.
  split; [apply cfg_equivb_sound; vm_compute; reflexivity|]. split; [vm_compute; reflexivity|].
  split; [apply cfg_equivb_sound; vm_compute; reflexivity | vm_compute; reflexivity].
Qed.

(* the hypotheses of the singled-out instance are satisfiable *)
Example C15_ex_star_auth :
  let c := mk [b "https://a.com"] true [] [star; b "Authorization"] 0 [] 0 false false false false in
  let c' := mk [b "https://a.com"] true [] [b "Authorization"; star] 0 [] 0 false false false false in
  lower (b "Authorization") = headers_Authorization /\
  alike ex_ace ex_ip6 ex_psl c c' = Some true /\
  (* not equivalent: a configuration that is not a twin is told apart *)
  cfg_equivb c (mk [b "https://a.com"] true [] [star] 0 [] 0 false false false false) = false.
Proof. vm_compute. repeat split; reflexivity. Qed.
