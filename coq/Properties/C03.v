(* Properties/C03.v -- the middleware never over-grants.
   For every accepted configuration [c] with internal form [ic] (related by Proofs.Rel.icfg_rel, which
   newInternalConfig establishes), in debug mode or not, for every request and every response-header
   map [pre] that carries no CORS response header before the middleware runs, the outcome of the
   handler satisfies Spec.Wire.c03_ok: at most one Access-Control-Allow-Origin value, which is the
   request's own (first) Origin value and that value is allowed by the configured patterns, or "*"
   for a non-credentialed allow-all configuration; Access-Control-Allow-Credentials only "true",
   only when credentialed and next to an echoed allowed origin; no CORS response header at all when
   the origin is not allowed; preflight-only names only on responses the middleware writes itself,
   Expose-Headers only on delegated ones; Max-Age and Expose-Headers carry the configured values.
   All proofs are in Proofs/ServeP.v. *)
Require Import Base.Bytes Gen.Tables.
Require Import Model.Util Model.Headers Model.Methods Model.Origins Model.Netip Model.Pattern Model.Radix
  Model.CfgErrors Model.Config Model.Serve.
Require Import Spec.Origins Spec.Wire Spec.ConfigDoc.
Require Import Proofs.RadixP Proofs.Rel Proofs.ServeP.
Require Extract.Driver.
Import Coq.Strings.String.StringSyntax.
Arguments b _%string_scope.

(* the hypotheses, spelled out (definitions live in Proofs/ServeP.v and Proofs/RadixP.v) *)
Example cors_free_def : forall pre,
  cors_free pre <-> (forall k, mem k grant_names = true -> hget pre k = None).
Proof. intros pre. reflexivity. Qed.
Example cors_free_bool : forall pre, Extract.Driver.cors_free pre = true <-> cors_free pre.
Proof. exact cors_freeb_spec. Qed.
Example valid_pattern_def : forall p, valid_pattern p <-> (0 <= pport p <= 65536)%Z.
Proof. intros p. reflexivity. Qed.

Theorem C03_never_over_grants : forall ace ip6 c ic dbg r pre,
  icfg_rel ace ip6 c ic -> Forall valid_pattern (cfg_patterns ace ip6 c) -> cors_free pre ->
  c03_ok c (cfg_patterns ace ip6 c) r (serve (Some ic) dbg r pre) = true.
Proof. exact c03_holds. Qed.
Print Assumptions C03_never_over_grants.

(* ---- non-vacuity: a concrete accepted configuration, its internal form, concrete requests ---- *)
Definition ace (_ : bytes) : bool := true.
Definition ip6 (_ : bytes) : ipres := IPErr.
Definition psl (_ : bytes) : bool := false.

Definition ex_c : config :=
  {| c_origins := [b "https://*.example.com"]; c_credentialed := true; c_methods := [b "PUT"];
     c_req_headers := [b "X-Foo"]; c_max_age := 30; c_res_headers := [b "X-Bar"]; c_status := 0;
     c_pna := false; c_pna_nocors := false; c_tol_insecure := false; c_tol_psl := false |}.

Definition ex_ic : icfg :=
  {| i_tree := build (cfg_patterns ace ip6 ex_c);
     i_methods := {| elems := [b "PUT"]; maxlen := 3 |};
     i_req_hdrs := {| elems := [b "x-foo"]; maxlen := 5 |};
     i_acah := Some (b "x-foo");
     i_status_m200 := 4;
     i_cred := true; i_any_method := false; i_asterisk_req := false; i_allow_auth := false;
     i_pna := false; i_pna_nocors := false;
     i_acma := Some (b "30"); i_aceh := b "x-bar";
     i_tol_psl := false; i_tol_insecure := false |}.

(* [ex_ic] is what newInternalConfig returns for [ex_c] *)
Example C03_ex_accepted : new_internal_config ace ip6 psl ex_c = inl ex_ic.
Proof. vm_compute. reflexivity. Qed.

Example C03_hyp_patterns : Forall valid_pattern (cfg_patterns ace ip6 ex_c).
Proof. vm_compute. repeat constructor; discriminate. Qed.

Definition preflight (org m : bytes) (hs : list bytes) : request :=
  {| r_method := b "OPTIONS"; r_hdrs := [(h_origin, [org]); (h_acrm, [m]); (h_acrh, hs)] |}.
Definition actual (org : bytes) : request := {| r_method := b "GET"; r_hdrs := [(h_origin, [org])] |}.

Definition r_ok := preflight (b "https://foo.example.com") (b "PUT") [b "x-foo"].
Definition r_bad_origin := preflight (b "https://evil.com") (b "PUT") [b "x-foo"].
Definition r_bad_method := preflight (b "https://foo.example.com") (b "DELETE") [b "x-foo"].
Definition r_actual := actual (b "https://foo.example.com").
Definition r_actual_bad := actual (b "https://fooexample.com").
Definition r_plain : request := {| r_method := b "GET"; r_hdrs := [] |}.

Definition pre0 : hmap := [(b "Content-Type", [b "text/plain"]); (h_vary, [b "Accept-Encoding"])].

Example C03_hyp_pre0 : cors_free pre0.
Proof. apply cors_freeb_spec. vm_compute. reflexivity. Qed.

(* a succeeding preflight: echo, credentials, the requested method and headers, max-age, 204 *)
Example C03_ex_success :
  let out := serve (Some ex_ic) false r_ok pre0 in
  (map (hget (o_hdrs out)) [h_acao; h_acac; h_acam; h_acah; h_acapn; h_acma; h_aceh], o_status out,
   c03_ok ex_c (cfg_patterns ace ip6 ex_c) r_ok out)
  = ([Some [b "https://foo.example.com"]; Some [b "true"]; Some [b "PUT"]; Some [b "x-foo"]; None;
      Some [b "30"]; None], Some 204%Z, true).
Proof. vm_compute. reflexivity. Qed.

(* failing preflights, debug off and on: origin not allowed (nothing granted); method not allowed
   (debug mode leaves the origin part of the buffer in the response, which C03 permits) *)
Example C03_ex_failures :
  map (fun '(dbg, r) =>
         let out := serve (Some ex_ic) dbg r pre0 in
         (map (hget (o_hdrs out)) [h_acao; h_acac; h_acam], o_status out,
          c03_ok ex_c (cfg_patterns ace ip6 ex_c) r out))
      [(false, r_bad_origin); (true, r_bad_origin); (false, r_bad_method); (true, r_bad_method)]
  = [([None; None; None], Some 403%Z, true); ([None; None; None], Some 403%Z, true);
     ([None; None; None], Some 403%Z, true);
     ([Some [b "https://foo.example.com"]; Some [b "true"]; None], Some 204%Z, true)].
Proof. vm_compute. reflexivity. Qed.

(* actual and non-CORS requests *)
Example C03_ex_delegated :
  map (fun r =>
         let out := serve (Some ex_ic) false r pre0 in
         (map (hget (o_hdrs out)) [h_acao; h_acac; h_aceh], o_delegated out,
          c03_ok ex_c (cfg_patterns ace ip6 ex_c) r out))
      [r_actual; r_actual_bad; r_plain]
  = [([Some [b "https://foo.example.com"]; Some [b "true"]; Some [b "x-bar"]], true, true);
     ([None; None; None], true, true); ([None; None; None], true, true)].
Proof. vm_compute. reflexivity. Qed.

(* the predicate is not trivially true: it rejects an echo of an origin that is not allowed, and a
   wildcard from a credentialed configuration *)
Example C03_ex_rejects :
  map (fun h => c03_ok ex_c (cfg_patterns ace ip6 ex_c) r_bad_origin
                  {| o_hdrs := h; o_status := Some 204%Z; o_delegated := false |})
      [[(h_acao, [b "https://evil.com"])]; [(h_acao, [b "*"])]; [(h_acam, [b "PUT"])]]
  = [false; false; false].
Proof. vm_compute. reflexivity. Qed.

(* ---- the same, for every configuration accepted by validation (composition with accepted_rel) ---- *)
Require Import Proofs.ComposeP.

Theorem C03_never_over_grants_accepted : forall ace ip6 psl c ic dbg r pre,
  new_internal_config ace ip6 psl c = inl ic -> cors_free pre ->
  c03_ok c (cfg_patterns ace ip6 c) r (serve (Some ic) dbg r pre) = true.
Proof. exact c03_accepted. Qed.
Print Assumptions C03_never_over_grants_accepted.
