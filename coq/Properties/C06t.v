(* Properties/C06t.v -- the rendering side of the round trip (Tree.Elems, Tree.IsEmpty) for the radix tree AS
   TRANSLATED FROM internal/origins/radix.go on this run (tools/genradix -> Gen/RadixSrc.v). Theorems only. *)
Require Import Base.Bytes Gen.Tables Model.Origins Model.Pattern Model.Radix Model.LoopRt Model.RadixRt Gen.RadixSrc.
Require Import Proofs.RadixP Proofs.RadixAbs Proofs.RadixSrcElemsP Proofs.RadixSrcXferP.
Open Scope N_scope.

(* the translated Elems (nested range loops, recursion over the children, bracket restoration of the F1 fix,
   strconv.Itoa) returns, and returns what the hand-written model renders *)
Theorem C06_source_elems_is_the_model : forall t, gwf t -> wf (abs t) ->
  go_Tree_Elems t = Some (tree_elems (abs t)).
Proof. exact go_Tree_Elems_eq. Qed.
Print Assumptions C06_source_elems_is_the_model.

Theorem C06_source_is_empty_is_the_model : forall t, gwf t -> go_Tree_IsEmpty t = tree_is_empty (abs t).
Proof. exact go_Tree_IsEmpty_eq. Qed.
Print Assumptions C06_source_is_empty_is_the_model.

(* for every tree the translated Insert builds from valid patterns: the translated Elems is the model's Elems of the
   model's tree -- which is what the round-trip theorems of Properties/C06.v (C06_tree_stable, reparse) are about *)
Theorem C06_source_elems_of_built_tree : forall ps, Forall valid_pattern ps ->
  exists t, go_build ps = Some t /\ go_Tree_Elems t = Some (tree_elems (build ps)).
Proof. exact go_tree_elems_build. Qed.
Print Assumptions C06_source_elems_of_built_tree.

Theorem C06_source_is_empty_of_built_tree : forall ps,
  exists t, go_build ps = Some t /\ go_Tree_IsEmpty t = tree_is_empty (build ps).
Proof. exact go_tree_is_empty_build. Qed.
Print Assumptions C06_source_is_empty_of_built_tree.

Definition ex_pat (sch v : bytes) (port : Z) : pattern := {| pscheme := sch; pvalue := v; pkind_of := KDomain; pport := port |}.
Import Coq.Strings.String.StringSyntax. Arguments b _%string_scope.
(* the translated code runs: an IPv6 literal gets its brackets back, a wildcard entry its `*.`, ports their text *)
Example C06_source_runs :
  match go_build [ex_pat (b "http") (b "::1") 9090%Z; ex_pat (b "https") (b "*.example.com") 65536%Z; ex_pat (b "https") (b "example.com") 0%Z] with
  | Some t => go_Tree_Elems t
  | None => None
  end = Some [b "http://[::1]:9090"; b "https://*.example.com:*"; b "https://example.com"].
Proof. vm_compute. reflexivity. Qed.
