(* Properties/C19.v -- cfgerrors.All yields exactly the leaf errors and honours early exit.
   For every join tree (any shape, any depth) and every break position k: a consumer that
   accepts k elements and breaks on the next one receives exactly the first k+1 leaves of the
   tree in order (all of them, each once, if it never breaks or k+1 exceeds their number), and
   is never called again after it has answered false (late = 0). *)
Require Import Base.Bytes Model.CfgErrors Proofs.CfgErrorsP.
Open Scope Z_scope.

Theorem C19_all_yields_leaves_and_stops :
  forall (A : Type) (t : etree A) (k : Z), -1 <= k ->
    yielded t k = ((if k <? 0 then flatten t else firstn (Z.to_nat k + 1) (flatten t)), 0).
Proof. exact @yielded_spec. Qed.
Print Assumptions C19_all_yields_leaves_and_stops.

(* the iterator is, call for call, the consumer fed with the flattened leaves *)
Theorem C19_all_is_feed :
  forall (A : Type) (t : etree A) st, all t kconsumer st = feed (flatten t) st.
Proof. exact @all_feed. Qed.
Print Assumptions C19_all_is_feed.

(* non-vacuity: a nested tree, breaking at the third leaf *)
Example C19_example :
  yielded (Join [Leaf 1; Join [Join [Leaf 2]; Leaf 3; Leaf 4]; Leaf 5]) 2 = ([1; 2; 3], 0).
Proof. vm_compute. reflexivity. Qed.
