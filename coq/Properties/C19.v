(* Properties/C19.v -- cfgerrors.All yields exactly the leaf errors and honours early exit.
   For every join tree (any shape, any depth) and every break position k: a consumer that
   accepts k elements and breaks on the next one receives exactly the first k+1 leaves of the
   tree in order (all of them, each once, if it never breaks or k+1 exceeds their number), and
   is never called again after it has answered false (late = 0). *)
Require Import Base.Bytes Model.CfgErrors Proofs.CfgErrorsP.
Open Scope Z_scope.

Theorem C19_all_yields_leaves_and_stops :
  forall (A : Type) (t : etree A) (k : Z), -1 <= k ->
    yielded t k = ((if k <? 0 then flatten t else firstn (Z.to_nat k + 1) (flatten t)), 0).
Proof. exact @yielded_spec. Qed.
Print Assumptions C19_all_yields_leaves_and_stops.

(* the iterator is, call for call, the consumer fed with the flattened leaves *)
Theorem C19_all_is_feed :
  forall (A : Type) (t : etree A) st, all t kconsumer st = feed (flatten t) st.
Proof. exact @all_feed. Qed.
Print Assumptions C19_all_is_feed.

(* non-vacuity: a nested tree, breaking at the third leaf *)
Example C19_example :
  yielded (Join [Leaf 1; Join [Join [Leaf 2]; Leaf 3; Leaf 4]; Leaf 5]) 2 = ([1; 2; 3], 0).
Proof. vm_compute. reflexivity. Qed.

(* count clause: for the error returned by NewMiddleware / Reconfigure, ranging over All yields
   exactly the individual violations of the configuration (composition with C05) *)
Require Import Model.Config Spec.ConfigDoc Proofs.ComposeP.
Theorem C19_validation_errors_yield_the_violations : forall ace ip6 psl c e,
  new_internal_config ace ip6 psl c = inr e ->
  yielded e (-1) = (violations ace ip6 psl c, 0%Z) /\
  length (fst (yielded e (-1))) = length (violations ace ip6 psl c).
Proof. exact all_yields_the_violations. Qed.
Print Assumptions C19_validation_errors_yield_the_violations.
