(* Properties/C11t.v -- the first-value extraction on which the preflight classification (C11), the echoed origin (C03)
   and the reflected request headers (C18) rest, for headers.First AS TRANSLATED FROM internal/headers/common.go on
   this run (tools/genutil -> Gen/UtilSrc.v). Theorems only. *)
Require Import Base.Bytes Gen.Tables Model.Util Model.Headers Model.UtilRt Gen.UtilSrc Model.MwRt Proofs.FirstSrcP.
Open Scope N_scope.

(* the translated First is the function the translated middleware.go (Gen/MwSrc.v) calls *)
Theorem C11_source_first_is_the_model : forall h k, go_headers_First h k = first3 h k.
Proof. exact go_headers_First_eq. Qed.
Print Assumptions C11_source_first_is_the_model.

(* a key that is absent, or present with zero values, yields "not found"; otherwise the first value, as a scalar and
   as a singleton list *)
Theorem C11_source_first_spec : forall h k,
  go_headers_First h k =
  match hget h k with
  | Some (x :: _) => (x, [x], true)
  | _ => ([], [], false)
  end.
Proof. intros h k. rewrite go_headers_First_eq. unfold first3, first. destruct (hget h k) as [[|x r]|]; reflexivity. Qed.
Print Assumptions C11_source_first_spec.

Example C11_source_first_runs :
  (go_headers_First [([79], [[1]; [2]]); ([80], [])] [79], go_headers_First [([79], [[1]; [2]]); ([80], [])] [80],
   go_headers_First [([79], [[1]; [2]]); ([80], [])] [81])
  = (([1], [[1]], true), ([], [], false), ([], [], false)).
Proof. vm_compute. reflexivity. Qed.
