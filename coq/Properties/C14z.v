(* Properties/C14z.v -- C14 is proved about the hand-written model; it is a statement about /repo because the code on its path,
   AS TRANSLATED ON THIS RUN, is that model: the request path (middleware.go handlers, headers.First, origins.Parse, headers.Check/TrimOWS/cutAtComma, Tree.Contains, the byte sets, the method and header-name predicates); the configuration path (config.go validation and rendering, ParsePattern and the Pattern methods, Tree.Insert/Elems/IsEmpty, the sets and predicates).
   A change to any file on the path breaks this obligation of C14 (Proofs/TiesP.v spells the bundles out). Theorems only. *)
Require Import Proofs.TiesP.

Theorem C14_source_path_is_the_model : req_path_ties /\ cfg_path_ties.
Proof. exact (conj req_path_is_the_model cfg_path_is_the_model). Qed.
Print Assumptions C14_source_path_is_the_model.
