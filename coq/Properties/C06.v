(* Properties/C06.v -- Config() round trip: m.Reconfigure(m.Config()) is accepted, changes no
   response (in either debug mode) and leaves Config() itself unchanged from the second trip on;
   NewMiddleware, Reconfigure on a zero value and Reconfigure on a live middleware agree.
   Oracles: [ace] (x/net/idna) and [psl] (public-suffix list) are arbitrary. The IPv6 oracle [ip6]
   (net/netip) is arbitrary except for [ip6_sane]: it rejects literals that start with '*'.
   Without it the statement is false in the model: an oracle that declares "*::1" a canonical
   address makes "http://[*::1]" an accepted pattern whose value is stored as a subdomain wildcard
   and printed as "http://*[::1]", which is rejected (see C06_ex_oracle_needed). net/netip accepts
   hexadecimal digits, ':', '.' and a '%zone' only. *)
Require Import Base.Bytes.
Require Import Model.Headers Model.Netip Model.CfgErrors Model.Config Model.Serve Model.Mw.
Require Import Proofs.RoundTripParseP Proofs.RoundTripMainP.
Open Scope N_scope.
Import Coq.Strings.String.StringSyntax.
Arguments b _%string_scope.

(* (a) Reconfigure(Config()) succeeds *)
Theorem C06_config_is_accepted : forall ace ip6 psl c ic, ip6_sane ip6 ->
  new_internal_config ace ip6 psl c = inl ic ->
  exists ic1, new_internal_config ace ip6 psl (new_config ic) = inl ic1.
Proof. exact config_is_accepted. Qed.
Print Assumptions C06_config_is_accepted.

(* (b) ... and changes no response, in either debug mode *)
Theorem C06_same_responses : forall ace ip6 psl c ic ic1, ip6_sane ip6 ->
  new_internal_config ace ip6 psl c = inl ic ->
  new_internal_config ace ip6 psl (new_config ic) = inl ic1 ->
  forall dbg r pre, serve (Some ic1) dbg r pre = serve (Some ic) dbg r pre.
Proof. exact same_responses. Qed.
Print Assumptions C06_same_responses.

(* (c) NewMiddleware(c) and Reconfigure(&c) on a zero-value middleware build the same middleware *)
Theorem C06_constructors_agree : forall ace ip6 psl c,
  fst (mw_new ace ip6 psl c) =
  match new_internal_config ace ip6 psl c with
  | inl _ => Some (fst (step ace ip6 psl zero_mw (OReconfigure (Some c))))
  | inr _ => None
  end.
Proof. exact constructors_agree. Qed.
Print Assumptions C06_constructors_agree.

(* (d) Reconfigure(Config()) as an operation of the state machine: no error, debug flag kept,
   every response unchanged *)
Theorem C06_reconfigure_config_noop : forall ace ip6 psl c ic dbg, ip6_sane ip6 ->
  new_internal_config ace ip6 psl c = inl ic ->
  let st := (Some ic, dbg) in
  exists st', step ace ip6 psl st (OReconfigure (mw_config st)) = (st', None) /\ snd st' = dbg /\
              forall r pre, mw_serve st' r pre = mw_serve st r pre.
Proof. exact reconfigure_config_noop. Qed.
Print Assumptions C06_reconfigure_config_noop.

(* (e) stability: after one round trip Config() no longer changes. (The first trip may change the
   origin list: patterns subsumed by others disappear, see C06_ex_round_trips.) *)
Theorem C06_stable_after_one_round_trip : forall ace ip6 psl c ic ic1 ic2, ip6_sane ip6 ->
  new_internal_config ace ip6 psl c = inl ic ->
  new_internal_config ace ip6 psl (new_config ic) = inl ic1 ->
  new_internal_config ace ip6 psl (new_config ic1) = inl ic2 ->
  new_config ic2 = new_config ic1.
Proof. exact stable_after_one_round_trip. Qed.
Print Assumptions C06_stable_after_one_round_trip.

(* every field other than the origin list is stable from the first trip on *)
Theorem C06_stable_partial : forall ace ip6 psl c ic ic1, ip6_sane ip6 ->
  new_internal_config ace ip6 psl c = inl ic ->
  new_internal_config ace ip6 psl (new_config ic) = inl ic1 ->
  same_but_origins (new_config ic1) (new_config ic).
Proof. exact stable_partial. Qed.
Print Assumptions C06_stable_partial.

(* the tree of the third validation IS the tree of the second *)
Theorem C06_tree_stable : forall ace ip6 psl, ip6_sane ip6 -> forall cred pna ti tp origins t0 t1 t2,
  validate_origins ace ip6 psl cred pna ti tp origins = inl t0 ->
  validate_origins ace ip6 psl cred pna ti tp (oelems t0) = inl t1 ->
  validate_origins ace ip6 psl cred pna ti tp (oelems t1) = inl t2 -> t2 = t1.
Proof. exact origins_stable. Qed.
Print Assumptions C06_tree_stable.

(* ---- non-vacuity ---- *)
Definition ex_ace : bytes -> bool := fun _ => true.
Definition ex_ip6 : bytes -> ipres := fun s => if beqb s (b "::1") then IPOk s true else IPErr.
Definition ex_psl : bytes -> bool := fun _ => false.

Example C06_ex_ip6_sane : ip6_sane ex_ip6.
Proof. intros s. vm_compute. exact I. Qed.

Definition ex_cfg : config :=
  {| c_origins := [b "https://foo.a.com"; b "https://*.a.com"; b "http://[::1]:9090"; b "http://[127.0.0.1]";
                   b "https://*.b.org:8443"; b "https://*.b.org:8443"; b "http://localhost:*";
                   b "https://c.example."; b "https://c.example.:*"];
     c_credentialed := true;
     c_methods := [b "put"; b "PATCH"; b "GET"];
     c_req_headers := [b "X-Foo"; b "Authorization"];
     c_max_age := 30%Z;
     c_res_headers := [b "X-Bar"; b "x-baz"; b "Content-Type"];
     c_status := 200%Z;
     c_pna := false; c_pna_nocors := false; c_tol_insecure := false; c_tol_psl := false |}.

Definition ex_trips (ace : bytes -> bool) (ip6 : bytes -> ipres) (psl : bytes -> bool) (c : config)
  : option (config * config * config) :=
  match new_internal_config ace ip6 psl c with
  | inr _ => None
  | inl ic =>
    match new_internal_config ace ip6 psl (new_config ic) with
    | inr _ => None
    | inl ic1 =>
      match new_internal_config ace ip6 psl (new_config ic1) with
      | inr _ => None
      | inl ic2 => Some (new_config ic, new_config ic1, new_config ic2)
      end
    end
  end.

(* the hypotheses of (a)-(e) are satisfiable; the first trip drops the subsumed patterns
   (foo.a.com under *.a.com, the discrete port under ":*"), brackets IPv6 and unbrackets IPv4;
   the exact duplicate "*." pattern stays listed twice; from then on nothing changes *)
Example C06_ex_round_trips :
  match ex_trips ex_ace ex_ip6 ex_psl ex_cfg with
  | Some (c1, c2, c3) =>
      c_origins c1 = [b "http://127.0.0.1"; b "http://[::1]:9090"; b "http://localhost:*"; b "https://*.a.com";
                      b "https://*.b.org:8443"; b "https://*.b.org:8443"; b "https://c.example.:*";
                      b "https://foo.a.com"] /\
      c_origins c2 = [b "http://127.0.0.1"; b "http://[::1]:9090"; b "http://localhost:*"; b "https://*.a.com";
                      b "https://*.b.org:8443"; b "https://*.b.org:8443"; b "https://c.example.:*"] /\
      c_methods c1 = [b "PATCH"; b "PUT"] /\ c_req_headers c1 = [b "authorization"; b "x-foo"] /\
      c_res_headers c1 = [b "x-bar"; b "x-baz"] /\ c_max_age c1 = 30%Z /\ c_status c1 = 200%Z /\
      c3 = c2
  | None => False
  end.
Proof. vm_compute. repeat split; reflexivity. Qed.

(* why [ip6_sane] is needed: an oracle that declares "*::1" canonical *)
Example C06_ex_oracle_needed :
  let bad_ip6 := fun s : bytes => IPOk s false in
  let c := {| c_origins := [b "http://[*::1]"]; c_credentialed := false; c_methods := []; c_req_headers := [];
              c_max_age := 0%Z; c_res_headers := []; c_status := 0%Z; c_pna := false; c_pna_nocors := false;
              c_tol_insecure := false; c_tol_psl := false |} in
  match new_internal_config ex_ace bad_ip6 ex_psl c with
  | inl ic => c_origins (new_config ic) = [b "http://*[::1]"] /\
              match new_internal_config ex_ace bad_ip6 ex_psl (new_config ic) with inl _ => False | inr _ => True end
  | inr _ => False
  end.
Proof. vm_compute. split; [reflexivity | exact I]. Qed.

(* ========================================================================================== *)
(* the IPv6 oracle instantiated by the executable model of net/netip (Model/Netip6.v, compared  *)
(* with the real library on every run by the `netip` family): [ip6_sane] is a theorem of it      *)
Require Import Model.Netip6 Proofs.Netip6P Proofs.Netip6RoundTripP.

Theorem C06_ip6_model_sane : ip6_sane ip6_model.
Proof. exact ip6_model_sane. Qed.
Print Assumptions C06_ip6_model_sane.

Theorem C06_config_is_accepted_netip6 : forall ace psl c ic,
  new_internal_config ace ip6_model psl c = inl ic ->
  exists ic1, new_internal_config ace ip6_model psl (new_config ic) = inl ic1.
Proof. exact config_is_accepted_netip6. Qed.
Print Assumptions C06_config_is_accepted_netip6.

Theorem C06_same_responses_netip6 : forall ace psl c ic ic1,
  new_internal_config ace ip6_model psl c = inl ic ->
  new_internal_config ace ip6_model psl (new_config ic) = inl ic1 ->
  forall dbg r pre, serve (Some ic1) dbg r pre = serve (Some ic) dbg r pre.
Proof. exact same_responses_netip6. Qed.
Print Assumptions C06_same_responses_netip6.

Theorem C06_reconfigure_config_noop_netip6 : forall ace psl c ic dbg,
  new_internal_config ace ip6_model psl c = inl ic ->
  let st := (Some ic, dbg) in
  exists st', step ace ip6_model psl st (OReconfigure (mw_config st)) = (st', None) /\ snd st' = dbg /\
              forall r pre, mw_serve st' r pre = mw_serve st r pre.
Proof. exact reconfigure_config_noop_netip6. Qed.
Print Assumptions C06_reconfigure_config_noop_netip6.

Theorem C06_stable_after_one_round_trip_netip6 : forall ace psl c ic ic1 ic2,
  new_internal_config ace ip6_model psl c = inl ic ->
  new_internal_config ace ip6_model psl (new_config ic) = inl ic1 ->
  new_internal_config ace ip6_model psl (new_config ic1) = inl ic2 ->
  new_config ic2 = new_config ic1.
Proof. exact stable_after_one_round_trip_netip6. Qed.
Print Assumptions C06_stable_after_one_round_trip_netip6.

Theorem C06_stable_partial_netip6 : forall ace psl c ic ic1,
  new_internal_config ace ip6_model psl c = inl ic ->
  new_internal_config ace ip6_model psl (new_config ic) = inl ic1 ->
  same_but_origins (new_config ic1) (new_config ic).
Proof. exact stable_partial_netip6. Qed.
Print Assumptions C06_stable_partial_netip6.

Theorem C06_tree_stable_netip6 : forall ace psl cred pna ti tp origins t0 t1 t2,
  validate_origins ace ip6_model psl cred pna ti tp origins = inl t0 ->
  validate_origins ace ip6_model psl cred pna ti tp (oelems t0) = inl t1 ->
  validate_origins ace ip6_model psl cred pna ti tp (oelems t1) = inl t2 -> t2 = t1.
Proof. exact origins_stable_netip6. Qed.
Print Assumptions C06_tree_stable_netip6.

(* non-vacuity: the example configuration (with "http://[::1]:9090") round-trips under the model as under [ex_ip6] *)
Example C06_ex_round_trips_netip6 :
  ex_trips ex_ace ip6_model ex_psl ex_cfg = ex_trips ex_ace ex_ip6 ex_psl ex_cfg /\
  match ex_trips ex_ace ip6_model ex_psl ex_cfg with Some (_, c2, c3) => c3 = c2 | None => False end.
Proof. vm_compute. split; reflexivity. Qed.
