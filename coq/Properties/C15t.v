(* Properties/C15t.v -- C15: the small helper functions it rests on, stated for the SOURCE.  [go_*] are the Gallina
   functions that tools/genutil regenerates on every run from internal/util/{bytecase,sortedset,set}.go,
   internal/methods/methods.go, internal/headers/{req,res}.go, headers.IsValid and headers.isOWS (coq/Gen/UtilSrc.v);
   standard-library calls are the contract functions of Model/UtilRt.v.  Proofs: Proofs/UtilSrcP.v. *)
Require Import Base.Bytes Gen.Tables Model.Util Model.Headers Model.Methods Model.UtilRt Gen.UtilSrc.
Require Import Proofs.HeadersP Proofs.UtilSrcP.
Import Coq.Strings.String.StringSyntax.
Arguments b _%string_scope.

Theorem C15_source_NewSet_is_the_model : forall l, go_NewSet l = new_set l.
Proof. exact go_NewSet_eq. Qed.
Print Assumptions C15_source_NewSet_is_the_model.

Theorem C15_source_Contains_is_the_model : forall s e, sset_inv s -> go_Set_Contains s e = set_contains s e.
Proof. exact go_Set_Contains_eq. Qed.
Print Assumptions C15_source_Contains_is_the_model.

Theorem C15_source_ByteLowercase_is_the_model : forall s, go_ByteLowercase s = lower s.
Proof. exact go_ByteLowercase_eq. Qed.
Print Assumptions C15_source_ByteLowercase_is_the_model.

Example C15_source_runs :
  elems (go_NewSet [b "b"; b "a"; b "b"; b "C"]) = elems (go_NewSet [b "C"; b "b"; b "a"]) /\
  go_ByteLowercase (b "X_Api^Key-`Z") = b "x_api^key-`z".
Proof. split; vm_compute; reflexivity. Qed.
