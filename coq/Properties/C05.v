(* Properties/C05.v -- configuration validation reports every violation, typed and in order.
   [violations] (Spec/ConfigDoc.v) lists, independently of the code, one error per offending
   occurrence of a Config, field by field. newInternalConfig accepts exactly when that list is
   empty; otherwise the errors.Join tree it returns has exactly these leaves in this order: no
   violation is missing, none is spurious, and validation does not stop at the first error.
   Oracles: [ace] (x/net/idna), [ip6] (net/netip) and [psl] (public-suffix list) are arbitrary. *)
Require Import Base.Bytes Gen.Tables.
Require Import Model.Netip Model.Methods Model.Pattern Model.CfgErrors Model.Config.
Require Import Spec.ConfigDoc.
Require Import Proofs.ValidateP.
Open Scope N_scope.
Import Coq.Strings.String.StringSyntax.
Arguments b _%string_scope.

Theorem C05_valid_accepted : forall ace ip6 psl c,
  violations ace ip6 psl c = [] -> exists ic, new_internal_config ace ip6 psl c = inl ic.
Proof. exact valid_accepted. Qed.
Print Assumptions C05_valid_accepted.

Theorem C05_all_violations_reported : forall ace ip6 psl c e,
  new_internal_config ace ip6 psl c = inr e ->
  flatten e = violations ace ip6 psl c /\ violations ace ip6 psl c <> [].
Proof. exact all_violations_reported. Qed.
Print Assumptions C05_all_violations_reported.

(* both directions at once *)
Theorem C05_validate_flatten : forall ace ip6 psl c,
  match new_internal_config ace ip6 psl c with
  | inl _ => violations ace ip6 psl c = []
  | inr e => flatten e = violations ace ip6 psl c /\ violations ace ip6 psl c <> []
  end.
Proof. exact validate_flatten. Qed.
Print Assumptions C05_validate_flatten.

(* Every message of package cfgerrors starts with "cors: ". [cfgerrors_messages] (Proofs/ValidateP.v)
   is: the six format templates, and every string literal of the Error methods that is longer than
   12 bytes -- the literals that are filtered out are the comparison keywords "*", "credentialed",
   "pna", "psl", "missing" and nothing else ([C05_non_messages]). *)
Theorem C05_message_prefix :
  length cfgerrors_messages = 20%nat /\
  forallb (has_prefix (b "cors: ")) cfgerrors_messages = true.
Proof. exact message_prefix. Qed.
Print Assumptions C05_message_prefix.

Theorem C05_non_messages :
  filter (fun s => negb (is_message s))
    (cfgerrors_IncompatibleOriginPatternError_Error_lits ++
     cfgerrors_IncompatiblePrivateNetworkAccessModesError_Error_lits ++
     cfgerrors_IncompatibleWildcardResponseHeaderNameError_Error_lits ++
     cfgerrors_MaxAgeOutOfBoundsError_Error_lits ++
     cfgerrors_PreflightSuccessStatusOutOfBoundsError_Error_lits ++
     cfgerrors_UnacceptableHeaderNameError_Error_lits ++
     cfgerrors_UnacceptableMethodError_Error_lits ++
     cfgerrors_UnacceptableOriginPatternError_Error_lits)
  = [b "*"; b "credentialed"; b "*"; b "pna"; b "credentialed"; b "pna"; b "psl"; b "missing"].
Proof. exact non_messages. Qed.
Print Assumptions C05_non_messages.

(* The error for a forbidden method carries the name as supplied: the code tests and reports the
   Fetch-normalised name, but normalisation never changes a forbidden method. *)
Theorem C05_forbidden_value_as_supplied : forall m,
  method_is_valid m = true -> method_is_forbidden (method_normalize m) = true -> method_normalize m = m.
Proof. exact forbidden_as_supplied_valid. Qed.
Print Assumptions C05_forbidden_value_as_supplied.

(* ---- non-vacuity ---- *)
Definition ex_ace (_ : bytes) : bool := true.
Definition ex_ip6 (_ : bytes) : ipres := IPErr.
Definition ex_psl (h : bytes) : bool := beqb h (b "com").

(* a configuration with 18 violations spread over all seven fields *)
Definition ex_bad : config := {|
  c_origins := [b "*"; b "http://example.com"; b "https://*.com"; b "bad"];
  c_credentialed := true;
  c_methods := [b "GET"; b "connect"; b "b@d"; b "TRACE"; b "PATCH"];
  c_req_headers := [b "Authorization"; b "Sec-Foo"; b "Access-Control-Allow-Origin"; b "X-Foo"; b "inva lid"; b "*"];
  c_max_age := 100000;
  c_res_headers := [b "*"; b "Set-Cookie"; b "Origin"; b "X-Bar"];
  c_status := 300;
  c_pna := true; c_pna_nocors := true; c_tol_insecure := false; c_tol_psl := false |}.

Definition ex_bad_errors : list cerr :=
  [EStatus 300 204 200 299; EIncompatPNA;
   EIncompatOrigin (b "*") RCredentialed; EIncompatOrigin (b "*") RPna;
   EIncompatOrigin (b "http://example.com") RCredentialed; EIncompatOrigin (b "http://example.com") RPna;
   EIncompatOrigin (b "https://*.com") RPsl; EOrigin (b "bad") RInvalid;
   EMethod (b "connect") RForbidden; EMethod (b "b@d") RInvalid; EMethod (b "TRACE") RForbidden;
   EHeader (b "Sec-Foo") TRequest RForbidden; EHeader (b "Access-Control-Allow-Origin") TRequest RProhibited;
   EHeader (b "inva lid") TRequest RInvalid;
   EMaxAge 100000 5 86400 (-1);
   EIncompatWildcardResHdr; EHeader (b "Set-Cookie") TResponse RForbidden; EHeader (b "Origin") TResponse RProhibited].

Example C05_ex_bad_violations : violations ex_ace ex_ip6 ex_psl ex_bad = ex_bad_errors.
Proof. vm_compute. reflexivity. Qed.

Example C05_ex_bad_rejected :
  match new_internal_config ex_ace ex_ip6 ex_psl ex_bad with
  | inr e => flatten e = ex_bad_errors
  | inl _ => False
  end.
Proof. vm_compute. reflexivity. Qed.

(* a configuration without violations, which is accepted *)
Definition ex_good : config := {|
  c_origins := [b "https://example.com"; b "https://*.example.org:*"; b "http://localhost:8080"];
  c_credentialed := true;
  c_methods := [b "GET"; b "put"; b "PATCH"];
  c_req_headers := [b "Authorization"; b "X-Foo"];
  c_max_age := 30;
  c_res_headers := [b "X-Bar"];
  c_status := 200;
  c_pna := true; c_pna_nocors := false; c_tol_insecure := false; c_tol_psl := false |}.

Example C05_ex_good_no_violation : violations ex_ace ex_ip6 ex_psl ex_good = [].
Proof. vm_compute. reflexivity. Qed.

Example C05_ex_good_accepted :
  match new_internal_config ex_ace ex_ip6 ex_psl ex_good with inl _ => True | inr _ => False end.
Proof. vm_compute. exact I. Qed.

(* forbidden methods, in any case, are valid names that normalisation leaves alone *)
Example C05_ex_forbidden :
  map (fun m => (method_is_valid m, method_is_forbidden (method_normalize m), beqb (method_normalize m) m))
      [b "connect"; b "TRACE"; b "TrAcK"]
  = [(true, true, true); (true, true, true); (true, true, true)].
Proof. vm_compute. reflexivity. Qed.

(* ... whereas normalisation does change other methods *)
Example C05_ex_normalized : method_normalize (b "put") = b "PUT" /\ method_normalize (b "patch") = b "patch".
Proof. vm_compute. split; reflexivity. Qed.
