(* Properties/C09.v -- debug mode follows the documented state machine (Spec/DebugSM.v): it is
   off after creation, SetDebug sets it on a configured middleware and is a no-op on a
   passthrough one, a successful Reconfigure keeps it, a failed one changes nothing, and
   Reconfigure(nil) switches it off. Its only effect on responses is on preflights, and a preflight
   that succeeds with debug off still succeeds with debug on, with the same status and the same
   headers except possibly Access-Control-Allow-Headers (debug on lists the configured names
   instead of echoing the request's).

   Definitions used in the statements (Proofs/DispatchP.v):
     abs st            := (fst st is Some _, snd st)         the spec's (configured?, debug) view
     sm_of ace ip6 psl o := SmSetDebug b | SmReconfNil | SmReconf (new_internal_config ... succeeded)
     inv st            := fst st = None -> snd st = false    a passthrough middleware's debug flag is off
     acah_rendered ic  := sset_size (i_req_hdrs ic) <> 0 -> i_acah ic <> None
   [acah_rendered] holds for every accepted configuration (C09_acah_rendered_of_accepted, through
   icfg_rel of Proofs/Rel.v); C09_acah_rendered_needed shows an internal configuration violating it
   for which debug mode drops Access-Control-Max-Age from a successful preflight response.
   No bound on the success status is needed: when the debug-off status is not 403 both statuses
   are the configured success status, whatever its value. *)
Require Import Base.Bytes Gen.Tables Model.Util Model.Headers Model.Radix Model.Netip Model.CfgErrors
  Model.Config Model.Serve Model.Mw.
Require Import Spec.Wire Spec.DebugSM Proofs.Rel Proofs.DispatchP Proofs.DispatchRelP.
Open Scope N_scope.

Theorem C09_refines_state_machine : forall ace ip6 psl st ops, inv st ->
  abs (run ace ip6 psl st ops) = sm_run (abs st) (map (sm_of ace ip6 psl) ops) /\
  inv (run ace ip6 psl st ops).
Proof. exact run_refines. Qed.
Print Assumptions C09_refines_state_machine.

Theorem C09_step_refines : forall ace ip6 psl st o, inv st ->
  abs (fst (step ace ip6 psl st o)) = sm_step (abs st) (sm_of ace ip6 psl o) /\
  inv (fst (step ace ip6 psl st o)).
Proof. exact step_refines. Qed.
Print Assumptions C09_step_refines.

Theorem C09_initial_states :
  abs zero_mw = sm_init false /\ inv zero_mw /\
  forall ace ip6 psl c st, fst (mw_new ace ip6 psl c) = Some st -> abs st = sm_init true /\ inv st.
Proof. exact initial_states_all. Qed.
Print Assumptions C09_initial_states.

Theorem C09_debug_only_affects_preflights : forall st r pre, is_preflight r = false ->
  serve st true r pre = serve st false r pre.
Proof. exact debug_only_affects_preflights. Qed.
Print Assumptions C09_debug_only_affects_preflights.

Theorem C09_debug_keeps_preflight_success : forall ic r pre, acah_rendered ic -> is_preflight r = true ->
  o_status (serve (Some ic) false r pre) <> Some 403%Z ->
  o_status (serve (Some ic) true r pre) = o_status (serve (Some ic) false r pre) /\
  forall k, beqb k headers_ACAH = false ->
    hget (o_hdrs (serve (Some ic) true r pre)) k = hget (o_hdrs (serve (Some ic) false r pre)) k.
Proof. exact debug_keeps_preflight_success. Qed.
Print Assumptions C09_debug_keeps_preflight_success.

Theorem C09_acah_rendered_of_accepted : forall ace ip6 c ic, icfg_rel ace ip6 c ic -> acah_rendered ic.
Proof. exact rel_acah_rendered. Qed.
Print Assumptions C09_acah_rendered_of_accepted.

(* non-vacuity *)
Import Coq.Strings.String.StringSyntax.
Arguments b _%string_scope.
Definition C09_ace (_ : bytes) := true.
Definition C09_ip6 (_ : bytes) := IPErr.
Definition C09_psl (_ : bytes) := false.
Definition C09_good : config :=
  {| c_origins := [b "https://example.com"]; c_credentialed := true; c_methods := [b "PUT"];
     c_req_headers := [b "X-Foo"; b "Authorization"]; c_max_age := 30; c_res_headers := [];
     c_status := 0; c_pna := false; c_pna_nocors := false; c_tol_insecure := false; c_tol_psl := false |}.
Definition C09_bad : config :=
  {| c_origins := [b "http://*"]; c_credentialed := true; c_methods := []; c_req_headers := [];
     c_max_age := 0; c_res_headers := []; c_status := 0;
     c_pna := false; c_pna_nocors := false; c_tol_insecure := false; c_tol_psl := false |}.
Definition C09_dummy : icfg :=
  {| i_tree := empty_tree; i_methods := sset_empty; i_req_hdrs := sset_empty; i_acah := None;
     i_status_m200 := 4; i_cred := false; i_any_method := false; i_asterisk_req := false;
     i_allow_auth := false; i_pna := false; i_pna_nocors := false; i_acma := None; i_aceh := [];
     i_tol_psl := false; i_tol_insecure := false |}.
Definition C09_ic : icfg :=
  match new_internal_config C09_ace C09_ip6 C09_psl C09_good with inl ic => ic | inr _ => C09_dummy end.
Definition C09_pre : hmap := [(b "Content-Type", [b "text/plain"])].
Definition C09_preflight : request :=
  {| r_method := b "OPTIONS";
     r_hdrs := [(b "Origin", [b "https://example.com"]); (b "Access-Control-Request-Method", [b "PUT"]);
                (b "Access-Control-Request-Headers", [b "x-foo"])] |}.

Example C09_example_history :
  let ops := [OSetDebug true; OReconfigure (Some C09_good); OSetDebug true; OReconfigure (Some C09_bad);
              OReconfigure (Some C09_good); OReconfigure None; OSetDebug true] in
  map (sm_of C09_ace C09_ip6 C09_psl) ops =
    [SmSetDebug true; SmReconf true; SmSetDebug true; SmReconf false; SmReconf true; SmReconfNil; SmSetDebug true] /\
  sm_trace (abs zero_mw) (map (sm_of C09_ace C09_ip6 C09_psl) ops) =
    [(false, false); (false, false); (true, false); (true, true); (true, true); (true, true); (false, false); (false, false)] /\
  abs (run C09_ace C09_ip6 C09_psl zero_mw ops) = (false, false).
Proof. vm_compute. repeat split; reflexivity. Qed.

Example C09_example_preflight :
  new_internal_config C09_ace C09_ip6 C09_psl C09_good = inl C09_ic /\
  is_preflight C09_preflight = true /\
  o_status (serve (Some C09_ic) false C09_preflight C09_pre) = Some 204%Z /\
  hget (o_hdrs (serve (Some C09_ic) false C09_preflight C09_pre)) h_acah = Some [b "x-foo"] /\
  hget (o_hdrs (serve (Some C09_ic) true C09_preflight C09_pre)) h_acah = Some [b "authorization,x-foo"] /\
  hget (o_hdrs (serve (Some C09_ic) true C09_preflight C09_pre)) h_acma = Some [b "30"].
Proof. vm_compute. repeat split; reflexivity. Qed.

(* the side condition cannot be dropped: an internal configuration with allowed request-header
   names but no rendered list (never produced by validation) *)
Definition C09_unrendered : icfg :=
  {| i_tree := i_tree C09_ic; i_methods := i_methods C09_ic; i_req_hdrs := i_req_hdrs C09_ic; i_acah := None;
     i_status_m200 := 4; i_cred := true; i_any_method := false; i_asterisk_req := false;
     i_allow_auth := false; i_pna := false; i_pna_nocors := false; i_acma := Some (b "30"); i_aceh := [];
     i_tol_psl := false; i_tol_insecure := false |}.

Example C09_acah_rendered_needed :
  o_status (serve (Some C09_unrendered) false C09_preflight C09_pre) = Some 204%Z /\
  hget (o_hdrs (serve (Some C09_unrendered) false C09_preflight C09_pre)) h_acma = Some [b "30"] /\
  hget (o_hdrs (serve (Some C09_unrendered) true C09_preflight C09_pre)) h_acma = None.
Proof. vm_compute. repeat split; reflexivity. Qed.

(* ---- the same, for every configuration accepted by validation (composition with accepted_rel) ---- *)
Require Import Proofs.ComposeP.

Theorem C09_debug_keeps_preflight_success_accepted : forall ace ip6 psl c ic r pre,
  new_internal_config ace ip6 psl c = inl ic -> is_preflight r = true ->
  o_status (serve (Some ic) false r pre) <> Some 403%Z ->
  o_status (serve (Some ic) true r pre) = o_status (serve (Some ic) false r pre) /\
  forall k, beqb k headers_ACAH = false ->
    hget (o_hdrs (serve (Some ic) true r pre)) k = hget (o_hdrs (serve (Some ic) false r pre)) k.
Proof. exact c09_diag_accepted. Qed.
Print Assumptions C09_debug_keeps_preflight_success_accepted.
