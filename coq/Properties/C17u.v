(* Properties/C17u.v -- no index or slice expression of internal/origins/radix.go is ever out of range: for the
   CHECKED translation of the file (tools/genradix -checked -> Gen/RadixChk.v, regenerated on every run), in which every
   function also returns a flag that is true iff every x[i] and x[lo:hi] evaluated on the way was in range, the flag
   is true on every tree the code can build (invariant gwf, preserved by Insert: Properties/C01t.v) and for every
   pattern with a non-empty host value (what ParsePattern produces: C17_pattern_value_nonempty) and every origin --
   and the other components are exactly what the unchecked translation computes. With Properties/C17t.v (the loops
   terminate) this is "Tree.Insert, Tree.Contains and Tree.Elems return without an index panic" for the translated
   source. Not expressed: nil dereference (the receivers and arguments are never nil at the call sites, which pass
   addresses of locals) and memory exhaustion. Theorems only. *)
Require Import Base.Bytes Gen.Tables Model.Origins Model.Pattern Model.Radix Model.LoopRt Model.RadixRt Gen.RadixSrc Gen.RadixChk.
Require Import Proofs.RadixAbs Proofs.RadixChkP.
Open Scope N_scope.

Theorem C17_source_radix_contains_indexes_in_range : forall t o, gwf t ->
  exists v, chk_Tree_Contains t o = Some (v, true) /\ go_Tree_Contains t o = Some v.
Proof. exact chk_Tree_Contains_ok. Qed.
Print Assumptions C17_source_radix_contains_indexes_in_range.

Theorem C17_source_radix_insert_indexes_in_range : forall t p, gwf t -> pvalue p <> [] ->
  exists t', chk_Tree_Insert t p = Some (t', true) /\ go_Tree_Insert t p = Some t'.
Proof. exact chk_Tree_Insert_ok. Qed.
Print Assumptions C17_source_radix_insert_indexes_in_range.

Theorem C17_source_radix_elems_indexes_in_range : forall t, gwf t ->
  exists l, chk_Tree_Elems t = Some (l, true) /\ go_Tree_Elems t = Some l.
Proof. exact chk_Tree_Elems_ok. Qed.
Print Assumptions C17_source_radix_elems_indexes_in_range.

Theorem C17_source_radix_is_empty_indexes_in_range : forall t, chk_Tree_IsEmpty t = (go_Tree_IsEmpty t, true).
Proof. exact chk_Tree_IsEmpty_ok. Qed.
Print Assumptions C17_source_radix_is_empty_indexes_in_range.

(* the flag is not vacuous: the "non-empty by construction" read of s[0] is flagged on an empty host value, and an
   insertion index beyond the slice is flagged in the generic insert *)
Example C17_source_flag_detects_out_of_range :
  (option_map snd (chk_Tree_Insert zero_gnode {| pscheme := [104]; pvalue := []; pkind_of := KDomain; pport := 0%Z |}),
   snd (chk_insert 0 [1; 2; 3] 5%Z 9))
  = (Some false, false).
Proof. vm_compute. reflexivity. Qed.

(* ---- the byte-level parsers and the header-list scanner (tools/genloop -checked -> Gen/LoopChk.v, Gen/PatChk.v) ---- *)
Require Import Model.Util Model.Headers Model.UtilRt Gen.UtilSrc Gen.LoopSrc Gen.LoopChk Model.Netip Model.Idna Model.PatRt Gen.PatSrc Gen.PatChk.
Require Import Proofs.LoopChkP Proofs.PatChkP.

(* origins.Parse on EVERY byte string: no index or slice out of range, and the result of the unchecked translation *)
Theorem C17_source_parse_indexes_in_range : forall s,
  exists o ok, chk_Parse s = Some (o, ok, true) /\ go_Parse s = Some (o, ok).
Proof. exact chk_Parse_ok. Qed.
Print Assumptions C17_source_parse_indexes_in_range.

(* headers.Check on every set and every list of field lines (incl. the IndexAfter precondition n < Size, which is
   the slice set.elems[n+1:]) *)
Theorem C17_source_check_indexes_in_range : forall set lines,
  exists v, chk_Check set lines = Some (v, true) /\ go_Check set lines = Some v.
Proof. exact chk_Check_ok. Qed.
Print Assumptions C17_source_check_indexes_in_range.

Theorem C17_source_trim_ows_indexes_in_range : forall s n,
  exists r ok, chk_TrimOWS s n = Some (r, ok, true) /\ go_TrimOWS s n = Some (r, ok).
Proof. exact chk_TrimOWS_ok. Qed.
Print Assumptions C17_source_trim_ows_indexes_in_range.

(* ParsePattern on EVERY string and for every behaviour of net/netip and x/net/idna *)
Theorem C17_source_parse_pattern_indexes_in_range : forall ace_ok ip6 s,
  exists p e, chk_ParsePattern ace_ok ip6 s = Some (p, e, true) /\ go_ParsePattern ace_ok ip6 s = Some (p, e).
Proof. exact chk_ParsePattern_ok. Qed.
Print Assumptions C17_source_parse_pattern_indexes_in_range.

(* the two Pattern methods slice Value[2:] for a wildcard pattern: in range on every pattern ParsePattern returns *)
Theorem C17_source_parsed_pattern_methods_indexes_in_range : forall ace_ok ip6 psl s p,
  go_ParsePattern ace_ok ip6 s = Some (p, None) ->
  chk_IsDeemedInsecure p = (go_IsDeemedInsecure p, true) /\
  exists h b, chk_HostIsEffectiveTLD psl p = (h, b, true) /\ go_HostIsEffectiveTLD psl p = (h, b).
Proof.
  intros ace_ok ip6 psl s p H. pose proof (parsed_pattern_wf ace_ok ip6 s p H) as W. split.
  - apply chk_IsDeemedInsecure_ok. exact W.
  - apply chk_HostIsEffectiveTLD_ok. exact W.
Qed.
Print Assumptions C17_source_parsed_pattern_methods_indexes_in_range.
