(* Properties/C13t.v -- C13 stated for the SOURCE: the strict configuration-side pattern parser.  [go_ParsePattern] is the
   Gallina function that tools/genloop regenerates on every run from internal/origins/pattern.go (coq/Gen/PatSrc.v:
   ParsePattern, parseHostPattern, parsePortPattern, peekKind, hostOnly, IsIP, isDefaultPortForScheme, IsDeemedInsecure;
   net/netip and x/net/idna calls are functions of the model's oracles, Model/PatRt.v).  The equality says three
   things at once: the translated parser accepts and rejects exactly like the hand-written model (whose grammar
   theorems are in Properties/C13.v), a rejection carries the ORIGINAL input string as the error's Value, and the
   fuel of the loops it runs through always suffices.  Proofs: Proofs/PatSrcP.v. *)
Require Import Base.Bytes Gen.Tables Model.Util Model.Headers Model.Origins Model.Netip Model.Idna Model.Pattern
  Model.UtilRt Gen.UtilSrc Model.LoopRt Gen.LoopSrc Model.PatRt Gen.PatSrc.
Require Import Proofs.PatSrcP.
Import Coq.Strings.String.StringSyntax.
Arguments b _%string_scope.

Theorem C13_source_ParsePattern_is_the_model : forall ace_ok ip6 s,
  go_ParsePattern ace_ok ip6 s =
  Some (match parse_pattern ace_ok ip6 s with
        | inl p => (p, None)
        | inr r => (zero_pat, Some (s, r))
        end).
Proof. exact go_ParsePattern_eq. Qed.
Print Assumptions C13_source_ParsePattern_is_the_model.

Theorem C13_source_IsDeemedInsecure_is_the_model : forall p, go_IsDeemedInsecure p = is_deemed_insecure p.
Proof. exact go_IsDeemedInsecure_eq. Qed.
Print Assumptions C13_source_IsDeemedInsecure_is_the_model.

Example C13_source_pattern_runs :
  map (fun s => match go_ParsePattern (fun _ => true) (fun _ => IPErr) s with
                | Some (p, None) => (true, pvalue p, pport p, [])
                | Some (_, Some (v, _)) => (false, [], 0%Z, v)
                | None => (false, [], (-1)%Z, [])
                end)
      [b "https://*.example.com:8443"; b "http://127.0.0.1:*"; b "https://example.com:443"; b "https://example.com/path"]
  = [(true, b "*.example.com", 8443%Z, []); (true, b "127.0.0.1", 65536%Z, []);
     (false, [], 0%Z, b "https://example.com:443"); (false, [], 0%Z, b "https://example.com/path")].
Proof. vm_compute. reflexivity. Qed.
