(* Properties/C01.v -- the origin tree answers exactly the configured patterns.
   For every list of parsed patterns (ports in 0..65536, 65536 being ":*") and every parsed
   request origin (port in 0..65535): looking the origin up in the radix tree built by inserting
   the patterns one after the other gives true iff some pattern denotes the origin
   (Spec.Origins.allowed_by) -- whatever the shape the path compression has given the tree,
   whatever subsumption short-cuts were taken, and, as a corollary, whatever the order and
   multiplicity in which the patterns were inserted.
   All proofs are in Proofs/RadixP.v. *)
Require Import Base.Bytes Model.Origins Model.Pattern Model.Radix Spec.Origins Proofs.RadixP.
Open Scope Z_scope.

(* the hypotheses, spelled out (definitions live in Proofs/RadixP.v) *)
Example valid_pattern_def : forall p, valid_pattern p <-> 0 <= pport p <= 65536.
Proof. intros p. reflexivity. Qed.
Example valid_origin_def : forall o, valid_origin o <-> 0 <= oport o <= 65535.
Proof. intros o. reflexivity. Qed.
Example build_def : forall ps, build ps = fold_left tree_insert ps empty_tree.
Proof. intros ps. reflexivity. Qed.

Theorem C01_tree : forall ps o, Forall valid_pattern ps -> valid_origin o ->
  tree_contains (build ps) o = allowed_by ps o.
Proof. exact tree_contains_build. Qed.
Print Assumptions C01_tree.

Theorem C01_order_and_multiplicity : forall ps ps' o,
  Forall valid_pattern ps -> Forall valid_pattern ps' -> valid_origin o ->
  (forall p, In p ps <-> In p ps') ->
  tree_contains (build ps) o = tree_contains (build ps') o.
Proof. exact tree_contains_build_perm. Qed.
Print Assumptions C01_order_and_multiplicity.

(* the invariant behind both: every tree reachable by Tree.Insert is well formed *)
Theorem C01_wf : forall ps, Forall valid_pattern ps -> wf (build ps).
Proof. exact wf_build. Qed.
Print Assumptions C01_wf.

(* the one-step law the two theorems are folded from (reversed host strings) *)
Theorem C01_insert_step : forall sch p w sch' q n s h,
  0 <= p <= 65536 -> 0 <= q <= 65536 -> wf n ->
  wf (insert n s sch p w) /\
  contains (insert n s sch p w) h sch' q = contains n h sch' q || matches sch p w sch' q s h.
Proof.
  intros sch p w sch' q n s h Hp Hq Hwf.
  split; [apply wf_insert; assumption | apply contains_insert; assumption].
Qed.
Print Assumptions C01_insert_step.

(* ---- non-vacuity: the hypotheses hold on real lists, and both sides take both values ---- *)
From Coq Require Import String.
Local Open Scope string_scope.

Definition pat (sch host : String.string) (k : pkind) (port : Z) : pattern :=
  {| pscheme := b sch; pvalue := b host; pkind_of := k; pport := port |}.
Definition org (sch host : String.string) (port : Z) : origin :=
  {| oscheme := b sch; ohost := {| hvalue := b host; assume_ip := false |}; oport := port |}.

Definition p_sub := pat "https" "*.example.com" KSubdomains 0.
Definition p_dom := pat "https" "xample.com" KDomain 0.
Definition ps12 := [p_sub; p_dom].
Definition ps21 := [p_dom; p_sub; p_dom].     (* other order, one duplicate *)

Example C01_hyp_ps12 : Forall valid_pattern ps12.
Proof. repeat constructor; unfold valid_pattern; simpl; lia. Qed.
Example C01_hyp_ps21 : Forall valid_pattern ps21.
Proof. repeat constructor; unfold valid_pattern; simpl; lia. Qed.
Example C01_hyp_same : forall p, In p ps12 <-> In p ps21.
Proof. intros p. unfold ps12, ps21. simpl. tauto. Qed.
Example C01_hyp_origin : valid_origin (org "https" "foo.example.com" 0).
Proof. unfold valid_origin. simpl. lia. Qed.

(* inserting "xample.com" after "*.example.com" (and conversely) splits the edge "moc.elpmax" *)
Example C01_ex_shape :
  build ps12 =
  Node [] [(109%N, Node (rev (b "xample.com"))
                     [(101%N, Node (rev (b ".e")) [] [(b "https", [-65537])])]
                     [(b "https", [0])])] []
  /\ build ps21 = build ps12.
Proof. vm_compute. split; reflexivity. Qed.

Example C01_ex_results :
  map (fun o => (tree_contains (build ps12) o, tree_contains (build ps21) o, allowed_by ps12 o))
      [org "https" "xample.com" 0; org "https" "foo.example.com" 0; org "https" "a.b.example.com" 0;
       org "https" "fooexample.com" 0; org "https" "example.com" 0; org "https" ".example.com" 0;
       org "http" "xample.com" 0; org "https" "xample.com" 8443; org "https" "ample.com" 0]
  = [(true, true, true); (true, true, true); (true, true, true);
     (false, false, false); (false, false, false); (false, false, false);
     (false, false, false); (false, false, false); (false, false, false)].
Proof. vm_compute. reflexivity. Qed.

(* ports: ":*" entries, subsumption below a "*." entry, and the harmless duplicate that the doubly
   shifted membership test of node.add lets through for "*." entries *)
Definition ps_ports :=
  [pat "https" "*.example.com" KSubdomains 8080; pat "https" "*.example.com" KSubdomains 8080;
   pat "https" "*.a.example.com" KSubdomains 8080;      (* subsumed: not stored *)
   pat "https" "*.a.example.com" KSubdomains 9090;
   pat "http" "example.com" KDomain 65536; pat "http" "example.com" KDomain 81;
   pat "https" "*.example.com" KSubdomains 65536; pat "https" "*" KDomain 1].

Example C01_hyp_ps_ports : Forall valid_pattern ps_ports.
Proof. repeat constructor; unfold valid_pattern; simpl; lia. Qed.

Example C01_ex_duplicate_stored :
  build (firstn 2 ps_ports) =
  Node [] [(109%N, Node (rev (b ".example.com")) [] [(b "https", [-57457; -57457])])] [].
Proof. vm_compute. reflexivity. Qed.

Example C01_ex_ports :
  map (fun o => (tree_contains (build ps_ports) o, allowed_by ps_ports o))
      [org "https" "x.example.com" 8080; org "https" "x.example.com" 1; org "https" "y.a.example.com" 9090;
       org "http" "example.com" 12345; org "http" "x.example.com" 8080; org "https" "example.com" 8080;
       org "https" "" 1; org "https" "x" 1]
  = [(true, true); (true, true); (true, true); (true, true); (false, false); (false, false);
     (false, false); (true, true)].
Proof. vm_compute. reflexivity. Qed.

(* the range hypotheses are necessary: with a (never parsed) origin port outside 0..65535 the
   two classes of stored values collide (65532 - 65537 = -5) *)
Example C01_range_needed :
  let ps := [pat "https" "*.example.com" KSubdomains 65532] in
  let o := org "https" ".example.com" (-5) in
  (tree_contains (build ps) o, allowed_by ps o) = (true, false).
Proof. vm_compute. reflexivity. Qed.

(* ---- through the public API: an actual (non-OPTIONS) request whose Origin value parses to the
   tuple o is granted Access-Control-Allow-Origin if and only if the configuration lists "*" or
   some listed pattern denotes o (for every accepted configuration not in no-cors-only PNA mode,
   where actual requests are never granted anything) ---- *)
Require Import Gen.Tables Model.Headers Model.Config Model.Serve Spec.Wire Spec.ConfigDoc Proofs.ServeP Proofs.Compose2P.

Theorem C01_middleware : forall ace ip6 psl c ic dbg r pre v o,
  new_internal_config ace ip6 psl c = inl ic -> c_pna_nocors c = false -> cors_free pre ->
  beqb (r_method r) method_options = false ->
  first (r_hdrs r) headers_Origin = Some v -> parse v = Some o ->
  (hget (o_hdrs (serve (Some ic) dbg r pre)) headers_ACAO <> None <->
   (lists_star (c_origins c) = true \/ allowed_by (cfg_patterns ace ip6 c) o = true)).
Proof. exact c01_middleware. Qed.
Print Assumptions C01_middleware.
