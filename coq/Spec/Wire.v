(* Spec/Wire.v -- response-level specification predicates (C03, C10, C11, C16), stated on
   observables only: the configuration as the user wrote it, the request, the response headers
   that were present before the middleware ran, and the outcome (headers, status, delegated).
   Written from the property statements; boolean so that the correspondence check can evaluate
   them on the IMPLEMENTATION's outcomes. *)
Require Import Base.Bytes.
Require Import Model.Headers Model.Origins Model.Pattern Model.Config Model.Serve.
Require Import Spec.Origins.
Open Scope N_scope.
Import Coq.Strings.String.StringSyntax.
Arguments b _%string_scope.

(* header names, typed in independently of the code's constants *)
Definition h_origin := b "Origin".
Definition h_acrm := b "Access-Control-Request-Method".
Definition h_acrh := b "Access-Control-Request-Headers".
Definition h_acrpn := b "Access-Control-Request-Private-Network".
Definition h_acao := b "Access-Control-Allow-Origin".
Definition h_acac := b "Access-Control-Allow-Credentials".
Definition h_acam := b "Access-Control-Allow-Methods".
Definition h_acah := b "Access-Control-Allow-Headers".
Definition h_acapn := b "Access-Control-Allow-Private-Network".
Definition h_acma := b "Access-Control-Max-Age".
Definition h_aceh := b "Access-Control-Expose-Headers".
Definition h_vary := b "Vary".
Definition v_star := b "*".
Definition v_true := b "true".
Definition m_options := b "OPTIONS".

Definition grant_names : list bytes := [h_acao; h_acac; h_acam; h_acah; h_acapn; h_acma; h_aceh].
Definition preflight_only : list bytes := [h_acam; h_acah; h_acapn; h_acma].

Definition lists_star (l : list bytes) : bool := mem v_star l.

(* the user-level meaning of the Origins field for an Origin header VALUE: the value parses
   (with the documented leniency of the request-side parser) to a tuple some listed pattern denotes *)
Definition value_allowed (pats : list pattern) (v : bytes) : bool :=
  match parse v with
  | Some o => allowed_by pats o
  | None => false
  end.

Definition present (m : hmap) (k : bytes) : bool := match hget m k with Some _ => true | None => false end.

Definition blist_eqb (x y : list bytes) : bool :=
  (fix go (x y : list bytes) : bool :=
     match x, y with
     | [], [] => true
     | a :: x', c :: y' => beqb a c && go x' y'
     | _, _ => false
     end) x y.

Definition opt_blist_eqb (x y : option (list bytes)) : bool :=
  match x, y with
  | None, None => true
  | Some a, Some c => blist_eqb a c
  | _, _ => false
  end.

(* the configured rendering of Max-Age and Expose-Headers, from the Config itself *)
Definition spec_max_age (c : config) : option bytes :=
  if (c_max_age c =? 0)%Z then None
  else if (c_max_age c =? -1)%Z then Some (b "0")
  else Some (itoa (Z.to_N (c_max_age c))).

(* CORS-safelisted response-header names, typed in from the Fetch standard *)
Definition fetch_safelisted_response : list bytes :=
  [b "cache-control"; b "content-language"; b "content-length"; b "content-type"; b "expires"; b "last-modified"; b "pragma"].

Fixpoint dedup_adjacent (l : list bytes) : list bytes :=
  match l with
  | x :: ((y :: _) as r) => if beqb x y then dedup_adjacent r else x :: dedup_adjacent r
  | _ => l
  end.

Definition spec_aceh (c : config) : option bytes :=
  if lists_star (c_res_headers c) then Some v_star
  else match dedup_adjacent (sort_bytes (filter (fun n => negb (mem n fetch_safelisted_response))
                                               (map lower (c_res_headers c)))) with
       | [] => None
       | ns => Some (join (b ",") ns)
       end.

(* ---- C03 ----
   [pats] are the parsed non-"*" patterns of the configuration; [pre] must be free of CORS names. *)
Definition c03_ok (c : config) (pats : list pattern) (r : request) (out : outcome) : bool :=
  let allow_all := lists_star (c_origins c) in
  let org := first (r_hdrs r) h_origin in
  let org_allowed := match org with Some v => value_allowed pats v | None => false end in
  let h := o_hdrs out in
  (* at most one ACAO value; echo of an allowed origin, or "*" for non-credentialed allow-all *)
  (match hget h h_acao with
   | None => true
   | Some [] => true
   | Some [v] =>
       (match org with Some o => beqb v o && (allow_all || org_allowed) | None => false end)
       || (beqb v v_star && allow_all && negb (c_credentialed c))
   | Some _ => false
   end) &&
  (* ACAC: only "true", only next to an echoed allowed origin, only when credentialed *)
  (match hget h h_acac with
   | None => true
   | Some vs =>
       blist_eqb vs [v_true] && c_credentialed c &&
       match hget h h_acao, org with
       | Some [v], Some o => beqb v o && org_allowed && negb (beqb v v_star)
       | _, _ => false
       end
   end) &&
  (* nothing at all without an allowed origin *)
  (if negb allow_all && negb org_allowed then forallb (fun k => negb (present h k)) grant_names else true) &&
  (* preflight-only names only when the middleware answered itself; ACEH only when it delegated *)
  (if o_delegated out then forallb (fun k => negb (present h k)) preflight_only else negb (present h h_aceh)) &&
  (* ACMA and ACEH carry exactly the configured values *)
  (match hget h h_acma with
   | None => true
   | Some vs => match spec_max_age c with Some v => blist_eqb vs [v] | None => false end
   end) &&
  (match hget h h_aceh with
   | None => true
   | Some vs => match spec_aceh c with Some v => blist_eqb vs [v] | None => false end
   end).

(* ---- C16 ---- debug off, preflight: failure = 403 and nothing but Vary touched; success = only
   the request's own tokens, "*", "true", "*,authorization" and the configured max-age *)
Definition same_except (ks : list bytes) (a c : hmap) : bool :=
  forallb (fun kv => mem (fst kv) ks || opt_blist_eqb (hget c (fst kv)) (Some (snd kv))) a &&
  forallb (fun kv => mem (fst kv) ks || opt_blist_eqb (hget a (fst kv)) (Some (snd kv))) c.

Definition c16_ok (c : config) (r : request) (pre : hmap) (out : outcome) : bool :=
  let h := o_hdrs out in
  match o_status out with
  | Some 403%Z => same_except [h_vary] pre h
  | Some _ =>
      let org := first (r_hdrs r) h_origin in
      let acrm := first (r_hdrs r) h_acrm in
      let acrh := hget (r_hdrs r) h_acrh in
      same_except (h_vary :: grant_names) pre h &&
      (match hget h h_acao with
       | None => true
       | Some vs => blist_eqb vs [v_star] || match org with Some o => blist_eqb vs [o] | None => false end
       end) &&
      (match hget h h_acac with None => true | Some vs => blist_eqb vs [v_true] end) &&
      (match hget h h_acapn with None => true | Some vs => blist_eqb vs [v_true] end) &&
      (match hget h h_acam with
       | None => true
       | Some vs => blist_eqb vs [v_star] || match acrm with Some m => blist_eqb vs [m] | None => false end
       end) &&
      (match hget h h_acah with
       | None => true
       | Some vs => blist_eqb vs [v_star] || blist_eqb vs [b "*,authorization"] || opt_blist_eqb (Some vs) acrh
       end) &&
      (match hget h h_acma with
       | None => true
       | Some vs => match spec_max_age c with Some v => blist_eqb vs [v] | None => false end
       end) &&
      negb (present h h_aceh)
  | None => false
  end.

(* "... and the same status whatever the reason": a preflight is answered either with the configured success status
   or with THE failure status; a third status (say 431 for an over-long list, sent only after the origin and method
   steps have passed) would tell reasons apart *)
Definition spec_success_status (c : config) : Z := if (c_status c =? 0)%Z then 204%Z else c_status c.
Definition c16_status_ok (c : config) (out : outcome) : bool :=
  match o_status out with
  | Some s => (s =? 403)%Z || (s =? spec_success_status c)%Z
  | None => false
  end.

(* ---- C10 ---- names listed in a response's Vary field: split every value on ", " / "," and trim *)
Definition trim_sp (s : bytes) : bytes :=
  let f := fix f (s : bytes) : bytes := match s with 32 :: r => f r | 9 :: r => f r | _ => s end in
  rev (f (rev (f s))).

Definition vary_names (h : hmap) : list bytes :=
  match hget h h_vary with
  | None => []
  | Some vs => filter (fun x => match x with [] => false | _ => true end)
                      (map trim_sp (flat_map (split_byte 44) vs))
  end.

(* do the two requests agree on the field named [k]? (map entries, as the code reads them) *)
Definition agree_on (r1 r2 : request) (k : bytes) : bool := opt_blist_eqb (hget (r_hdrs r1) k) (hget (r_hdrs r2) k).

Definition hmap_eqb (a c : hmap) : bool := same_except [] a c.

Definition outcome_eqb (a c : outcome) : bool :=
  hmap_eqb (o_hdrs a) (o_hdrs c) &&
  match o_status a, o_status c with
  | None, None => true
  | Some x, Some y => (x =? y)%Z
  | _, _ => false
  end && Bool.eqb (o_delegated a) (o_delegated c).

Definition c10_ok (r1 r2 : request) (o1 o2 : outcome) : bool :=
  if beqb (r_method r1) (r_method r2) && forallb (agree_on r1 r2) (vary_names (o_hdrs o1))
  then outcome_eqb o1 o2 else true.

(* Vary values set earlier in the chain are preserved (as a prefix) *)
Definition is_prefix_list (p l : list bytes) : bool := blist_eqb p (firstn (length p) l).
Definition vary_preserved (pre : hmap) (out : outcome) : bool :=
  match hget pre h_vary with
  | None => true
  | Some vs => match hget (o_hdrs out) h_vary with Some ws => is_prefix_list vs ws | None => false end
  end.

(* ---- C11 ---- *)
Definition is_preflight (r : request) : bool :=
  beqb (r_method r) m_options &&
  match first (r_hdrs r) h_origin, first (r_hdrs r) h_acrm with Some _, Some _ => true | _, _ => false end.

Definition c11_ok (configured : bool) (r : request) (pre : hmap) (out : outcome) : bool :=
  if negb configured then
    o_delegated out && hmap_eqb pre (o_hdrs out) && match o_status out with None => true | _ => false end
  else if is_preflight r then
    negb (o_delegated out) && match o_status out with Some _ => true | None => false end
  else
    o_delegated out && match o_status out with None => true | _ => false end &&
    same_except [h_vary; h_acao; h_acac; h_aceh] pre (o_hdrs out) && vary_preserved pre out.
