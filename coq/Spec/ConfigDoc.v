(* Spec/ConfigDoc.v -- the documented meaning of a Config (C04, C05): every prohibition of the
   documentation of cors.Config / cors.ExtraConfig as an independent boolean predicate [doc_ok],
   and the expected list of violations [violations], one entry per offending list occurrence.
   Name tables are typed in from the Fetch standard / PNA draft / the package documentation,
   not taken from the code. Origin-pattern syntax itself is delegated to the pattern parser
   (its grammar is the subject of C13). *)
Require Import Base.Bytes.
Require Import Model.Headers Model.Origins Model.Netip Model.Pattern Model.CfgErrors Model.Config.
Require Import Spec.Wire.
Open Scope N_scope.
Import Coq.Strings.String.StringSyntax.
Arguments b _%string_scope.

(* Fetch: forbidden methods *)
Definition fetch_forbidden_methods : list bytes := [b "CONNECT"; b "TRACE"; b "TRACK"].

(* Fetch: forbidden request-header names (name-only entries) + PNA draft *)
Definition fetch_forbidden_request : list bytes :=
  [b "accept-charset"; b "accept-encoding"; b "access-control-request-headers"; b "access-control-request-method";
   b "access-control-request-private-network";
   b "connection"; b "content-length"; b "cookie"; b "cookie2"; b "date"; b "dnt"; b "expect"; b "host";
   b "keep-alive"; b "origin"; b "referer"; b "set-cookie"; b "te"; b "trailer"; b "transfer-encoding";
   b "upgrade"; b "via"].
Definition fetch_forbidden_request_prefixes : list bytes := [b "proxy-"; b "sec-"].

(* Fetch: forbidden response-header names *)
Definition fetch_forbidden_response : list bytes := [b "set-cookie"; b "set-cookie2"].

(* package documentation: names that have no place in a request *)
Definition doc_prohibited_request : list bytes :=
  [b "access-control-allow-credentials"; b "access-control-allow-headers"; b "access-control-allow-methods";
   b "access-control-allow-origin"; b "access-control-allow-private-network"; b "access-control-expose-headers";
   b "access-control-max-age"].

(* package documentation: names that have no place in a response (the first four are listed in
   the documentation; the last four -- preflight-only response headers -- are prohibited by the
   code as well and are treated as a grey zone: the generators never present them as valid) *)
Definition doc_prohibited_response : list bytes :=
  [b "access-control-request-headers"; b "access-control-request-method"; b "access-control-request-private-network";
   b "origin";
   b "access-control-allow-methods"; b "access-control-allow-headers"; b "access-control-max-age";
   b "access-control-allow-private-network"].

(* RFC 9110 token *)
Definition token_char (c : N) : bool :=
  ((48 <=? c) && (c <=? 57)) || ((65 <=? c) && (c <=? 90)) || ((97 <=? c) && (c <=? 122)) ||
  memN c [33; 35; 36; 37; 38; 39; 42; 43; 45; 46; 94; 95; 96; 124; 126].
Definition is_token (s : bytes) : bool := match s with [] => false | _ => all_bytes token_char s end.

Definition forbidden_request_name (lower_name : bytes) : bool :=
  mem lower_name fetch_forbidden_request || existsb (fun p => has_prefix p lower_name) fetch_forbidden_request_prefixes.

Section Oracles.
Variable ace_ok : bytes -> bool.
Variable ip6 : bytes -> ipres.
Variable is_psl : bytes -> bool.

(* documented notion of an insecure pattern: scheme not https, host neither localhost nor a loopback IP *)
Definition insecure (p : pattern) : bool :=
  negb (beqb (pscheme p) (b "https")) &&
  negb (match pkind_of p with KLoopbackIP => true | _ => false end) &&
  negb (beqb (host_only (pvalue p) (pkind_of p)) (b "localhost")).

Definition is_wild (p : pattern) : bool := match pkind_of p with KSubdomains => true | _ => false end.

Definition base_is_public_suffix (p : pattern) : bool :=
  is_psl (trim_suffix_byte 46 (host_only (pvalue p) (pkind_of p))).

Definition any_pna (c : config) : bool := c_pna c || c_pna_nocors c.

(* the parsed non-"*" patterns a configuration lists: the patterns whose union is "allowed" *)
Definition cfg_patterns (c : config) : list pattern :=
  flat_map (fun raw => match parse_pattern ace_ok ip6 raw with inl p => [p] | inr _ => [] end) (c_origins c).

(* ---- C04: every documented prohibition ---- *)
Definition origin_ok (c : config) (raw : bytes) : bool :=
  if beqb raw v_star then negb (c_credentialed c) && negb (any_pna c)
  else match parse_pattern ace_ok ip6 raw with
       | inr _ => false
       | inl p =>
           (negb (insecure p && (c_credentialed c || any_pna c)) || c_tol_insecure c) &&
           (negb (is_wild p && base_is_public_suffix p) || c_tol_psl c)
       end.

Definition method_ok (m : bytes) : bool :=
  beqb m v_star || (is_token m && negb (mem (upper m) fetch_forbidden_methods)).

Definition req_header_ok (n : bytes) : bool :=
  beqb n v_star ||
  (is_token n && (beqb (lower n) (b "authorization") ||
                  (negb (forbidden_request_name (lower n)) && negb (mem (lower n) doc_prohibited_request)))).

Definition res_header_ok (c : config) (n : bytes) : bool :=
  if beqb n v_star then negb (c_credentialed c)
  else is_token n && negb (mem (lower n) fetch_forbidden_response) && negb (mem (lower n) doc_prohibited_response).

Definition doc_ok (c : config) : bool :=
  negb (match c_origins c with [] => true | _ => false end) &&
  forallb (origin_ok c) (c_origins c) &&
  forallb method_ok (c_methods c) &&
  forallb req_header_ok (c_req_headers c) &&
  forallb (res_header_ok c) (c_res_headers c) &&
  ((-1 <=? c_max_age c)%Z && (c_max_age c <=? 86400)%Z) &&
  ((c_status c =? 0)%Z || ((200 <=? c_status c)%Z && (c_status c <=? 299)%Z)) &&
  negb (c_pna c && c_pna_nocors c).

(* ---- C05: the violations of a Config, one per offending occurrence, typed ---- *)
Definition origin_violations (c : config) (raw : bytes) : list cerr :=
  if beqb raw v_star then
    (if c_credentialed c then [EIncompatOrigin v_star RCredentialed] else []) ++
    (if any_pna c then [EIncompatOrigin v_star RPna] else [])
  else match parse_pattern ace_ok ip6 raw with
       | inr r => [EOrigin raw r]
       | inl p =>
           (if insecure p && negb (c_tol_insecure c) then
              (if c_credentialed c then [EIncompatOrigin raw RCredentialed] else []) ++
              (if any_pna c then [EIncompatOrigin raw RPna] else [])
            else []) ++
           (if is_wild p && base_is_public_suffix p && negb (c_tol_psl c) then [EIncompatOrigin raw RPsl] else [])
       end.

Definition method_violations (m : bytes) : list cerr :=
  if beqb m v_star then []
  else if negb (is_token m) then [EMethod m RInvalid]
  else if mem (upper m) fetch_forbidden_methods then [EMethod m RForbidden]
  else [].

Definition req_header_violations (n : bytes) : list cerr :=
  if beqb n v_star then []
  else if negb (is_token n) then [EHeader n TRequest RInvalid]
  else if beqb (lower n) (b "authorization") then []
  else if forbidden_request_name (lower n) then [EHeader n TRequest RForbidden]
  else if mem (lower n) doc_prohibited_request then [EHeader n TRequest RProhibited]
  else [].

Definition res_header_violations (c : config) (n : bytes) : list cerr :=
  if beqb n v_star then (if c_credentialed c then [EIncompatWildcardResHdr] else [])
  else if negb (is_token n) then [EHeader n TResponse RInvalid]
  else if mem (lower n) fetch_forbidden_response then [EHeader n TResponse RForbidden]
  else if mem (lower n) doc_prohibited_response then [EHeader n TResponse RProhibited]
  else [].

Definition violations (c : config) : list cerr :=
  (if (c_status c =? 0)%Z || ((200 <=? c_status c)%Z && (c_status c <=? 299)%Z) then []
   else [EStatus (c_status c) 204 200 299]) ++
  (if c_pna c && c_pna_nocors c then [EIncompatPNA] else []) ++
  (match c_origins c with
   | [] => [EOrigin [] RMissing]
   | l => flat_map (origin_violations c) l
   end) ++
  flat_map method_violations (c_methods c) ++
  flat_map req_header_violations (c_req_headers c) ++
  (if (c_max_age c <? -1)%Z || (86400 <? c_max_age c)%Z then [EMaxAge (c_max_age c) 5 86400 (-1)] else []) ++
  flat_map (res_header_violations c) (c_res_headers c).

End Oracles.
