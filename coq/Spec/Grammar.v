(* Spec/Grammar.v -- the documented grammar of origin patterns (C13), written from the
   documentation of cors.Config.Origins, independently of the parser: a structured value [gpat],
   its textual rendering, the validity predicate [g_valid] (the documented form, without the
   undocumented grey zones: '_' in schemes or labels, https with an IP host, hyphens in label
   positions 3-4, a last label starting with a digit), the parse result one expects, and the
   documented defect classes as string constructions. *)
Require Import Base.Bytes.
Require Import Model.Netip Model.Pattern.
Open Scope N_scope.
Import Coq.Strings.String.StringSyntax.
Arguments b _%string_scope.

Inductive ghost :=
| GDomain (labels : list bytes) (trailing_dot : bool)
| GIPv4 (o1 o2 o3 o4 : N)
| GIPv6 (content : bytes).           (* the text between the brackets *)

Inductive gport := GNoPort | GAnyPort | GPort (n : N).

Record gpat := { g_scheme : bytes; g_wild : bool; g_host : ghost; g_port : gport }.

Definition dot : bytes := [46].

Definition domain_text (labels : list bytes) (trailing_dot : bool) : bytes :=
  join dot labels ++ (if trailing_dot then dot else []).

(* what is stored as the host value of the parsed pattern *)
Definition host_value (h : ghost) : bytes :=
  match h with
  | GDomain ls td => domain_text ls td
  | GIPv4 a c d e => itoa a ++ dot ++ itoa c ++ dot ++ itoa d ++ dot ++ itoa e
  | GIPv6 c => c
  end.

(* how the host is written in a pattern or an origin *)
Definition host_text (h : ghost) : bytes :=
  match h with
  | GIPv6 c => [91] ++ c ++ [93]
  | _ => host_value h
  end.

Definition port_text (p : gport) : bytes :=
  match p with
  | GNoPort => []
  | GAnyPort => b ":*"
  | GPort n => [58] ++ itoa n
  end.

Definition render (g : gpat) : bytes :=
  g_scheme g ++ b "://" ++ (if g_wild g then b "*." else []) ++ host_text (g_host g) ++ port_text (g_port g).

(* ---- validity: the documented form ---- *)
Definition is_lower (c : N) : bool := (97 <=? c) && (c <=? 122).
Definition is_dig (c : N) : bool := (48 <=? c) && (c <=? 57).
Definition scheme_tail_byte (c : N) : bool := is_lower c || is_dig c || (c =? 43) || (c =? 45) || (c =? 46).
Definition ldh_byte (c : N) : bool := is_lower c || is_dig c || (c =? 45).

Definition scheme_ok (s : bytes) : bool :=
  match s with
  | c :: r => is_lower c && all_bytes scheme_tail_byte r && (length s <=? 64)%nat && negb (beqb s (b "file"))
  | [] => false
  end.

Definition is_ace_label (l : bytes) : bool := has_prefix (b "xn--") l.

(* an ordinary letter-digit-hyphen label *)
Definition ldh_label_ok (l : bytes) : bool :=
  (1 <=? length l)%nat && (length l <=? 63)%nat && all_bytes ldh_byte l &&
  negb (nth 0 l 0 =? 45) && negb (last l 0 =? 45) &&
  negb ((nth 2 l 0 =? 45) && (nth 3 l 0 =? 45)).          (* hyphens in positions 3-4: grey zone, excluded *)

(* labels of a Punycode-bearing domain: the bytes the lexer lets through; validity is the oracle's *)
Definition lexable_label (l : bytes) : bool := (1 <=? length l)%nat && all_bytes ldh_byte l.

Definition last_label_not_numeric (ls : list bytes) : bool :=
  match rev ls with l :: _ => negb (is_dig (nth 0 l 0)) | [] => false end.

Section Oracles.
Variable ace_ok : bytes -> bool.
Variable ip6 : bytes -> ipres.

Definition domain_ok (ls : list bytes) (td : bool) : bool :=
  negb (match ls with [] => true | _ => false end) &&
  (length (join dot ls) <=? 253)%nat && last_label_not_numeric ls &&
  (if existsb is_ace_label ls then forallb lexable_label ls && ace_ok (domain_text ls td)
   else forallb ldh_label_ok ls).

Definition host_ok (scheme : bytes) (wild : bool) (h : ghost) : bool :=
  match h with
  | GDomain ls td => domain_ok ls td && (negb wild || (length (domain_text ls td) <=? 251)%nat)
  | GIPv4 a c d e =>
      negb wild && negb (beqb scheme (b "https")) && (a <=? 255) && (c <=? 255) && (d <=? 255) && (e <=? 255)
  | GIPv6 c =>
      negb wild && negb (beqb scheme (b "https")) && negb (memN 93 c) && (first_special c =? 58) &&
      match ip6 c with IPOk canon _ => beqb canon c | _ => false end     (* RFC 5952 canonical form, no zone, not IPv4-mapped *)
  end.

Definition port_ok (scheme : bytes) (p : gport) : bool :=
  match p with
  | GNoPort | GAnyPort => true
  | GPort n => (1 <=? n) && (n <=? 65535) &&
               negb ((n =? 80) && beqb scheme (b "http")) && negb ((n =? 443) && beqb scheme (b "https"))
  end.

Definition g_valid (g : gpat) : bool :=
  scheme_ok (g_scheme g) && host_ok (g_scheme g) (g_wild g) (g_host g) && port_ok (g_scheme g) (g_port g).

(* the pattern one expects the parser to return *)
Definition expected_kind (g : gpat) : pkind :=
  match g_host g with
  | GDomain _ _ => if g_wild g then KSubdomains else KDomain
  | GIPv4 a _ _ _ => if a =? 127 then KLoopbackIP else KNonLoopbackIP
  | GIPv6 c => match ip6 c with IPOk _ true => KLoopbackIP | _ => KNonLoopbackIP end
  end.

Definition expected (g : gpat) : pattern :=
  {| pscheme := g_scheme g;
     pvalue := (if g_wild g then b "*." else []) ++ host_value (g_host g);
     pkind_of := expected_kind g;
     pport := match g_port g with GNoPort => 0%Z | GAnyPort => 65536%Z | GPort n => Z.of_N n end |}.

End Oracles.

(* ---- documented defect classes, as constructions on strings ---- *)
(* bytes that end a pattern's host/port and start something a pattern must not have:
   path, query, fragment, userinfo separator, whitespace *)
Definition junk_start (c : N) : bool := memN c [47; 63; 35; 64; 32; 9; 10; 13].

(* malformed ports for an otherwise valid, port-less pattern text s: empty, zero / leading zero,
   over-range, over-long *)
Definition bad_port_text (p : bytes) : bool :=
  match p with
  | [] => true                                                    (* "host:" *)
  | c :: _ =>
      if c =? 48 then true                                        (* ":0", ":080" *)
      else if all_bytes is_dig p then (65535 <? atoi p) || (5 <? length p)%nat   (* ":65536", ":123456" *)
      else negb (beqb p (b "*"))                                  (* ":8*", ":*8", ":x" *)
  end.
