(* Spec/Origins.v -- what it means for a pattern to denote a tuple origin (C01).
   Written from the documentation of Config.Origins, not from the tree code. *)
Require Import Base.Bytes Model.Origins Model.Pattern.
Open Scope N_scope.

Definition wildcard_port : Z := 65536%Z.   (* the ":*" marker of a parsed pattern *)

(* host part: byte-equal, or -- for "*.base" -- ending in "."++base with something non-empty in front *)
Definition host_denotes (pv : bytes) (h : bytes) : bool :=
  match pv with
  | 42 :: dotbase => has_suffix dotbase h && (length dotbase <? length h)%nat
  | _ => beqb pv h
  end.

Definition port_denotes (pp op : Z) : bool := (pp =? wildcard_port)%Z || (pp =? op)%Z.

Definition denotes (p : pattern) (o : origin) : bool :=
  beqb (pscheme p) (oscheme o) && port_denotes (pport p) (oport o) &&
  host_denotes (pvalue p) (hvalue (ohost o)).

Definition allowed_by (ps : list pattern) (o : origin) : bool := existsb (fun p => denotes p o) ps.
