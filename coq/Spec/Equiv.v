(* Spec/Equiv.v -- when two Configs "differ only in order, repetition, header-name case, the
   spelling of methods that Fetch normalises, or in listing safelisted methods / response-header
   names" (C15). Written from the property statement; the Fetch tables are typed in. *)
Require Import Base.Bytes.
Require Import Model.Config.
Require Import Spec.Wire Spec.Fetch.
Open Scope N_scope.
Import Coq.Strings.String.StringSyntax.
Arguments b _%string_scope.

(* same entries up to order and repetition *)
Definition same_members (l l' : list bytes) : Prop := forall x, mem x l = mem x l'.

(* methods: up to Fetch normalisation and the (optional) listing of CORS-safelisted methods *)
Definition method_key (l : list bytes) : list bytes :=
  filter (fun m => negb (mem m safelisted_methods)) (map fetch_normalize l).

(* header names: case-insensitive *)
Definition header_key (l : list bytes) : list bytes := map lower l.

(* response-header names: case-insensitive, up to the (optional) listing of safelisted names *)
Definition res_header_key (l : list bytes) : list bytes :=
  filter (fun n => negb (mem n fetch_safelisted_response)) (map lower l).

Record cfg_equiv (c c' : config) : Prop := {
  eqv_origins : same_members (c_origins c) (c_origins c');
  eqv_methods : same_members (method_key (c_methods c)) (method_key (c_methods c'));
  eqv_req_headers : same_members (header_key (c_req_headers c)) (header_key (c_req_headers c'));
  eqv_res_headers : same_members (res_header_key (c_res_headers c)) (res_header_key (c_res_headers c'));
  eqv_cred : c_credentialed c = c_credentialed c';
  eqv_max_age : c_max_age c = c_max_age c';
  eqv_status : c_status c = c_status c';
  eqv_pna : c_pna c = c_pna c';
  eqv_pna_nocors : c_pna_nocors c = c_pna_nocors c';
  eqv_tol_insecure : c_tol_insecure c = c_tol_insecure c';
  eqv_tol_psl : c_tol_psl c = c_tol_psl c'
}.
