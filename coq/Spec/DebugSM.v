(* Spec/DebugSM.v -- the documented debug-mode state machine (C09), on observables only:
   the operations and whether each Reconfigure succeeded. *)
Require Import Base.Bytes.

Inductive sm_op :=
| SmSetDebug (b : bool)
| SmReconfNil                   (* Reconfigure(nil) *)
| SmReconf (succeeded : bool).  (* Reconfigure(&cfg) and whether it returned a nil error *)

(* (configured?, debug) *)
Definition sm_state := (bool * bool)%type.

Definition sm_step (s : sm_state) (o : sm_op) : sm_state :=
  match o with
  | SmSetDebug b => if fst s then (true, b) else (false, false)   (* no-op on a passthrough middleware *)
  | SmReconfNil => (false, false)
  | SmReconf true => (true, snd s)                                (* keeps the current debug mode *)
  | SmReconf false => s                                            (* leaves the middleware unchanged *)
  end.

(* after creation: debug off; configured iff created by NewMiddleware *)
Definition sm_init (configured : bool) : sm_state := (configured, false).

Definition sm_run (s : sm_state) (ops : list sm_op) : sm_state := fold_left sm_step ops s.

(* all intermediate states, initial one first *)
Fixpoint sm_trace (s : sm_state) (ops : list sm_op) : list sm_state :=
  s :: match ops with [] => [] | o :: r => sm_trace (sm_step s o) r end.
