(* Spec/Fetch.v -- an executable transcription of the browser side (C02):
   Fetch "CORS-preflight fetch" step 7, "CORS check", header-list extraction (RFC 9110 #rule
   recipient grammar), method normalisation, the Private-Network-Access draft's
   Access-Control-Allow-Private-Network check; and [permits]: what the documentation of Config
   says the configuration means for a browser request intent. Independent of the middleware code. *)
Require Import Base.Bytes.
Require Import Model.Headers Model.Origins Model.Pattern Model.Config Model.Serve.
Require Import Spec.Origins Spec.Wire.
Open Scope N_scope.
Import Coq.Strings.String.StringSyntax.
Arguments b _%string_scope.

Record intent := {
  in_origin : bytes;          (* serialized tuple origin, as the browser sends it *)
  in_method : bytes;          (* already normalised by the browser *)
  in_headers : list bytes;    (* CORS-unsafe request-header names: byte-lowercase, sorted, unique *)
  in_credentials : bool;      (* credentials mode is "include" *)
  in_pna : bool               (* the target is in a more private network *)
}.

Definition safelisted_methods : list bytes := [b "GET"; b "HEAD"; b "POST"].
Definition normalised_methods : list bytes := [b "DELETE"; b "GET"; b "HEAD"; b "OPTIONS"; b "POST"; b "PUT"].
Definition fetch_normalize (m : bytes) : bytes := if mem (upper m) normalised_methods then upper m else m.

Definition needs_preflight (i : intent) : bool :=
  negb (mem (in_method i) safelisted_methods) || negb (match in_headers i with [] => true | _ => false end) || in_pna i.

(* the requests a browser issues *)
Definition preflight_request (i : intent) (acrh_lines : list bytes) : request :=
  {| r_method := m_options;
     r_hdrs := [(h_origin, [in_origin i]); (h_acrm, [in_method i])] ++
               (match in_headers i with [] => [] | _ => [(h_acrh, acrh_lines)] end) ++
               (if in_pna i then [(h_acrpn, [v_true])] else []) |}.

Definition actual_request (i : intent) : request :=
  {| r_method := in_method i; r_hdrs := [(h_origin, [in_origin i])] |}.

(* "get" a header: all values joined with ", "; None if absent *)
Definition header_get (h : hmap) (k : bytes) : option bytes :=
  match hget h k with
  | None | Some [] => None
  | Some vs => Some (join (b ", ") vs)
  end.

(* CORS check *)
Definition cors_check (i : intent) (h : hmap) : bool :=
  match header_get h h_acao with
  | None => false
  | Some o =>
      if negb (in_credentials i) && beqb o v_star then true
      else if negb (beqb o (in_origin i)) then false
      else if negb (in_credentials i) then true
      else match header_get h h_acac with Some v => beqb v v_true | None => false end
  end.

(* extract header list values for a #token field: None = failure; Some [] also for an absent header *)
Definition is_token (s : bytes) : bool := is_valid_name s.

Definition extract_list (h : hmap) (k : bytes) : option (list bytes) :=
  match hget h k with
  | None => Some []
  | Some vs =>
      let elems := filter (fun x => match x with [] => false | _ => true end)
                          (map trim_sp (flat_map (split_byte 44) vs)) in
      if forallb is_token elems then Some elems else None
  end.

Definition ci_mem (x : bytes) (l : list bytes) : bool := mem (lower x) (map lower l).

Definition ok_status (s : Z) : bool := (200 <=? s)%Z && (s <=? 299)%Z.

(* CORS-preflight fetch, step 7 (+ PNA) on the preflight response *)
Definition preflight_ok (i : intent) (out : outcome) : bool :=
  match o_status out with
  | None => false
  | Some st =>
      cors_check i (o_hdrs out) && ok_status st &&
      (if in_pna i then match header_get (o_hdrs out) h_acapn with Some v => beqb v v_true | None => false end else true) &&
      match extract_list (o_hdrs out) h_acam, extract_list (o_hdrs out) h_acah with
      | Some methods, Some names =>
          (* 7.5 *)
          negb (negb (mem (in_method i) methods) && negb (mem (in_method i) safelisted_methods) &&
                (in_credentials i || negb (mem v_star methods))) &&
          (* 7.6: CORS non-wildcard request-header name *)
          forallb (fun n => negb (beqb n (b "authorization")) || ci_mem n names) (in_headers i) &&
          (* 7.7 *)
          forallb (fun n => ci_mem n names || (negb (in_credentials i) && mem v_star names)) (in_headers i)
      | _, _ => false
      end
  end.

(* the browser's end-to-end verdict given the two responses *)
Definition browser_verdict (i : intent) (pre_out act_out : outcome) : bool :=
  (if needs_preflight i then negb (o_delegated pre_out) && preflight_ok i pre_out else true) &&
  o_delegated act_out && cors_check i (o_hdrs act_out).

(* what the configuration means (documentation of Config) *)
Definition permits (c : config) (pats : list pattern) (i : intent) : bool :=
  (lists_star (c_origins c) || value_allowed pats (in_origin i)) &&
  (negb (in_credentials i) || c_credentialed c) &&
  (mem (in_method i) safelisted_methods || lists_star (c_methods c) ||
   mem (in_method i) (map fetch_normalize (c_methods c))) &&
  forallb (fun n =>
             ci_mem n (filter (fun x => negb (beqb x v_star)) (c_req_headers c)) ||
             (lists_star (c_req_headers c) && (negb (beqb n (b "authorization")) || c_credentialed c)))
          (in_headers i) &&
  (negb (in_pna i) || c_pna c) &&
  negb (c_pna_nocors c).

(* ---- the quantifier domain of C02 ---- *)
Require Import Spec.AcrhList.

(* what a Fetch-compliant browser can put in an intent: the method is a token; the CORS-unsafe
   request-header names are tokens, byte-lowercase, sorted and unique *)
Definition wf_intent (i : intent) : Prop :=
  is_token (in_method i) = true /\
  strictly_increasing (in_headers i) = true /\
  Forall (fun n => is_token n = true /\ lower n = n) (in_headers i).

(* the renderings of the header list H as ACRH field lines that the documentation tolerates:
   read as comma-separated lists with at most one OWS byte per side of an element, the lines
   yield exactly H once empty elements (at most 16 of them) are dropped *)
Definition perturb (H : list bytes) (lines : list bytes) : Prop :=
  exists names,
    all_names (flat_map (split_byte 44) lines) = Some names /\
    filter (fun x => negb (is_empty x)) names = H /\
    (length (filter is_empty names) <= 16)%nat.
