(* Spec/AcrhList.v -- the naive reading of Access-Control-Request-Headers field lines (C14):
   comma-separated lists, at most one OWS byte per side of an element, at most 16 empty
   elements overall, the non-empty elements being allowed names in strictly increasing order.
   Written from the property statement and RFC 9110 5.6.1, not from the scanner. *)
Require Import Base.Bytes.
Open Scope N_scope.

Definition ows (c : N) : bool := (c =? 9) || (c =? 32).

Definition strip1_left (e : bytes) : bytes :=
  match e with c :: r => if ows c then r else e | [] => [] end.
Definition strip1_right (e : bytes) : bytes := rev (strip1_left (rev e)).

(* the name carried by an element, if the element is l ++ name ++ r with |l|,|r| <= 1 OWS bytes
   and name empty or free of OWS at both ends *)
Definition element_name (e : bytes) : option bytes :=
  let e2 := strip1_right (strip1_left e) in
  match e2 with
  | [] => Some []
  | c :: _ =>
      if ows c then None
      else match rev e2 with
           | d :: _ => if ows d then None else Some e2
           | [] => Some []
           end
  end.

Fixpoint all_names (es : list bytes) : option (list bytes) :=
  match es with
  | [] => Some []
  | e :: r =>
      match element_name e, all_names r with
      | Some n, Some ns => Some (n :: ns)
      | _, _ => None
      end
  end.

Definition is_empty (x : bytes) : bool := match x with [] => true | _ => false end.

Fixpoint strictly_increasing (l : list bytes) : bool :=
  match l with
  | x :: ((y :: _) as r) => bltb x y && strictly_increasing r
  | _ => true
  end.

Definition max_empty_elements : nat := 16.

Definition spec_check (allowed : list bytes) (lines : list bytes) : bool :=
  match all_names (flat_map (split_byte 44) lines) with
  | None => false
  | Some names =>
      let ne := filter (fun x => negb (is_empty x)) names in
      (length (filter is_empty names) <=? max_empty_elements)%nat &&
      forallb (fun x => mem x allowed) ne && strictly_increasing ne
  end.
