(* Spec/OriginValue.v -- which byte strings are Origin header VALUES of which tuple origin.

   A declarative grammar, written from RFC 6454 section 7 ("serialized-origin = scheme "://" host
   [ ":" port ]") and from the documentation of the lenient request-side parser of jub0bs/cors
   (internal/origins: Parse); it does NOT follow the control flow of the parser: it only uses
   existentials, list equations and byte classes.  Proofs/OriginValueP.v proves that the executable
   model of the parser (Model/Origins.v: parse) is sound and complete for it, so that
   "the byte string v is the origin (scheme, host, port)" has a meaning of its own in C03.

     origin_value v sch h ip p    v is    sch "://" hosttext porttext     where
       sch       a lower-case letter followed by at most 63 bytes of  a-z 0-9 + - . _
       hosttext  either  "[" h "]"  with no "]" inside h (h is taken verbatim, it is NOT validated
                 as an IPv6 address), or  h  itself: a maximal run of label bytes (0-9 a-z _ -) and
                 dots, not starting with a dot, without two consecutive dots; h MAY BE EMPTY when
                 a port follows ("https://:8080")
       porttext  empty (p = 0), or ":" and 1 to 5 decimal digits without leading zero, of value
                 p <= 65535
       ip        the parser's "this host must be an IP address" hint: true for bracketed hosts and
                 for plain hosts whose last non-empty label starts with a digit
     and v is at most 327 bytes long.  Nothing may follow: no path, query, fragment, userinfo. *)
Require Import Base.Bytes.
Open Scope N_scope.
Import Coq.Strings.String.StringSyntax.
Arguments b _%string_scope.

(* ---- byte classes -------------------------------------------------------------------------- *)
Definition is_lower_letter (c : N) : bool := (97 <=? c) && (c <=? 122).                 (* a-z *)
(* is_digit (Base/Bytes.v) is  (48 <=? c) && (c <=? 57) *)                              (* 0-9 *)
Definition is_scheme_byte (c : N) : bool :=                                    (* a-z 0-9 + - . _ *)
  is_lower_letter c || is_digit c || (c =? 43) || (c =? 45) || (c =? 46) || (c =? 95).
Definition is_label_byte (c : N) : bool :=                                         (* a-z 0-9 - _ *)
  is_lower_letter c || is_digit c || (c =? 45) || (c =? 95).

Definition every (p : N -> bool) (s : bytes) : Prop := forall c, In c s -> p c = true.

(* ---- scheme -------------------------------------------------------------------------------- *)
Definition scheme_shape (sch : bytes) : Prop :=
  exists c r, sch = c :: r /\ is_lower_letter c = true /\ every is_scheme_byte r /\
              (length sch <= 64)%nat.

(* ---- port ---------------------------------------------------------------------------------- *)
(* the decimal value of a digit string is Base.Bytes.atoi *)
Definition port_shape (porttext : bytes) (p : Z) : Prop :=
  (porttext = [] /\ p = 0%Z) \/
  (exists d ds, porttext = [58] ++ d :: ds /\                                   (* ":" digits     *)
                every is_digit (d :: ds) /\ d <> 48 /\                          (* no leading "0" *)
                (length (d :: ds) <= 5)%nat /\
                p = Z.of_N (atoi (d :: ds)) /\ (1 <= p <= 65535)%Z).

(* ---- host ---------------------------------------------------------------------------------- *)
(* bytes of a plain host: label bytes and dots (46); no leading dot, no two consecutive dots
   (a single trailing dot is fine) *)
Definition plain_host (h : bytes) : Prop :=
  every (fun c => is_label_byte c || (c =? 46)) h /\
  (forall t, h <> 46 :: t) /\
  (forall u w, h <> u ++ [46; 46] ++ w).

(* the plain host is maximal: what follows it does not start with a label byte or a dot *)
Definition ends_host (following : bytes) : Prop :=
  forall c t, following = c :: t -> is_label_byte c = false /\ c <> 46.

(* the IPv4 hint of a plain host: h = pre lab ["."] where lab is the last non-empty label *)
Definition ip_flag (h : bytes) (ip : bool) : Prop :=
  (h = [] /\ ip = false) \/
  (exists pre lab dot,
     h = pre ++ lab ++ dot /\ lab <> [] /\ ~ In 46 lab /\
     (pre = [] \/ exists pre', pre = pre' ++ [46]) /\ (dot = [] \/ dot = [46]) /\
     ip = is_digit (hd 0 lab)).

Definition host_shape (hosttext porttext h : bytes) (ip : bool) : Prop :=
  (* bracketed: everything up to the first "]" is the host, verbatim.  The parser only looks for
     brackets when at least 4 bytes follow "://" (the shortest conceivable "[::]"); "[]" and "[x]"
     with nothing behind are therefore NOT values, whereas "[]:1" is one, with the empty host.
     This odd condition is what the code does; it is kept faithfully. *)
  (hosttext = [91] ++ h ++ [93] /\ ~ In 93 h /\ ip = true /\
   (4 <= length (hosttext ++ porttext))%nat)
  \/
  (* plain; something must follow "://" (an empty host needs a port) *)
  (hosttext = h /\ plain_host h /\ ends_host porttext /\ hosttext ++ porttext <> [] /\ ip_flag h ip).

(* ---- the whole value ----------------------------------------------------------------------- *)
Definition origin_value (v sch h : bytes) (ip : bool) (p : Z) : Prop :=
  exists hosttext porttext,
    v = sch ++ b "://" ++ hosttext ++ porttext /\
    (length v <= 327)%nat /\
    scheme_shape sch /\
    host_shape hosttext porttext h ip /\
    port_shape porttext p.
