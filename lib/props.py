# Per-property configuration of ./check: theorems that are the proof obligations of the
# property (all in coq/Properties/<id>.v), what the correspondence families generate, notes.
PROPS = {
    "C19": dict(
        theorems=["C19_all_yields_leaves_and_stops", "C19_all_is_feed"],
        rule="join trees: every shape with up to 6 (quick) / 8 (thorough) nodes plus random trees of depth <= 5, each with every break position k = -1..#leaves; built with the real errors.Join and iterated with cfgerrors.All under recover(); non-trivial = the tree has at least one join; distinct = hash of (tree, k, observed sequence)",
        assumptions=["errors.Join keeps order and drops nil errors", "range-over-func desugaring: the loop body's false result is what the iterator's yield returns"],
    ),
    "C14": dict(
        theorems=["C14_check_spec", "C14_check_spec_new_set", "C14_sset_inv_empty", "C14_sset_inv_add", "C14_sset_inv_fold", "C14_sound", "C14_sound_full", "C14_complete_for_browsers"],
        rule="allowed-name sets of size 1-6 over a universe with prefix/extension-related names x 1-4 field lines: sorted sublists (valid by construction) and perturbations (repeats, shuffles, foreign names incl. prefixes/extensions/case variants, junk bytes, 0-3 OWS bytes per side, 0-20 empty elements, empty lines), plus boundary families (16/17 empties within and across lines, whitespace-only elements of 1-4 bytes, elements at the window edge +-3); non-trivial = approved or containing name bytes",
        assumptions=[],
    ),
    "C01": dict(sample=dict(quick=12, thorough=40),
        theorems=["C01_tree", "C01_order_and_multiplicity", "C01_wf", "C01_insert_step"],
        rule="pattern lists of length 1-5 over hosts sharing byte suffixes that are not label boundaries (a.com/ba.com/xa.com/example.com/xample.com...), IPv4/IPv6 literals, trailing dots, 253-byte hosts, several schemes and ports, '*.' and ':*' forms, duplicates and mutually subsuming pairs; every permutation of lists up to length 3 (quick) / 5 (thorough); per list all mechanically derived near-miss origins of every pattern (left extension without dot, truncations, deeper/shallower subdomain, scheme prefix/suffix, other/absent/default/65535 port, brackets, upper case); non-trivial = at least one pattern was accepted and inserted",
        assumptions=[],
    ),
    "C03": dict(claimed=False, theorems=[], rule="", assumptions=[]),
    "C11": dict(claimed=False, theorems=[], rule="", assumptions=[]),
    "C16": dict(claimed=False, theorems=[], rule="", assumptions=[]),
    "C04": dict(
        theorems=["C04_accepted_respects_every_prohibition", "C04_rejected_means_error_and_nil_middleware", "C04_rejected_reconfigure_keeps_state", "C04_doc_ok_iff_no_violation"],
        rule="Config values assembled from labelled atoms: every defective atom alone on an otherwise valid configuration (origins, methods, request/response header names), all boundary integers, the full cross product of the five boolean switches x 12 pattern kinds x {alone, with '*', with an insecure pattern}, then random mixes of valid atoms, atoms with one named defect and junk in every list position (2/3) and configurations valid by construction (1/3); non-trivial = every case (each reaches a validation verdict); distinct = hash of the Config and the observed verdict",
        assumptions=["oracles ace_ok / ip6 / is_psl: theorems hold for every such function; the harness records the real libraries' answers per case"]),
    "C05": dict(
        theorems=["C05_valid_accepted", "C05_all_violations_reported", "C05_validate_flatten", "C05_message_prefix", "C05_non_messages", "C05_forbidden_value_as_supplied"],
        rule="same family as C04; observed: the multiset of (error type, Value, Type, Reason, bounds) yielded by cfgerrors.All, the Go-side check that every error is a non-nil pointer to an exported cfgerrors type whose message starts with 'cors: ', nil-ness of the *Middleware, agreement of Reconfigure with NewMiddleware; non-trivial = every case",
        assumptions=["oracles as for C04", "the Reason of an unacceptable origin pattern (invalid vs prohibited) is taken from the pattern parser, whose grammar is the subject of C13"]),
    "C10": dict(claimed=False, theorems=[], rule="", assumptions=[]),
    "C02": dict(claimed=False, theorems=[], rule="", assumptions=[]),
    "C08": dict(claimed=False, theorems=[], rule="", assumptions=[]),
    "C09": dict(claimed=False, theorems=[], rule="", assumptions=[]),
    "C06": dict(claimed=False, theorems=[], rule="", assumptions=[]),
    "C13": dict(claimed=False, theorems=[], rule="", assumptions=[]),
    "C15": dict(claimed=False, theorems=[], rule="", assumptions=[]),
    "C07": dict(claimed=False, race_prop="C07R", theorems=[], rule="", assumptions=[]),
    "C12": dict(claimed=False, theorems=[], rule="", assumptions=[]),
    "C17": dict(claimed=False, theorems=[], rule="", assumptions=[]),
    "C18": dict(claimed=False, theorems=[], rule="", assumptions=[]),
}
