#!/usr/bin/env python3
"""Regenerates MANIFEST.json from lib/props.py (single source of truth for claimed properties)."""
import json, os, sys
here = os.path.dirname(os.path.abspath(__file__))
sys.path.insert(0, here)
from props import PROPS
ALL = ["C%02d" % i for i in range(1, 20)]
checks = []
for p in ALL:
    if p not in PROPS or not PROPS[p].get("claimed", True):
        continue
    c = PROPS[p]
    checks.append(dict(
        property_id=p,
        quick_cmd="./check %s quick" % p,
        thorough_cmd="./check %s thorough" % p,
        evidence_file="/verif/evidence/%s.json" % p,
        replay_cmd_template="./check replay {path}",
        engine="coq-model+correspondence",
        level_claimed=dict(category="proof", text=c.get("level_text", ""), design_ref=c.get("design_ref", "DESIGN.md section 6, " + p)),
        level_note=c.get("level_note", ""),
        technique=c.get("technique", "machine-checked proof in Coq 8.16: theorems (induction, invariants, refinement) over an executable Gallina model; the model is tied to the Go source on every run by source-to-Gallina translators whose output is proved equal to the model (nine translators: tables, locking protocol, middleware.go, config.go, helpers, byte-level loops and pattern.go, cfgerrors.All, radix.go, asciiset.go) and by a differential correspondence check of the real implementation against the extracted model"),
    ))
na = [dict(property_id=p, reason="check not built yet in this round (work in progress; see DESIGN.md section 10)") for p in ALL if p not in PROPS or not PROPS[p].get("claimed", True)]
m = dict(
    version=1,
    setup_cmd="./check setup",
    hooks=dict(guard="verif",
               enable="go build -tags verif -overlay .build/overlay.json ./internal/zzverif (run in /repo): harness/*.go and harness/exports/*_export.go are injected virtually as add-only files; nothing is committed to /repo for hooks",
               baseline_off_cmd="cd /repo && go test -vet=off -count=1 ./...",
               source_commits=[], add_only=True),
    engines=[dict(name="coq-model+correspondence", path="/verif/check", serves_properties=[c["property_id"] for c in checks],
                  kind_free_text="machine-checked proof (Coq 8.16.1) over an executable model; nine source translators regenerated and re-proved equal to the model on every run + Go/OCaml differential correspondence on every run")],
    checks=checks,
    notes="Three genuine defects were repaired in /repo by fix: commits (see known_findings.txt and DESIGN.md section 7).",
    not_applicable=na,
)
json.dump(m, open(os.path.join(here, "..", "MANIFEST.json"), "w"), indent=1)
print("claimed:", [c["property_id"] for c in checks])
