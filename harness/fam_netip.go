//go:build verif

package main

import (
	"fmt"
	"net/netip"
	"strconv"
	"strings"
)

// ---------- netip: the executable IPv6 model (coq/Model/Netip6.v) against the real net/netip ----------
//
// Every case is one string s with netip.ParseAddr(s) classified exactly as oracleFor records it:
// err | zone | v4in6 | (ok Addr.String() Addr.IsLoopback()). The model side evaluates ip6_model on
// the strings ParseAddr hands to parseIPv6 (first special byte ':') and the IPv4 model otherwise.

func netipAnswer(s string) (SX, bool) {
	ip, err := netip.ParseAddr(s)
	switch {
	case err != nil:
		return Y("err"), false
	case ip.Zone() != "":
		return Y("zone"), true
	case ip.Is4In6():
		return Y("v4in6"), true
	default:
		return L(Y("ok"), B(ip.String()), Bool(ip.IsLoopback())), true
	}
}

// group values biased towards zeros (runs, ties), small values, boundaries and the IPv4-mapped prefix
func genGroups(r R) [8]uint16 {
	var g [8]uint16
	switch r.Intn(12) {
	case 0: // all zero but one
		g[r.Intn(8)] = uint16(1 + r.Intn(0xffff))
		return g
	case 1: // IPv4-mapped and near misses
		g[5] = 0xffff
		g[6], g[7] = uint16(r.Intn(0x10000)), uint16(r.Intn(0x10000))
		if r.chance(1, 3) {
			g[r.Intn(6)] = uint16([]int{0, 1, 0xfffe, 0xffff}[r.Intn(4)])
		}
		return g
	case 2: // loopback and near misses
		g[7] = 1
		if r.chance(1, 2) {
			g[r.Intn(8)] = uint16(r.Intn(3))
		}
		return g
	}
	pz := 1 + r.Intn(9) // probability of a zero group, in tenths
	for i := range g {
		switch {
		case r.Intn(10) < pz:
			g[i] = 0
		case r.chance(1, 4):
			g[i] = uint16([]int{1, 0xf, 0x10, 0xff, 0x100, 0xfff, 0x1000, 0xffff, 0xa, 0xabcd, 0xfffe}[r.Intn(11)])
		default:
			g[i] = uint16(r.Intn(0x10000))
		}
	}
	return g
}

// one group in a non-canonical spelling: leading zeros up to 4 digits (or more when over is set), mixed case
func spellGroup(r R, v uint16, style int, over bool) string {
	s := strconv.FormatUint(uint64(v), 16)
	switch style {
	case 1:
		s = fmt.Sprintf("%04x", v)
	case 2:
		if len(s) < 4 && r.chance(1, 2) {
			s = strings.Repeat("0", 1+r.Intn(4-len(s))) + s
		}
	}
	if over {
		s = strings.Repeat("0", 5-len(s)) + s
	}
	switch r.Intn(4) {
	case 0:
		s = strings.ToUpper(s)
	case 1:
		bs := []byte(s)
		for i := range bs {
			if r.chance(1, 2) && bs[i] >= 'a' {
				bs[i] -= 32
			}
		}
		s = string(bs)
	}
	return s
}

// a textual form of the address g: "::" over any (sub-)run of zero groups or none, optional embedded
// IPv4 tail, optional zone; valid by construction unless the ellipsis covers nothing
func spellAddr(r R, g [8]uint16) string {
	style := r.Intn(3)
	n := 8
	tail := ""
	if r.chance(1, 4) {
		n = 6
		tail = fmt.Sprintf("%d.%d.%d.%d", g[6]>>8, g[6]&0xff, g[7]>>8, g[7]&0xff)
	}
	parts := make([]string, n)
	for i := 0; i < n; i++ {
		parts[i] = spellGroup(r, g[i], style, false)
	}
	// candidate ellipsis positions: [a, b) with all groups zero, b > a
	type span struct{ a, b int }
	var spans []span
	for a := 0; a < n; a++ {
		for b2 := a + 1; b2 <= n && g[b2-1] == 0; b2++ {
			spans = append(spans, span{a, b2})
		}
	}
	var s string
	if len(spans) > 0 && !r.chance(1, 4) {
		sp := spans[r.Intn(len(spans))]
		s = strings.Join(parts[:sp.a], ":") + "::" + strings.Join(parts[sp.b:], ":")
		if tail != "" {
			if sp.b < n {
				s += ":"
			}
			s += tail
		}
	} else {
		s = strings.Join(parts, ":")
		if tail != "" {
			s += ":" + tail
		}
	}
	if r.chance(1, 10) {
		s += "%" + r.pick([]string{"eth0", "1", "en0.1", "%", "a:b", "x%y", "\x00", " "})
	}
	return s
}

const netipAlphabet = "0123456789abcdefABCDEF:.%"

func mutate(r R, s string) string {
	bs := []byte(s)
	pool := netipAlphabet + "::::..%gGxX*[]/ -+\x00\x80\xff"
	for k := 1 + r.Intn(2); k > 0; k-- {
		c := pool[r.Intn(len(pool))]
		switch op := r.Intn(5); {
		case op == 0 && len(bs) > 0: // delete
			i := r.Intn(len(bs))
			bs = append(bs[:i:i], bs[i+1:]...)
		case op == 1 && len(bs) > 0: // replace
			bs[r.Intn(len(bs))] = c
		case op == 2 && len(bs) > 0: // duplicate a byte
			i := r.Intn(len(bs))
			bs = append(bs[:i+1:i+1], bs[i:]...)
		case op == 3 && len(bs) > 1: // swap neighbours
			i := r.Intn(len(bs) - 1)
			bs[i], bs[i+1] = bs[i+1], bs[i]
		default: // insert
			i := r.Intn(len(bs) + 1)
			bs = append(bs[:i:i], append([]byte{c}, bs[i:]...)...)
		}
	}
	return string(bs)
}

var netipCorpus = []string{
	// canonical forms
	"::", "::1", "1::", "::2", "::1:0", "2001:db8::1", "1:2:3:4:5:6:7:8", "fe80::1", "2001:db8::", "1::8",
	"ffff:ffff:ffff:ffff:ffff:ffff:ffff:ffff", "2001:db8:0:1:1:1:1:1", "1:0:0:2::3", "1::2:0:0:3", "0:1::", "::1:0:0:0",
	"1:2:3:4:5:6:7:0", "0:2:3:4:5:6:7:8", "1:2:3:0:5:6:7:8", "1:2:3::6:7:8", "1:0:1:0:1:0:1:0", "0:1:0:1:0:1:0:1",
	"::ffff:0:0", "::fffe:102:304", "0:0:0:0:0:ffff::", "::ffff:102:304", "64:ff9b::102:304", "::102:304", "1::ffff:102:304",
	// non-canonical spellings of valid addresses
	"0:0:0:0:0:0:0:0", "0:0:0:0:0:0:0:1", "0::1", "::0:1", "0::0:1", "::0", "0::", "0::0", "0:0::0:0", "::0:0:0:0:0:0:0", "0:0:0:0:0:0:0::",
	"0001::", "001::", "01::", "::0001", "::ABCD", "::aBcD", "2001:DB8::1", "2001:0db8:0000:0000:0000:0000:0000:0001",
	"1:0:0:0:0:0:0:8", "1::0:8", "1:0::8", "1:0:0::8", "1::0:0:0:0:8", "1:0:0:2:0:0:0:3", "1:0:0:0:2:0:0:3", "1:0:0:2:0:0:3:4", "1::2:0:0:3:4",
	"1:2:3:4:5:6:7::", "::2:3:4:5:6:7:8", "1::3:4:5:6:7:8", "1:2:3:4:5:6::8", "1:2:3:4:5::8", "1:2:3:4::8", "1:2::8",
	"1:0:3:4:5:6:7:8", "1:2:3:4:5:6:0:8", "1:0:0:4:5:0:0:8", "1:0:0:4:0:0:0:8", "1:0:0:0:5:0:0:8",
	// embedded IPv4
	"::1.2.3.4", "::ffff:1.2.3.4", "::FFFF:1.2.3.4", "0:0:0:0:0:ffff:1.2.3.4", "::ffff:0.0.0.0", "::ffff:255.255.255.255", "::fffe:1.2.3.4",
	"64:ff9b::1.2.3.4", "1:2:3:4:5:6:1.2.3.4", "1:2:3:4:5:6:7:1.2.3.4", "1:2:3:4:5:1.2.3.4", "1:2:3:4:5::1.2.3.4", "1::1.2.3.4", "1:2:3:4::5:1.2.3.4",
	"1:2:3:4:5:6::1.2.3.4", "::1:2:3:4:5:6:1.2.3.4", "::1:2:3:4:5:1.2.3.4", "1.2.3.4::", "::1.2.3.4:5", "::1.2.3.4:", "::1.2.3.4::", "1.2.3.4:5::",
	"::1.2.3", "::1.2.3.4.5", "::1.2.3.", "::.1.2.3", "::1..2.3", "::01.2.3.4", "::1.02.3.4", "::1.2.3.04", "::0.0.0.0", "::00.0.0.0", "::256.1.1.1",
	"::1.2.3.256", "::1.2.3.1000", "::1234.1.1.1", "::12345.1.1.1", "::a.1.2.3", "::1.a.2.3", "::1.2.3.4a", "::1.2.3.4 ", "::127.0.0.1", "::7f00:1",
	"::ffff:127.0.0.1", "::ffff:1.2.3.4%eth0", "::1.2.3.4%eth0", "::1.2.3.4%", "::1.2.3%eth0", "1:2:3:4:5:6:1.2.3.4%z", "::ffff:1.2.3.4.", "::ffff:.1.2.3.4",
	"0::ffff:1.2.3.4", "::0:ffff:1.2.3.4", "0:0::ffff:1.2.3.4", "::1:ffff:1.2.3.4", "ffff::1.2.3.4", "::ffff:1:2",
	// zones
	"fe80::1%eth0", "fe80::1%", "fe80::1%%", "fe80::1%e%h", "::%eth0", "::%", "%eth0", "::1%1", "fe80::1%eth0:1", "fe80::1%:", "fe80:%eth0:1", "1:2:3:4:5:6:7:8%z",
	"1:2:3:4:5:6:7%z", ":%z", "::1%\x00", "fe80::%.",
	// group counts, empty groups, long groups, colons
	"1:2:3:4:5:6:7", "1:2:3:4:5:6:7:8:9", "1:2:3:4:5:6:7:8:", ":1:2:3:4:5:6:7:8", "1:2:3:4:5:6:7:8::", "::1:2:3:4:5:6:7:8", "1::2:3:4:5:6:7:8", "1:2:3:4::5:6:7:8",
	"1:2:3:4:5:6:7::8", "::1:2:3:4:5:6:7", "1:2:3:4:5:6:7:", "1:2:3:4:5:6:7:8:9::", "1:2:3:4:5:6:7:8:9:a", "::1:2:3:4:5:6:7:8:9",
	":", ":::", "::::", ":1", "1:", "1::2::3", "::1::", "1:::2", ":::1", "1:::", "1::2:", "1:2", "::1:", ":1::", "1::2::", "1:2::3:4::5",
	"12345::", "::12345", "00000::", "::00000", "10000::", "::fffff", "0ffff::", "::1:00001", "1:2:3:4:5:6:7:12345", "1:2:3:4:5:6:7:00008",
	// garbage
	"::g", "g::", "::1g", "::1 ", " ::1", "::1\x00", "*::1", "*:", "[::1]", "::1]", "::1/64", "::-1", "::+1", "::0x1", "1:2:3:4:5:6:7:g", "::\x80", "::1\xff", "::١",
	// the other ParseAddr branches: first special byte is '.', '%', or there is none
	"", "1", "abc", "1.2.3.4", "127.0.0.1", "1.2.3.4:5", "1.2.3.4::", "1.2.3", "01.2.3.4", "256.1.1.1", "1.2.3.4%eth0", "%", "%:", "a%::1", ".::", "1.::1",
	"255.255.255.255", "0.0.0.0", "1.2.3.4.5", "1..2.3", ".1.2.3", "1.2.3.", "1.2.3.a", "0127.0.0.1", "127.000.0.1", "1.2.3.0004",
}

func famNetip(o *Out, r R, tier string) {
	nAddr, nRand := 700, 1200
	if tier == "thorough" {
		nAddr, nRand = 12000, 30000
	}
	emit := func(kind, s string) {
		v, ok := netipAnswer(s)
		o.emit("netip", ok, "netip/"+kind, KV("s", B(s)), KV("impl", v))
	}
	for _, s := range netipCorpus {
		emit("corpus", s)
		emit("corpus-mutated", mutate(r, s))
	}
	// every placement of "::" over 0..8 groups of "1:2:3:4:5:6:7:8" made zero, in canonical and expanded spelling
	for a := 0; a <= 8; a++ {
		for b2 := a; b2 <= 8; b2++ {
			var g [8]uint16
			parts := make([]string, 8)
			for i := range g {
				if i < a || i >= b2 {
					g[i] = uint16(i + 1)
				}
				parts[i] = strconv.FormatUint(uint64(g[i]), 16)
			}
			emit("ellipsis-scan", strings.Join(parts[:a], ":")+"::"+strings.Join(parts[b2:], ":"))
			emit("ellipsis-scan", strings.Join(parts, ":"))
			emit("ellipsis-scan", netip.AddrFrom16(groupsTo16(g)).String())
		}
	}
	// all 256 zero/non-zero patterns of the eight groups: which run is elided (longest, first on ties, never a single group)
	for m := 0; m < 256; m++ {
		var g [8]uint16
		parts := make([]string, 8)
		for i := range g {
			if m>>i&1 == 1 {
				g[i] = uint16(0x10 + i)
			}
			parts[i] = strconv.FormatUint(uint64(g[i]), 16)
		}
		emit("zero-patterns", strings.Join(parts, ":"))
	}
	for i := 0; i < nAddr; i++ {
		g := genGroups(r)
		canon := netip.AddrFrom16(groupsTo16(g)).String()
		emit("canonical", canon)
		s := spellAddr(r, g)
		emit("spelled", s)
		emit("spelled-mutated", mutate(r, s))
		if r.chance(1, 2) {
			emit("canonical-mutated", mutate(r, canon))
		}
		// structural defects of a valid spelling
		switch r.Intn(8) {
		case 0:
			emit("defect/extra-group", s+":"+spellGroup(r, g[0], 0, false))
		case 1:
			emit("defect/extra-group-front", spellGroup(r, g[7], 0, false)+":"+s)
		case 2:
			emit("defect/trailing-colon", s+":")
		case 3:
			emit("defect/leading-colon", ":"+s)
		case 4:
			emit("defect/five-digits", strings.Replace(s, ":", ":"+spellGroup(r, g[3], 0, true)+":", 1))
		case 5:
			emit("defect/second-ellipsis", strings.Replace(s, ":", "::", 1+r.Intn(2)))
		case 6:
			if j := strings.LastIndexByte(s, ':'); j >= 0 {
				emit("defect/drop-group", s[:j])
			}
		case 7:
			emit("defect/v4-in-the-middle", strings.Replace(s, ":", ":1.2.3.4:", 1))
		}
	}
	// random strings over the alphabet of IPv6 texts, colon-heavy
	weighted := netipAlphabet + "::::::::000011ffFF.."
	for i := 0; i < nRand; i++ {
		n := r.Intn(24)
		if r.chance(1, 6) {
			n = r.Intn(48)
		}
		bs := make([]byte, n)
		for j := range bs {
			bs[j] = weighted[r.Intn(len(weighted))]
		}
		emit("random", string(bs))
	}
}

func groupsTo16(g [8]uint16) [16]byte {
	var a [16]byte
	for i, v := range g {
		a[2*i], a[2*i+1] = byte(v>>8), byte(v)
	}
	return a
}
