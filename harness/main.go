//go:build verif

// zzverif: the correspondence harness. It is compiled INSIDE the module under test
// (go build -tags verif -overlay ...), so it always runs /repo's current working tree.
package main

import (
	"flag"
	"fmt"
	"math/rand"
	"os"
)

type family func(o *Out, r R, tier string)

var props = map[string][]family{
	"C19":  {famAll},
	"C14":  {famCheck},
	"C01":  {famTree},
	"C03":  {famServeWant("c03")},
	"C11":  {famServeWant("c11")},
	"C16":  {famServeWant("c16")},
	"C04":  {famConfig},
	"C05":  {famConfig},
	"C10":  {famPair},
	"C02":  {famIntent},
	"C08":  {famHistWant("c08")},
	"C09":  {famHistWant("c09")},
	"C06":  {famRoundtrip},
	"C13":  {famPattern, famNetip},
	"C15":  {famTwins},
	"C07":  {famConc},
	"C07R": {famStress},
	"C12":  {famAlias},
	"C17":  {famPanic, famSplit},
	"C18":  {famAlloc},
}

func main() {
	prop := flag.String("prop", "", "property id")
	tier := flag.String("tier", "quick", "quick|thorough")
	seed := flag.Int64("seed", 1, "PRNG seed")
	out := flag.String("out", "", "case file")
	flag.Parse()
	fams, ok := props[*prop]
	if !ok || *out == "" {
		fmt.Fprintln(os.Stderr, "usage: zzverif -prop Cxx -tier quick|thorough -seed N -out FILE")
		os.Exit(2)
	}
	o := newOut(*out)
	r := R{rand.New(rand.NewSource(*seed))}
	for _, f := range fams {
		f(o, r, *tier)
	}
	o.close(*out + ".meta.json")
}
