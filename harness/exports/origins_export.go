//go:build verif

package origins

// Add-only verification hook (build tag verif, injected with -overlay; never committed to the repository).

// VerifSplitAtCommonSuffix exposes splitAtCommonSuffix.
func VerifSplitAtCommonSuffix(a, b string) (string, string, string) { return splitAtCommonSuffix(a, b) }
