//go:build verif

package origins

// Add-only verification hook (build tag verif, injected with -overlay; never committed to the repository).

// VerifIDNA reports whether the package's IDNA profile accepts host.
func VerifIDNA(host string) bool {
	_, err := profile.ToASCII(host)
	return err == nil
}

// VerifSplitAtCommonSuffix exposes splitAtCommonSuffix.
func VerifSplitAtCommonSuffix(a, b string) (string, string, string) { return splitAtCommonSuffix(a, b) }
