//go:build verif

package cors

import "unsafe"

// Add-only verification hooks (build tag verif, injected with -overlay; never committed to the repository).

// VerifSharedSlices returns the addresses of the first elements of the slices that the
// current internal configuration shares between requests (acah, acma), or 0.
func VerifSharedSlices(m *Middleware) (acah, acma uintptr) {
	m.mu.RLock()
	icfg := m.icfg
	m.mu.RUnlock()
	if icfg == nil {
		return 0, 0
	}
	if len(icfg.acah) > 0 {
		acah = uintptr(unsafe.Pointer(unsafe.SliceData(icfg.acah)))
	}
	if len(icfg.acma) > 0 {
		acma = uintptr(unsafe.Pointer(unsafe.SliceData(icfg.acma)))
	}
	return
}

// VerifDebug reports the debug flag.
func VerifDebug(m *Middleware) bool {
	m.mu.RLock()
	defer m.mu.RUnlock()
	return m.debug
}

// VerifState reports (configured?, debug) read in one critical section.
func VerifState(m *Middleware) (configured, debug bool) {
	m.mu.RLock()
	defer m.mu.RUnlock()
	return m.icfg != nil, m.debug
}
