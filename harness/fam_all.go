//go:build verif

package main

import (
	"errors"
	"fmt"
	"iter"
	"strconv"
	"strings"

	"github.com/jub0bs/cors/cfgerrors"
)

// C19: join trees x break positions.
type etree struct {
	leaf int
	kids []*etree // nil for a leaf
}

func (t *etree) sx() SX {
	if t.kids == nil {
		return L(Y("leaf"), I(t.leaf))
	}
	l := SL{Y("join")}
	for _, k := range t.kids {
		l = append(l, k.sx())
	}
	return l
}

// leaves of every kind an error tree may hold: pointers to cfgerrors types, plain errors, %w wrappers (also around a
// join: such a wrapper is NOT a join, it is a leaf), values of non-comparable types
type sliceErr []string

func (e sliceErr) Error() string { return strings.Join(e, " ") }

type structErr struct {
	id    string
	extra []int
}

func (e structErr) Error() string { return e.id }

func leafID(e error) int {
	if me, ok := e.(*cfgerrors.UnacceptableMethodError); ok {
		id, _ := strconv.Atoi(me.Value)
		return id
	}
	id := -1
	fmt.Sscanf(e.Error(), "leaf-%d", &id)
	return id
}

// build returns the same error VALUE for the same node: a node that occurs twice in a tree (a shared join) is one
// Go value reachable along two paths
func (t *etree) build() error { return t.buildMemo(map[*etree]error{}) }

func (t *etree) buildMemo(memo map[*etree]error) error {
	if e, ok := memo[t]; ok {
		return e
	}
	e := t.build1(memo)
	memo[t] = e
	return e
}

func (t *etree) build1(memo map[*etree]error) error {
	if t.kids == nil {
		tag := "leaf-" + strconv.Itoa(t.leaf)
		switch t.leaf % 7 {
		case 1:
			return errors.New(tag)
		case 2:
			return fmt.Errorf("%s: %w", tag, errors.New("inner"))
		case 3:
			return fmt.Errorf("%s: %w", tag, errors.Join(errors.New("leaf-9001"), errors.New("leaf-9002")))
		case 4:
			return sliceErr{tag, "x"}
		case 5:
			return structErr{id: tag, extra: []int{1}}
		}
		return &cfgerrors.UnacceptableMethodError{Value: strconv.Itoa(t.leaf), Reason: "invalid"}
	}
	errs := make([]error, len(t.kids))
	for i, k := range t.kids {
		errs[i] = k.buildMemo(memo)
	}
	return errors.Join(errs...)
}

func (t *etree) count() int {
	if t.kids == nil {
		return 1
	}
	n := 0
	for _, k := range t.kids {
		n += k.count()
	}
	return n
}

// all tree shapes with exactly n nodes (leaves and joins), joins have >= 1 child
func shapes(n int) []*etree {
	if n == 1 {
		return []*etree{{}}
	}
	var out []*etree
	// a join with children whose sizes sum to n-1
	var rec func(rem int, acc []*etree)
	rec = func(rem int, acc []*etree) {
		if rem == 0 {
			out = append(out, &etree{kids: append([]*etree{}, acc...)})
			return
		}
		for s := 1; s <= rem; s++ {
			for _, c := range shapes(s) {
				rec(rem-s, append(acc, c))
			}
		}
	}
	rec(n-1, nil)
	return out
}

func clone(t *etree) *etree {
	if t.kids == nil {
		return &etree{}
	}
	c := &etree{kids: []*etree{}}
	for _, k := range t.kids {
		c.kids = append(c.kids, clone(k))
	}
	return c
}

func number(t *etree, next *int) {
	if t.kids == nil {
		*next++
		t.leaf = *next
		return
	}
	for _, k := range t.kids {
		number(k, next)
	}
}

func randTree(r R, depth int) *etree {
	if depth == 0 || r.chance(1, 3) {
		return &etree{}
	}
	n := 1 + r.Intn(4)
	t := &etree{kids: []*etree{}}
	for i := 0; i < n; i++ {
		t.kids = append(t.kids, randTree(r, depth-1))
	}
	return t
}

func runAll(t *etree, k int) (seen []int, panicked bool) {
	err := t.build()
	defer func() {
		if recover() != nil {
			panicked = true
		}
	}()
	for e := range cfgerrors.All(err) {
		seen = append(seen, leafID(e))
		if k >= 0 && len(seen) == k+1 {
			break
		}
	}
	return
}

// reentrancy: one iter.Seq value traversed again, nested inside itself, and by two pull iterators in lockstep,
// always yields the sequence of a single fresh traversal.
func allReentrancy(t *etree) (ok bool, detail string) {
	err := t.build()
	ids := func(es []error) string {
		var sb []string
		for _, e := range es {
			sb = append(sb, strconv.Itoa(leafID(e)))
		}
		return strings.Join(sb, ",")
	}
	defer func() {
		if e := recover(); e != nil {
			ok, detail = false, fmt.Sprint("panic: ", e)
		}
	}()
	var ref []error
	for e := range cfgerrors.All(err) {
		ref = append(ref, e)
	}
	want := ids(ref)
	budget := (len(ref)+2)*(len(ref)+2) + 16
	seq := cfgerrors.All(err)
	var again []error
	for e := range seq {
		again = append(again, e)
	}
	var third []error
	for e := range seq {
		third = append(third, e)
		if len(third) == 1 {
			break
		}
	}
	var fourth []error
	for e := range seq {
		fourth = append(fourth, e)
	}
	if ids(again) != want || ids(fourth) != want {
		return false, "re-traversal of the same sequence: " + ids(again) + " / " + ids(fourth) + " want " + want
	}
	for _, innerBreak := range []bool{false, true} {
		var outer []error
		steps := 0
		for a := range seq {
			outer = append(outer, a)
			var inner []error
			for b := range seq {
				inner = append(inner, b)
				steps++
				if innerBreak || steps > budget {
					break
				}
			}
			if !innerBreak && ids(inner) != want {
				return false, "nested traversal (inner): " + ids(inner) + " want " + want
			}
			if steps > budget || len(outer) > len(ref)+2 {
				return false, "nested traversal does not terminate as a single traversal does"
			}
		}
		if ids(outer) != want {
			return false, "nested traversal (outer): " + ids(outer) + " want " + want
		}
	}
	n1, s1 := iter.Pull(seq)
	n2, s2 := iter.Pull(seq)
	defer s1()
	defer s2()
	var p1, p2 []error
	for k := 0; k <= len(ref)+2; k++ {
		a, oka := n1()
		b, okb := n2()
		if oka {
			p1 = append(p1, a)
		}
		if okb {
			p2 = append(p2, b)
		}
		if !oka && !okb {
			break
		}
	}
	if ids(p1) != want || ids(p2) != want {
		return false, "two pull iterators in lockstep: " + ids(p1) + " / " + ids(p2) + " want " + want
	}
	return true, ""
}

func famAll(o *Out, r R, tier string) {
	maxNodes := 6
	nrand := 300
	if tier == "thorough" {
		maxNodes = 8
		nrand = 5000
	}
	emit := func(t *etree) {
		n := 0
		number(t, &n)
		for k := -1; k <= n; k++ {
			seen, p := runAll(t, k)
			impl := make(SL, len(seen))
			for i, s := range seen {
				impl[i] = I(s)
			}
			o.emit("all", t.kids != nil, "leaves="+strconv.Itoa(n),
				KV("tree", t.sx()), KV("k", I(k)), KV("impl", impl), KV("panicked", Bool(p)))
		}
		if n <= 12 {
			ok, detail := allReentrancy(t)
			o.emitDirect("all-reentrancy", ok, str(t.sx())+" "+detail)
		}
	}
	for n := 1; n <= maxNodes; n++ {
		for _, s := range shapes(n) {
			emit(clone(s))
		}
	}
	for i := 0; i < nrand; i++ {
		emit(randTree(r, 5))
	}
	// deep chains (nesting depth up to 40, to the left and to the right) and joins shared between two places
	for _, depth := range []int{7, 8, 9, 10, 15, 16, 17, 18, 31, 32, 33, 40} {
		for _, left := range []bool{true, false} {
			t := &etree{kids: []*etree{{}, {}}}
			for d := 1; d < depth; d++ {
				if left {
					t = &etree{kids: []*etree{t, {}}}
				} else {
					t = &etree{kids: []*etree{{}, t}}
				}
			}
			emit(t)
		}
	}
	for i := 0; i < 12; i++ {
		shared := randTree(r, 2)
		if shared.kids == nil {
			shared = &etree{kids: []*etree{{}, {}}}
		}
		emit(&etree{kids: []*etree{{kids: []*etree{shared, {}}}, {kids: []*etree{{}, shared}}}})
		emit(&etree{kids: []*etree{shared, shared}})
		emit(&etree{kids: []*etree{shared, {kids: []*etree{{kids: []*etree{shared}}}}, {}}})
	}
}
