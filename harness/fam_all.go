//go:build verif

package main

import (
	"errors"
	"strconv"

	"github.com/jub0bs/cors/cfgerrors"
)

// C19: join trees x break positions.
type etree struct {
	leaf int
	kids []*etree // nil for a leaf
}

func (t *etree) sx() SX {
	if t.kids == nil {
		return L(Y("leaf"), I(t.leaf))
	}
	l := SL{Y("join")}
	for _, k := range t.kids {
		l = append(l, k.sx())
	}
	return l
}

func (t *etree) build() error {
	if t.kids == nil {
		return &cfgerrors.UnacceptableMethodError{Value: strconv.Itoa(t.leaf), Reason: "invalid"}
	}
	errs := make([]error, len(t.kids))
	for i, k := range t.kids {
		errs[i] = k.build()
	}
	return errors.Join(errs...)
}

func (t *etree) count() int {
	if t.kids == nil {
		return 1
	}
	n := 0
	for _, k := range t.kids {
		n += k.count()
	}
	return n
}

// all tree shapes with exactly n nodes (leaves and joins), joins have >= 1 child
func shapes(n int) []*etree {
	if n == 1 {
		return []*etree{{}}
	}
	var out []*etree
	// a join with children whose sizes sum to n-1
	var rec func(rem int, acc []*etree)
	rec = func(rem int, acc []*etree) {
		if rem == 0 {
			out = append(out, &etree{kids: append([]*etree{}, acc...)})
			return
		}
		for s := 1; s <= rem; s++ {
			for _, c := range shapes(s) {
				rec(rem-s, append(acc, c))
			}
		}
	}
	rec(n-1, nil)
	return out
}

func clone(t *etree) *etree {
	if t.kids == nil {
		return &etree{}
	}
	c := &etree{kids: []*etree{}}
	for _, k := range t.kids {
		c.kids = append(c.kids, clone(k))
	}
	return c
}

func number(t *etree, next *int) {
	if t.kids == nil {
		*next++
		t.leaf = *next
		return
	}
	for _, k := range t.kids {
		number(k, next)
	}
}

func randTree(r R, depth int) *etree {
	if depth == 0 || r.chance(1, 3) {
		return &etree{}
	}
	n := 1 + r.Intn(4)
	t := &etree{kids: []*etree{}}
	for i := 0; i < n; i++ {
		t.kids = append(t.kids, randTree(r, depth-1))
	}
	return t
}

func runAll(t *etree, k int) (seen []int, panicked bool) {
	err := t.build()
	defer func() {
		if recover() != nil {
			panicked = true
		}
	}()
	for e := range cfgerrors.All(err) {
		id := -1
		if me, ok := e.(*cfgerrors.UnacceptableMethodError); ok {
			id, _ = strconv.Atoi(me.Value)
		}
		seen = append(seen, id)
		if k >= 0 && len(seen) == k+1 {
			break
		}
	}
	return
}

func famAll(o *Out, r R, tier string) {
	maxNodes := 6
	nrand := 300
	if tier == "thorough" {
		maxNodes = 8
		nrand = 5000
	}
	emit := func(t *etree) {
		n := 0
		number(t, &n)
		for k := -1; k <= n; k++ {
			seen, p := runAll(t, k)
			impl := make(SL, len(seen))
			for i, s := range seen {
				impl[i] = I(s)
			}
			o.emit("all", t.kids != nil, "leaves="+strconv.Itoa(n),
				KV("tree", t.sx()), KV("k", I(k)), KV("impl", impl), KV("panicked", Bool(p)))
		}
	}
	for n := 1; n <= maxNodes; n++ {
		for _, s := range shapes(n) {
			emit(clone(s))
		}
	}
	for i := 0; i < nrand; i++ {
		emit(randTree(r, 5))
	}
}
