//go:build verif

package main

import (
	"net/http"
	"sort"
	"strings"

	"github.com/jub0bs/cors"
	"github.com/jub0bs/cors/internal/headers"
	"github.com/jub0bs/cors/internal/util"
)

// the same question asked through the public API: a preflight (debug off, discrete allowed names) is approved
// iff its status is the success status. Returns -1 if the configuration is not accepted.
func runCheckViaMiddleware(names, lines []string) int {
	if len(names) == 0 { // no discrete allowed names: the middleware refuses any ACRH without consulting Check (not applicable)
		return -1
	}
	m, err := cors.NewMiddleware(cors.Config{Origins: []string{"https://example.com"}, RequestHeaders: names})
	if err != nil {
		return -1
	}
	q := reqT{method: "OPTIONS", hdrs: http.Header{"Origin": {"https://example.com"}, "Access-Control-Request-Method": {"GET"}}}
	if lines != nil {
		q.hdrs["Access-Control-Request-Headers"] = lines
	}
	out := serveOnce(m, q, http.Header{})
	if out.status == 403 {
		return 0
	}
	return 1
}

// C14: allowed-name sets x sequences of ACRH field lines.
var nameUniverse = []string{
	"a", "ab", "abc", "b", "ba", "x-a", "x-ab", "x-abc", "x-b", "content-type", "authorization",
	"x-foo", "x-foo-bar", "x-bar", "cache-control", "z", "zz", "zzzzzzzzzzzzzzzzzzzz",
}

var owsPieces = []string{"", "", "", " ", "\t", "  ", " \t", "\t\t\t", "   "}

func runCheck(names, lines []string) (res bool) {
	defer func() { // a crash is a wrong answer for this input (and C17's business), not the end of the run
		if e := recover(); e != nil {
			checkPanics = append(checkPanics, "PANIC "+fmtAny(e)+" in headers.Check for names "+str(BL(names))+" lines "+str(BL(lines)))
			res = false
		}
	}()
	var set util.SortedSet
	for _, n := range names {
		set.Add(n)
	}
	return headers.Check(set, lines)
}

var checkPanics []string

func fmtAny(e any) string {
	if err, ok := e.(error); ok {
		return err.Error()
	}
	if s, ok := e.(string); ok {
		return s
	}
	return "panic"
}

func famCheck(o *Out, r R, tier string) {
	n := 6000
	if tier == "thorough" {
		n = 150000
	}
	emit := func(kind string, names, lines []string) {
		got := runCheck(names, lines)
		for _, pmsg := range checkPanics {
			o.emitDirect("check-panic", false, truncate(pmsg))
		}
		checkPanics = nil
		o.emit("check", got || len(lines) > 0 && strings.ContainsAny(strings.Join(lines, ""), "abxz"), kind,
			KV("names", BL(names)), KV("lines", BL(lines)), KV("impl", Bool(got)), KV("viamw", I(runCheckViaMiddleware(names, lines))))
	}
	// boundary corpus: empties budget across lines, two/three-byte whitespace-only elements, window edges
	base := []string{"ab", "x-foo"}
	for e := 14; e <= 19; e++ {
		emit("empties", base, []string{strings.Repeat(",", e)})
		emit("empties", base, []string{strings.Repeat(",", e/2), strings.Repeat(",", e-e/2-1)})
		emit("empties", base, []string{"ab" + strings.Repeat(",", e) + "x-foo"})
		emit("empties", base, append(make([]string, e), "ab"))
	}
	for _, ws := range []string{" ", "\t", "  ", " \t", "   ", "\t \t", "    "} {
		emit("ows-only", base, []string{ws})
		emit("ows-only", base, []string{"ab," + ws + ",x-foo"})
		emit("ows-only", base, []string{ws + "ab"})
		emit("ows-only", base, []string{"ab" + ws})
		emit("ows-only", base, []string{ws + "ab" + ws + "," + ws + "x-foo" + ws})
	}
	for _, names := range [][]string{{"ab"}, {"a", "abcdef"}, {"x-foo", "x-foo-bar"}} {
		maxLen := 0
		for _, s := range names {
			if len(s) > maxLen {
				maxLen = len(s)
			}
		}
		long := names[len(names)-1]
		for pad := 0; pad <= 4; pad++ {
			for d := -2; d <= 3; d++ {
				l := maxLen + d
				if l < 0 {
					continue
				}
				filler := strings.Repeat("q", l)
				emit("window", names, []string{strings.Repeat(" ", pad) + filler + "," + long})
				emit("window", names, []string{strings.Repeat(" ", pad) + long + strings.Repeat(" ", d+2) + "," + long})
				emit("window", names, []string{filler + strings.Repeat(" ", pad) + ","})
				emit("window", names, []string{long + strings.Repeat("\t", pad) + "," + long})
			}
		}
	}
	for _, names := range [][]string{{"bar", "baz", "foo"}, {"content-type", "x-requested-with"}, {"a"}} {
		full := strings.Join(names, ",")
		for _, second := range []string{"x-evil", "bar", "foo", "", ",", strings.Repeat(",", 40), "  ", "\x00", "zzz", full} {
			emit("full-list-then", names, []string{full, second})
			emit("full-list-then", names, []string{full, "", second})
		}
		// the longest name padded on both sides as the last element of a line
		long := names[len(names)-1]
		for _, l := range [][]string{{" " + long + " "}, {"\t" + long + "\t"}, {names[0] + ", " + long + " "}, {" " + names[0] + " ", " " + long + " "}} {
			emit("padded-last", names, l)
		}
	}
	// every byte value on either side of an allowed name (only SP and HTAB may be trimmed)
	for bv := 0; bv < 256; bv++ {
		c := string([]byte{byte(bv)})
		emit("byte-adjacent", base, []string{c + "ab"})
		emit("byte-adjacent", base, []string{"ab" + c})
		emit("byte-adjacent", base, []string{"ab," + c + "x-foo" + c})
	}
	// the budget of empty elements spent in ONE line next to every allowed name, for every spelling of an empty element
	for _, names := range [][]string{{"x-foo"}, {"x-bar", "x-baz", "x-foo"}, {"a", "bb", "ccc", "dddd"}, {"content-type", "x-requested-with"}} {
		for _, emptyEl := range []string{"", " ", "\t", "  ", " \t", "\t\t"} {
			for k := 10; k <= 18; k++ {
				padded := make([]string, len(names))
				for i, nm := range names {
					padded[i] = " " + nm + "\t"
				}
				all := strings.Join(padded, ",")
				fill := strings.Repeat(","+emptyEl, k)
				emit("empties-one-line", names, []string{all + fill})
				emit("empties-one-line", names, []string{strings.TrimPrefix(fill, ",") + "," + all})
				emit("empties-one-line", names, []string{padded[0] + fill + "," + strings.Join(padded[1:], ",")})
			}
		}
	}
	// sets holding long names (63..130 bytes) x elements of every length up to beyond the longest (length-indexed
	// tables and buffers), present and absent
	for _, longest := range []int{63, 64, 65, 100, 127, 128, 130} {
		names := []string{"x-a", "x-" + strings.Repeat("b", 30), "x-" + strings.Repeat("c", longest-2)}
		for l := 1; l <= longest+2; l++ {
			emit("element-lengths", names, []string{strings.Repeat("q", l)})
			emit("element-lengths", names, []string{"x-" + strings.Repeat("c", l)})
		}
		emit("element-lengths", names, []string{names[0] + "," + names[1] + "," + names[2]})
	}
	// every allowed name on a line of its own, in order, then k empty lines (the whole budget and around it), then one more
	// line: anything the scanner does with the NUMBER of lines shows here
	for _, names := range [][]string{{"x-bar", "x-foo"}, {"a"}, {"x-a", "x-b", "x-c", "x-d"}} {
		for k := 13; k <= 19; k++ {
			for _, last := range []string{"x-evil", names[len(names)-1], names[0], "", ","} {
				lines := append([]string{}, names...)
				lines = append(lines, make([]string, k)...)
				lines = append(lines, last)
				emit("one-per-line", names, lines)
				emit("one-per-line", names, append(append(make([]string, k), names...), last))
			}
		}
	}
	// name-less lines between lines with names (the position of the last name seen must survive them)
	for _, gap := range []string{"", ",", " ", "\t,", ",,", " , "} {
		base3 := []string{"x-bar", "x-baz", "x-foo"}
		emit("nameless-line", base3, []string{"x-foo", gap, "x-bar"})
		emit("nameless-line", base3, []string{"x-foo", gap, "x-foo"})
		emit("nameless-line", base3, []string{"x-bar,x-foo", gap, "x-baz"})
		emit("nameless-line", base3, []string{"x-bar", gap, "x-baz", gap, "x-foo"})
		emit("nameless-line", base3, []string{"x-baz", gap, gap, "x-bar,x-baz"})
	}
	// larger sets: every ordered pair of allowed names (any distance apart in the sorted set), on one line and on two
	for _, sz := range []int{10, 18, 33} {
		set := make([]string, sz)
		for i := range set {
			set[i] = "x-h" + string(rune('a'+i/10)) + string(rune('0'+i%10))
		}
		step := 1
		if sz > 18 {
			step = 3
		}
		for i := 0; i < sz; i += step {
			for j := 0; j < sz; j++ {
				emit("pair-in-large-set", set, []string{set[i] + "," + set[j]})
				if (i+j)%3 == 0 {
					emit("pair-in-large-set", set, []string{set[i], set[j]})
					emit("pair-in-large-set", set, []string{set[0] + ", " + set[i] + " ," + set[j]})
				}
			}
		}
	}
	for i := 0; i < n/4; i++ { // generated names, boundary set sizes, sorted sublists with one perturbation
		sz := genCount(r)
		set := make([]string, sz)
		for j := range set {
			set[j] = strings.ToLower(genHdrName(r))
		}
		sorted := append([]string(nil), set...)
		sort.Strings(sorted)
		var elems []string
		for _, s := range sorted {
			if r.chance(1, 3) {
				elems = append(elems, s)
			}
		}
		kind := "large-valid"
		if len(elems) >= 2 {
			switch r.Intn(5) {
			case 0:
				a, b := r.Intn(len(elems)), r.Intn(len(elems))
				elems[a], elems[b] = elems[b], elems[a]
				kind = "large-swapped"
			case 1:
				elems = append(elems, elems[r.Intn(len(elems))])
				kind = "large-repeat"
			case 2:
				elems = append(elems, "x-unlisted")
				kind = "large-foreign"
			}
		}
		lines := perturbLines(r, elems)
		if len(elems) == 0 {
			lines = []string{""}
		}
		emit(kind, set, lines)
	}
	for i := 0; i < n; i++ {
		k := 1 + r.Intn(6)
		names := r.perm(nameUniverse)[:k]
		sorted := append([]string(nil), names...)
		sort.Strings(sorted)
		// mostly valid: a sorted sublist, then perturbations
		var elems []string
		for _, s := range sorted {
			if r.chance(2, 3) {
				elems = append(elems, s)
			}
		}
		kind := "valid"
		switch r.Intn(10) {
		case 0: // unsorted / repeated
			if len(elems) > 0 {
				elems = append(elems, elems[r.Intn(len(elems))])
				kind = "repeat"
			}
		case 1:
			elems = r.perm(elems)
			kind = "shuffled"
		case 2: // foreign name, prefix or extension of an allowed one
			if len(sorted) > 0 {
				s := r.pick(sorted)
				alt := []string{s + "a", s[:len(s)-1], s + "-", "A" + s, strings.ToUpper(s), r.pick(nameUniverse)}
				elems = append(elems, r.pick(alt))
				sort.Strings(elems)
				kind = "foreign"
			}
		case 3: // arbitrary bytes
			junk := make([]byte, 1+r.Intn(8))
			for j := range junk {
				junk[j] = byte(r.Intn(256))
			}
			elems = append(elems, string(junk))
			kind = "junk"
		}
		// empties and padding
		var parts []string
		ne := 0
		if r.chance(1, 3) {
			ne = r.Intn(21)
			kind += "+empties"
		}
		for _, e := range elems {
			for ne > 0 && r.chance(1, 2) {
				parts = append(parts, r.pick([]string{"", "", " ", "  "}))
				ne--
			}
			parts = append(parts, r.pick(owsPieces[:6])+e+r.pick(owsPieces[:6]))
		}
		for ; ne > 0; ne-- {
			parts = append(parts, "")
		}
		// split into 1..4 lines at element boundaries (an empty list of elements gives one empty line)
		nl := 1 + r.Intn(4)
		lines := make([]string, 0, nl)
		cur := []string{}
		for j, p := range parts {
			cur = append(cur, p)
			if len(lines) < nl-1 && r.chance(1, 3) && j < len(parts)-1 {
				lines = append(lines, strings.Join(cur, ","))
				cur = []string{}
			}
		}
		lines = append(lines, strings.Join(cur, ","))
		if r.chance(1, 10) {
			lines = append(lines, "")
			kind += "+emptyline"
		}
		if r.chance(1, 30) {
			lines = nil
		}
		emit(kind, names, lines)
	}
}
