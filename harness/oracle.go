//go:build verif

package main

import (
	"net/netip"
	"strings"

	"golang.org/x/net/idna"
	"golang.org/x/net/publicsuffix"
)

// The IDNA profile the package is meant to use (strict registration-style validation: Bidi rule, label validation,
// strict domain names, DNS length limits; no mapping step), built HERE so that the oracle does not depend on the
// profile variable of the code under test.
var refProfile = idna.New(
	idna.BidiRule(),
	idna.ValidateLabels(true),
	idna.StrictDomainName(true),
	idna.VerifyDNSLength(true),
)

func refIDNA(host string) bool {
	_, err := refProfile.ToASCII(host)
	return err == nil
}

// Oracle answers of the real libraries for every host string the model may ask about.
// The candidates are computed here independently of the implementation's parser.
func isLabelByte(c byte) bool {
	return c == '.' || c == '-' || c == '_' || ('0' <= c && c <= '9') || ('a' <= c && c <= 'z')
}

func hostCandidates(raw string) []string {
	idx := strings.Index(raw, "://")
	if idx < 0 {
		return nil
	}
	var out []string
	for _, rest := range []string{raw[idx+3:], strings.TrimPrefix(raw[idx+3:], "*.")} {
		if strings.HasPrefix(rest, "[") {
			if end := strings.IndexByte(rest, ']'); end > 0 {
				out = append(out, rest[1:end])
			}
		}
		i := 0
		for i < len(rest) && isLabelByte(rest[i]) {
			i++
		}
		out = append(out, rest[:i], strings.TrimSuffix(rest[:i], "."))
	}
	return out
}

func oracleFor(patterns []string) SX {
	seen := map[string]bool{}
	var ace, ip6, psl SL
	for _, raw := range patterns {
		for _, h := range hostCandidates(raw) {
			if seen[h] {
				continue
			}
			seen[h] = true
			ace = append(ace, L(B(h), Bool(refIDNA(h))))
			etld, _ := publicsuffix.PublicSuffix(h)
			psl = append(psl, L(B(h), Bool(etld == h)))
			var v SX
			ip, err := netip.ParseAddr(h)
			switch {
			case err != nil:
				v = Y("err")
			case ip.Zone() != "":
				v = Y("zone")
			case ip.Is4In6():
				v = Y("v4in6")
			default:
				v = L(Y("ok"), B(ip.String()), Bool(ip.IsLoopback()))
			}
			ip6 = append(ip6, L(B(h), v))
		}
	}
	return KV("oracle", L(KV("ace", ace), KV("ip6", ip6), KV("psl", psl)))
}
