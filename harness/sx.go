//go:build verif

package main

import (
	"bufio"
	"encoding/hex"
	"fmt"
	"hash/fnv"
	"math/rand"
	"os"
	"sort"
	"strconv"
	"strings"
)

// S-expressions exchanged with the model driver: x<hex> = bytes, decimal = int, bare = symbol.
type SX interface{ write(sb *strings.Builder) }

type (
	B  string // byte string
	I  int
	Y  string // symbol
	SL []SX
)

func (b B) write(sb *strings.Builder) {
	sb.WriteByte('x')
	sb.WriteString(hex.EncodeToString([]byte(b)))
}
func (i I) write(sb *strings.Builder) { sb.WriteString(strconv.Itoa(int(i))) }
func (y Y) write(sb *strings.Builder) { sb.WriteString(string(y)) }
func (l SL) write(sb *strings.Builder) {
	sb.WriteByte('(')
	for i, x := range l {
		if i > 0 {
			sb.WriteByte(' ')
		}
		x.write(sb)
	}
	sb.WriteByte(')')
}

func L(xs ...SX) SL        { return SL(xs) }
func KV(k string, v SX) SL { return SL{Y(k), v} }
func Bool(b bool) I {
	if b {
		return 1
	}
	return 0
}
func BL(ss []string) SL {
	l := make(SL, len(ss))
	for i, s := range ss {
		l[i] = B(s)
	}
	return l
}
func str(x SX) string { var sb strings.Builder; x.write(&sb); return sb.String() }

// Out collects the cases of one run.
type Out struct {
	w        *bufio.Writer
	n        int
	distinct map[uint64]struct{}
	nontriv  map[uint64]struct{}
	dist     map[string]int
	samples  []string
}

func newOut(path string) *Out {
	f, err := os.Create(path)
	if err != nil {
		panic(err)
	}
	return &Out{w: bufio.NewWriterSize(f, 1<<20), distinct: map[uint64]struct{}{}, nontriv: map[uint64]struct{}{}, dist: map[string]int{}}
}

// emit writes one case (family id body...). nontrivial says whether the case reaches a
// decision other than the trivial reject/passthrough; kind feeds the input distribution.
func (o *Out) emit(fam string, nontrivial bool, kind string, body ...SX) {
	o.n++
	id := fmt.Sprintf("%s%d", fam, o.n)
	c := append(SL{Y(fam), Y(id)}, body...)
	s := str(c)
	// hash of the case without its id
	h := fnv.New64a()
	h.Write([]byte(fam))
	for _, x := range body {
		h.Write([]byte(str(x)))
	}
	k := h.Sum64()
	o.distinct[k] = struct{}{}
	if nontrivial {
		o.nontriv[k] = struct{}{}
	}
	o.dist[kind]++
	if len(o.samples) < 6 && (o.n%97 == 1 || len(o.samples) < 2) {
		if len(s) < 600 {
			o.samples = append(o.samples, s)
		}
	}
	o.w.WriteString(s)
	o.w.WriteByte('\n')
}

// emitDirect records a verdict decided on the Go side (runtime observations the model cannot make).
func (o *Out) emitDirect(kind string, holds bool, info string) {
	o.n++
	id := fmt.Sprintf("direct%d", o.n)
	h := fnv.New64a()
	h.Write([]byte(kind + info))
	o.distinct[h.Sum64()] = struct{}{}
	o.nontriv[h.Sum64()] = struct{}{}
	o.dist[kind]++
	hv := 0
	if holds {
		hv = 1
	}
	fmt.Fprintf(o.w, "(direct %s (agree 1) (holds %d) (info %s %s))\n", id, hv, kind, str(B(info)))
}

func (o *Out) close(metaPath string) {
	o.w.Flush()
	f, err := os.Create(metaPath)
	if err != nil {
		panic(err)
	}
	defer f.Close()
	keys := make([]string, 0, len(o.dist))
	for k := range o.dist {
		keys = append(keys, k)
	}
	sort.Strings(keys)
	fmt.Fprintf(f, "{\"cases\": %d, \"distinct\": %d, \"distinct_nontrivial\": %d, \"distribution\": {", o.n, len(o.distinct), len(o.nontriv))
	for i, k := range keys {
		if i > 0 {
			fmt.Fprint(f, ", ")
		}
		fmt.Fprintf(f, "%q: %d", k, o.dist[k])
	}
	fmt.Fprint(f, "}, \"samples\": [")
	for i, s := range o.samples {
		if i > 0 {
			fmt.Fprint(f, ", ")
		}
		fmt.Fprintf(f, "%q", s)
	}
	fmt.Fprintln(f, "]}")
}

// deterministic helpers over one PRNG
type R struct{ *rand.Rand }

func (r R) pick(ss []string) string  { return ss[r.Intn(len(ss))] }
func (r R) chance(num, den int) bool { return r.Intn(den) < num }
func (r R) perm(ss []string) []string {
	out := append([]string(nil), ss...)
	r.Shuffle(len(out), func(i, j int) { out[i], out[j] = out[j], out[i] })
	return out
}

func permutations(ss []string) [][]string {
	if len(ss) <= 1 {
		return [][]string{append([]string(nil), ss...)}
	}
	var out [][]string
	for i := range ss {
		rest := append(append([]string(nil), ss[:i]...), ss[i+1:]...)
		for _, p := range permutations(rest) {
			out = append(out, append([]string{ss[i]}, p...))
		}
	}
	return out
}
