//go:build verif

package main

import (
	"net/http"
	"strconv"
	"strings"

	"github.com/jub0bs/cors"
	"github.com/jub0bs/cors/internal/origins"
)

// the same verdicts through the public API: ACAO on the response to a GET carrying the probe Origin.
// Returns nil when the pattern list is not an acceptable anonymous configuration as a whole.
func runTreeViaMiddleware(pats, probes []string) SL {
	m, err := cors.NewMiddleware(cors.Config{Origins: pats, ExtraConfig: cors.ExtraConfig{DangerouslyTolerateSubdomainsOfPublicSuffixes: true}})
	if err != nil {
		return nil
	}
	// the same list with credentialed access and with private-network access (when such a configuration is acceptable
	// without the insecure-origins tolerance): the verdicts must be the same ones
	var alts []*cors.Middleware
	for _, c := range []cors.Config{
		{Origins: pats, Credentialed: true, ExtraConfig: cors.ExtraConfig{DangerouslyTolerateSubdomainsOfPublicSuffixes: true}},
		{Origins: pats, ExtraConfig: cors.ExtraConfig{DangerouslyTolerateSubdomainsOfPublicSuffixes: true, PrivateNetworkAccess: true}}} {
		if am, aerr := cors.NewMiddleware(c); aerr == nil {
			alts = append(alts, am)
		}
	}
	res := make(SL, len(probes))
	_ = m.Config() // a read in between must not matter
	for i, o := range probes {
		hd := http.Header{"Origin": {o}}
		if i%3 == 1 { // unrelated request headers (fetch metadata, cookies, ...) must not matter
			for k, vs := range treeExtraHeaders[(i/3)%len(treeExtraHeaders)] {
				hd[k] = vs
			}
		}
		out := serveOnce(m, reqT{method: "GET", hdrs: hd}, http.Header{})
		v := out.hdrs["Access-Control-Allow-Origin"]
		res[i] = Bool(len(v) == 1 && v[0] == o)
		for _, am := range alts {
			av := serveOnce(am, reqT{method: "GET", hdrs: http.Header{"Origin": {o}}}, http.Header{}).hdrs["Access-Control-Allow-Origin"]
			if (len(av) == 1 && av[0] == o) != (len(v) == 1 && v[0] == o) {
				res[i] = Y("differs-with-credentials-or-pna")
			}
		}
	}
	return res
}

var treeExtraHeaders = []http.Header{
	{"Sec-Fetch-Mode": {"no-cors"}, "Sec-Fetch-Site": {"cross-site"}},
	{"Sec-Fetch-Mode": {"navigate"}, "Sec-Fetch-Dest": {"document"}},
	{"Sec-Fetch-Mode": {"same-origin"}, "Sec-Fetch-Site": {"same-origin"}},
	{"Sec-Fetch-Mode": {"websocket"}, "Cookie": {"a=b"}},
	{"Sec-Fetch-Mode": {"cors"}, "Authorization": {"Bearer x"}, "Referer": {"https://attacker.example/"}},
	{"X-Forwarded-Host": {"example.com"}, "Forwarded": {"for=1.2.3.4"}},
}

// C01: pattern lists (every order) x near-miss origins.
var (
	treeHosts = []string{
		"a.com", "ba.com", "xa.com", "b.a.com", "a.om", "a.m", "ab.com", "a.b.com", "com", "a.co.uk", "ba.co.uk",
		"example.com", "xample.com", "ample.com", "foo.example.com", "example.com.", "a.com.",
		"localhost", "a-b.com", "a_b.com", "xn--xample-9ua.com", "xn--shop-.example.com", "xn--cdn-.a.com", "localhost.",
	}
	treeIPs     = []string{"127.0.0.1", "10.0.0.1", "1.1.1.1", "[::1]", "[2001:db8::1]", "[::]", "[1::8]"}
	treeSchemes = []string{"https", "http", "ttp", "https-x", "a", "connector", "http+x"}
	treePorts   = []string{"", "", ":1", ":8080", ":65535", ":*", ":*", ":443", ":80", ":9090"}
)

func longHost(n int, last byte) string {
	// n bytes, labels of at most 63 bytes
	var sb strings.Builder
	for sb.Len() < n {
		rem := n - sb.Len()
		l := 63
		if rem < 63 {
			l = rem
		}
		if rem-l == 1 { // avoid a trailing lone dot
			l--
		}
		sb.WriteString(strings.Repeat(string(last), l))
		if sb.Len() < n {
			sb.WriteByte('.')
		}
	}
	return sb.String()
}

func genPattern(r R) string {
	scheme := r.pick(treeSchemes)
	var host string
	switch {
	case r.chance(1, 8):
		host = r.pick(treeIPs)
		if scheme == "https" || scheme == "https-x" {
			scheme = "http"
		}
	case r.chance(1, 25):
		host = longHost(253, 'a')
		if r.chance(1, 2) {
			host += "."
		}
	case r.chance(1, 25):
		host = "a." + longHost(249, 'a')
	default:
		host = r.pick(treeHosts)
		if r.chance(2, 5) {
			if len(host) <= 251 {
				host = "*." + host
			}
		}
	}
	port := r.pick(treePorts)
	if (scheme == "http" && port == ":80") || (scheme == "https" && port == ":443") {
		port = ""
	}
	return scheme + "://" + host + port
}

// nearMisses derives probe origins from one pattern string.
func nearMisses(pat string) []string {
	idx := strings.Index(pat, "://")
	scheme, rest := pat[:idx], pat[idx+3:]
	host, port := rest, ""
	if strings.HasPrefix(rest, "[") {
		end := strings.IndexByte(rest, ']')
		host, port = rest[:end+1], rest[end+1:]
	} else if i := strings.LastIndexByte(rest, ':'); i >= 0 {
		host, port = rest[:i], rest[i:]
	}
	wild := strings.HasPrefix(host, "*.")
	base := strings.TrimPrefix(host, "*.")
	hosts := []string{base, "x" + base, "a." + base, "b.a." + base, "." + base, base + "x", base + ".", "a" + base}
	if len(base) > 1 {
		hosts = append(hosts, base[1:], base[:len(base)-1])
	}
	if i := strings.IndexByte(base, '.'); i >= 0 {
		hosts = append(hosts, base[i+1:], base[i:])
	}
	if i := strings.Index(base, "xn--"); i >= 0 { // the label with its ACE prefix (and a trailing hyphen) removed
		rest := base[i+4:]
		end := strings.IndexByte(rest, '.')
		if end < 0 {
			end = len(rest)
		}
		hosts = append(hosts, base[:i]+strings.TrimSuffix(rest[:end], "-")+rest[end:], "a."+base[:i]+strings.TrimSuffix(rest[:end], "-")+rest[end:])
	}
	if wild {
		hosts = append(hosts, "foo.bar."+base, "xa."+base, "a-."+base, "*."+base, "a.."+base)
	}
	if strings.HasPrefix(base, "[") {
		hosts = append(hosts, strings.Trim(base, "[]"), "["+strings.ToUpper(strings.Trim(base, "[]"))+"]")
	} else {
		hosts = append(hosts, "["+base+"]", strings.ToUpper(base), "[."+base+"]", "[a."+base+"]", "[]"+base, "[.]"+base)
	}
	ports := []string{"", ":80", ":443", ":65535", ":8080", ":1", ":0", ":65536", ":080"}
	if port != "" && port != ":*" {
		ports = append(ports, port)
		if n, err := strconv.Atoi(port[1:]); err == nil {
			ports = append(ports, ":"+strconv.Itoa(n+1), ":"+strconv.Itoa(n)+"0")
			// the same port modulo 2^16, 2^32 and 2^64 (integer wrap-around in a digit loop)
			ports = append(ports, ":"+strconv.Itoa(n+65536), ":"+strconv.Itoa(n+1<<32), ":"+addDecimal("18446744073709551616", n), ":"+addDecimal("340282366920938463463374607431768211456", n))
		}
	} else {
		ports = append(ports, ":18446744073709551696", ":18446744073709552059", ":4294967376") // 2^64+80, 2^64+443, 2^32+80
	}
	schemes := []string{scheme, scheme + "s", scheme[:len(scheme)-1], "x" + scheme, strings.ToUpper(scheme)}
	var out []string
	for _, h := range hosts {
		out = append(out, scheme+"://"+h+port0(port))
	}
	for _, p := range ports {
		out = append(out, scheme+"://"+base+p, scheme+"://a."+base+p)
	}
	for _, s := range schemes {
		if s != "" {
			out = append(out, s+"://"+base+port0(port), s+"://a."+base+port0(port))
		}
	}
	return out
}

// addDecimal adds a small non-negative n to a decimal string (no big-integer package needed)
func addDecimal(dec string, n int) string {
	digits := []byte(dec)
	carry := n
	for i := len(digits) - 1; i >= 0 && carry > 0; i-- {
		v := int(digits[i]-'0') + carry
		digits[i] = byte('0' + v%10)
		carry = v / 10
	}
	out := string(digits)
	if carry > 0 {
		out = strconv.Itoa(carry) + out
	}
	return out
}

func port0(port string) string {
	if port == ":*" {
		return ":7777"
	}
	return port
}

// extremeTrees: the shapes at the edge of what a radix tree over host bytes can be -- maximal fan-out below one
// node and at the root (every byte that can start / end a host), maximal depth (a node boundary at every byte of
// a 253-byte host, with and without the trailing full stop) -- each with probes that present EVERY byte value at
// the position looked up in the dense node (a bracketed Origin carries any byte) and every suffix of the deep host.
type extremeTree struct {
	kind   string
	pats   []string
	probes []string
}

func extremeTrees(tier string) []extremeTree {
	var out []extremeTree
	first := "abcdefghijklmnopqrstuvwxyz0123456789"
	for _, k := range []int{16, 17, 26, 36} {
		var pats, probes []string
		for i := 0; i < k; i++ {
			pats = append(pats, "https://"+first[i:i+1]+"x.example.com")
		}
		for b := 0; b < 256; b++ {
			probes = append(probes, "https://["+string([]byte{byte(b)})+"x.example.com]", "https://"+string([]byte{byte(b)})+"x.example.com")
		}
		probes = append(probes, "https://x.example.com", "https://ax.example.com:1", "https://aax.example.com")
		out = append(out, extremeTree{"fanout-node/" + strconv.Itoa(k), pats, probes})
		// at the root: hosts that differ in their LAST byte
		pats, probes = nil, nil
		for i := 0; i < k; i++ {
			pats = append(pats, "https://host.a"+first[i:i+1])
		}
		for b := 0; b < 256; b++ {
			probes = append(probes, "https://[host.a"+string([]byte{byte(b)})+"]", "https://host.a"+string([]byte{byte(b)}))
		}
		out = append(out, extremeTree{"fanout-root/" + strconv.Itoa(k), pats, probes})
	}
	deep := longHost(253, 'a')
	for _, dot := range []string{"", "."} {
		var pats, probes []string
		for k := 0; k < len(deep); k++ {
			if deep[k] != '.' {
				pats = append(pats, "https://"+deep[k:]+dot)
			} else {
				pats = append(pats, "https://b"+deep[k:]+dot) // forces a node boundary at the full stop
			}
			probes = append(probes, "https://"+deep[k:]+dot, "https://b"+deep[k:]+dot, "https://"+deep[k:]+dot+":1")
		}
		probes = append(probes, "https://a", "https://"+deep, "https://"+deep+".", "https://["+deep+"]")
		out = append(out, extremeTree{"depth/253" + dot, pats, probes})
		if tier == "thorough" { // the same chain built from the leaf upwards and from the middle outwards
			rev := append([]string{}, pats...)
			for i, j := 0, len(rev)-1; i < j; i, j = i+1, j-1 {
				rev[i], rev[j] = rev[j], rev[i]
			}
			out = append(out, extremeTree{"depth-rev/253" + dot, rev, probes})
		}
	}
	return out
}

func runTree(pats, probes []string) (res SL, elems []string, npat int) {
	var t origins.Tree
	for _, raw := range pats {
		p, err := origins.ParsePattern(raw)
		if err != nil {
			continue
		}
		npat++
		t.Insert(&p)
	}
	probe := func() (out SL) {
		for _, o := range probes {
			og, ok := origins.Parse(o)
			if !ok {
				out = append(out, Y("noparse"))
				continue
			}
			func() {
				defer func() {
					if e := recover(); e != nil {
						out = append(out, Y("panic"))
					}
				}()
				out = append(out, Bool(t.Contains(&og)))
			}()
		}
		return out
	}
	// rendering the tree (Elems, as Config() does) is a read: verdicts before and after it must coincide
	before := probe()
	elemsOf := func() (out []string, panicked bool) {
		defer func() {
			if e := recover(); e != nil {
				panicked = true
			}
		}()
		return t.Elems(), false
	}
	elems, crashed := elemsOf()
	res = probe()
	again, _ := elemsOf()
	if str(before) != str(res) || strings.Join(elems, "\x00") != strings.Join(again, "\x00") {
		res = append(res, Y("elems-changed-the-tree"))
	}
	if crashed {
		res = append(res, Y("elems-panicked"))
	}
	return res, elems, npat
}

func famTree(o *Out, r R, tier string) {
	nlists, maxPerm := 700, 3
	if tier == "thorough" {
		nlists, maxPerm = 3000, 4
	}
	var emitWith func(kind string, pats, probes []string)
	emit := func(kind string, pats []string) {
		var probes []string
		seen := map[string]bool{}
		for _, p := range pats {
			for _, q := range nearMisses(p) {
				if !seen[q] {
					seen[q] = true
					probes = append(probes, q)
				}
			}
		}
		emitWith(kind, pats, probes)
	}
	emitWith = func(kind string, pats, probes []string) {
		res, elems, npat := runTree(pats, probes)
		via := runTreeViaMiddleware(pats, probes)
		if via == nil {
			via = SL{Y("none")}
		}
		o.emit("tree", npat > 0, kind+"/n="+strconv.Itoa(len(pats)),
			KV("pats", BL(pats)), KV("origins", BL(probes)), KV("impl", res), KV("elems", BL(elems)), KV("viamw", via), oracleFor(pats))
	}
	// regression corpus (GHSA-vhxv-fg4m-p2w8 shape, F1, F3, duplicates)
	corpus := [][]string{
		{"https://*.example.com", "https://xample.com"},
		{"https://xample.com", "https://*.example.com"},
		{"https://*.a.com", "https://ba.com", "https://a.com"},
		{"http://[::1]:9090"},
		{"a" + strings.Repeat("b", 63) + "://" + longHost(253, 'a') + ".:65535"},
		{"https://*.example.com", "https://*.example.com"},
		{"https://*.example.com:*", "https://*.example.com:8080", "https://*.example.com:*"},
		{"https://a.com:*", "https://a.com:1", "https://a.com"},
		{"https://a.com:1", "https://a.com:*"},
		{"https://*.com", "https://*.a.com", "https://b.a.com"},
		{"https://b.a.com", "https://*.a.com", "https://*.com"},
	}
	for _, c := range corpus {
		for _, p := range permutations(c) {
			emit("corpus", p)
		}
	}
	for _, e := range extremeTrees(tier) {
		emitWith("extreme/"+e.kind, e.pats, e.probes)
	}
	// many siblings below one node (boundary counts), in sorted, reverse and random insertion order
	nsib := 3
	if tier == "thorough" {
		nsib = 20
	}
	for _, cnt := range []int{2, 7, 8, 9, 15, 16, 17, 18, 24, 32, 33, 36} {
		for k := 0; k < nsib; k++ {
			hosts := genSiblings(r, cnt)
			sch := r.pick([]string{"https", "https", "http", "httpx"})
			port := r.pick([]string{"", "", ":8443", ":*"})
			pats := make([]string, len(hosts))
			var probes []string
			for i, h := range hosts {
				pats[i] = sch + "://" + h + port
				if r.chance(1, 12) {
					pats[i] = sch + "://*." + h + port
				}
				probes = append(probes, sch+"://"+h+port0(port), sch+"://a."+h+port0(port), sch+"://"+h, "https://"+h[1:]+port0(port))
			}
			probes = append(probes, sch+"://~"+hosts[0][1:]+port0(port), sch+"://-"+hosts[0][1:]+port0(port), sch+"://zz"+hosts[0][1:]+port0(port))
			emitWith("siblings/n="+strconv.Itoa(cnt), pats, probes)
		}
	}
	// many ports under one (host, scheme) and many schemes under one host (boundary counts; sorted, reverse, random)
	for _, cnt := range []int{2, 7, 8, 9, 15, 16, 17, 18, 31, 32, 33} {
		for k := 0; k < nsib; k++ {
			host := r.pick([]string{"example.com", "*.example.com", "localhost", "a.b.example.org"})
			base := strings.TrimPrefix(host, "*.")
			sub := ""
			if base != host {
				sub = "x."
			}
			var pats, probes []string
			perm := r.Perm(cnt)
			switch k % 3 {
			case 0:
				for i := range perm {
					perm[i] = i
				}
			case 1:
				for i := range perm {
					perm[i] = cnt - 1 - i
				}
			}
			if k%2 == 0 { // ports
				for _, i := range perm {
					port := 1000 + 37*i
					pats = append(pats, "https://"+host+":"+strconv.Itoa(port))
					probes = append(probes, "https://"+sub+base+":"+strconv.Itoa(port), "https://"+sub+base+":"+strconv.Itoa(port+1), "http://"+sub+base+":"+strconv.Itoa(port))
				}
				probes = append(probes, "https://"+sub+base, "https://"+sub+base+":999", "https://"+sub+base+":65535")
			} else { // schemes
				for _, i := range perm {
					sch := "s" + string(rune('a'+i/26)) + string(rune('a'+i%26))
					pats = append(pats, sch+"://"+host+r.pick([]string{"", ":81", ":*"}))
					probes = append(probes, sch+"://"+sub+base, sch+"://"+sub+base+":81", sch+"x://"+sub+base, sch[:2]+"://"+sub+base)
				}
			}
			emitWith("fanout/n="+strconv.Itoa(cnt), pats, probes)
		}
	}
	// dense small universe: every host of one to three labels over {a, b, aa, ab, ba, bb} is a probe, under every scheme
	// and port in play; the lists are long (6..40 patterns), so that nodes are split repeatedly, at and off label
	// boundaries, and every node kind (entry-only, branch-only, both) occurs at several depths
	labels := []string{"a", "b", "aa", "ab", "ba", "bb"}
	var universe []string
	for _, l1 := range labels {
		universe = append(universe, l1)
		for _, l2 := range labels {
			universe = append(universe, l2+"."+l1)
			for _, l3 := range labels {
				universe = append(universe, l3+"."+l2+"."+l1)
			}
		}
	}
	ndense := 30
	if tier == "thorough" {
		ndense = 300
	}
	for i := 0; i < ndense; i++ {
		n := 6 + r.Intn(35)
		schs := []string{"https", "http"}
		prts := []string{"", ":81", ":*"}
		if r.chance(1, 3) {
			schs = []string{"https"}
		}
		if r.chance(1, 3) {
			prts = []string{"", ":*"}
		}
		pats := make([]string, n)
		for j := range pats {
			h := r.pick(universe)
			if r.chance(1, 4) {
				h = "*." + h
			}
			pats[j] = r.pick(schs) + "://" + h + r.pick(prts)
		}
		var probes []string
		for _, sc := range schs {
			for _, pt := range []string{"", ":81", ":82"} {
				for _, h := range universe {
					probes = append(probes, sc+"://"+h+pt)
				}
			}
		}
		probes = append(probes, "https://c.a", "https://a.c", "https://aaa", "https://a.a.a.a", "https://b.b.b.b:81", "http://ab.ab.ab.ab")
		emitWith("dense/n="+strconv.Itoa(n), pats, probes)
	}
	if tier == "thorough" { // every permutation of some 5-element lists
		for i := 0; i < 40; i++ {
			pats := make([]string, 5)
			for j := range pats {
				pats[j] = genPattern(r)
			}
			for _, p := range permutations(pats) {
				emit("perm5", p)
			}
		}
	}
	for i := 0; i < nlists; i++ {
		n := 1 + r.Intn(5)
		pats := make([]string, n)
		for j := range pats {
			pats[j] = genPattern(r)
		}
		// bias towards related patterns: reuse the host of the first pattern with other decorations
		if n > 1 && r.chance(1, 2) {
			idx := strings.Index(pats[0], "://")
			rest := strings.TrimPrefix(pats[0][idx+3:], "*.")
			if i := strings.LastIndexByte(rest, ':'); i >= 0 && !strings.Contains(rest, "]") {
				rest = rest[:i]
			}
			if !strings.HasPrefix(rest, "[") && !(rest[0] >= '0' && rest[0] <= '9') && len(rest) < 200 {
				pats[1] = r.pick([]string{"https", "http"}) + "://" + r.pick([]string{"", "*.", "x", "a.", "*.a."}) + rest + r.pick(treePorts[:8])
			}
		}
		if n <= maxPerm {
			for _, p := range permutations(pats) {
				emit("perm", p)
			}
		} else {
			emit("random", pats)
			emit("random", r.perm(pats))
		}
	}
}
