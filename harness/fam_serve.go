//go:build verif

package main

import (
	"crypto/tls"
	"net/http"
	"net/url"
	"sort"
	"strconv"
	"strings"
	"sync/atomic"

	"github.com/jub0bs/cors"
)

// ---------- running one request through a middleware ----------

type rw struct {
	h      http.Header
	status int
	body   int
}

func (w *rw) Header() http.Header { return w.h }
func (w *rw) WriteHeader(s int) {
	if w.status == -1 {
		w.status = s
	}
}
func (w *rw) Write(p []byte) (int, error) {
	if w.status == -1 {
		w.status = 200
	}
	w.body += len(p)
	return len(p), nil
}

type reqT struct {
	method string
	hdrs   http.Header
}

func (q reqT) sx() SX { return L(KV("method", B(q.method)), KV("hdrs", hdrSX(q.hdrs))) }

type outT struct {
	status    int // -1: the middleware wrote none
	delegated bool
	hdrs      http.Header // header map when the handler is entered (or at the end, if it never is)
	calls     int
	sameArgs  bool
	body      int
	panicked  bool
}

func (o outT) sx() SX {
	return L(KV("status", I(o.status)), KV("delegated", Bool(o.delegated)), KV("hdrs", hdrSX(o.hdrs)))
}

func serveOnce(m *cors.Middleware, q reqT, pre http.Header) (o outT) {
	w := &rw{h: cloneHdr(pre), status: -1}
	req := &http.Request{Method: q.method, Header: cloneHdr(q.hdrs), URL: &url.URL{Path: "/"}, Proto: "HTTP/1.1"}
	dressRequest(req)
	var snap http.Header
	o.sameArgs = true
	h := m.Wrap(http.HandlerFunc(func(w2 http.ResponseWriter, r2 *http.Request) {
		o.calls++
		if w2 != http.ResponseWriter(w) || r2 != req {
			o.sameArgs = false
		}
		if snap == nil {
			snap = cloneHdr(w2.Header())
		}
	}))
	func() {
		defer func() {
			if recover() != nil {
				o.panicked = true
			}
		}()
		h.ServeHTTP(w, req)
	}()
	o.delegated = o.calls > 0
	o.status = w.status
	o.body = w.body
	if o.delegated {
		o.hdrs = snap
	} else {
		o.hdrs = cloneHdr(w.h)
	}
	return o
}

// dressRequest varies, deterministically from a running counter, every part of the request that the property texts
// never mention and the model ignores: request target (`*`, absolute form, path and query), Host, protocol version,
// length, remote address, TLS state, Close. CORS handling is a function of the method and four header fields only, so
// any dependence on these shows up as a disagreement with the model.
var dressCount atomic.Int64 // serveOnce is also called from the concurrent families

func dressRequest(req *http.Request) {
	k := int(dressCount.Add(1))
	switch k % 7 {
	case 1:
		req.RequestURI = "*"
		req.URL = &url.URL{Path: "*"}
	case 2:
		req.RequestURI = "/a/b?c=d"
		req.URL = &url.URL{Path: "/a/b", RawQuery: "c=d"}
	case 3:
		req.RequestURI = "http://example.com/x"
		req.URL = &url.URL{Scheme: "http", Host: "example.com", Path: "/x"}
	case 4:
		req.RequestURI = "/"
	}
	switch k % 5 {
	case 1:
		req.Host = "example.com"
	case 2:
		req.Host = "attacker.example:8080"
	case 3:
		req.Host = "localhost"
	}
	switch k % 4 {
	case 1:
		req.Proto, req.ProtoMajor, req.ProtoMinor = "HTTP/2.0", 2, 0
	case 2:
		req.Proto, req.ProtoMajor, req.ProtoMinor = "HTTP/1.0", 1, 0
	case 3:
		req.Proto, req.ProtoMajor, req.ProtoMinor = "HTTP/1.1", 1, 1
	}
	switch k % 3 {
	case 1:
		req.ContentLength = 17
		req.RemoteAddr = "127.0.0.1:4711"
	case 2:
		req.ContentLength = -1
		req.RemoteAddr = "[2001:db8::1]:443"
		req.Close = true
	}
	if k%6 == 5 {
		req.TLS = &tls.ConnectionState{}
	}
}

// ---------- request suites derived from a configuration ----------

func originProbes(c *cors.Config, r R) []string {
	out := []string{"null", "https://example.com", "https://foo.example.com", "https://fooexample.com",
		"https://attacker.com", "http://example.com", "https://example.com:8443", "http://localhost:3000",
		"https://EXAMPLE.com", "https://example.com/", "https://user@example.com", "https://[x.example.com]",
		"https://example.com:08443", "https://example.com:123456", "https://exa\x00mple.com", "https://ex\xc3\xa9.com", "", "*",
		"https://a.example.com.evil.com", "https://xample.com", "https://example.com.",
		"https://192.168.1.10:8443", "https://[2001:db8::1]:8443", "https://127.0.0.1:8443", "https://[::1]",
		"http://[]:9", "https://[]:65535", "https://[]", "https://[", "https://]", "https://[]]:1", "https://[::1", "https://:443", "https://.", "a://[]:1"}
	if c != nil {
		for _, p := range c.Origins {
			if p == "*" || !strings.Contains(p, "://") {
				continue
			}
			nm := nearMisses(p)
			out = append(out, p) // the pattern text itself, presented as an origin
			out = append(out, nm[0], nm[2], nm[1])
			out = append(out, nm[r.Intn(len(nm))], nm[r.Intn(len(nm))])
			out = append(out, wrapPortOrigins(p)...)
			out = append(out, defaultPortOrigins(p)...)
			out = append(out, bracketedOrigins(p)...)
		}
	}
	return out
}

// matchingOrigins returns origins that the configuration's patterns denote (by construction).
func matchingOrigins(c *cors.Config) []string {
	var out []string
	if c == nil {
		return out
	}
	for _, p := range c.Origins {
		if p == "*" || !strings.Contains(p, "://") {
			continue
		}
		nm := nearMisses(p)
		if strings.Contains(p, "://*.") {
			out = append(out, nm[2], nm[3])
		} else {
			out = append(out, nm[0])
		}
	}
	return out
}

// genGoodPreflight builds a preflight that is likely to succeed under c (structured, mostly valid).
func genGoodPreflight(c *cors.Config, r R) reqT {
	q := reqT{method: "OPTIONS", hdrs: http.Header{}}
	mo := matchingOrigins(c)
	if len(mo) == 0 {
		mo = []string{"https://example.com"}
	}
	q.hdrs["Origin"] = []string{r.pick(mo)}
	meths := []string{"GET", "POST", "HEAD"}
	for _, m := range c.Methods {
		if m != "*" {
			meths = append(meths, m, strings.ToUpper(m))
		} else {
			meths = append(meths, "PUT", "PURGE", "patch")
		}
	}
	q.hdrs["Access-Control-Request-Method"] = []string{r.pick(meths)}
	var names []string
	star := false
	for _, n := range c.RequestHeaders {
		if n == "*" {
			star = true
		} else {
			names = append(names, strings.ToLower(n))
		}
	}
	if star {
		names = append(names, "x-anything", "x-other")
	}
	if len(names) > 1 && len(names) <= 12 && r.chance(1, 10) { // (nearly) every allowed name, padded, plus the whole budget of empty elements
		l := append([]string{}, names...)
		sort.Strings(l)
		uniq := l[:0]
		for i, n := range l {
			if i == 0 || n != l[i-1] {
				uniq = append(uniq, n)
			}
		}
		if r.chance(1, 2) && len(uniq) > 2 {
			k := r.Intn(len(uniq))
			uniq = append(uniq[:k], uniq[k+1:]...)
		}
		padded := make([]string, len(uniq))
		for i, n := range uniq {
			padded[i] = " " + n + " "
		}
		line := strings.Join(padded, ",") + strings.Repeat(",", 14+r.Intn(3))
		if r.chance(1, 2) {
			q.hdrs["Access-Control-Request-Headers"] = []string{line}
		} else {
			h := len(padded) / 2
			q.hdrs["Access-Control-Request-Headers"] = []string{strings.Join(padded[:h], ","), strings.Join(padded[h:], ",") + strings.Repeat(",", 14+r.Intn(3))}
		}
	} else if len(names) > 0 && r.chance(3, 4) {
		sel := map[string]bool{}
		for i := 0; i < 1+r.Intn(3); i++ {
			sel[r.pick(names)] = true
		}
		var l []string
		for n := range sel {
			l = append(l, n)
		}
		sort.Strings(l)
		q.hdrs["Access-Control-Request-Headers"] = perturbLines(r, l)
	}
	if (c.PrivateNetworkAccess || c.PrivateNetworkAccessInNoCORSModeOnly) && r.chance(1, 2) {
		q.hdrs["Access-Control-Request-Private-Network"] = []string{"true"}
	}
	// one deliberate defect in a quarter of the cases
	switch r.Intn(16) {
	case 0:
		q.hdrs["Origin"] = []string{"https://attacker.example"}
	case 1:
		q.hdrs["Access-Control-Request-Method"] = []string{"UNLISTED"}
	case 2:
		q.hdrs["Access-Control-Request-Headers"] = append(q.hdrs["Access-Control-Request-Headers"], "x-unlisted")
	case 3:
		q.hdrs["Access-Control-Request-Private-Network"] = []string{"true"}
	}
	addExtraReqHeaders(r, q)
	return q
}

// wrapPortOrigins: the origin a pattern denotes, with its port written modulo 2^64 / 2^32 (never allowed)
func wrapPortOrigins(pat string) []string {
	i := strings.LastIndexByte(pat, ':')
	if i < 0 || strings.HasSuffix(pat, "]") || strings.Contains(pat[i:], "/") {
		return nil
	}
	n, err := strconv.Atoi(pat[i+1:])
	if err != nil {
		return nil
	}
	base := strings.Replace(pat[:i], "://*.", "://sub.", 1)
	return []string{base + ":" + addDecimal("18446744073709551616", n), base + ":" + strconv.Itoa(n+1<<32)}
}

// defaultPortOrigins: the origin a port-less http/https pattern denotes, with the scheme's default port (and the other
// scheme's) spelled out - never allowed: serialized origins omit the default port
func defaultPortOrigins(pat string) []string {
	idx := strings.Index(pat, "://")
	if idx < 0 {
		return nil
	}
	rest := pat[idx+3:]
	if i := strings.LastIndexByte(rest, ':'); i >= 0 && !strings.HasSuffix(rest, "]") {
		return nil // the pattern has a port
	}
	base := pat[:idx+3] + strings.Replace(rest, "*.", "sub.", 1)
	return []string{base + ":443", base + ":80"}
}

// bracketedOrigins: the pattern's host (and `.`+base for a wildcard) inside brackets, which the lenient request-side
// parser strips whatever they enclose
func bracketedOrigins(pat string) []string {
	idx := strings.Index(pat, "://")
	if idx < 0 {
		return nil
	}
	scheme, rest := pat[:idx+3], pat[idx+3:]
	if strings.HasPrefix(rest, "[") {
		return nil
	}
	host, port := rest, ""
	if i := strings.LastIndexByte(rest, ':'); i >= 0 {
		host, port = rest[:i], port0(rest[i:])
	}
	base := strings.TrimPrefix(host, "*.")
	return []string{scheme + "[." + base + "]" + port, scheme + "[" + base + "]" + port, scheme + "[a." + base + "]" + port}
}

func genRequest(c *cors.Config, r R) reqT {
	if c != nil && r.chance(2, 5) {
		return genGoodPreflight(c, r)
	}
	q := reqT{hdrs: http.Header{}}
	q.method = r.pick([]string{"GET", "GET", "POST", "OPTIONS", "OPTIONS", "OPTIONS", "OPTIONS", "PUT", "DELETE", "options", "PATCH", "HEAD", "OPTIONS ", ""})
	ops := originProbes(c, r)
	// Origin
	switch r.Intn(12) {
	case 0: // absent
	case 1:
		q.hdrs["Origin"] = []string{}
	case 2:
		q.hdrs["Origin"] = []string{""}
	case 3:
		q.hdrs["Origin"] = []string{r.pick(ops), r.pick(ops)}
	case 4:
		q.hdrs["origin"] = []string{r.pick(ops)} // non-canonical key
	default:
		if mo := matchingOrigins(c); len(mo) > 0 && r.chance(1, 2) {
			q.hdrs["Origin"] = []string{r.pick(mo)}
		} else if c != nil && len(c.Origins) > 0 && r.chance(1, 6) {
			q.hdrs["Origin"] = []string{c.Origins[r.Intn(min(len(c.Origins), 3))]} // a configured pattern, verbatim
		} else {
			q.hdrs["Origin"] = []string{r.pick(ops)}
		}
	}
	// ACRM
	meths := []string{"PUT", "DELETE", "PATCH", "GET", "POST", "HEAD", "put", "patch", "PURGE", "CONNECT", "QUERY", "OPTIONS", "", "a b", "*"}
	if c != nil {
		meths = append(meths, c.Methods...)
	}
	switch r.Intn(8) {
	case 0, 1: // absent
	case 2:
		q.hdrs["Access-Control-Request-Method"] = []string{}
	case 3:
		q.hdrs["Access-Control-Request-Method"] = []string{r.pick(meths), r.pick(meths)}
	default:
		q.hdrs["Access-Control-Request-Method"] = []string{r.pick(meths)}
	}
	// ACRH
	names := []string{"content-type", "x-foo", "authorization", "x-bar", "x-abc", "accept", "x-unlisted", "cookie", "Content-Type", "x-fo", "x-fooo"}
	if c != nil {
		for _, n := range c.RequestHeaders {
			if n != "*" {
				names = append(names, strings.ToLower(n))
			}
		}
	}
	switch r.Intn(10) {
	case 0, 1, 2: // absent
	case 3:
		q.hdrs["Access-Control-Request-Headers"] = []string{}
	case 4:
		q.hdrs["Access-Control-Request-Headers"] = []string{""}
	case 6: // the configured names in the order (and grouping) they were configured in, lower-cased
		if c != nil && len(c.RequestHeaders) > 0 {
			var l []string
			for _, n := range c.RequestHeaders {
				if n != "*" {
					l = append(l, strings.ToLower(n))
				}
			}
			if r.chance(1, 2) {
				q.hdrs["Access-Control-Request-Headers"] = []string{strings.Join(l, ",")}
			} else {
				q.hdrs["Access-Control-Request-Headers"] = perturbLines(r, l)
			}
		}
	case 5: // junk
		q.hdrs["Access-Control-Request-Headers"] = []string{r.pick([]string{",,,", "  ", "x-foo,,x-bar", "\x00", "x-foo;x-bar", strings.Repeat(",", 17), strings.Repeat("a", 300), "X-FOO"})}
	default:
		k := 1 + r.Intn(4)
		sel := map[string]bool{}
		for i := 0; i < k; i++ {
			sel[r.pick(names)] = true
		}
		var l []string
		for n := range sel {
			l = append(l, n)
		}
		sort.Strings(l)
		if r.chance(1, 8) {
			l = r.perm(l)
		}
		q.hdrs["Access-Control-Request-Headers"] = perturbLines(r, l)
	}
	// ACRPN
	switch r.Intn(8) {
	case 0:
		q.hdrs["Access-Control-Request-Private-Network"] = []string{"true"}
	case 1:
		q.hdrs["Access-Control-Request-Private-Network"] = []string{r.pick([]string{"TRUE", "false", "", "true "})}
	case 2:
		q.hdrs["Access-Control-Request-Private-Network"] = []string{"true", "false"}
	case 3:
		q.hdrs["Access-Control-Request-Private-Network"] = []string{}
	}
	if r.chance(1, 4) {
		q.hdrs[r.pick([]string{"X-Unrelated", "Cookie", "access-control-request-method", "Vary"})] = []string{r.pick([]string{"1", "PUT", "Origin"})}
	}
	addExtraReqHeaders(r, q)
	return q
}

// perturbLines renders a list of names as ACRH field lines with the tolerated intermediary alterations.
func perturbLines(r R, l []string) []string {
	switch r.Intn(4) {
	case 0:
		return []string{strings.Join(l, ",")}
	case 1:
		return []string{strings.Join(l, ", ")}
	case 2: // split over several lines
		if len(l) < 2 {
			return []string{strings.Join(l, ",")}
		}
		k := 1 + r.Intn(len(l)-1)
		return []string{strings.Join(l[:k], ","), strings.Join(l[k:], ",")}
	default: // OWS and empties
		var parts []string
		empties := 0 // the library tolerates at most 16 empty elements in all; a permitted intent stays below that
		for _, n := range l {
			if empties < 12 && r.chance(1, 4) {
				empties++
				parts = append(parts, "")
			}
			parts = append(parts, r.pick([]string{"", " ", "\t"})+n+r.pick([]string{"", " ", "\t"}))
		}
		return []string{strings.Join(parts, ",")}
	}
}

func genPre(r R, allowCORSNames bool) http.Header {
	h := http.Header{}
	switch r.Intn(7) {
	case 0:
		h["Vary"] = []string{"Accept-Encoding"}
	case 1:
		h["Vary"] = []string{"Cookie", "Accept"}
	case 2:
		h["Vary"] = []string{}
	case 3:
		h["Vary"] = []string{r.pick([]string{"X-Forwarded-Origin", "X-Origin-Region", "Origin-Agent-Cluster"}), "Accept-Language"}
	}
	if r.chance(1, 4) {
		h["X-Pre"] = []string{"1"}
	}
	if r.chance(1, 6) {
		h["Content-Type"] = []string{"text/plain"}
	}
	if allowCORSNames && r.chance(1, 5) {
		h[r.pick([]string{"Access-Control-Allow-Origin", "Access-Control-Expose-Headers", "Access-Control-Allow-Headers", "Access-Control-Max-Age"})] = []string{"preset"}
	}
	return h
}

func newMW(c *cors.Config, debug bool) *cors.Middleware {
	if c == nil {
		return new(cors.Middleware)
	}
	m, err := cors.NewMiddleware(*c)
	if err != nil {
		return nil
	}
	m.SetDebug(debug)
	return m
}

func isPreflightReq(q reqT) bool {
	return q.method == "OPTIONS" && len(q.hdrs["Origin"]) > 0 && len(q.hdrs["Access-Control-Request-Method"]) > 0
}

// famServe: single requests (C03, C11, C16)
func famServeWant(want ...string) family {
	return func(o *Out, r R, tier string) {
		ncfg, nreq := 250, 24
		if tier == "thorough" {
			ncfg, nreq = 4000, 60
		}
		w := make(SL, len(want))
		for i, s := range want {
			w[i] = Y(s)
		}
		emitOne := func(c *cors.Config, debug bool, m *cors.Middleware, q reqT, kind string) {
			pre := http.Header{}
			out := serveOnce(m, q, pre)
			o.emit("serve", len(out.hdrs["Access-Control-Allow-Origin"]) > 0 || isPreflightReq(q), kind,
				KV("cfg", cfgSX(c)), KV("debug", Bool(debug)), KV("req", q.sx()), KV("pre", hdrSX(pre)),
				KV("impl", out.sx()), KV("want", w), oracleForCfg(c))
			if out.panicked || out.calls > 1 || !out.sameArgs || (!out.delegated && out.body != 0) {
				o.emitDirect("serve-runtime", false, "panic/calls/identity/body: "+str(q.sx()))
			}
		}
		// deterministic tree stress (1): one host under several schemes with several ports each, in three insertion
		// orders; every (scheme, port) pair in play is presented, as an actual request and as a preflight
		for variant := 0; variant < 3; variant++ {
			schemes := []string{"app", "http", "https", "tauri", "zz"}
			ports := []string{"", ":3000", ":8443", ":9000"}
			var pats []string
			for si, sc := range schemes {
				pats = append(pats, sc+"://localhost"+ports[si%len(ports)])
			}
			for si, sc := range schemes { // second and third ports, after every scheme has its list
				if si%2 == variant%2 {
					pats = append(pats, sc+"://localhost"+ports[(si+1)%len(ports)])
				}
				if si == 2 {
					pats = append(pats, sc+"://localhost"+ports[(si+2)%len(ports)])
				}
			}
			switch variant {
			case 1:
				for i, j := 0, len(pats)-1; i < j; i, j = i+1, j-1 {
					pats[i], pats[j] = pats[j], pats[i]
				}
			case 2:
				pats = r.perm(pats)
			}
			c := &cors.Config{Origins: pats, Credentialed: true, Methods: []string{"PUT"}, ExtraConfig: cors.ExtraConfig{DangerouslyTolerateInsecureOrigins: true}}
			for _, debug := range []bool{false, true} {
				m := newMW(c, debug)
				if m == nil {
					continue
				}
				for _, sc := range schemes {
					for _, pt := range append(ports, ":1") {
						og := sc + "://localhost" + pt
						emitOne(c, debug, m, reqT{method: "GET", hdrs: http.Header{"Origin": {og}}}, "tree-stress/schemes-ports")
						emitOne(c, debug, m, reqT{method: "OPTIONS", hdrs: http.Header{"Origin": {og}, "Access-Control-Request-Method": {"PUT"}}}, "tree-stress/schemes-ports")
					}
				}
			}
		}
		// deterministic tree stress (2): a bracketed Origin carries any byte; every byte value is placed in front of, inside
		// and behind a complete allowed host
		{
			c := &cors.Config{Origins: []string{"https://example.com", "https://api.example.com:8443", "https://*.example.org"}, Credentialed: true}
			m := newMW(c, false)
			for b := 0; m != nil && b < 256; b++ {
				bs := string([]byte{byte(b)})
				for _, og := range []string{"https://[" + bs + "example.com]", "https://[evil.test" + bs + "example.com]", "https://[example.com" + bs + "]",
					"https://[" + bs + "api.example.com]:8443", "https://[exam" + bs + "ple.com]", "https://[a" + bs + "example.org]", "https://[" + bs + ".example.org]"} {
					emitOne(c, false, m, reqT{method: "GET", hdrs: http.Header{"Origin": {og}}}, "tree-stress/bracket-bytes")
				}
			}
		}
		// deterministic tree stress (3): well-formed non-ASCII code points in host position under a wildcard and next to an
		// exact pattern (a scanner that decodes runes and keeps the low byte takes U+0161 for `a`)
		{
			c := &cors.Config{Origins: []string{"https://example.com", "https://*.example.org"}, Credentialed: true}
			m := newMW(c, false)
			var cps []rune
			for cp := rune(0x100); cp < 0x250; cp++ {
				cps = append(cps, cp)
			}
			cps = append(cps, 0x430, 0x435, 0x43e, 0x4e61, 0x3b1, 0x212a, 0x17f, 0x130, 0xff41, 0x1d41a, 0x10161, 0xe0061)
			for _, cp := range cps {
				if m == nil {
					break
				}
				for _, og := range []string{"https://" + string(cp) + ".example.org", "https://p" + string(cp) + "ypal.example.org", "https://ex" + string(cp) + "mple.com"} {
					emitOne(c, false, m, reqT{method: "GET", hdrs: http.Header{"Origin": {og}}}, "tree-stress/code-points")
				}
			}
		}
		// deterministic prefix stress: every prefix and suffix of listed origins (incl. a maximal one) as the Origin value
		{
			maxO := "a" + strings.Repeat("b", 63) + "://" + longHost(253, 'a') + ".:65535"
			c := &cors.Config{Origins: []string{"https://api.example.com:8443", maxO, "http://[2001:db8::1]:9090"}, Credentialed: true, ExtraConfig: cors.ExtraConfig{DangerouslyTolerateInsecureOrigins: true}}
			m := newMW(c, false)
			for _, full := range c.Origins {
				for k := 0; m != nil && k <= len(full); k++ {
					if len(full) > 100 && k > 90 && k < len(full)-12 && k%7 != 0 {
						continue
					}
					emitOne(c, false, m, reqT{method: "GET", hdrs: http.Header{"Origin": {full[:k]}}}, "prefix-stress/origin")
					emitOne(c, false, m, reqT{method: "GET", hdrs: http.Header{"Origin": {full[k:]}}}, "prefix-stress/origin")
				}
			}
		}
		// deterministic coincidence stress: one ACRH line naming a SUBSET of the allowed names, padded with empty elements to
		// the exact byte length of the full joined list (and one byte around it)
		for _, names := range [][]string{{"X-Bar", "X-Foo"}, {"A", "Bb", "Ccc", "Dddd"}, {"Content-Type", "X-Requested-With"}} {
			c := &cors.Config{Origins: []string{"https://example.com"}, RequestHeaders: names, Methods: []string{"PUT"}}
			lower := make([]string, len(names))
			for i, n := range names {
				lower[i] = strings.ToLower(n)
			}
			sort.Strings(lower)
			full := len(strings.Join(lower, ","))
			for _, debug := range []bool{false, true} {
				m := newMW(c, debug)
				if m == nil {
					continue
				}
				for mask := 0; mask < 1<<len(lower) && mask < 16; mask++ {
					var sub []string
					for i, n := range lower {
						if mask&(1<<i) != 0 {
							sub = append(sub, n)
						}
					}
					base := strings.Join(sub, ",")
					for d := -1; d <= 1; d++ {
						pad := full + d - len(base)
						if pad < 0 || pad > 16 {
							continue
						}
						for _, line := range []string{base + strings.Repeat(",", pad), strings.Repeat(",", pad) + base} {
							emitOne(c, debug, m, reqT{method: "OPTIONS", hdrs: http.Header{"Origin": {"https://example.com"}, "Access-Control-Request-Method": {"PUT"}, "Access-Control-Request-Headers": {line}}}, "coincidence-stress/acrh-length")
						}
					}
				}
			}
		}
		// deterministic multiplicity stress: blank and doubled field lines around good values of the three single-valued headers
		{
			c := &cors.Config{Origins: []string{"https://example.com"}, Credentialed: true, Methods: []string{"PUT"}, ResponseHeaders: []string{"X-R"}, ExtraConfig: cors.ExtraConfig{PrivateNetworkAccess: true}}
			for _, debug := range []bool{false, true} {
				m := newMW(c, debug)
				if m == nil {
					continue
				}
				for _, ov := range [][]string{{"", "https://example.com"}, {" ", "https://example.com"}, {"https://example.com", ""}, {"https://attacker.example", "https://example.com"}, {"https://example.com", "https://attacker.example"}, {"", ""}} {
					emitOne(c, debug, m, reqT{method: "GET", hdrs: http.Header{"Origin": ov}}, "multiplicity-stress")
					for _, mv := range [][]string{{"PUT"}, {"", "PUT"}, {"DELETE", "PUT"}, {"PUT", "DELETE"}} {
						for _, pv := range [][]string{nil, {"", "true"}, {"true", "false"}} {
							h := http.Header{"Origin": ov, "Access-Control-Request-Method": mv}
							if pv != nil {
								h["Access-Control-Request-Private-Network"] = pv
							}
							emitOne(c, debug, m, reqT{method: "OPTIONS", hdrs: h}, "multiplicity-stress")
						}
					}
				}
			}
		}
		// deterministic size stress: requested-header lists of 9 000 bytes in one line and in 2 000 lines, from an allowed
		// and from a disallowed origin, with an allowed and a disallowed method (the refusal must look the same)
		{
			c := &cors.Config{Origins: []string{"https://example.com"}, Credentialed: true, Methods: []string{"PUT"}, RequestHeaders: []string{"X-Api-Key"}}
			many := make([]string, 2000)
			for k := range many {
				many[k] = "x-bar"
			}
			for _, debug := range []bool{false, true} {
				m := newMW(c, debug)
				if m == nil {
					continue
				}
				for _, og := range []string{"https://example.com", "https://attacker.example"} {
					for _, meth := range []string{"PUT", "DELETE"} {
						for _, acrh := range [][]string{{"x-" + strings.Repeat("a", 9000)}, many, {"x-api-key" + strings.Repeat(" ", 9000)}, {strings.Repeat(",", 9000)}} {
							emitOne(c, debug, m, reqT{method: "OPTIONS", hdrs: http.Header{"Origin": {og}, "Access-Control-Request-Method": {meth}, "Access-Control-Request-Headers": acrh}}, "size-stress/acrh")
						}
					}
				}
			}
		}
		for i := 0; i < ncfg; i++ {
			var c *cors.Config
			if i%25 != 24 {
				cc := genValidConfig(r)
				c = &cc
			}
			for _, debug := range []bool{false, true} {
				m := newMW(c, debug)
				if m == nil {
					continue // a valid-by-construction configuration that is rejected is reported by the config family
				}
				for j := 0; j < nreq/2; j++ {
					q := genRequest(c, r)
					pre := genPre(r, want[0] == "c11")
					out := serveOnce(m, q, pre)
					kind := "noncors"
					switch {
					case c == nil:
						kind = "passthrough"
					case isPreflightReq(q):
						kind = "preflight"
						if out.status != 403 {
							kind = "preflight-ok"
						}
					case len(q.hdrs["Origin"]) > 0:
						kind = "actual"
					}
					if debug {
						kind += "/debug"
					}
					o.emit("serve", c != nil && (len(out.hdrs["Access-Control-Allow-Origin"]) > 0 || isPreflightReq(q)), kind,
						KV("cfg", cfgSX(c)), KV("debug", Bool(debug)), KV("req", q.sx()), KV("pre", hdrSX(pre)),
						KV("impl", out.sx()), KV("want", w), oracleForCfg(c))
					if out.panicked || out.calls > 1 || !out.sameArgs || (!out.delegated && out.body != 0) {
						o.emitDirect("serve-runtime", false, "panic/calls/identity/body: "+str(q.sx()))
					}
				}
			}
		}
	}
}

func oracleForCfg(c *cors.Config) SX {
	if c == nil {
		return oracleFor(nil)
	}
	return oracleFor(c.Origins)
}
