//go:build verif

package main

import (
	"net/netip"
	"strconv"
	"strings"
)

// ---------- generative atoms ----------
//
// The literal atom lists of config.go exercise the documented cases; the generators below draw names, methods,
// hosts and counts from the whole documented grammar, with lengths and list sizes biased towards the places where
// implementations keep thresholds (powers of two and their neighbours). Every generated atom is valid (or invalid)
// BY CONSTRUCTION from the documentation - the implementation is never consulted.

const (
	gLower      = "abcdefghijklmnopqrstuvwxyz"
	gUpper      = "ABCDEFGHIJKLMNOPQRSTUVWXYZ"
	gDigits     = "0123456789"
	gTcharOther = "!#$%&'+-.^_`|~" // RFC 9110 tchar minus ALPHA, DIGIT and `*` (kept out: `*` alone is the wildcard)
)

var (
	boundaryCounts = []int{0, 1, 2, 3, 4, 5, 7, 8, 9, 10, 12, 15, 16, 17, 18, 20, 24, 31, 32, 33, 40}
	boundaryLens   = []int{1, 2, 3, 4, 5, 7, 8, 9, 15, 16, 17, 31, 32, 33, 37, 38, 39, 40, 41, 62, 63, 64, 65, 66, 70, 75, 100, 127, 128, 129, 200, 255, 256, 257}
)

func genLen(r R) int {
	if r.chance(2, 3) {
		return 1 + r.Intn(12)
	}
	return boundaryLens[r.Intn(len(boundaryLens))]
}

func genCount(r R) int { return boundaryCounts[r.Intn(len(boundaryCounts))] }

// genTokenBody: n token bytes. style 0: lower-case letters, digits and `-`; 1: every tchar, both cases;
// 2: upper case; 3: lower case with a single upper-case letter at a random position; 4: lower case with `_`/`^`
// right after an upper-case letter.
func genTokenBody(r R, n, style int) string {
	b := make([]byte, n)
	for i := range b {
		switch style {
		case 0, 3:
			b[i] = (gLower + gLower + gDigits + "-")[r.Intn(26+26+10+1)]
		case 2:
			b[i] = (gUpper + gUpper + gDigits + "-")[r.Intn(26+26+10+1)]
		case 4:
			b[i] = (gLower + gUpper + "__^^-")[r.Intn(26+26+5)]
		default:
			all := gLower + gUpper + gDigits + gTcharOther
			b[i] = all[r.Intn(len(all))]
		}
	}
	if style == 3 && n > 0 {
		i := r.Intn(n)
		b[i] = gUpper[r.Intn(26)]
	}
	return string(b)
}

// genHdrName: a valid header name that is neither forbidden nor prohibited, by construction: it starts with a
// letter other than those that begin any forbidden/prohibited name family followed by a separator.
func genHdrName(r R) string {
	head := r.pick([]string{"x-", "X-", "x_", "X_", "x^", "Z-", "z.", "q~", "Q_", "x", "X"})
	return head + genTokenBody(r, genLen(r), r.Intn(5))
}

// genForbiddenHdrName: a request-header name forbidden by its prefix (Fetch: `proxy-` / `sec-`, byte-case-insensitively),
// of any length.
func genForbiddenHdrName(r R) string {
	p := r.pick([]string{"sec-", "Sec-", "SEC-", "sEc-", "proxy-", "Proxy-", "PROXY-", "pRoXy-"})
	return p + genTokenBody(r, genLen(r), r.Intn(4))
}

// genMethod: a valid method that is not forbidden (CONNECT, TRACE, TRACK in any case), by construction.
func genMethod(r R) string {
	head := r.pick([]string{"M", "m", "X-", "q_", "PU", "GE", "Z"})
	return head + genTokenBody(r, genLen(r), r.Intn(5))
}

// names whose only fault is a non-ASCII rune that Unicode case mapping folds into ASCII (U+212A KELVIN SIGN -> k,
// U+017F LONG S -> S, U+0130 -> i + combining dot): they are not tokens and must be rejected as invalid.
var (
	hdrNamesUnicodeFold = []string{"X-Api-\u212Aey", "x-\u017Fecret", "\u017Fec-foo", "Coo\u212Aie", "x-\u0130d", "X-\u212A", "content-type\u212A"}
	// a wildcard over a public suffix listed AFTER a wildcard over its (non-public) parent, and the other way round
	originsPSLNested = [][]string{{"https://*.amazonaws.com", "https://*.s3.amazonaws.com"}, {"https://*.kobe.jp", "https://*.foo.kobe.jp"},
		{"https://*.fastly.net.:*", "https://*.global.ssl.fastly.net.:8443"}, {"https://*.s3.amazonaws.com", "https://*.amazonaws.com"},
		{"https://example.com", "https://*.amazonaws.com:*", "https://*.s3.amazonaws.com:8443"}}
	methodsUnicodeFold = []string{"po\u017Ft", "PO\u017FT", "ge\u0165", "dele\u0167e", "TRAC\u212A", "put\u017F", "\u212AILL", "PATC\u0127"}
)

// ---------- hosts ----------

// genSiblings: n host names that are siblings below one node of a radix tree over reversed hosts (they differ in
// the byte right before a common suffix), in sorted, reverse or random order.
func genSiblings(r R, n int) []string {
	const alnum = gLower + gDigits
	suffix := r.pick([]string{".example.com", ".example.org", "x.example.net", "-svc.example.com"})
	perm := r.Perm(len(alnum))
	if n > len(alnum) {
		n = len(alnum)
	}
	out := make([]string, n)
	for i := 0; i < n; i++ {
		out[i] = string(alnum[perm[i]]) + suffix
		if suffix[0] != '.' {
			out[i] = "h" + out[i]
		}
	}
	switch r.Intn(3) {
	case 0:
		sortStrings(out)
	case 1:
		sortStrings(out)
		for i, j := 0, len(out)-1; i < j; i, j = i+1, j-1 {
			out[i], out[j] = out[j], out[i]
		}
	}
	return out
}

// genIPv6: a canonical (RFC 5952) non-loopback, non-IPv4-mapped IPv6 address in brackets; canonical form obtained
// from the standard library's printer (not from the code under test).
func genIPv6(r R) string {
	var a [16]byte
	for i := 0; i < 8; i++ {
		var h int
		switch r.Intn(5) {
		case 0:
			h = 0
		case 1:
			h = r.Intn(16)
		case 2:
			h = r.Intn(256)
		case 3:
			h = 0x1000 + r.Intn(0xf000) // four hex digits
		default:
			h = r.Intn(65536)
		}
		a[2*i], a[2*i+1] = byte(h>>8), byte(h)
	}
	if a[0] == 0 && a[1] == 0 { // keep clear of ::, ::1, ::ffff:a.b.c.d and other IPv4-embedding forms
		a[0], a[1] = 0x20, 0x01
	}
	return "[" + netip.AddrFrom16(a).String() + "]"
}

func genPort(r R, scheme string) string {
	switch r.Intn(6) {
	case 0:
		return ":*"
	case 1, 2:
		p := 1 + r.Intn(65535)
		if (scheme == "http" && p == 80) || (scheme == "https" && p == 443) {
			p = 8443
		}
		return ":" + strconv.Itoa(p)
	}
	return ""
}

// genInsecureOrigin: a documented-permitted pattern that is "insecure" (scheme other than https, host not
// loopback): schemes that merely begin with http, custom schemes, non-loopback IP hosts.
func genInsecureOrigin(r R) string {
	scheme := r.pick([]string{"http", "httpx", "http+unix", "https-proxy", "https+insecure", "httpss", "htt", "connector", "a1+-."})
	var host string
	switch r.Intn(4) {
	case 0:
		host = genIPv6(r)
	case 1:
		host = strconv.Itoa(1+r.Intn(9)) + "." + strconv.Itoa(r.Intn(256)) + "." + strconv.Itoa(r.Intn(256)) + "." + strconv.Itoa(1+r.Intn(254))
		if strings.HasPrefix(host, "127.") {
			host = "10" + host[3:]
		}
	default:
		host = r.pick([]string{"", "*."}) + genLabel(r, 8) + r.pick([]string{".example.com", ".example.org"})
	}
	return scheme + "://" + host + genPort(r, scheme)
}

// extra request headers a browser or an intermediary may attach; the middleware's behaviour must not depend on them
var extraReqHeaders = map[string][]string{
	"Sec-Fetch-Site":                       {"same-origin", "cross-site", "same-site", "none"},
	"Sec-Fetch-Mode":                       {"cors", "no-cors", "navigate", "same-origin", "websocket"},
	"Sec-Fetch-Dest":                       {"empty", "document", "script"},
	"Sec-Fetch-User":                       {"?1"},
	"Sec-Purpose":                          {"prefetch"},
	"Sec-Gpc":                              {"1"},
	"Cookie":                               {"sid=42", ""},
	"Authorization":                        {"Bearer x", "Basic dTpw"},
	"Proxy-Authorization":                  {"Basic dTpw"},
	"Referer":                              {"https://example.com/", "https://attacker.example/"},
	"Host":                                 {"example.com", "localhost:8080"},
	"X-Forwarded-Host":                     {"example.com"},
	"X-Forwarded-Proto":                    {"https", "http"},
	"X-Forwarded-For":                      {"127.0.0.1", "10.0.0.1"},
	"Forwarded":                            {"for=127.0.0.1;proto=https"},
	"Via":                                  {"1.1 proxy"},
	"Connection":                           {"keep-alive", "close", "Upgrade"},
	"Upgrade":                              {"websocket"},
	"Upgrade-Insecure-Requests":            {"1"},
	"Content-Length":                       {"0", "17"},
	"Content-Type":                         {"application/json", "text/plain"},
	"Accept":                               {"*/*"},
	"Accept-Encoding":                      {"gzip"},
	"Cache-Control":                        {"no-cache", "max-age=0"},
	"Pragma":                               {"no-cache"},
	"If-None-Match":                        {"\"abc\""},
	"User-Agent":                           {"Mozilla/5.0", "curl/8"},
	"Dnt":                                  {"1"},
	"Te":                                   {"trailers"},
	"Priority":                             {"u=1, i"},
	"X-Requested-With":                     {"XMLHttpRequest"},
	"X-Http-Method-Override":               {"PUT", "DELETE"},
	"Access-Control-Request-Local-Network": {"true"},
	"Access-Control-Allow-Origin":          {"*"},
	"Purpose":                              {"prefetch"},
	"X-Unrelated":                          {"1", "PUT", "Origin"},
}

var extraReqHeaderKeys = func() []string {
	keys := make([]string, 0, len(extraReqHeaders))
	for k := range extraReqHeaders {
		keys = append(keys, k)
	}
	sortStrings(keys)
	return keys
}()

func addExtraReqHeaders(r R, q reqT) {
	n := 0
	switch r.Intn(4) {
	case 0:
		n = 1
	case 1:
		n = 1 + r.Intn(4)
	}
	for ; n > 0; n-- {
		k := r.pick(extraReqHeaderKeys)
		q.hdrs[k] = []string{r.pick(extraReqHeaders[k])}
	}
}
