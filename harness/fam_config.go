//go:build verif

package main

import (
	"reflect"
	"strconv"
	"strings"

	"github.com/jub0bs/cors"
	"github.com/jub0bs/cors/cfgerrors"
)

// errSX renders one configuration error as (type fields...), checking that it is a non-nil
// pointer to an exported cfgerrors type whose message starts with "cors: ".
func errSX(e error) (SX, bool) {
	ok := e != nil && strings.HasPrefix(e.Error(), "cors: ")
	switch e := e.(type) {
	case *cfgerrors.UnacceptableOriginPatternError:
		return L(Y("origin"), B(e.Value), Y(e.Reason)), ok && e != nil
	case *cfgerrors.UnacceptableMethodError:
		return L(Y("method"), B(e.Value), Y(e.Reason)), ok && e != nil
	case *cfgerrors.UnacceptableHeaderNameError:
		return L(Y("header"), B(e.Value), Y(e.Type), Y(e.Reason)), ok && e != nil
	case *cfgerrors.MaxAgeOutOfBoundsError:
		return L(Y("maxage"), I(e.Value), I(e.Default), I(e.Max), I(e.Disable)), ok && e != nil
	case *cfgerrors.PreflightSuccessStatusOutOfBoundsError:
		return L(Y("status"), I(e.Value), I(e.Default), I(e.Min), I(e.Max)), ok && e != nil
	case *cfgerrors.IncompatibleOriginPatternError:
		return L(Y("incompat-origin"), B(e.Value), Y(e.Reason)), ok && e != nil
	case *cfgerrors.IncompatiblePrivateNetworkAccessModesError:
		return L(Y("incompat-pna")), ok && e != nil
	case *cfgerrors.IncompatibleWildcardResponseHeaderNameError:
		return L(Y("incompat-wildcard-reshdr")), ok && e != nil
	}
	return L(Y("unknown"), B(reflect.TypeOf(e).String())), false
}

var (
	prevErr    error
	prevErrSX  string
	prevErrMsg string
)

func runConfig(c cors.Config) (accepted bool, errs SL, typedOK, nilMW bool, cfgOut SX, panicked bool) {
	defer func() {
		if recover() != nil {
			panicked = true
		}
	}()
	m, err := cors.NewMiddleware(cloneCfg(c))
	typedOK = true
	nilMW = m == nil
	cfgOut = Y("none")
	if err == nil {
		accepted = true
		if m != nil {
			cfgOut = cfgSX(m.Config())
		}
		return
	}
	msg0 := err.Error()
	// an error keeps saying what it said: the previous rejection's error is re-read now that another validation has run
	// (error values shared or recycled between validations would by now describe this configuration)
	if prevErr != nil {
		var now SL
		for e := range cfgerrors.All(prevErr) {
			x, _ := errSX(e)
			now = append(now, x)
		}
		if str(now) != prevErrSX || prevErr.Error() != prevErrMsg {
			typedOK = false
		}
	}
	defer func() {
		prevErr, prevErrSX, prevErrMsg = err, str(errs), msg0
	}()
	var first []error
	for e := range cfgerrors.All(err) {
		x, ok := errSX(e)
		errs = append(errs, x)
		typedOK = typedOK && ok
		first = append(first, e)
	}
	// traversing the error does not consume or alter it: a second traversal yields the same errors, the message is unchanged
	i := 0
	for e := range cfgerrors.All(err) {
		if i >= len(first) || first[i] != e {
			typedOK = false
		}
		i++
	}
	if i != len(first) || err.Error() != msg0 {
		typedOK = false
	}
	// Reconfigure must agree with NewMiddleware
	var z cors.Middleware
	cc := cloneCfg(c)
	if z.Reconfigure(&cc) == nil {
		typedOK = false
	}
	return
}

// famConfig: validation (C04, C05) and the rendering of Config() on acceptance.
func famConfig(o *Out, r R, tier string) {
	n := 4000
	if tier == "thorough" {
		n = 80000
	}
	emit := func(kind string, c cors.Config) {
		acc, errs, typed, nilmw, cfgOut, p := runConfig(c)
		if acc {
			kind += "/accepted"
		} else {
			kind += "/rejected"
		}
		if errs == nil {
			errs = SL{}
		}
		o.emit("config", true, kind, KV("cfg", cfgSX(&c)), KV("accepted", Bool(acc)), KV("errors", errs),
			KV("typedok", Bool(typed && !p)), KV("nilmw", Bool(nilmw)), KV("config", cfgOut), oracleFor(c.Origins))
	}
	// every single defective atom alone, on an otherwise valid configuration
	base := cors.Config{Origins: []string{"https://example.com"}}
	for _, d := range originsDefect {
		c := cloneCfg(base)
		c.Origins = []string{d}
		emit("single-origin-defect", c)
		c.Origins = []string{"https://example.com", d, "https://*.example.com"}
		emit("single-origin-defect", c)
	}
	for _, l := range originsPSLNested {
		for _, tol := range []bool{false, true} {
			c := cors.Config{Origins: append([]string{}, l...)}
			c.DangerouslyTolerateSubdomainsOfPublicSuffixes = tol
			emit("psl-nested", c)
		}
	}
	for _, d := range originsACE {
		c := cloneCfg(base)
		c.Origins = []string{"https://example.com", d}
		emit("single-origin-ace", c)
	}
	for _, d := range methodsDefect {
		c := cloneCfg(base)
		c.Methods = []string{"PUT", d}
		emit("single-method-defect", c)
	}
	for _, d := range reqHdrsDefect {
		c := cloneCfg(base)
		c.RequestHeaders = []string{d, "X-Foo"}
		emit("single-reqhdr-defect", c)
	}
	// forbidden by prefix at every length around the lengths of the listed forbidden names
	for _, pre := range []string{"sec-", "Sec-", "proxy-", "PROXY-"} {
		for l := 0; l <= 70; l++ {
			c := cloneCfg(base)
			c.RequestHeaders = []string{pre + strings.Repeat("a", l)}
			emit("single-reqhdr-defect", c)
		}
	}
	for _, d := range hdrNamesUnicodeFold {
		c := cloneCfg(base)
		c.RequestHeaders = []string{"X-Foo", d}
		emit("single-reqhdr-defect", c)
		c = cloneCfg(base)
		c.ResponseHeaders = []string{d, "X-Foo"}
		emit("single-reshdr-defect", c)
	}
	for _, d := range methodsUnicodeFold {
		c := cloneCfg(base)
		c.Methods = []string{d}
		emit("single-method-defect", c)
	}
	// valid names of every length (case conversion buffers), in four spellings
	for l := 1; l <= 140; l += 1 + l/24 {
		for style := 0; style < 5; style++ {
			c := cloneCfg(base)
			c.RequestHeaders = []string{"x-" + genTokenBody(r, l, style)}
			c.ResponseHeaders = []string{"X-" + genTokenBody(r, l, style)}
			c.Methods = []string{"M" + genTokenBody(r, l, style)}
			emit("name-lengths", c)
		}
	}
	// every byte value inside a method, a request-header name and a response-header name (valid iff the byte is a tchar)
	for bv := 0; bv < 256; bv++ {
		c := cloneCfg(base)
		ch := string([]byte{byte(bv)})
		c.Methods = []string{"PU" + ch + "RGE"}
		c.RequestHeaders = []string{"x" + ch + "name"}
		c.ResponseHeaders = []string{"y" + ch + "name"}
		emit("byte-in-name", c)
		c2 := cloneCfg(base)
		c2.Methods = []string{ch + "PURGE" + ch}
		emit("byte-in-name", c2)
	}
	for _, d := range resHdrsDefect {
		c := cloneCfg(base)
		c.ResponseHeaders = []string{d}
		emit("single-reshdr-defect", c)
	}
	for _, v := range append(append(append([]int{}, maxAges...), maxAgesDefect...), append(wrapInts(600), wrapInts(86400)...)...) {
		c := cloneCfg(base)
		c.MaxAgeInSeconds = v
		emit("maxage", c)
	}
	for _, v := range append(append(append([]int{}, statuses...), statusesDefect...), append(wrapInts(204), wrapInts(299)...)...) {
		c := cloneCfg(base)
		c.PreflightSuccessStatus = v
		emit("status", c)
	}
	// every ordered pair of defective origin patterns in one configuration: each error must name its own pattern
	// (an error value that is shared or recycled between rejections names the wrong one)
	for i, d1 := range originsDefect {
		for j, d2 := range originsDefect {
			if i != j && (tier == "thorough" || (i+j)%3 == 0) {
				emit("origin-defect-pair", cors.Config{Origins: []string{d1, "https://example.com", d2}})
			}
		}
	}
	// numbers of violations at the boundaries of narrow counters
	for _, cnt := range []int{255, 256, 257, 512} {
		c := cors.Config{Origins: []string{"https://example.com"}}
		for k := 0; k < cnt; k++ {
			c.Origins = append(c.Origins, "https://bad"+strconv.Itoa(k)+".example.com/")
		}
		emit("violation-count", c)
		c = cors.Config{Origins: []string{"https://example.com"}}
		for k := 0; k < cnt; k++ {
			c.Methods = append(c.Methods, "BAD METHOD"+strconv.Itoa(k))
			c.RequestHeaders = append(c.RequestHeaders, "bad header"+strconv.Itoa(k))
			c.ResponseHeaders = append(c.ResponseHeaders, "bad header"+strconv.Itoa(k))
		}
		emit("violation-count", c)
	}
	// the cross-field prohibitions: booleans x pattern kind
	pats := []string{"*", "https://example.com", "http://example.com", "http://localhost", "http://127.0.0.1", "http://[::1]",
		"https://*.com", "https://*.com.", "https://*.co.uk:*", "http://*.com", "https://*.example.com", "http://10.0.0.1"}
	for mask := 0; mask < 32; mask++ {
		for _, p := range pats {
			for _, second := range []string{"", "*", "http://insecure.example"} {
				c := cors.Config{Origins: []string{p}}
				if second != "" {
					c.Origins = append(c.Origins, second)
				}
				c.Credentialed = mask&1 != 0
				c.PrivateNetworkAccess = mask&2 != 0
				c.PrivateNetworkAccessInNoCORSModeOnly = mask&4 != 0
				c.DangerouslyTolerateInsecureOrigins = mask&8 != 0
				c.DangerouslyTolerateSubdomainsOfPublicSuffixes = mask&16 != 0
				emit("cross-field", c)
			}
		}
	}
	for i := 0; i < n; i++ {
		if i%3 == 0 {
			emit("valid-by-construction", genValidConfig(r))
		} else {
			emit("mixed", genAnyConfig(r))
		}
	}
}
