//go:build verif

package main

import (
	"net/http"
	"sort"
	"strconv"
	"strings"

	"github.com/jub0bs/cors"
)

// ---------- configurations ----------

func cfgSX(c *cors.Config) SX {
	if c == nil {
		return Y("nil")
	}
	return L(
		KV("origins", BL(c.Origins)), KV("cred", Bool(c.Credentialed)),
		KV("methods", BL(c.Methods)), KV("reqhdrs", BL(c.RequestHeaders)),
		KV("maxage", I(c.MaxAgeInSeconds)), KV("reshdrs", BL(c.ResponseHeaders)),
		KV("status", I(c.PreflightSuccessStatus)), KV("pna", Bool(c.PrivateNetworkAccess)),
		KV("pnanocors", Bool(c.PrivateNetworkAccessInNoCORSModeOnly)),
		KV("tolinsecure", Bool(c.DangerouslyTolerateInsecureOrigins)),
		KV("tolpsl", Bool(c.DangerouslyTolerateSubdomainsOfPublicSuffixes)),
	)
}

func cloneCfg(c cors.Config) cors.Config {
	d := c
	d.Origins = append([]string(nil), c.Origins...)
	d.Methods = append([]string(nil), c.Methods...)
	d.RequestHeaders = append([]string(nil), c.RequestHeaders...)
	d.ResponseHeaders = append([]string(nil), c.ResponseHeaders...)
	return d
}

// labelled atoms
var (
	originsValidSecure = []string{
		"https://example.com", "https://*.example.com", "https://a.com.", "https://example.com:8443",
		"https://*.example.com:*", "https://xample.com", "https://foo.example.com", "https://xn--xample-9ua.com",
		"http://localhost:*", "http://localhost", "http://127.0.0.1:9090", "http://[::1]:9090", "https://*.a.example.org",
		"https://localhost",
	}
	originsValidInsecure = []string{
		"http://example.com", "http://*.example.com:8080", "connector://localhost.example", "http://10.0.0.1", "http://[2001:db8::1]",
		"http://*.localhost.example", "http://app.localhost:8080", "http://a.b.localhost", "connector://x.localhost", "http://localhost.:8080", "http://localhost.", "http://app.localhost.",
	}
	originsPSL = []string{"https://*.com", "https://*.co.uk:*", "https://*.com.", "https://*.github.io", "https://*.co.uk.:8080",
		"http://*.localhost", "http://*.localhost:8080", "https://*.localhost", "http://*.localhost.", "https://*.localhost.:8443",
		"https://*.internal", "https://*.corp", "https://*.home", "https://*.lan:8443", "https://*.local", "https://*.test", "https://*.example", "https://*.invalid", "https://*.unlisted-tld-xyz"} // `localhost` is a public suffix by the list's default rule; the pattern side compares the base host with "localhost"
	originsDefect = []string{
		"null", "file:///x", "file://localhost", "https://résumé.com", "https://EXAMPLE.com", "https://Example.com",
		"http://example.com:80", "https://example.com:443", "https://example.com:0", "https://example.com:65536",
		"https://example.com:080", "https://example.com:", "https://example.com:123456", "https://user@example.com",
		"https://example.com/path", "https://example.com/", "https://example.com?x", "https://example.com#f",
		" https://example.com", "https://example.com ", "https://*example.com", "https://exam*ple.com",
		"https://*.*.example.com", "https://example.com:*8", "https://example.com:8*", "http://*.127.0.0.1",
		"http://0xFF000000", "http://[0:0:0:0:0:0:0:1]", "http://[::1%eth0]", "http://[::ffff:1.2.3.4]",
		"http://[0000:0000:0000:0000:0000:0000:0000:0001]:9090", "http://127.000.0.1", "http://256.0.0.1", "http://1.2.3",
		"https://a..com", "https://.example.com", "https://-a.com", "https://a-.com", "example.com", "https:/example.com",
		"https//example.com", "://example.com", "1https://example.com", "https://", "", "https://*.", "https://*",
		"https://" + strings.Repeat("a", 64) + ".com", "https://" + longHost(254, 'a'), "\x00", "https://exa\x00mple.com",
		"https://xn--a.com", "https://[::1]", "https://127.0.0.1",
		// two defects in one pattern: the Reason is that of the check that comes first
		"http://[::ffff:1.2.3.4%eth0]", "http://[0:0::1%eth0]:8080", "http://[FE80::1%eth2]", "https://1.2.3.4:443", "https://127.0.0.1:443", "https://[::1]:443", "https://1.2.3.4:0443", "file://example.com:80",
		"https://*." + longHost(251, 'a') + ".", "https://*." + longHost(252, 'a'), "https://" + longHost(254, 'a') + ".", // one byte over each length limit
	}
	// hosts with ACE labels: acceptance is decided by the IDNA profile (oracle); well-formed, Bidi-violating, bogus
	originsACE = []string{"https://xn--shop-.example.com", "https://*.xn--cdn-.example.com:*", "https://xn--bcher-kva.example", "https://xn--4db.com", "https://xn--a-0hc.com", "https://xn--a-zhc.example.com:8443",
		"https://*.xn--a-0hc.com", "http://xn--a-0hc.com.:*", "https://1a.xn--4db", "https://xn--mgbh0fb.xn--4dbc", "https://*.xn--5dbqzzl.example.com",
		"https://xn--f.com", "https://xn--.com", "https://xn--zca.example", "https://*.shop.xn--mgberp4a5d4ar:8443"}
	methodsValid   = []string{"PUT", "DELETE", "PATCH", "put", "patch", "GET", "PURGE", "OPTIONS", "options", "Post", "QUERY", "delete"}
	methodsDefect  = []string{"CONNECT", "connect", "TrAcE", "TRACK", "track", "", "résumé", "a b", "GET,POST", "\x00"}
	reqHdrsValid   = []string{"Content-Type", "X-Foo", "authorization", "Authorization", "AUTHORIZATION", "x-bar", "X-Bar", "x-foo", "Accept", "x-abc"}
	reqHdrsDefect  = []string{"Cookie", "cOOkie", "Sec-Foo", "proxy-x", "PROXY-Y", "Host", "Access-Control-Request-Method", "Origin", "origin", "Access-Control-Request-Private-Network", "Access-Control-Allow-Origin", "access-control-max-age", "Access-Control-Expose-Headers", "", "a b", "résumé", "x:y", "Set-Cookie", "DNT", "te"}
	resHdrsValid   = []string{"X-Response-Time", "x-foo", "X-Foo", "Content-Type", "cache-control", "x-bar", "ETag"}
	resHdrsDefect  = []string{"Set-Cookie", "set-COOKIE2", "Origin", "Access-Control-Request-Headers", "access-control-request-method", "", "a b", "x:y", "résumé"}
	maxAges        = []int{0, 0, 0, -1, 1, 5, 30, 86400, 600}
	maxAgesDefect  = []int{-2, 86401, -100, 1 << 40}
	statuses       = []int{0, 0, 0, 200, 204, 250, 299, 279}
	statusesDefect = []int{199, 300, -1, 1000, 1, 456}
)

func pickN(r R, from []string, max int) []string {
	n := r.Intn(max + 1)
	out := make([]string, 0, n)
	for i := 0; i < n; i++ {
		out = append(out, r.pick(from))
	}
	return out
}

// genValidConfig builds a configuration that is valid by construction (documented-permitted settings only).
func genValidConfig(r R) cors.Config {
	var c cors.Config
	kind := r.Intn(10)
	switch {
	case kind < 3: // allow-all
		c.Origins = []string{"*"}
		if r.chance(1, 3) {
			c.Origins = r.perm(append(pickN(r, originsValidSecure, 2), "*"))
		}
	default:
		c.Origins = pickN(r, originsValidSecure, 4)
		if len(c.Origins) == 0 {
			c.Origins = []string{r.pick(originsValidSecure)}
		}
		c.Credentialed = r.chance(1, 2)
		switch r.Intn(5) {
		case 0:
			c.PrivateNetworkAccess = true
		case 1:
			c.PrivateNetworkAccessInNoCORSModeOnly = true
		}
		if r.chance(1, 4) {
			c.Origins = append(c.Origins, r.pick(originsValidInsecure))
			if c.Credentialed || c.PrivateNetworkAccess || c.PrivateNetworkAccessInNoCORSModeOnly {
				c.DangerouslyTolerateInsecureOrigins = true
			}
		}
		if r.chance(1, 6) {
			c.Origins = append(c.Origins, r.pick(originsPSL))
			c.DangerouslyTolerateSubdomainsOfPublicSuffixes = true
		}
		// the same host under two schemes with different port sets, in either order
		if r.chance(1, 5) {
			h := r.pick([]string{"localhost", "127.0.0.1", "[::1]"})
			pair := []string{"https://" + r.pick([]string{"localhost", "example.net"}) + r.pick([]string{"", ":8443"}), "http://" + h + r.pick([]string{":9090", ":*", ":8080"})}
			pair[0] = "https://localhost" + r.pick([]string{"", ":8443"})
			if h != "localhost" {
				pair[0] = "connector://" + h + r.pick([]string{"", ":7000"})
				c.DangerouslyTolerateInsecureOrigins = true
			}
			if r.chance(1, 2) {
				pair[0], pair[1] = pair[1], pair[0]
			}
			c.Origins = append(c.Origins, pair...)
		}
		// generative atoms: sibling hosts below one tree node (boundary counts), insecure-by-scheme/IP patterns
		if r.chance(1, 6) {
			sch := r.pick([]string{"https", "https", "http"})
			port := r.pick([]string{"", "", ":8443", ":*"})
			sibs := genSiblings(r, genCount(r))
			for _, h := range sibs {
				c.Origins = append(c.Origins, sch+"://"+r.pick([]string{"", "", "", "*."})+h+port)
				if r.chance(1, 4) { // the same host with one more port / under the other scheme
					c.Origins = append(c.Origins, r.pick([]string{sch, "https"})+"://"+h+r.pick([]string{":8443", ":9000", ":*"}))
				}
			}
			if len(sibs) > 0 && r.chance(1, 2) { // a wildcard over the siblings' common parent, before, after or among them
				if i := strings.IndexByte(sibs[0], '.'); i >= 0 {
					w := sch + "://*." + sibs[0][i+1:] + r.pick([]string{port, port, ":8443", ":*"})
					k := r.Intn(len(c.Origins) + 1)
					c.Origins = append(c.Origins[:k], append([]string{w}, c.Origins[k:]...)...)
				}
			}
			if sch == "http" && (c.Credentialed || c.PrivateNetworkAccess || c.PrivateNetworkAccessInNoCORSModeOnly) {
				c.DangerouslyTolerateInsecureOrigins = true
			}
		} else if r.chance(1, 10) { // many ports under one host and scheme
			h := r.pick([]string{"https://example.com", "https://*.example.org", "http://localhost", "https://ports.example.net"})
			for _, i := range r.Perm(genCount(r)) {
				c.Origins = append(c.Origins, h+":"+strconv.Itoa(2000+13*i))
			}
		} else if r.chance(1, 6) {
			for k := 1 + r.Intn(3); k > 0; k-- {
				c.Origins = append(c.Origins, genInsecureOrigin(r))
			}
			if c.Credentialed || c.PrivateNetworkAccess || c.PrivateNetworkAccessInNoCORSModeOnly {
				c.DangerouslyTolerateInsecureOrigins = true
			}
		} else {
			c.Origins = r.perm(c.Origins)
		}
	}
	if r.chance(1, 8) {
		c.DangerouslyTolerateInsecureOrigins = true
	}
	switch r.Intn(4) {
	case 0:
		c.Methods = []string{"*"}
		if r.chance(1, 2) {
			c.Methods = r.perm(append(pickN(r, methodsValid, 2), "*"))
		}
	case 1, 2:
		c.Methods = pickN(r, methodsValid, 4)
		if r.chance(1, 3) {
			for k := 1 + r.Intn(3); k > 0; k-- {
				c.Methods = append(c.Methods, genMethod(r))
			}
		} else if r.chance(1, 8) {
			for k := genCount(r); k > 0; k-- {
				c.Methods = append(c.Methods, genMethod(r))
			}
		}
	}
	switch r.Intn(6) {
	case 0:
		c.RequestHeaders = []string{"*"}
	case 1:
		c.RequestHeaders = r.perm([]string{"*", r.pick([]string{"Authorization", "authorization", "AUTHORIZATION"})})
	case 2:
		c.RequestHeaders = r.perm(append(pickN(r, reqHdrsValid, 3), "*"))
	case 3, 4:
		c.RequestHeaders = pickN(r, reqHdrsValid, 5)
		if r.chance(1, 3) {
			for k := 1 + r.Intn(3); k > 0; k-- {
				c.RequestHeaders = append(c.RequestHeaders, genHdrName(r))
			}
		} else if r.chance(1, 5) { // exactly n generated names, n at a boundary
			c.RequestHeaders = nil
			for k := genCount(r); k > 0; k-- {
				c.RequestHeaders = append(c.RequestHeaders, genHdrName(r))
			}
		}
	}
	// occasionally: long lists (sets and trees with dozens of entries)
	if r.chance(1, 12) {
		n := 8 + r.Intn(40)
		if c.Origins[0] != "*" || len(c.Origins) > 1 {
			for i := 0; i < n; i++ {
				c.Origins = append(c.Origins, r.pick([]string{"https://", "https://*.", "https://localhost-", "https://x"})+"h"+strconv.Itoa(r.Intn(n))+r.pick([]string{".example.com", ".example.org", "example.com"})+r.pick([]string{"", "", ":8443", ":*"}))
			}
			c.Origins = r.perm(c.Origins)
		}
		if len(c.RequestHeaders) > 0 || r.chance(1, 2) {
			for i := 0; i < n; i++ {
				c.RequestHeaders = append(c.RequestHeaders, r.pick([]string{"x-h", "X-H", "x-", "h"})+strconv.Itoa(r.Intn(n)))
			}
			c.RequestHeaders = r.perm(c.RequestHeaders)
		}
		if len(c.Methods) > 0 || r.chance(1, 2) {
			for i := 0; i < n/2; i++ {
				c.Methods = append(c.Methods, r.pick([]string{"M", "m", "QUERY"})+strconv.Itoa(r.Intn(n)))
			}
		}
	}
	c.MaxAgeInSeconds = maxAges[r.Intn(len(maxAges))]
	c.PreflightSuccessStatus = statuses[r.Intn(len(statuses))]
	switch r.Intn(5) {
	case 0:
		if !c.Credentialed {
			c.ResponseHeaders = r.perm(append(pickN(r, resHdrsValid, 2), "*"))
		}
	case 1, 2:
		c.ResponseHeaders = pickN(r, resHdrsValid, 4)
		if r.chance(1, 3) {
			for k := 1 + r.Intn(3); k > 0; k-- {
				c.ResponseHeaders = append(c.ResponseHeaders, genHdrName(r))
			}
		} else if r.chance(1, 8) {
			c.ResponseHeaders = nil
			for k := genCount(r); k > 0; k-- {
				c.ResponseHeaders = append(c.ResponseHeaders, genHdrName(r))
			}
		}
	}
	return c
}

// genAnyConfig mixes valid atoms, atoms with one named defect and junk, in every position.
func genAnyConfig(r R) cors.Config {
	c := genValidConfig(r)
	ndef := 0
	mut := func(p int) bool { return r.chance(p, 100) }
	if mut(25) {
		c.Origins = append(c.Origins, r.pick(originsDefect))
		c.Origins = r.perm(c.Origins)
		ndef++
	}
	if mut(15) {
		c.Origins = append(c.Origins, r.pick(originsValidInsecure))
		c.DangerouslyTolerateInsecureOrigins = r.chance(1, 3)
	}
	if mut(15) {
		c.Origins = append([]string{r.pick(originsPSL)}, c.Origins...)
		c.DangerouslyTolerateSubdomainsOfPublicSuffixes = r.chance(1, 3)
	}
	if mut(10) {
		c.Origins = r.perm(append(c.Origins, "*"))
	}
	if mut(5) {
		c.Origins = nil
	}
	if mut(15) {
		c.Credentialed = !c.Credentialed
	}
	if mut(10) {
		c.PrivateNetworkAccess = !c.PrivateNetworkAccess
	}
	if mut(10) {
		c.PrivateNetworkAccessInNoCORSModeOnly = !c.PrivateNetworkAccessInNoCORSModeOnly
	}
	if mut(20) {
		c.Methods = r.perm(append(c.Methods, r.pick(methodsDefect)))
	}
	if mut(4) {
		c.Methods = r.perm(append(c.Methods, r.pick(methodsUnicodeFold)))
	}
	if mut(20) {
		c.RequestHeaders = r.perm(append(c.RequestHeaders, r.pick(reqHdrsDefect)))
	}
	if mut(8) {
		c.RequestHeaders = r.perm(append(c.RequestHeaders, genForbiddenHdrName(r)))
	}
	if mut(4) {
		c.RequestHeaders = r.perm(append(c.RequestHeaders, r.pick(hdrNamesUnicodeFold)))
	}
	if mut(20) {
		c.ResponseHeaders = r.perm(append(c.ResponseHeaders, r.pick(resHdrsDefect)))
	}
	if mut(4) {
		c.ResponseHeaders = r.perm(append(c.ResponseHeaders, r.pick(hdrNamesUnicodeFold)))
	}
	if mut(8) {
		c.ResponseHeaders = r.perm(append(c.ResponseHeaders, "*"))
	}
	if mut(12) {
		c.MaxAgeInSeconds = maxAgesDefect[r.Intn(len(maxAgesDefect))]
	}
	if mut(12) {
		c.PreflightSuccessStatus = statusesDefect[r.Intn(len(statusesDefect))]
	}
	// duplicates in lists
	if mut(15) && len(c.Origins) > 0 {
		c.Origins = append(c.Origins, c.Origins[r.Intn(len(c.Origins))])
	}
	if mut(10) && len(c.RequestHeaders) > 0 {
		c.RequestHeaders = append(c.RequestHeaders, strings.ToUpper(c.RequestHeaders[r.Intn(len(c.RequestHeaders))]))
	}
	_ = ndef
	return c
}

// ---------- header maps ----------

func hdrSX(h http.Header) SX {
	keys := make([]string, 0, len(h))
	for k := range h {
		keys = append(keys, k)
	}
	sort.Strings(keys)
	l := make(SL, 0, len(keys))
	for _, k := range keys {
		l = append(l, L(B(k), BL(h[k])))
	}
	return l
}

func cloneHdr(h http.Header) http.Header {
	c := make(http.Header, len(h))
	for k, v := range h {
		c[k] = append([]string{}, v...)
	}
	return c
}
