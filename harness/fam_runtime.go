//go:build verif

package main

import (
	"fmt"
	"hash/fnv"
	"net/http"
	"net/url"
	"runtime"
	"sort"
	"strconv"
	"strings"
	"sync"
	"sync/atomic"
	"testing"
	"time"
	"unsafe"

	"github.com/jub0bs/cors"
	"github.com/jub0bs/cors/cfgerrors"
	"github.com/jub0bs/cors/internal/headers"
	"github.com/jub0bs/cors/internal/origins"
)

// ======================= C07: deterministic schedule points =======================

type injW struct {
	rw
	hook func(point string)
}

func (w *injW) Header() http.Header { w.hook("Header"); return w.rw.h }
func (w *injW) WriteHeader(s int)   { w.hook("WriteHeader"); w.rw.WriteHeader(s) }

// serveInjected runs q through m; op is executed at the n-th occurrence of point.
func serveInjected(m *cors.Middleware, q reqT, pre http.Header, point string, n int, op func()) (o outT, deadlock bool) {
	w := &injW{rw: rw{h: cloneHdr(pre), status: -1}}
	count := 0
	fired := false
	w.hook = func(p string) {
		if p == point {
			count++
			if count == n && !fired {
				fired = true
				op()
			}
		}
	}
	req := &http.Request{Method: q.method, Header: cloneHdr(q.hdrs), URL: &url.URL{Path: "/"}, Proto: "HTTP/1.1"}
	var snap http.Header
	h := m.Wrap(http.HandlerFunc(func(w2 http.ResponseWriter, r2 *http.Request) {
		o.calls++
		if snap == nil {
			snap = cloneHdr(w.rw.h)
		}
		w.hook("handler")
	}))
	done := make(chan struct{})
	go func() {
		defer func() {
			if recover() != nil {
				o.panicked = true
			}
			close(done)
		}()
		h.ServeHTTP(w, req)
	}()
	select {
	case <-done:
	case <-time.After(15 * time.Second):
		return o, true
	}
	o.delegated = o.calls > 0
	o.status = w.rw.status
	if o.delegated {
		o.hdrs = snap
	} else {
		o.hdrs = cloneHdr(w.rw.h)
	}
	o.sameArgs = true
	return o, false
}

func famConc(o *Out, r R, tier string) {
	npairs := 10
	if tier == "thorough" {
		npairs = 120
	}
	for i := 0; i < npairs; i++ {
		a, b := genValidConfig(r), genValidConfig(r)
		if i == 1 || i%10 == 9 { // B extends A's origin list (8+ patterns, same switches) by one origin that shares a tree path
			a = cors.Config{Origins: []string{"https://example.com"}, Methods: []string{"PUT"}, MaxAgeInSeconds: 30}
			for _, h := range genSiblings(r, []int{8, 9, 16, 17, 33}[(i/10)%5]) {
				a.Origins = append(a.Origins, "https://"+h)
			}
			b = cloneCfg(a)
			b.Origins = append(b.Origins, "https://zz"+a.Origins[1][len("https://")+1:])
			b.Methods, b.MaxAgeInSeconds, b.PreflightSuccessStatus = []string{"DELETE"}, 60, 200
		}
		if i == 0 { // pairs that differ in every observable aspect
			a = cors.Config{Origins: []string{"https://a.example"}, Credentialed: true, Methods: []string{"PUT"}, RequestHeaders: []string{"X-A"}, MaxAgeInSeconds: 30, ResponseHeaders: []string{"X-RA"}}
			b = cors.Config{Origins: []string{"*"}, Methods: []string{"*"}, RequestHeaders: []string{"*"}, MaxAgeInSeconds: -1, ResponseHeaders: []string{"*"}, ExtraConfig: cors.ExtraConfig{PreflightSuccessStatus: 200}}
		}
		states := []*cors.Config{&a, &b, nil}
		reqs := probeSuite(&a, &b)
		for k := 0; k < 4; k++ {
			reqs = append(reqs, genRequest(&a, r))
		}
		for _, c := range []*cors.Config{&a, &b} { // the origin the last pattern denotes (probeSuite looks at the first three only)
			if mo := matchingOrigins(c); len(mo) > 3 {
				og := mo[len(mo)-1]
				reqs = append(reqs, reqT{method: "GET", hdrs: http.Header{"Origin": {og}}},
					reqT{method: "OPTIONS", hdrs: http.Header{"Origin": {og}, "Access-Control-Request-Method": {"PUT"}}})
			}
		}
		for si, from := range states {
			for _, dbgFrom := range []bool{false, true} {
				if from == nil && dbgFrom {
					continue
				}
				for ti, to := range states {
					type opT struct {
						name string
						f    func(m *cors.Middleware)
					}
					var held *cors.Config // the Config value through which the current state was installed (by pointer)
					ops := []opT{
						{"mutate-arg", func(m *cors.Middleware) {
							if held == nil {
								return
							}
							scribble(held.Origins)
							scribble(held.Methods)
							scribble(held.RequestHeaders)
							scribble(held.ResponseHeaders)
							held.Credentialed = !held.Credentialed
							held.MaxAgeInSeconds, held.PreflightSuccessStatus = 7777, 299
							held.PrivateNetworkAccess = !held.PrivateNetworkAccess
							held.PrivateNetworkAccessInNoCORSModeOnly = !held.PrivateNetworkAccessInNoCORSModeOnly
							held.DangerouslyTolerateInsecureOrigins = !held.DangerouslyTolerateInsecureOrigins
							held.DangerouslyTolerateSubdomainsOfPublicSuffixes = !held.DangerouslyTolerateSubdomainsOfPublicSuffixes
						}},
						{"reconf", func(m *cors.Middleware) {
							var arg *cors.Config
							if to != nil {
								cc := cloneCfg(*to)
								arg = &cc
							}
							m.Reconfigure(arg)
						}},
						{"setdebug", func(m *cors.Middleware) { m.SetDebug(!dbgFrom) }},
						{"config", func(m *cors.Middleware) { _ = m.Config() }},
					}
					if si == ti {
						ops = append(ops[:1:1], ops[2:]...)
					}
					for _, op := range ops {
						if ti != 0 && op.name != "reconf" {
							continue // these two do not depend on the target state
						}
						for _, pt := range []struct {
							point string
							n     int
						}{{"Header", 1}, {"Header", 2}, {"WriteHeader", 1}, {"handler", 1}} {
							for qi, q := range reqs {
								if tier != "thorough" && (qi+i)%3 != 0 && qi < len(reqs)-4 {
									continue
								}
								m := newMW(from, dbgFrom)
								ref := newMW(from, dbgFrom)
								if m == nil || ref == nil {
									continue
								}
								held = nil
								if from != nil && op.name == "mutate-arg" { // install the same state through Reconfigure(&held)
									hc := cloneCfg(*from)
									held = &hc
									m = new(cors.Middleware)
									if m.Reconfigure(held) != nil {
										continue
									}
									m.SetDebug(dbgFrom)
								}
								want := serveOnce(ref, q, http.Header{})
								got, dead := serveInjected(m, q, http.Header{}, pt.point, pt.n, func() { op.f(m) })
								desc := fmt.Sprintf("%s at %s#%d from state %d(debug=%v) to %d on %s", op.name, pt.point, pt.n, si, dbgFrom, ti, str(q.sx()))
								if dead { // one deadlock settles the matter; every further injected run would wait for its timeout too
									o.emitDirect("conc-deadlock", false, desc)
									return
								}
								ok := str(want.sx()) == str(got.sx()) && !got.panicked
								o.emitDirect("conc-inject/"+op.name+"/"+pt.point, ok, desc+" want "+str(want.sx())+" got "+str(got.sx()))
								// the same observation is also a correspondence case against the model's prediction for the entry snapshot
								if qi%2 == 0 {
									o.emit("serve", true, "conc-serve", KV("cfg", cfgSX(from)), KV("debug", Bool(dbgFrom)), KV("req", q.sx()),
										KV("pre", hdrSX(http.Header{})), KV("impl", got.sx()), KV("want", L(Y("none"))), oracleForCfg(from))
								}
							}
						}
					}
				}
			}
		}
	}
	famStress(o, r, tier)
}

// famStress: goroutines serving requests while a writer walks a cycle of states in which some
// (configuration, debug) combinations NEVER exist: P only with debug on, S only with debug off.
//
//	(Q,on) -Reconfigure(P)-> (P,on) -Reconfigure(Q)-> (Q,on) -SetDebug(false)-> (Q,off) -Reconfigure(S)-> (S,off)
//	-Reconfigure(nil)-> (nil,off) -Reconfigure(Q)-> (Q,off) -SetDebug(true)-> (Q,on) ...
//
// Every response must be the response of ONE state of the cycle (a response mixing the configuration of one
// instant with the debug mode of another - (P,off) or (S,on) - belongs to none), every Config() a normal form
// of P, Q, S or nil.
// gcHistory: sequential histories with garbage collections between the steps. Anything keyed on the identity of a
// retired configuration (an address kept as an integer, a finalizer, a weak reference) can only go wrong after the
// collector has run and the address has been reused; no concurrency is involved.
func gcHistory(o *Out, tier string) {
	rounds := 40
	if tier == "thorough" {
		rounds = 400
	}
	mk := func(k int) cors.Config {
		return cors.Config{Origins: []string{"https://h" + strconv.Itoa(k) + ".example"}, Methods: []string{"PUT"}, RequestHeaders: []string{"X-K" + strconv.Itoa(k)},
			MaxAgeInSeconds: 100 + k, ResponseHeaders: []string{"X-R" + strconv.Itoa(k)}}
	}
	want := func(c cors.Config) string {
		f, _ := cors.NewMiddleware(cloneCfg(c))
		return str(cfgSX(f.Config()))
	}
	m, _ := cors.NewMiddleware(mk(0))
	bad := ""
	for i := 0; i < rounds && bad == ""; i++ {
		a, b := mk(2*i+1), mk(2*i+2)
		_ = m.Config()
		if err := m.Reconfigure(&a); err != nil {
			bad = "Reconfigure failed: " + err.Error()
			break
		}
		if i%2 == 0 {
			_ = m.Config()
		}
		runtime.GC()
		if err := m.Reconfigure(&b); err != nil {
			bad = "Reconfigure failed: " + err.Error()
			break
		}
		runtime.GC()
		if got, w := str(cfgSX(m.Config())), want(b); got != w {
			bad = "after Config(); Reconfigure(A); GC; Reconfigure(B); GC the middleware's Config() is not B's normal form (round " + strconv.Itoa(i) + "): " + truncate(got)
			break
		}
		if err := m.Reconfigure(m.Config()); err != nil {
			bad = "Reconfigure(Config()) failed: " + err.Error()
			break
		}
		out := serveOnce(m, reqT{method: "GET", hdrs: http.Header{"Origin": {b.Origins[0]}}}, http.Header{})
		if v := out.hdrs["Access-Control-Allow-Origin"]; len(v) != 1 || v[0] != b.Origins[0] {
			bad = "after the same history and Reconfigure(Config()) the current origin is no longer allowed (round " + strconv.Itoa(i) + ")"
		}
	}
	o.emitDirect("stress/gc-history", bad == "", strconv.Itoa(rounds)+" rounds of Config; Reconfigure; GC; Reconfigure; GC; Config; Reconfigure(Config()) "+bad)
	// the tight variant: configurations of one shape (only max-age differs), nothing else allocated between the
	// collection and the next Reconfigure, so that the retired configuration's address is likely to be reused at once
	shape := func(age int) *cors.Config {
		return &cors.Config{Origins: []string{"https://example.com", "https://*.example.org:*"}, Methods: []string{"PUT", "DELETE"},
			RequestHeaders: []string{"X-Foo", "X-Bar"}, ResponseHeaders: []string{"X-Baz"}, MaxAgeInSeconds: age}
	}
	tm, _ := cors.NewMiddleware(*shape(1))
	age, bad2 := 1, ""
	for i := 0; i < rounds*8 && bad2 == ""; i++ {
		if got := tm.Config(); got == nil || got.MaxAgeInSeconds != age {
			bad2 = "round " + strconv.Itoa(i) + ": Config() does not report the current max-age " + strconv.Itoa(age)
			break
		}
		age++
		tm.Reconfigure(shape(age))
		runtime.GC()
		age++
		tm.Reconfigure(shape(age))
		if got := tm.Config(); got == nil || got.MaxAgeInSeconds != age {
			bad2 = "round " + strconv.Itoa(i) + ": after Config(); Reconfigure; GC; Reconfigure, Config() reports max-age " + strconv.Itoa(got.MaxAgeInSeconds) + " instead of the current " + strconv.Itoa(age)
		}
	}
	o.emitDirect("stress/gc-history-tight", bad2 == "", strconv.Itoa(rounds*8)+" rounds of Config; Reconfigure; GC; Reconfigure; Config on one configuration shape "+bad2)
}

func famStress(o *Out, r R, tier string) {
	gcHistory(o, tier)
	dur := 900 * time.Millisecond
	if tier == "thorough" {
		dur = 10 * time.Second
	}
	mk := func(origin string, status int, hdrs ...string) cors.Config {
		return cors.Config{Origins: []string{origin}, Credentialed: true, Methods: []string{"PUT"}, RequestHeaders: hdrs,
			MaxAgeInSeconds: status, ResponseHeaders: []string{"X-R" + strconv.Itoa(status)}, ExtraConfig: cors.ExtraConfig{PreflightSuccessStatus: status}}
	}
	p, q, s := mk("https://p.example", 201, "X-P1", "X-P2"), mk("https://q.example", 202, "X-Q1", "X-Q2"), mk("https://s.example", 203, "X-S1", "X-S2")
	type stT struct {
		c   *cors.Config
		dbg bool
	}
	exist := []stT{{&q, true}, {&p, true}, {&q, false}, {&s, false}, {nil, false}}
	var reqs []reqT
	for _, og := range []string{"https://p.example", "https://q.example", "https://s.example"} {
		for _, h := range []string{"x-p1", "x-q1", "x-s1", "x-unlisted"} {
			reqs = append(reqs,
				reqT{method: "OPTIONS", hdrs: http.Header{"Origin": {og}, "Access-Control-Request-Method": {"PUT"}, "Access-Control-Request-Headers": {h}}},
				reqT{method: "OPTIONS", hdrs: http.Header{"Origin": {og}, "Access-Control-Request-Method": {"DELETE"}, "Access-Control-Request-Headers": {h}}})
		}
		reqs = append(reqs, reqT{method: "GET", hdrs: http.Header{"Origin": {og}}})
	}
	allowed := make([]map[string]bool, len(reqs))
	for qi, rq := range reqs {
		allowed[qi] = map[string]bool{}
		for _, st := range exist {
			allowed[qi][str(serveOnce(newMW(st.c, st.dbg), rq, http.Header{}).sx())] = true
		}
	}
	cfgForms := map[string]bool{"nil": true}
	for _, c := range []cors.Config{p, q, s} {
		m, _ := cors.NewMiddleware(cloneCfg(c))
		cfgForms[str(cfgSX(m.Config()))] = true
	}
	m, _ := cors.NewMiddleware(cloneCfg(q))
	m.SetDebug(true)
	// a handler wrapped once, before anything else happens, and used throughout the run by one more reader
	longLived := m.Wrap(http.HandlerFunc(func(http.ResponseWriter, *http.Request) {}))
	viaLongLived := func(rq reqT) string {
		w := &rw{h: http.Header{}, status: -1}
		req := &http.Request{Method: rq.method, Header: cloneHdr(rq.hdrs), URL: &url.URL{Path: "/"}, Proto: "HTTP/1.1"}
		longLived.ServeHTTP(w, req)
		keys := make([]string, 0, len(w.h))
		for k := range w.h {
			keys = append(keys, k)
		}
		sort.Strings(keys)
		out := strconv.Itoa(w.status)
		for _, k := range keys {
			out += "|" + k + "=" + strings.Join(w.h[k], ",")
		}
		return out
	}
	var bad atomic.Value
	var nresp, ncycles atomic.Int64
	stop := make(chan struct{})
	var wg sync.WaitGroup
	for g := 0; g < 6; g++ {
		wg.Add(1)
		go func(g int) {
			defer wg.Done()
			for i := 0; ; i++ {
				select {
				case <-stop:
					return
				default:
				}
				qi := (i + g) % len(reqs)
				got := str(serveOnce(m, reqs[qi], http.Header{}).sx())
				nresp.Add(1)
				if !allowed[qi][got] {
					bad.Store("request " + str(reqs[qi].sx()) + " got a response that no state of the cycle gives (two instants mixed): " + got)
				}
			}
		}(g)
	}
	wg.Add(1)
	go func() { // the single writer walking the cycle
		defer wg.Done()
		rc := func(c *cors.Config) {
			want := "nil"
			if c == nil {
				m.Reconfigure(nil)
			} else {
				cc := cloneCfg(*c)
				m.Reconfigure(&cc)
				ref, _ := cors.NewMiddleware(cloneCfg(*c))
				want = str(cfgSX(ref.Config()))
			}
			// no other writer exists: Config() must now be the normal form of what was just installed
			got := "nil"
			if k := m.Config(); k != nil {
				got = str(cfgSX(k))
			}
			if got != want {
				bad.Store("Config() right after Reconfigure returned the normal form of an older state: " + got)
			}
		}
		for {
			select {
			case <-stop:
				return
			default:
			}
			rc(&p)
			rc(&q)
			m.SetDebug(false)
			rc(&s)
			rc(nil)
			rc(&q)
			m.SetDebug(true)
			ncycles.Add(1)
		}
	}()
	wg.Add(1)
	go func() { // Config() readers
		defer wg.Done()
		for {
			select {
			case <-stop:
				return
			default:
			}
			c := m.Config()
			sx := "nil"
			if c != nil {
				sx = str(cfgSX(c))
			}
			if !cfgForms[sx] {
				bad.Store("Config() returned a value that is the normal form of no state: " + sx)
			}
		}
	}()
	wg.Add(1)
	go func() { // keeps the long-lived handler busy while the writer cycles through the states
		defer wg.Done()
		for i := 0; ; i++ {
			select {
			case <-stop:
				return
			default:
			}
			_ = viaLongLived(reqs[i%len(reqs)])
		}
	}()
	time.Sleep(dur)
	close(stop)
	wg.Wait()
	msg, _ := bad.Load().(string)
	o.emitDirect("conc-stress", msg == "", fmt.Sprintf("%d responses, %d writer cycles; %s", nresp.Load(), ncycles.Load(), msg))
	// after quiescence: one more reconfiguration that nothing overlaps, then the handler wrapped at the very beginning must
	// answer exactly like a handler wrapped now (a per-Wrap snapshot that survives its invalidation would not)
	lmsg := ""
	for round := 0; round < 3 && lmsg == ""; round++ {
		final := []*cors.Config{&p, &s, &q}[round]
		var wg2 sync.WaitGroup
		wg2.Add(1)
		go func() {
			defer wg2.Done()
			for k := 0; k < 2000; k++ {
				_ = viaLongLived(reqs[k%len(reqs)])
			}
		}()
		m.Reconfigure(final)
		wg2.Wait()
		fresh := m.Wrap(http.HandlerFunc(func(http.ResponseWriter, *http.Request) {}))
		for _, rq := range reqs {
			w := &rw{h: http.Header{}, status: -1}
			fresh.ServeHTTP(w, &http.Request{Method: rq.method, Header: cloneHdr(rq.hdrs), URL: &url.URL{Path: "/"}, Proto: "HTTP/1.1"})
			keys := make([]string, 0, len(w.h))
			for k := range w.h {
				keys = append(keys, k)
			}
			sort.Strings(keys)
			want := strconv.Itoa(w.status)
			for _, k := range keys {
				want += "|" + k + "=" + strings.Join(w.h[k], ",")
			}
			if got := viaLongLived(rq); got != want {
				lmsg = "after Reconfigure returned and traffic drained, a handler wrapped before the run answers " + truncate(got) + " where a handler wrapped now answers " + truncate(want) + " to " + str(rq.sx())
				break
			}
		}
	}
	o.emitDirect("conc-long-lived-handler", lmsg == "", "a handler wrapped once follows later reconfigurations like a freshly wrapped one "+lmsg)
	stressWriters(o, dur/2, &q)
}

// stressWriters: SetDebug racing with Reconfigure(nil)/Reconfigure(&Q) from different goroutines. Every method is
// atomic, so at every instant the pair must be one that some sequential order of the calls produces; in particular
// a passthrough middleware never has debug mode on (invariant of the documented state machine).
func stressWriters(o *Out, dur time.Duration, q *cors.Config) {
	m := new(cors.Middleware)
	var bad atomic.Value
	var nobs atomic.Int64
	stop := make(chan struct{})
	var wg sync.WaitGroup
	wg.Add(4)
	go func() {
		defer wg.Done()
		for i := 0; ; i++ {
			select {
			case <-stop:
				return
			default:
			}
			m.SetDebug(i%3 != 0)
		}
	}()
	go func() {
		defer wg.Done()
		for {
			select {
			case <-stop:
				return
			default:
			}
			cc := cloneCfg(*q)
			m.Reconfigure(&cc)
			m.Reconfigure(nil)
		}
	}()
	for g := 0; g < 2; g++ {
		go func() {
			defer wg.Done()
			for {
				select {
				case <-stop:
					return
				default:
				}
				configured, debug := cors.VerifState(m)
				nobs.Add(1)
				if !configured && debug {
					bad.Store("a passthrough middleware was observed with debug mode on (SetDebug and Reconfigure(nil) are not atomic with respect to each other)")
				}
			}
		}()
	}
	time.Sleep(dur)
	close(stop)
	wg.Wait()
	msg, _ := bad.Load().(string)
	o.emitDirect("conc-stress-writers", msg == "", fmt.Sprintf("%d observations; %s", nobs.Load(), msg))
}

// ======================= C12: aliasing and request history =======================

func sliceAddr(s []string) uintptr {
	if len(s) == 0 {
		return 0
	}
	return uintptr(unsafe.Pointer(unsafe.SliceData(s)))
}

func scribble(ss []string) {
	for i := range ss {
		ss[i] = "MUTATED-BY-ADVERSARY"
	}
}

// classify the backing array of every response-header value list seen by the handler / left at the end
func provTags(m *cors.Middleware, q reqT, pre http.Header) (tags SX, delegated bool, unsafeKeys []string) {
	w := &rw{h: cloneHdr(pre), status: -1}
	req := &http.Request{Method: q.method, Header: cloneHdr(q.hdrs), URL: &url.URL{Path: "/"}, Proto: "HTTP/1.1"}
	reqAddr := map[uintptr]string{}
	for k, v := range req.Header {
		if a := sliceAddr(v); a != 0 {
			reqAddr[a] = k
		}
	}
	shared := map[uintptr]string{
		sliceAddr(headers.PreflightVarySgl): "PreflightVarySgl", sliceAddr(headers.TrueSgl): "TrueSgl",
		sliceAddr(headers.OriginSgl): "OriginSgl", sliceAddr(headers.WildcardSgl): "WildcardSgl", sliceAddr(headers.WildcardAuthSgl): "WildcardAuthSgl",
	}
	acah, acma := cors.VerifSharedSlices(m)
	var seen http.Header
	h := m.Wrap(http.HandlerFunc(func(w2 http.ResponseWriter, r2 *http.Request) {
		delegated = true
		seen = w2.Header()
	}))
	h.ServeHTTP(w, req)
	if seen == nil {
		seen = w.h
	}
	var l SL
	keys := make([]string, 0, len(seen))
	for k := range seen {
		keys = append(keys, k)
	}
	sortStrings(keys)
	for _, k := range keys {
		v := seen[k]
		if pv, inPre := pre[k]; inPre && len(v) == len(pv) && strings.Join(v, "\x00") == strings.Join(pv, "\x00") {
			continue // untouched key: not written by the middleware
		}
		a := sliceAddr(v)
		tag := "own"
		switch {
		case a == 0:
			tag = "any" // an empty value list has no backing array to classify
		case shared[a] != "":
			tag = "shared"
		case a == acah || a == acma:
			tag = "cfg"
		case reqAddr[a] != "":
			tag = "req"
		}
		l = append(l, L(B(k), Y(tag)))
		if delegated && (tag == "shared" || tag == "cfg") {
			unsafeKeys = append(unsafeKeys, k)
		}
	}
	return l, delegated, unsafeKeys
}

func sortStrings(s []string) {
	for i := 1; i < len(s); i++ {
		for j := i; j > 0 && s[j] < s[j-1]; j-- {
			s[j], s[j-1] = s[j-1], s[j]
		}
	}
}

// wrappedOnce: a handler obtained from Wrap once and kept (the normal way to use a middleware) must answer every request
// from the middleware's CURRENT configuration, whatever requests it served while earlier reconfigurations were under way --
// the response depends on configuration, debug mode and request only, not on the handler's own request history.
func wrappedOnce(o *Out, tier string) {
	rounds := 6
	if tier == "thorough" {
		rounds = 40
	}
	mk := func(k int) cors.Config {
		c := cors.Config{Origins: []string{"https://h" + strconv.Itoa(k) + ".example"}, Methods: []string{"PUT"}, MaxAgeInSeconds: 10 + k}
		for j := 0; j < 300; j++ { // validation takes a little while: requests overlap it
			c.Origins = append(c.Origins, "https://h"+strconv.Itoa(k)+"-"+strconv.Itoa(j)+".example")
		}
		return c
	}
	m, _ := cors.NewMiddleware(mk(0))
	kept := m.Wrap(http.HandlerFunc(func(http.ResponseWriter, *http.Request) {}))
	answer := func(h http.Handler, og string) string {
		w := &rw{h: http.Header{}, status: -1}
		h.ServeHTTP(w, &http.Request{Method: "GET", Header: http.Header{"Origin": {og}}, URL: &url.URL{Path: "/"}, Proto: "HTTP/1.1"})
		return strings.Join(w.h["Access-Control-Allow-Origin"], ",")
	}
	msg := ""
	for k := 1; k <= rounds && msg == ""; k++ {
		var wg sync.WaitGroup
		stop := make(chan struct{})
		for g := 0; g < 4; g++ {
			wg.Add(1)
			go func() {
				defer wg.Done()
				for {
					select {
					case <-stop:
						return
					default:
						_ = answer(kept, "https://h0.example")
					}
				}
			}()
		}
		c := mk(k)
		err := m.Reconfigure(&c)
		close(stop)
		wg.Wait()
		if err != nil {
			msg = "Reconfigure failed: " + err.Error()
			break
		}
		fresh := m.Wrap(http.HandlerFunc(func(http.ResponseWriter, *http.Request) {}))
		for _, og := range []string{"https://h" + strconv.Itoa(k) + ".example", "https://h" + strconv.Itoa(k-1) + ".example", "https://h0.example"} {
			if a, b := answer(kept, og), answer(fresh, og); a != b {
				msg = "round " + strconv.Itoa(k) + ": after Reconfigure returned and the traffic drained, the handler wrapped at the start answers Origin " + og + " with ACAO " + strconv.Quote(a) + ", a handler wrapped now with " + strconv.Quote(b)
				break
			}
		}
	}
	o.emitDirect("alias/wrapped-once", msg == "", strconv.Itoa(rounds)+" reconfigurations under traffic through one kept handler "+msg)
}

func famAlias(o *Out, r R, tier string) {
	wrappedOnce(o, tier)
	n := 60
	if tier == "thorough" {
		n = 1200
	}
	for i := 0; i < n; i++ {
		c1, c2 := genValidConfig(r), genValidConfig(r)
		in1, in2 := cloneCfg(c1), cloneCfg(c2)
		m1, e1 := cors.NewMiddleware(in1)
		var m2 cors.Middleware
		e2 := m2.Reconfigure(&in2)
		if e1 != nil || e2 != nil {
			continue
		}
		debug := r.chance(1, 2)
		m1.SetDebug(debug)
		m2.SetDebug(debug)
		probes := probeSuite(&c1, &c2)
		for k := 0; k < 6; k++ {
			probes = append(probes, genRequest(&c1, r))
		}
		var warm []reqT // successful-looking single-line preflights whose values later probes repeat on their FIRST field line
		for _, c := range []*cors.Config{&c1, &c2} {
			mo := matchingOrigins(c)
			if len(mo) == 0 {
				mo = []string{"https://example.com"}
			}
			for _, h := range c.RequestHeaders {
				if h == "*" {
					continue
				}
				lh := strings.ToLower(h)
				warm = append(warm, reqT{method: "OPTIONS", hdrs: http.Header{"Origin": {mo[0]}, "Access-Control-Request-Method": {"GET"}, "Access-Control-Request-Headers": {lh}}})
				probes = append(probes,
					reqT{method: "OPTIONS", hdrs: http.Header{"Origin": {mo[0]}, "Access-Control-Request-Method": {"GET"}, "Access-Control-Request-Headers": {lh, "x-evil"}}},
					reqT{method: "OPTIONS", hdrs: http.Header{"Origin": {mo[0]}, "Access-Control-Request-Method": {"GET"}, "Access-Control-Request-Headers": {lh, lh}}})
			}
		}
		pre := genPre(r, false)
		baseline := func(m *cors.Middleware) []string {
			out := make([]string, len(probes))
			for j, q := range probes {
				out[j] = str(serveOnce(m, q, pre).sx())
			}
			return out
		}
		// reference answers come from a FRESH middleware per probe, so that they cannot depend on any request history
		fresh := func(c cors.Config) []string {
			out := make([]string, len(probes))
			for j, q := range probes {
				fm := newMW(&c, debug)
				out[j] = str(serveOnce(fm, q, pre).sx())
			}
			return out
		}
		b1, b2 := fresh(c1), fresh(c2)
		cfg1, cfg2 := str(cfgSX(m1.Config())), str(cfgSX(m2.Config()))
		check := func(step string) {
			a1, a2 := baseline(m1), baseline(&m2)
			ok := true
			detail := ""
			for j := range probes {
				if a1[j] != b1[j] || a2[j] != b2[j] {
					ok = false
					detail = "probe " + str(probes[j].sx()) + " answered differently after " + step
					break
				}
			}
			if c := str(cfgSX(m1.Config())); c != cfg1 {
				ok, detail = false, "Config() changed after "+step+": "+c
			}
			if c := str(cfgSX(m2.Config())); c != cfg2 {
				ok, detail = false, "Config() of the second middleware changed after "+step+": "+c
			}
			o.emitDirect("alias/"+step, ok, str(cfgSX(&c1))+" "+detail)
		}
		// 1. mutate the Config values that were passed in
		for _, in := range []*cors.Config{&in1, &in2} {
			scribble(in.Origins)
			scribble(in.Methods)
			scribble(in.RequestHeaders)
			scribble(in.ResponseHeaders)
			// ... and every scalar field (the second one was handed over by pointer)
			in.Credentialed = !in.Credentialed
			in.MaxAgeInSeconds = 7777
			in.PreflightSuccessStatus = 299
			in.PrivateNetworkAccess = !in.PrivateNetworkAccess
			in.PrivateNetworkAccessInNoCORSModeOnly = !in.PrivateNetworkAccessInNoCORSModeOnly
			in.DangerouslyTolerateInsecureOrigins = !in.DangerouslyTolerateInsecureOrigins
			in.DangerouslyTolerateSubdomainsOfPublicSuffixes = !in.DangerouslyTolerateSubdomainsOfPublicSuffixes
		}
		check("mutating-config-arguments")
		// 2. mutate what Config() returned
		for _, m := range []*cors.Middleware{m1, &m2} {
			if c := m.Config(); c != nil {
				scribble(c.Origins)
				scribble(c.Methods)
				scribble(c.RequestHeaders)
				scribble(c.ResponseHeaders)
			}
		}
		check("mutating-Config()-results")
		// 3. a wrapped handler (and a hostile ResponseWriter owner) mutating every slice it can reach
		for j := 0; j < 12; j++ {
			q := genRequest(&c1, r)
			for _, m := range []*cors.Middleware{m1, &m2} {
				w := &rw{h: cloneHdr(pre), status: -1}
				req := &http.Request{Method: q.method, Header: cloneHdr(q.hdrs), URL: &url.URL{Path: "/"}, Proto: "HTTP/1.1"}
				m.Wrap(http.HandlerFunc(func(w2 http.ResponseWriter, r2 *http.Request) {
					for _, v := range w2.Header() {
						scribble(v)
					}
					for _, v := range r2.Header {
						scribble(v)
					}
				})).ServeHTTP(w, req)
			}
		}
		check("handler-mutating-headers-in-place")
		// 3a. ... and with values that are meaningful: the handler writes another (not allowed) origin into the slots it can
		// reach; a later request from exactly that origin must be answered as by a fresh middleware
		{
			evil := "https://evil.example.net"
			evilQ := []reqT{{method: "GET", hdrs: http.Header{"Origin": {evil}}},
				{method: "OPTIONS", hdrs: http.Header{"Origin": {evil}, "Access-Control-Request-Method": {"PUT"}}}}
			for _, c := range []*cors.Config{&c1, &c2} {
				mo := matchingOrigins(c)
				if len(mo) == 0 {
					continue
				}
				m, _ := cors.NewMiddleware(cloneCfg(*c))
				if m == nil {
					continue
				}
				m.SetDebug(debug)
				w := &rw{h: http.Header{}, status: -1}
				req := &http.Request{Method: "GET", Header: http.Header{"Origin": {mo[0]}}, URL: &url.URL{Path: "/"}, Proto: "HTTP/1.1"}
				m.Wrap(http.HandlerFunc(func(w2 http.ResponseWriter, r2 *http.Request) {
					if v := r2.Header["Origin"]; len(v) > 0 {
						v[0] = evil
					}
					for _, v := range w2.Header() {
						if len(v) > 0 {
							v[0] = evil
						}
					}
				})).ServeHTTP(w, req)
				ok, detail := true, ""
				for _, q := range evilQ {
					a := str(serveOnce(m, q, http.Header{}).sx())
					b := str(serveOnce(newMW(c, debug), q, http.Header{}).sx())
					if a != b {
						ok, detail = false, "after a handler wrote "+evil+" into its request/response slots, "+str(q.sx())+" is answered "+a+" instead of "+b
					}
				}
				o.emitDirect("alias/handler-writes-an-origin", ok, str(cfgSX(c))+" "+detail)
			}
		}
		// 3b. plain request history: earlier (successful) requests must not change how later ones are answered
		for _, m := range []*cors.Middleware{m1, &m2} {
			for _, q := range warm {
				serveOnce(m, q, http.Header{})
			}
			for j := 0; j < 8; j++ {
				serveOnce(m, genRequest(&c1, r), genPre(r, false))
			}
		}
		check("request-history")
		// 3c. argument reuse: the caller overwrites the arrays it once passed in (or got from Config()) with the values of
		// another configuration, then reconfigures with a brand-new Config holding those values: the middleware must
		// now behave as a fresh middleware built from them
		for _, viaConfig := range []bool{false, true} {
			held := cloneCfg(c1)
			m3, e3 := cors.NewMiddleware(held)
			if e3 != nil {
				break
			}
			m3.SetDebug(debug)
			src := &held
			if viaConfig {
				src = m3.Config()
			}
			tgt := cloneCfg(*src)
			over := func(dst, tg, from []string) {
				for k := range dst {
					if k < len(from) {
						dst[k], tg[k] = from[k], from[k]
					}
				}
			}
			over(src.Origins, tgt.Origins, c2.Origins)
			over(src.Methods, tgt.Methods, c2.Methods)
			over(src.RequestHeaders, tgt.RequestHeaders, c2.RequestHeaders)
			over(src.ResponseHeaders, tgt.ResponseHeaders, c2.ResponseHeaders)
			arg := cloneCfg(tgt)
			err := m3.Reconfigure(&arg)
			fm, ferr := cors.NewMiddleware(cloneCfg(tgt))
			ok, detail := (err == nil) == (ferr == nil), "Reconfigure and NewMiddleware disagree on acceptance"
			if ok && err == nil {
				fm.SetDebug(debug)
				for _, q := range probes {
					if a, b := str(serveOnce(m3, q, pre).sx()), str(serveOnce(fm, q, pre).sx()); a != b {
						ok, detail = false, "probe "+str(q.sx())+" answered "+a+" instead of "+b
						break
					}
				}
				if a, b := str(cfgSX(m3.Config())), str(cfgSX(fm.Config())); ok && a != b {
					ok, detail = false, "Config() is "+a+" instead of "+b
				}
			}
			if ok {
				detail = ""
			}
			o.emitDirect("alias/argument-reuse", ok, str(cfgSX(&c1))+" -> "+str(cfgSX(&tgt))+" "+detail)
		}
		// 4. provenance of every installed slice, compared with the model's tags
		for j := 0; j < 10; j++ {
			q := genRequest(&c1, r)
			p := genPre(r, false)
			tags, delegated, unsafeKeys := provTags(m1, q, p)
			o.emitDirect("alias/provenance", len(unsafeKeys) == 0, "shared or configuration-owned slice visible to the handler: "+strings.Join(unsafeKeys, ",")+" on "+str(q.sx()))
			if tags == nil {
				tags = SL{}
			}
			o.emit("prov", true, "prov", KV("cfg", cfgSX(&c1)), KV("debug", Bool(debug)), KV("req", q.sx()), KV("pre", hdrSX(p)),
				KV("impl", L(KV("delegated", Bool(delegated)), KV("tags", tags))), oracleForCfg(&c1))
		}
	}
	// package-level singletons must still hold their values
	okS := headers.PreflightVarySgl[0] == headers.ValueVaryOptions && headers.TrueSgl[0] == "true" && headers.OriginSgl[0] == "Origin" &&
		headers.WildcardSgl[0] == "*" && headers.WildcardAuthSgl[0] == "*,authorization"
	o.emitDirect("alias/singletons-intact", okS, "package-level singleton slices after all adversarial activity")
}

// ======================= C17: no input can crash =======================

func randBytes(r R, n int) string {
	b := make([]byte, n)
	for i := range b {
		switch r.Intn(6) {
		case 0:
			b[i] = byte(r.Intn(256))
		case 1:
			b[i] = ",:/.*[]% \t-_@"[r.Intn(13)]
		default:
			b[i] = "abcxyz0189"[r.Intn(10)]
		}
	}
	return string(b)
}

func famPanic(o *Out, r R, tier string) {
	n, maxLen := 3000, 4096
	if tier == "thorough" {
		n, maxLen = 12000, 1<<18
	}
	guard := func(kind, desc string, f func()) {
		ok := true
		func() {
			defer func() {
				if e := recover(); e != nil {
					ok = false
					desc += fmt.Sprintf(" PANIC: %v", e)
				}
			}()
			f()
		}()
		if !ok || o.n%50 == 0 {
			o.emitDirect(kind, ok, desc)
		} else {
			o.n++
			o.dist[kind]++
			hh := fnv.New64a()
			hh.Write([]byte(kind + desc))
			o.distinct[hh.Sum64()] = struct{}{}
			o.nontriv[hh.Sum64()] = struct{}{}
		}
	}
	pieces := []string{"https://", "http://", "://", "*.", "*", "[", "]", "[]", "[]:9", "[::1]", ":", ":*", ":0", ":65536", ".", "..", "a", "example.com", "%", "xn--", "127.0.0.1", "\x00", "é", " ", "//", "@", "file", "null", "1.2.3.4.5", ":99999999999999999999"}
	genStr := func() string {
		switch r.Intn(5) {
		case 0:
			return randBytes(r, r.Intn(40))
		case 1:
			return randBytes(r, r.Intn(maxLen))
		default:
			var sb strings.Builder
			for k := r.Intn(8); k >= 0; k-- {
				sb.WriteString(r.pick(pieces))
			}
			return sb.String()
		}
	}
	genList := func() []string {
		switch r.Intn(6) {
		case 0:
			return nil
		case 1:
			return []string{}
		}
		l := make([]string, 1+r.Intn(5))
		for i := range l {
			l[i] = genStr()
		}
		return l
	}
	valid, _ := cors.NewMiddleware(cors.Config{Origins: []string{"https://*.example.com", "http://[::1]:*"}, Credentialed: true, Methods: []string{"PUT"}, RequestHeaders: []string{"x-foo", "x-bar"}, MaxAgeInSeconds: 5})
	// every probe origin of the request families (incl. degenerate bracket forms), as actual request and as preflight
	for _, og := range originProbes(&cors.Config{Origins: []string{"https://*.example.com", "http://[::1]:8080"}}, r) {
		for _, q := range []reqT{{method: "GET", hdrs: http.Header{"Origin": {og}}},
			{method: "OPTIONS", hdrs: http.Header{"Origin": {og}, "Access-Control-Request-Method": {"PUT"}}}} {
			for _, dbg := range []bool{false, true} {
				valid.SetDebug(dbg)
				q := q
				guard("panic/request", "ServeHTTP on "+truncate(str(q.sx())), func() {
					if out := serveOnce(valid, q, http.Header{}); out.panicked {
						panic("handler panicked")
					}
				})
			}
		}
	}
	valid2, _ := cors.NewMiddleware(cors.Config{Origins: []string{"*"}, RequestHeaders: []string{"*"}, Methods: []string{"*"}})
	// every prefix and every suffix of maximal well-formed strings, as a pattern and as an Origin (a scanner that looks one
	// byte ahead at a length boundary reads past the end exactly when the string stops there)
	{
		maxScheme := "a" + strings.Repeat("b", 63)
		fulls := []string{maxScheme + "://" + longHost(253, 'a') + ".:65535", "https://*." + longHost(251, 'a') + ":*", "http://[2001:db8:aaaa:bbbb:cccc:dddd:eeee:ffff]:65535",
			"https://" + strings.TrimSuffix(strings.Repeat("a.", 127), "."), "x-bar, x-foo ,\tx-qux"}
		for _, full := range fulls {
			for k := 0; k <= len(full); k++ {
				for _, piece := range []string{full[:k], full[k:]} {
					piece := piece
					guard("panic/prefix-suffix", "NewMiddleware and ServeHTTP on a prefix/suffix ("+strconv.Itoa(len(piece))+" bytes) of "+truncate(full), func() {
						_, _ = cors.NewMiddleware(cors.Config{Origins: []string{piece}})
						_, _ = cors.NewMiddleware(cors.Config{Origins: []string{"https://example.com"}, Methods: []string{piece}, RequestHeaders: []string{piece}, ResponseHeaders: []string{piece}})
						for _, mm := range []*cors.Middleware{valid, valid2} {
							for _, q := range []reqT{{method: "GET", hdrs: http.Header{"Origin": {piece}}},
								{method: "OPTIONS", hdrs: http.Header{"Origin": {piece}, "Access-Control-Request-Method": {piece}, "Access-Control-Request-Headers": {piece}}},
								{method: "OPTIONS", hdrs: http.Header{"Origin": {"https://foo.example.com"}, "Access-Control-Request-Method": {"PUT"}, "Access-Control-Request-Headers": {piece}}}} {
								if out := serveOnce(mm, q, http.Header{}); out.panicked {
									panic("handler panicked")
								}
							}
						}
					})
				}
			}
		}
	}
	// long configured names and methods (63..130 bytes) x requested methods / header elements of every length up to
	// beyond the longest (length-indexed tables, fixed buffers), in both debug modes
	for _, longest := range []int{63, 64, 65, 100, 128, 130} {
		longest := longest
		lm, err := cors.NewMiddleware(cors.Config{Origins: []string{"https://example.com"},
			Methods:        []string{"PUT", "M" + strings.Repeat("E", longest-1)},
			RequestHeaders: []string{"x-a", "x-" + strings.Repeat("c", longest-2)}, ResponseHeaders: []string{"x-" + strings.Repeat("r", longest-2)}})
		if err != nil {
			guard("panic/long-names", "configuration with "+strconv.Itoa(longest)+"-byte names rejected", func() { panic(err.Error()) })
			continue
		}
		for _, dbg := range []bool{false, true} {
			lm.SetDebug(dbg)
			for l := 1; l <= longest+3; l++ {
				for _, q := range []reqT{
					{method: "OPTIONS", hdrs: http.Header{"Origin": {"https://example.com"}, "Access-Control-Request-Method": {"PUT"}, "Access-Control-Request-Headers": {strings.Repeat("q", l)}}},
					{method: "OPTIONS", hdrs: http.Header{"Origin": {"https://example.com"}, "Access-Control-Request-Method": {"PUT"}, "Access-Control-Request-Headers": {"x-" + strings.Repeat("c", l)}}},
					{method: "OPTIONS", hdrs: http.Header{"Origin": {"https://example.com"}, "Access-Control-Request-Method": {strings.Repeat("Q", l)}}},
					{method: "OPTIONS", hdrs: http.Header{"Origin": {"https://example.com"}, "Access-Control-Request-Method": {"M" + strings.Repeat("E", l)}}}} {
					q := q
					guard("panic/long-names", "ServeHTTP (names up to "+strconv.Itoa(longest)+" bytes) on "+truncate(str(q.sx())), func() {
						if out := serveOnce(lm, q, http.Header{}); out.panicked {
							panic("handler panicked")
						}
					})
				}
			}
		}
		guard("panic/long-names", "Config/Reconfigure(Config()) with "+strconv.Itoa(longest)+"-byte names", func() {
			if err := lm.Reconfigure(lm.Config()); err != nil {
				panic(err.Error())
			}
		})
	}
	// extreme tree shapes: construction, rendering (Config), re-validation, and every probe as an actual request
	for _, e := range extremeTrees(tier) {
		e := e
		var em *cors.Middleware
		guard("panic/extreme-config", "NewMiddleware/Config/Reconfigure(Config()) on the tree shape "+e.kind, func() {
			var err error
			em, err = cors.NewMiddleware(cors.Config{Origins: e.pats})
			if err != nil {
				panic("extreme tree shape rejected: " + err.Error())
			}
			_ = em.Config()
			if err := em.Reconfigure(em.Config()); err != nil {
				panic("Reconfigure(Config()) failed: " + err.Error())
			}
			_ = em.Config()
		})
		if em == nil {
			continue
		}
		for _, og := range e.probes {
			q := reqT{method: "GET", hdrs: http.Header{"Origin": {og}}}
			guard("panic/extreme-request", "ServeHTTP on tree shape "+e.kind+" with "+truncate(str(q.sx())), func() {
				if out := serveOnce(em, q, http.Header{}); out.panicked {
					panic("handler panicked")
				}
			})
		}
	}
	// the full product of field shapes (absent, nil, zero values, empty value, good value, two values) around an
	// otherwise well-formed preflight / actual request, for three configurations and both debug modes
	shapes := func(good string) [][]string {
		return [][]string{nil, {}, {""}, {good}, {good, good}, {"\x00"}}
	}
	pnaMW, _ := cors.NewMiddleware(cors.Config{Origins: []string{"https://example.com"}, Methods: []string{"PUT"}, RequestHeaders: []string{"x-foo"}, ExtraConfig: cors.ExtraConfig{PrivateNetworkAccess: true}})
	for _, mm := range []*cors.Middleware{valid, valid2, pnaMW} {
		for _, dbg := range []bool{false, true} {
			mm.SetDebug(dbg)
			for oi, og := range shapes("https://example.com") {
				for mi, am := range shapes("PUT") {
					for hi, ah := range shapes("x-foo") {
						for pi, ap := range shapes("true") {
							for _, method := range []string{"OPTIONS", "GET"} {
								hd := http.Header{}
								for k, v := range map[string][]string{"Origin": og, "Access-Control-Request-Method": am, "Access-Control-Request-Headers": ah, "Access-Control-Request-Private-Network": ap} {
									if v != nil || (oi+mi+hi+pi)%2 == 0 { // nil: alternately absent key / key with nil slice
										if v == nil && (oi+mi+hi+pi)%4 == 0 {
											continue
										}
										hd[k] = v
									}
								}
								q := reqT{method: method, hdrs: hd}
								guard("panic/request-shapes", "ServeHTTP on "+truncate(str(q.sx())), func() {
									if out := serveOnce(mm, q, http.Header{}); out.panicked {
										panic("handler panicked")
									}
								})
							}
						}
					}
				}
			}
		}
	}
	for i := 0; i < n; i++ {
		c := cors.Config{Origins: genList(), Credentialed: r.chance(1, 2), Methods: genList(), RequestHeaders: genList(),
			MaxAgeInSeconds: r.Intn(200000) - 100000, ResponseHeaders: genList()}
		c.PreflightSuccessStatus = r.Intn(1200) - 300
		c.PrivateNetworkAccess = r.chance(1, 3)
		c.PrivateNetworkAccessInNoCORSModeOnly = r.chance(1, 3)
		c.DangerouslyTolerateInsecureOrigins = r.chance(1, 2)
		c.DangerouslyTolerateSubdomainsOfPublicSuffixes = r.chance(1, 2)
		if r.chance(1, 3) {
			c = genAnyConfig(r)
		}
		var m *cors.Middleware
		guard("panic/config", "NewMiddleware/Reconfigure/Config/All on "+truncate(str(cfgSX(&c))), func() {
			var err error
			m, err = cors.NewMiddleware(cloneCfg(c))
			if err != nil {
				cnt := 0
				for range cfgerrors.All(err) {
					cnt++
				}
				for k := 1; k <= cnt; k++ { // leave the loop at every position
					i := 0
					for range cfgerrors.All(err) {
						i++
						if i == k {
							break
						}
					}
				}
			} else {
				_ = m.Config()
				m.Reconfigure(m.Config())
			}
			var z cors.Middleware
			cc := cloneCfg(c)
			z.Reconfigure(&cc)
			z.Reconfigure(nil)
			_ = z.Config()
		})
		// requests with arbitrary header bytes and multiplicities
		hd := http.Header{}
		for _, k := range []string{"Origin", "Access-Control-Request-Method", "Access-Control-Request-Headers", "Access-Control-Request-Private-Network"} {
			switch r.Intn(5) {
			case 0:
			case 1:
				hd[k] = []string{}
			case 2:
				hd[k] = nil
			default:
				hd[k] = genList()
			}
		}
		q := reqT{method: r.pick([]string{"OPTIONS", "GET", "", genStr()}), hdrs: hd}
		for _, mm := range []*cors.Middleware{m, valid, valid2} {
			if mm == nil {
				continue
			}
			for _, dbg := range []bool{false, true} {
				mm.SetDebug(dbg)
				guard("panic/request", "ServeHTTP on "+truncate(str(q.sx())), func() {
					out := serveOnce(mm, q, http.Header{})
					if out.panicked {
						panic("handler panicked")
					}
				})
			}
		}
	}
}

// famSplit: the hand-sliced splitAtCommonSuffix against the index-level model (every index checked)
func famSplit(o *Out, r R, tier string) {
	n := 2000
	if tier == "thorough" {
		n = 40000
	}
	alpha := "ab."
	for i := 0; i < n; i++ {
		gen := func() string {
			l := r.Intn(8)
			if r.chance(1, 20) {
				l = r.Intn(300)
			}
			b := make([]byte, l)
			for j := range b {
				b[j] = alpha[r.Intn(len(alpha))]
				if r.chance(1, 30) {
					b[j] = byte(r.Intn(256))
				}
			}
			return string(b)
		}
		a, c := gen(), gen()
		if r.chance(1, 3) { // force a common suffix
			suf := gen()
			a, c = a+suf, c+suf
		}
		var impl SL
		func() {
			defer func() {
				if recover() != nil {
					impl = SL{}
				}
			}()
			x, y, z := origins.VerifSplitAtCommonSuffix(a, c)
			impl = SL{B(x), B(y), B(z)}
		}()
		o.emit("split", len(a) > 0 && len(c) > 0, "split", KV("a", B(a)), KV("c", B(c)), KV("impl", impl))
	}
}

func truncate(s string) string {
	if len(s) > 1500 {
		return s[:1500] + "..."
	}
	return s
}

// ======================= C18: allocations do not grow with attacker-controlled sizes =======================

type reuseW struct{ h http.Header }

func (w *reuseW) Header() http.Header         { return w.h }
func (w *reuseW) WriteHeader(int)             {}
func (w *reuseW) Write(p []byte) (int, error) { return len(p), nil }

func allocsFor(m *cors.Middleware, q reqT) float64 { return allocsForPre(m, q, nil) }

// allocsForPre: pre holds response headers an outer layer has set before the middleware runs (re-installed before every
// run without allocating; the slices have no spare capacity)
func allocsForPre(m *cors.Middleware, q reqT, pre http.Header) float64 {
	w := &reuseW{h: make(http.Header, 8)}
	req := &http.Request{Method: q.method, Header: q.hdrs, URL: &url.URL{Path: "/"}, Proto: "HTTP/1.1"}
	h := m.Wrap(http.HandlerFunc(func(http.ResponseWriter, *http.Request) {}))
	return testing.AllocsPerRun(20, func() {
		clear(w.h)
		for k, v := range pre {
			w.h[k] = v[:len(v):len(v)]
		}
		h.ServeHTTP(w, req)
	})
}

func famAlloc(o *Out, r R, tier string) {
	sizes := []int{1, 2, 16, 256, 4096, 65536}
	if tier == "thorough" {
		sizes = []int{1, 2, 16, 256, 4096, 65536, 100000, 1 << 20}
	}
	cfgs := map[string]cors.Config{
		"allow-all":      {Origins: []string{"*"}, Methods: []string{"*"}, RequestHeaders: []string{"*"}},
		"discrete":       {Origins: []string{"https://example.com", "https://*.example.org:*"}, Methods: []string{"PUT", "PATCH"}, RequestHeaders: []string{"x-a", "x-b", "x-c"}, MaxAgeInSeconds: 30, ResponseHeaders: []string{"x-r"}},
		"star-hdrs-anon": {Origins: []string{"https://example.com"}, RequestHeaders: []string{"*", "Authorization"}, Methods: []string{"*"}},
		"star-hdrs-cred": {Origins: []string{"https://example.com"}, Credentialed: true, RequestHeaders: []string{"*"}, Methods: []string{"*"}},
		"discrete-cred":  {Origins: []string{"https://example.com"}, Credentialed: true, RequestHeaders: []string{"x-a"}, Methods: []string{"PUT"}, ExtraConfig: cors.ExtraConfig{PrivateNetworkAccess: true}},
	}
	const K = 4 // small absolute bound on the middleware's own allocations per request
	for name, c := range cfgs {
		for _, debug := range []bool{false, true} {
			m := newMW(&c, debug)
			if m == nil {
				o.emitDirect("alloc/config-rejected", false, name)
				continue
			}
			mk := func(kind string, n int) reqT {
				q := reqT{method: "OPTIONS", hdrs: http.Header{"Origin": {"https://example.com"}, "Access-Control-Request-Method": {"PUT"}}}
				switch kind {
				case "origin-len":
					q.hdrs["Origin"] = []string{"https://" + strings.Repeat("a", n) + ".example.com"}
				case "origin-values":
					q.hdrs["Origin"] = append([]string{"https://example.com"}, make([]string, n)...)
				case "acrm-len":
					q.hdrs["Access-Control-Request-Method"] = []string{strings.Repeat("M", n)}
				case "acrh-elems-valid":
					q.hdrs["Access-Control-Request-Headers"] = []string{"x-a" + strings.Repeat(",", min(n, 16)) + "x-b"}
				case "acrh-elems":
					q.hdrs["Access-Control-Request-Headers"] = []string{strings.TrimSuffix(strings.Repeat("x-a,", n), ",")}
				case "acrh-elems-upper":
					q.hdrs["Access-Control-Request-Headers"] = []string{strings.TrimSuffix(strings.Repeat("X-A,", n), ",")}
				case "acrh-elems-mixed":
					q.hdrs["Access-Control-Request-Headers"] = []string{strings.TrimSuffix(strings.Repeat("x-a, X-B ,\tx-c,", n), ",")}
				case "acrm-values":
					q.hdrs["Access-Control-Request-Method"] = append([]string{"PUT"}, make([]string, n)...)
				case "acrpn-values":
					q.hdrs["Access-Control-Request-Private-Network"] = append([]string{"true"}, make([]string, n)...)
				case "origin-ace-labels": // n Punycode labels in the Origin host
					q.hdrs["Origin"] = []string{"https://" + strings.Repeat("xn--bcher-kva.", min(n, 15)) + "example.com"}
				case "origin-upper":
					q.hdrs["Origin"] = []string{"HTTPS://" + strings.Repeat("A", n) + ".EXAMPLE.COM"}
				case "acrh-len":
					q.hdrs["Access-Control-Request-Headers"] = []string{strings.Repeat("x", n)}
				case "acrh-lines":
					l := make([]string, n)
					for i := range l {
						l[i] = "x-a"
					}
					q.hdrs["Access-Control-Request-Headers"] = l
				case "acrh-lines-upper":
					l := make([]string, n)
					for i := range l {
						l[i] = "X-Evil"
					}
					q.hdrs["Access-Control-Request-Headers"] = l
				case "acrh-lines-valid":
					l := make([]string, n)
					for i := range l {
						l[i] = ""
					}
					l[0] = "x-a"
					q.hdrs["Access-Control-Request-Headers"] = l[:min(n, 16)]
				case "acrh-long-then-lines": // one over-long field line followed by n short ones
					l := make([]string, n+1)
					l[0] = strings.Repeat("a", 4097)
					for i := 1; i <= n; i++ {
						l[i] = "x-a"
					}
					q.hdrs["Access-Control-Request-Headers"] = l
				case "acrh-ows":
					q.hdrs["Access-Control-Request-Headers"] = []string{strings.Repeat(" ", n) + "x-a"}
				case "actual-origin-len":
					q = reqT{method: "GET", hdrs: http.Header{"Origin": {"https://" + strings.Repeat("a", n) + ".example.com"}}}
				case "actual":
					q = reqT{method: "GET", hdrs: http.Header{"Origin": {"https://example.com"}, "X-Junk": {strings.Repeat("j", n)}}}
				}
				return q
			}
			for _, kind := range []string{"origin-len", "origin-values", "origin-ace-labels", "origin-upper", "acrm-len", "acrm-values", "acrpn-values", "acrh-elems-valid", "acrh-elems", "acrh-elems-upper", "acrh-elems-mixed", "acrh-len", "acrh-lines", "acrh-lines-upper", "acrh-lines-valid", "acrh-ows", "actual-origin-len", "actual", "acrh-long-then-lines", "preset/acrh-lines", "preset/acrh-elems", "preset/acrm-len"} {
				var pre http.Header
				reqKind := kind
				if strings.HasPrefix(kind, "preset/") { // an outer layer has already set list-based CORS headers and Vary
					pre = http.Header{"Access-Control-Allow-Headers": {"x-outer"}, "Access-Control-Allow-Methods": {"X-OUTER"}, "Vary": {"Accept-Encoding"}}
					reqKind = strings.TrimPrefix(kind, "preset/")
				}
				base := allocsForPre(m, mk(reqKind, 1), pre)
				worst, at := base, 1
				for _, n := range sizes[1:] {
					a := allocsForPre(m, mk(reqKind, n), pre)
					if a > worst {
						worst, at = a, n
					}
				}
				ok := worst <= base+1 && worst <= K
				o.emitDirect("alloc/"+kind, ok, fmt.Sprintf("%s debug=%v: %v allocations at size 1, at most %v (at size %d) up to size %d", name, debug, base, worst, at, sizes[len(sizes)-1]))
			}
		}
	}
	// (a) large allow-lists: every element of a long list is looked up at a high rank (a per-element cost that only
	//     shows beyond a threshold -- e.g. boxing an index >= 256 into an interface -- is a per-element allocation)
	for _, nNames := range []int{300, 2000, 41} {
		var names []string
		for k := 0; k < nNames; k++ {
			if nNames == 41 { // long names (35 bytes): costs that appear beyond a small-buffer threshold
				names = append(names, "x-long-header-name-for-allocs-"+strconv.Itoa(100000 + k)[1:])
			} else {
				names = append(names, "x-h"+strconv.Itoa(100000 + k)[1:])
			}
		}
		m, err := cors.NewMiddleware(cors.Config{Origins: []string{"https://example.com"}, RequestHeaders: names, Methods: []string{"PUT"}})
		if err != nil {
			o.emitDirect("alloc/large-allow-list", false, "configuration with "+strconv.Itoa(nNames)+" request-header names rejected: "+err.Error())
			continue
		}
		base := -1.0
		for _, take := range []int{3, min(100, nNames), nNames} {
			for _, from := range []string{"first", "last"} {
				sub := names[:take]
				if from == "last" {
					sub = names[nNames-take:]
				}
				q := reqT{method: "OPTIONS", hdrs: http.Header{"Origin": {"https://example.com"}, "Access-Control-Request-Method": {"PUT"},
					"Access-Control-Request-Headers": {strings.Join(sub, ",")}}}
				if out := serveOnce(m, q, http.Header{}); out.status == 403 {
					o.emitDirect("alloc/large-allow-list", false, "a preflight naming "+strconv.Itoa(take)+" allowed names was refused")
				}
				a := allocsForPre(m, q, nil)
				if base < 0 {
					base = a
				}
				// the same names re-cased (refused, but the refusal must not cost an allocation per name either)
				qu := reqT{method: "OPTIONS", hdrs: http.Header{"Origin": {"https://example.com"}, "Access-Control-Request-Method": {"PUT"},
					"Access-Control-Request-Headers": {strings.ToUpper(strings.Join(sub, ","))}}}
				if au := allocsForPre(m, qu, nil); au > a {
					a = au
				}
				o.emitDirect("alloc/large-allow-list", a <= base+0.5 && a <= K, fmt.Sprintf("%d allowed names, ACRH lists the %s %d: %v allocations (first measurement %v)", nNames, from, take, a, base))
			}
		}
	}
	// (b) FRESH requests: a per-line cost that rewrites the request in place (and is therefore paid once per request
	//     object) is invisible when one request is measured repeatedly; here every run gets its own request from a pool
	//     built outside the measurement. Lines carry every kind of byte (CR and LF included).
	for ci, c := range []cors.Config{
		{Origins: []string{"https://example.com"}, Credentialed: true, RequestHeaders: []string{"*"}, Methods: []string{"PUT"}},
		{Origins: []string{"https://example.com"}, RequestHeaders: []string{"x-foo", "x-bar"}, Methods: []string{"PUT"}},
		{Origins: []string{"*"}, RequestHeaders: []string{"*"}, Methods: []string{"*"}}} {
		for _, dbg := range []bool{false, true} {
			m := newMW(&c, dbg)
			if m == nil {
				continue
			}
			h := m.Wrap(http.HandlerFunc(func(http.ResponseWriter, *http.Request) {}))
			for _, sample := range [][]int{{'\r', '\n'}, {0, 1, 9, 11, 12, 32, 34, 44, 58, 127, 128, 255}} {
				base := -1.0
				for _, nLines := range []int{1, 10, 200} {
					const runs = 12
					pool := make([]*http.Request, runs+1)
					for i := range pool {
						lines := make([]string, nLines)
						for k := range lines {
							ch := string([]byte{byte(sample[k%len(sample)])})
							lines[k] = "x-foo," + ch + " x-bar" + ch
						}
						pool[i] = &http.Request{Method: "OPTIONS", URL: &url.URL{Path: "/"}, Proto: "HTTP/1.1", Header: http.Header{"Origin": {"https://example.com"},
							"Access-Control-Request-Method": {"PUT"}, "Access-Control-Request-Headers": lines}}
					}
					w := &reuseW{h: make(http.Header, 8)}
					next := 0
					a := testing.AllocsPerRun(runs, func() {
						clear(w.h)
						h.ServeHTTP(w, pool[next%len(pool)])
						next++
					})
					if base < 0 {
						base = a
					}
					o.emitDirect("alloc/fresh-requests", a <= base+0.5 && a <= K, fmt.Sprintf("config %d debug=%v, %d ACRH lines with bytes %v, a fresh request per run: %v allocations (one line: %v)", ci, dbg, nLines, sample, a, base))
				}
			}
		}
	}
}
