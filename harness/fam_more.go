//go:build verif

package main

import (
	"fmt"
	"net/http"
	"net/url"
	"reflect"
	"runtime"
	"sort"
	"strconv"
	"strings"

	"github.com/jub0bs/cors"
	"github.com/jub0bs/cors/cfgerrors"
	"github.com/jub0bs/cors/internal/origins"
)

// ---------- C10: pairs of requests that agree on the Vary-listed headers of the first response ----------

func varyNames(h http.Header) map[string]bool {
	out := map[string]bool{}
	for _, v := range h["Vary"] {
		for _, n := range strings.Split(v, ",") {
			n = strings.Trim(n, " \t")
			if n != "" {
				out[n] = true
			}
		}
	}
	return out
}

func famPair(o *Out, r R, tier string) {
	ncfg, nreq := 250, 20
	if tier == "thorough" {
		ncfg, nreq = 2500, 50
	}
	keys := []string{"Origin", "Access-Control-Request-Method", "Access-Control-Request-Headers", "Access-Control-Request-Private-Network", "X-Unrelated", "origin", "Cookie"}
	for i := 0; i < ncfg; i++ {
		var c *cors.Config
		if i%25 != 24 {
			cc := genValidConfig(r)
			c = &cc
		}
		for _, debug := range []bool{false, true} {
			m := newMW(c, debug)
			if m == nil {
				continue
			}
			for j := 0; j < nreq/2; j++ {
				q1 := genRequest(c, r)
				pre := genPre(r, false)
				o1 := serveOnce(m, q1, pre)
				vn := varyNames(o1.hdrs)
				// second request: same method; differs only outside the Vary-listed names (mostly)
				q2 := reqT{method: q1.method, hdrs: cloneHdr(q1.hdrs)}
				alt := genRequest(c, r)
				changed := 0
				pairKeys := append(append([]string{}, keys...), r.pick(extraReqHeaderKeys), r.pick(extraReqHeaderKeys), "Sec-Fetch-Site")
				for _, k := range pairKeys {
					if vn[k] && !r.chance(1, 12) {
						continue
					}
					if vals, isExtra := extraReqHeaders[k]; isExtra && r.chance(1, 2) {
						q2.hdrs[k] = []string{r.pick(vals)}
						changed++
						continue
					}
					switch r.Intn(4) {
					case 0:
						delete(q2.hdrs, k)
						changed++
					case 1:
						if v, ok := alt.hdrs[k]; ok {
							q2.hdrs[k] = v
							changed++
						}
					case 2:
						q2.hdrs[k] = []string{r.pick([]string{"https://example.com", "PUT", "x-foo", "true", "", "https://attacker.com"})}
						changed++
					}
				}
				o2 := serveOnce(m, q2, pre)
				kind := "pair"
				if isPreflightReq(q1) {
					kind = "pair-preflight"
				}
				if debug {
					kind += "/debug"
				}
				o.emit("pair", c != nil && changed > 0, kind, KV("cfg", cfgSX(c)), KV("debug", Bool(debug)),
					KV("req1", q1.sx()), KV("req2", q2.sx()), KV("pre", hdrSX(pre)),
					KV("impl1", o1.sx()), KV("impl2", o2.sx()), oracleForCfg(c))
			}
		}
	}
}

// ---------- C02: browser request intents ----------

func fetchNormalize(m string) string {
	switch u := strings.ToUpper(m); u {
	case "DELETE", "GET", "HEAD", "OPTIONS", "POST", "PUT":
		return u
	}
	return m
}

func famIntent(o *Out, r R, tier string) {
	ncfg, nint := 300, 24
	if tier == "thorough" {
		ncfg, nint = 3000, 60
	}
	for i := 0; i < ncfg; i++ {
		c := genValidConfig(r)
		for _, debug := range []bool{false, true} {
			m := newMW(&c, debug)
			if m == nil {
				continue
			}
			for j := 0; j < nint/2; j++ {
				// origin: allowed or near-miss, always a serialized tuple origin
				var origin string
				mo := matchingOrigins(&c)
				if len(mo) > 0 && r.chance(2, 3) {
					origin = r.pick(mo)
				} else {
					origin = r.pick([]string{"https://example.com", "https://attacker.example", "http://example.com", "https://foo.example.com", "https://fooexample.com", "https://example.com:8443", "http://localhost:3000", "https://xample.com",
						// serialized tuple origins whose host is an IP literal (no pattern can list them under https, `*` covers them)
						"https://192.168.1.10:8443", "https://[2001:db8::1]:8443", "https://127.0.0.1", "http://10.0.0.7:3000", "https://[::1]", "capacitor://localhost", "https://a.b.c.d.example.com."})
				}
				meths := []string{"GET", "POST", "HEAD", "PUT", "DELETE", "PATCH", "patch", "PURGE", "OPTIONS", "QUERY", "Patch"}
				for _, x := range c.Methods {
					if x != "*" {
						meths = append(meths, x, x, strings.ToLower(x))
					}
				}
				method := fetchNormalize(r.pick(meths))
				universe := []string{"authorization", "content-type", "x-foo", "x-bar", "x-unlisted", "x-abc", "accept"}
				allListed := false
				for _, x := range c.RequestHeaders {
					if x != "*" {
						universe = append(universe, strings.ToLower(x))
					}
				}
				sel := map[string]bool{}
				for k := r.Intn(4); k > 0; k-- {
					sel[r.pick(universe)] = true
				}
				if len(c.RequestHeaders) >= 8 && r.chance(1, 3) { // a long allow-list requested in full (budgets on the total length)
					allListed = true
					for _, x := range c.RequestHeaders {
						if x != "*" {
							sel[strings.ToLower(x)] = true
						}
					}
				}
				_ = allListed
				var hs []string
				for n := range sel {
					hs = append(hs, n)
				}
				sort.Strings(hs)
				cred := r.chance(1, 3)
				pna := r.chance(1, 5)
				lines := perturbLines(r, hs)
				pre := reqT{method: "OPTIONS", hdrs: http.Header{"Origin": {origin}, "Access-Control-Request-Method": {method}}}
				if len(hs) > 0 {
					pre.hdrs["Access-Control-Request-Headers"] = lines
				} else {
					lines = nil
				}
				if pna {
					pre.hdrs["Access-Control-Request-Private-Network"] = []string{"true"}
				}
				act := reqT{method: method, hdrs: http.Header{"Origin": {origin}}}
				op := serveOnce(m, pre, http.Header{})
				oa := serveOnce(m, act, http.Header{})
				kind := "intent"
				if op.status != 403 {
					kind = "intent-preflight-ok"
				}
				if debug {
					kind += "/debug"
				}
				o.emit("intent", true, kind, KV("cfg", cfgSX(&c)), KV("debug", Bool(debug)),
					KV("intent", L(KV("origin", B(origin)), KV("method", B(method)), KV("headers", BL(hs)), KV("credentials", Bool(cred)), KV("pna", Bool(pna)))),
					KV("lines", BL(lines)), KV("implpre", op.sx()), KV("implact", oa.sx()), oracleForCfg(&c))
			}
		}
	}
}

// ---------- C06 / C08 / C09: histories and round trips ----------

func probeSuite(cfgs ...*cors.Config) []reqT {
	var out []reqT
	out = append(out, reqT{method: "GET", hdrs: http.Header{}})
	out = append(out, reqT{method: "OPTIONS", hdrs: http.Header{}})
	for _, c := range cfgs {
		os := append(matchingOrigins(c), "https://attacker.example")
		if len(os) > 3 {
			os = os[:3]
		}
		for _, og := range os {
			out = append(out,
				reqT{method: "GET", hdrs: http.Header{"Origin": {og}}},
				reqT{method: "OPTIONS", hdrs: http.Header{"Origin": {og}, "Access-Control-Request-Method": {"PUT"}}},
				reqT{method: "OPTIONS", hdrs: http.Header{"Origin": {og}, "Access-Control-Request-Method": {"UNLISTED"}, "Access-Control-Request-Headers": {"x-unlisted"}}},
				reqT{method: "OPTIONS", hdrs: http.Header{"Origin": {og}, "Access-Control-Request-Method": {"GET"}, "Access-Control-Request-Headers": {"authorization,x-foo"}, "Access-Control-Request-Private-Network": {"true"}}},
				// a private-network request whose method / header step fails afterwards
				reqT{method: "OPTIONS", hdrs: http.Header{"Origin": {og}, "Access-Control-Request-Method": {"UNLISTED"}, "Access-Control-Request-Private-Network": {"true"}}},
				reqT{method: "OPTIONS", hdrs: http.Header{"Origin": {og}, "Access-Control-Request-Method": {"GET"}, "Access-Control-Request-Headers": {"x-unlisted"}, "Access-Control-Request-Private-Network": {"true"}}},
				// reaches the request-headers step (safelisted method, no PNA request): shows the debug-mode list
				reqT{method: "OPTIONS", hdrs: http.Header{"Origin": {og}, "Access-Control-Request-Method": {"GET"}, "Access-Control-Request-Headers": {"x-unlisted"}}},
			)
			for _, h := range c.RequestHeaders {
				if h != "*" {
					out = append(out, reqT{method: "OPTIONS", hdrs: http.Header{"Origin": {og}, "Access-Control-Request-Method": {"POST"}, "Access-Control-Request-Headers": {strings.ToLower(h)}}})
					// the same name spread over many field lines (17 and 40: thresholds on the NUMBER of lines), failing and not
					for _, nl := range []int{17, 40} {
						lines := make([]string, nl)
						lines[0] = strings.ToLower(h)
						out = append(out, reqT{method: "OPTIONS", hdrs: http.Header{"Origin": {og}, "Access-Control-Request-Method": {"POST"}, "Access-Control-Request-Headers": lines[:min(nl, 16)]}})
						bad := make([]string, nl)
						for k := range bad {
							bad[k] = "x-unlisted"
						}
						out = append(out, reqT{method: "OPTIONS", hdrs: http.Header{"Origin": {og}, "Access-Control-Request-Method": {"POST"}, "Access-Control-Request-Headers": bad}})
					}
					break
				}
			}
		}
	}
	return out
}

func observe(m *cors.Middleware, err error, probes []reqT) SX {
	outs := make(SL, len(probes))
	for i, q := range probes {
		outs[i] = serveOnce(m, q, http.Header{}).sx()
	}
	var cfg SX = Y("nil")
	if c := m.Config(); c != nil {
		cfg = cfgSX(c)
	}
	return L(KV("err", Bool(err != nil)), KV("debug", Bool(cors.VerifDebug(m))), KV("config", cfg), KV("outs", outs))
}

// genInvalidConfig: a configuration with at least one defect planted BY CONSTRUCTION (never decided by asking the
// implementation, which may be the thing that is broken); whether a configuration is invalid is judged on the
// model side by the specification (violations c <> []).
func genInvalidConfig(r R) cors.Config {
	c := genValidConfig(r)
	switch r.Intn(8) {
	case 6:
		if r.chance(1, 2) {
			c.RequestHeaders = append(c.RequestHeaders, r.pick(hdrNamesUnicodeFold))
		} else {
			c.RequestHeaders = append(c.RequestHeaders, genForbiddenHdrName(r))
		}
	case 7:
		if r.chance(1, 2) {
			c.ResponseHeaders = append(c.ResponseHeaders, r.pick(hdrNamesUnicodeFold))
		} else {
			c.Methods = append(c.Methods, r.pick(methodsUnicodeFold))
		}
	case 0:
		c.Origins = append(c.Origins, r.pick(originsDefect[:30]))
	case 1:
		c.Methods = append(c.Methods, r.pick(methodsDefect[:5]))
	case 2:
		c.RequestHeaders = append(c.RequestHeaders, r.pick(reqHdrsDefect[:12]))
	case 3:
		c.ResponseHeaders = append(c.ResponseHeaders, r.pick(resHdrsDefect[:5]))
	case 4:
		c.MaxAgeInSeconds = maxAgesDefect[r.Intn(len(maxAgesDefect))]
	default:
		c.PreflightSuccessStatus = statusesDefect[r.Intn(len(statusesDefect))]
	}
	return c
}

// minimalInvalidations returns copies of a valid configuration in which exactly one setting is made invalid
// (the rest, in particular the origin patterns, stays identical to the current state).
func minimalInvalidations(a cors.Config) []cors.Config {
	var out []cors.Config
	add := func(f func(c *cors.Config)) { // kept whether or not it turns out invalid: the specification decides
		c := cloneCfg(a)
		f(&c)
		out = append(out, c)
	}
	add(func(c *cors.Config) { c.DangerouslyTolerateInsecureOrigins = false })
	add(func(c *cors.Config) { c.DangerouslyTolerateSubdomainsOfPublicSuffixes = false })
	add(func(c *cors.Config) { c.MaxAgeInSeconds = 86401 })
	add(func(c *cors.Config) { c.PreflightSuccessStatus = 199 })
	add(func(c *cors.Config) { c.Methods = append(c.Methods, "CONNECT") })
	add(func(c *cors.Config) { c.RequestHeaders = append(c.RequestHeaders, "Cookie") })
	add(func(c *cors.Config) { c.RequestHeaders = append(c.RequestHeaders, "X-Api-\u212Aey") })
	add(func(c *cors.Config) { c.RequestHeaders = append(c.RequestHeaders, "Sec-"+strings.Repeat("a", 40)) })
	add(func(c *cors.Config) { c.ResponseHeaders = append(c.ResponseHeaders, "x-\u017Fecret") })
	add(func(c *cors.Config) { c.ResponseHeaders = append(c.ResponseHeaders, "Set-Cookie") })
	add(func(c *cors.Config) { c.PrivateNetworkAccess, c.PrivateNetworkAccessInNoCORSModeOnly = true, true })
	add(func(c *cors.Config) { c.Credentialed = !c.Credentialed })
	add(func(c *cors.Config) { c.PrivateNetworkAccess = true })
	add(func(c *cors.Config) { c.PrivateNetworkAccessInNoCORSModeOnly = true })
	add(func(c *cors.Config) { c.MaxAgeInSeconds = -1; c.Methods = append(c.Methods, "CONNECT") })
	add(func(c *cors.Config) { c.MaxAgeInSeconds = -1; c.Origins = append(c.Origins, "https://example.com/") })
	add(func(c *cors.Config) { c.MaxAgeInSeconds = -1; c.PreflightSuccessStatus = 199 })
	// a violation listed AFTER a wildcard in each list (the wildcard subsumes valid names, not invalid ones)
	add(func(c *cors.Config) { c.Methods = []string{"*", "TRACE"} })
	add(func(c *cors.Config) { c.Methods = []string{"*", "r\u00e9sum\u00e9", "PUT"} })
	add(func(c *cors.Config) { c.RequestHeaders = []string{"*", "Cookie"} })
	add(func(c *cors.Config) { c.ResponseHeaders = []string{"*", "Set-Cookie"} })
	add(func(c *cors.Config) {
		c.Origins, c.Credentialed, c.PrivateNetworkAccess, c.PrivateNetworkAccessInNoCORSModeOnly = []string{"*", "https://exa mple.com"}, false, false, false
	})
	// the current lists with their elements joined into ONE element by a separator a serialisation might use: the
	// result is a different, invalid configuration that prints like the current one
	for _, sep := range []string{",", ", ", ";", " ", "\x00", "\n"} {
		sep := sep
		if len(a.Origins) >= 2 {
			add(func(c *cors.Config) { c.Origins = []string{strings.Join(c.Origins, sep)} })
		}
		if len(a.Methods) >= 2 {
			add(func(c *cors.Config) { c.Methods = []string{strings.Join(c.Methods, sep)} })
		}
		if len(a.RequestHeaders) >= 2 {
			add(func(c *cors.Config) { c.RequestHeaders = []string{strings.Join(c.RequestHeaders, sep)} })
		}
		if len(a.ResponseHeaders) >= 2 {
			add(func(c *cors.Config) { c.ResponseHeaders = []string{strings.Join(c.ResponseHeaders, sep)} })
		}
	}
	// numbers of violations at the boundaries of narrow counters (255, 256, 257, 512 offending origin patterns,
	// methods or header names next to otherwise changed valid fields)
	for _, n := range []int{255, 256, 257} {
		n := n
		add(func(c *cors.Config) {
			c.Origins = append([]string{}, c.Origins...)
			for i := 0; i < n; i++ {
				c.Origins = append(c.Origins, "https://bad"+strconv.Itoa(i)+".example.com/")
			}
			c.Methods = append(append([]string{}, c.Methods...), "PURGE")
		})
		if n == 256 {
			add(func(c *cors.Config) {
				c.Methods = append([]string{}, c.Methods...)
				for i := 0; i < n; i++ {
					c.Methods = append(c.Methods, "BAD METHOD"+strconv.Itoa(i))
				}
			})
			add(func(c *cors.Config) {
				c.RequestHeaders = append([]string{}, c.RequestHeaders...)
				for i := 0; i < n; i++ {
					c.RequestHeaders = append(c.RequestHeaders, "bad header"+strconv.Itoa(i))
				}
			})
		}
	}
	// the current origin list exactly as Config() renders it, extended by further parseable patterns, with one violation in
	// another field (an "append only" fast path that works on the live tree would leak the appended origins)
	if f, err := cors.NewMiddleware(cloneCfg(a)); err == nil && f != nil {
		rendered := f.Config()
		for _, extra := range [][]string{{"https://appended.example.com"}, {"https://zz-appended.example.org", "https://appended2.example.com:8443"}} {
			extra := extra
			add(func(c *cors.Config) {
				c.Origins = append(append([]string{}, rendered.Origins...), extra...)
				c.MaxAgeInSeconds = 86401
			})
			add(func(c *cors.Config) {
				c.Origins = append(append([]string{}, rendered.Origins...), extra...)
				c.Methods = append(append([]string{}, c.Methods...), "CONNECT")
			})
		}
	}
	// integers that wrap to something acceptable when multiplied by a unit or narrowed (time.Second = 1e9, 1e6, 1e3;
	// 8, 16 and 32-bit narrowing)
	for _, v := range wrapInts(600) {
		v := v
		add(func(c *cors.Config) { c.MaxAgeInSeconds = v })
	}
	for _, v := range wrapInts(204) {
		v := v
		add(func(c *cors.Config) { c.PreflightSuccessStatus = v })
	}
	return out
}

// wrapInts: out-of-range integers that become the in-range value m after a multiplication by a unit modulo 2^64 or a
// narrowing conversion
func wrapInts(m int) []int {
	out := []int{m + 1<<8, m + 1<<16, m + 1<<32, m - 1<<32, m + 1<<55, m + 1<<56, m + 3<<55, m + 1<<62}
	// v * unit = m * unit (mod 2^64)  <=>  v = m + k * 2^64 / gcd(unit, 2^64)
	for _, tz := range []uint{9, 6, 3} { // 1e9 = 2^9 * 5^9, 1e6 = 2^6 * 5^6, 1e3 = 2^3 * 5^3
		out = append(out, m+1<<(64-tz-1), m+1<<(64-tz))
	}
	return out
}

var histCount int

func famHistWant(want string) family {
	return func(o *Out, r R, tier string) {
		nset, maxLen := 12, 4
		if tier == "thorough" {
			nset, maxLen = 60, 6
		}
		for s := 0; s < nset; s++ {
			a, bcfg := genValidConfig(r), genValidConfig(r)
			switch s {
			case 0: // F2 regression shape: a configuration whose failing preflight reveals the debug mode
				a = cors.Config{Origins: []string{"https://a.com"}}
				// B: credentialed, wildcard AND explicit request-header names
				bcfg = cors.Config{Origins: []string{"https://example.com"}, Credentialed: true, RequestHeaders: []string{"X-Foo", "*"}, Methods: []string{"PUT"}}
			case 1: // a state that is valid only thanks to the tolerance switches
				a = cors.Config{Origins: []string{"http://example.com", "https://*.com"}, Credentialed: true, Methods: []string{"PUT"},
					ExtraConfig: cors.ExtraConfig{DangerouslyTolerateInsecureOrigins: true, DangerouslyTolerateSubdomainsOfPublicSuffixes: true}}
			case 2:
				a = cors.Config{Origins: []string{"http://example.com:6060"}, ExtraConfig: cors.ExtraConfig{PrivateNetworkAccessInNoCORSModeOnly: true, DangerouslyTolerateInsecureOrigins: true}}
			case 3: // an insecure origin that is fine as long as neither credentials nor PNA are switched on
				a = cors.Config{Origins: []string{"http://example.com", "https://example.org"}, Methods: []string{"PUT"}, RequestHeaders: []string{"X-Foo"}}
			}
			if s >= 4 && s < 12 { // boundary list sizes in the current state; B extends A's origin list by one related origin
				cnt := []int{16, 8, 32, 64, 15, 17, 260, 33}[s-4] // 260 names of 20 bytes: the joined list exceeds 4 KiB
				a = cors.Config{Origins: []string{"https://example.com"}, Methods: []string{"PUT"}, MaxAgeInSeconds: 30}
				for _, h := range genSiblings(r, min(cnt, 36)) {
					a.Origins = append(a.Origins, "https://"+h)
				}
				for k := 0; k < cnt; k++ {
					nm := "x-b" + strconv.Itoa(1000 + k)[1:]
					if cnt > 200 {
						nm = "x-long-header-b" + strconv.Itoa(10000 + k)[1:]
					}
					a.RequestHeaders = append(a.RequestHeaders, nm)
				}
				bcfg = cloneCfg(a)
				bcfg.Origins = append(bcfg.Origins, "https://zz"+a.Origins[1][len("https://")+1:])
				bcfg.Methods = []string{"DELETE"}
				bcfg.RequestHeaders = []string{"X-A"}
			}
			inv1, inv2 := genInvalidConfig(r), genInvalidConfig(r)
			if s >= 4 && s < 12 {
				inv1 = cors.Config{Origins: []string{"https://other.example.org"}, RequestHeaders: []string{"X-A"}, MaxAgeInSeconds: -2}
			}
			inv2.Origins = append([]string{}, a.Origins...) // partly valid, differs from the current state
			inv2.MaxAgeInSeconds = 86401
			inv2.Methods = []string{"PUT", "CONNECT"}
			probes := probeSuite(&a, &bcfg)
			if s >= 4 && s < 12 { // every allowed name of the current state, and the name only the rejected configuration lists
				for k, h := range append([]string{"x-a"}, a.RequestHeaders...) {
					if k%4 == 0 || k < 3 || k >= len(a.RequestHeaders)-2 {
						probes = append(probes, reqT{method: "OPTIONS", hdrs: http.Header{"Origin": {"https://example.com"}, "Access-Control-Request-Method": {"PUT"}, "Access-Control-Request-Headers": {strings.ToLower(h)}}})
					}
				}
				zz := bcfg.Origins[len(bcfg.Origins)-1]
				probes = append(probes, reqT{method: "GET", hdrs: http.Header{"Origin": {zz}}},
					reqT{method: "OPTIONS", hdrs: http.Header{"Origin": {zz}, "Access-Control-Request-Method": {"PUT"}}})
			}
			for _, og := range []string{"https://appended.example.com", "https://zz-appended.example.org", "https://appended2.example.com:8443"} {
				probes = append(probes, reqT{method: "GET", hdrs: http.Header{"Origin": {og}}}) // the origins that only rejected configurations list
			}
			probeSX := make(SL, len(probes))
			for i, q := range probes {
				probeSX[i] = q.sx()
			}
			// debug mode changes only the diagnostics of failing preflights: for both configurations and every probe, a
			// request that is not a preflight is answered identically in both modes, and a preflight that succeeds with
			// debug off keeps its status and every header except Access-Control-Allow-Headers with debug on
			for _, cfg := range []*cors.Config{&a, &bcfg} {
				moff, mon := newMW(cfg, false), newMW(cfg, true)
				if moff == nil || mon == nil {
					continue
				}
				for _, q := range probes {
					o1, o2 := serveOnce(moff, q, http.Header{}), serveOnce(mon, q, http.Header{})
					same := func(skip string) bool {
						if o1.status != o2.status || o1.delegated != o2.delegated || len(o1.hdrs) != len(o2.hdrs) && skip == "" {
							return false
						}
						for _, pair := range [][2]http.Header{{o1.hdrs, o2.hdrs}, {o2.hdrs, o1.hdrs}} {
							for k, v := range pair[0] {
								if k != skip && strings.Join(v, "\x00") != strings.Join(pair[1][k], "\x00") {
									return false
								}
							}
						}
						return true
					}
					switch {
					case !isPreflightReq(q):
						if !same("") {
							o.emitDirect("debug-only-diagnostics", false, "a non-preflight request is answered differently in the two debug modes under "+truncate(str(cfgSX(cfg)))+": "+str(q.sx()))
						}
					case o1.status != 403:
						if !same("Access-Control-Allow-Headers") {
							o.emitDirect("debug-only-diagnostics", false, "a preflight that succeeds with debug off changes more than Access-Control-Allow-Headers with debug on under "+truncate(str(cfgSX(cfg)))+": "+str(q.sx()))
						}
					}
				}
			}
			type opT struct {
				kind  string
				b     bool
				cfg   *cors.Config
				label string
			}
			alphabet := []opT{{kind: "setdebug", b: true}, {kind: "setdebug", b: false}, {kind: "reconf", cfg: nil, label: "nil"},
				{kind: "reconf", cfg: &a, label: "valid"}, {kind: "reconf", cfg: &bcfg, label: "valid"},
				{kind: "reconf", cfg: &inv1, label: "invalid"}, {kind: "reconf", cfg: &inv2, label: "invalid"}}
			// minimal invalidations: the current configuration A with exactly one thing made invalid
			exhAlphabet := append([]opT{}, alphabet...)
			mis := minimalInvalidations(a)
			{ // the bulky ones (hundreds of violations) stay at the end: they occur in one-step histories only
				var light, heavy []cors.Config
				for _, c := range minimalInvalidations(a) {
					if len(c.Origins)+len(c.Methods)+len(c.RequestHeaders) < 200 {
						light = append(light, c)
					} else {
						heavy = append(heavy, c)
					}
				}
				r.Shuffle(len(light), func(i, j int) { light[i], light[j] = light[j], light[i] })
				mis = append(light, heavy...)
			}
			for k := range mis {
				mi := mis[k]
				alphabet = append(alphabet, opT{kind: "reconf", cfg: &mi, label: "invalid"})
				if k < 3 {
					exhAlphabet = append(exhAlphabet, opT{kind: "reconf", cfg: &mi, label: "invalid"})
				}
			}
			var rec func(prefix []opT)
			run := func(ops []opT, init *cors.Config) {
				var m *cors.Middleware
				if init == nil {
					m = new(cors.Middleware)
				} else {
					m, _ = cors.NewMiddleware(cloneCfg(*init))
					if m == nil {
						return
					}
				}
				// a bystander: another middleware in state A that no operation ever touches
				by, _ := cors.NewMiddleware(cloneCfg(a))
				var by0 string
				if by != nil {
					by0 = str(observe(by, nil, probes))
				}
				defer func() {
					if by != nil {
						if by1 := str(observe(by, nil, probes)); by1 != by0 {
							o.emitDirect("hist-bystander", false, "a middleware that was never touched changed its behaviour while another one was reconfigured: "+truncate(by0)+" -> "+truncate(by1))
						}
					}
				}()
				histCount++
				kept := m.Wrap(http.HandlerFunc(func(http.ResponseWriter, *http.Request) {})) // wrapped before any operation
				defer func() {
					fresh := m.Wrap(http.HandlerFunc(func(http.ResponseWriter, *http.Request) {}))
					for _, q := range probes {
						ans := func(h http.Handler) string {
							w := &rw{h: http.Header{}, status: -1}
							h.ServeHTTP(w, &http.Request{Method: q.method, Header: cloneHdr(q.hdrs), URL: &url.URL{Path: "/"}, Proto: "HTTP/1.1"})
							return strconv.Itoa(w.status) + "|" + strings.Join(w.h["Access-Control-Allow-Origin"], ",") + "|" + strings.Join(w.h["Vary"], ",")
						}
						if a1, a2 := ans(kept), ans(fresh); a1 != a2 {
							o.emitDirect("hist-kept-handler", false, "after the history, the handler wrapped before it answers "+truncate(a1)+" and a handler wrapped now "+truncate(a2)+" to "+str(q.sx()))
							break
						}
					}
				}()
				obs := SL{observe(m, nil, probes)}
				opsx := SL{}
				for _, op := range ops {
					var err error
					if op.kind == "setdebug" {
						m.SetDebug(op.b)
						opsx = append(opsx, L(Y("setdebug"), Bool(op.b), Y("-")))
					} else {
						var arg *cors.Config
						if op.cfg != nil {
							cc := cloneCfg(*op.cfg)
							arg = &cc
						}
						err = m.Reconfigure(arg)
						if histCount%8 == 0 { // every eighth history runs with a garbage collection after each reconfiguration
							runtime.GC()
						}
						opsx = append(opsx, L(Y("reconf"), cfgSX(arg), Y(op.label)))
					}
					obs = append(obs, observe(m, err, probes))
				}
				all := []string{}
				for _, op := range ops {
					if op.cfg != nil {
						all = append(all, op.cfg.Origins...)
					}
				}
				if init != nil {
					all = append(all, init.Origins...)
				}
				o.emit("hist", len(ops) > 1, "len="+strconv.Itoa(len(ops)), KV("init", cfgSX(init)), KV("ops", opsx),
					KV("probes", probeSX), KV("obs", obs), KV("want", L(Y(want))), oracleFor(all))
			}
			// exhaustive up to length 3 (quick) from both initial states, sampled beyond
			exh := 2
			if tier == "thorough" {
				exh = 3
			}
			rec = func(prefix []opT) {
				if len(prefix) > 0 {
					run(prefix, nil)
					run(prefix, &a)
				}
				if len(prefix) == exh {
					return
				}
				ab := exhAlphabet
				if len(prefix) == 0 {
					ab = alphabet // every minimal invalidation at least as a one-step history
				}
				for _, op := range ab {
					rec(append(append([]opT{}, prefix...), op))
				}
			}
			if s < 4 && (tier != "thorough" || s < 2) {
				rec(nil)
			}
			if s >= 4 && s < 12 {
				for _, ops := range [][]opT{{alphabet[5]}, {alphabet[4]}, {alphabet[5], alphabet[3]}, {alphabet[0], alphabet[5]}, {alphabet[4], alphabet[5]}, {alphabet[6]}} {
					run(ops, &a)
				}
			}
			for k := 0; k < 25; k++ {
				n := 1 + r.Intn(maxLen)
				ops := make([]opT, n)
				for i := range ops {
					ops[i] = alphabet[r.Intn(len(alphabet))]
				}
				if r.chance(1, 2) {
					run(ops, nil)
				} else {
					run(ops, &a)
				}
			}
		}
	}
}

func famRoundtrip(o *Out, r R, tier string) {
	n := 300
	if tier == "thorough" {
		n = 6000
	}
	special := []cors.Config{
		{Origins: []string{"http://[::1]:9090"}},
		{Origins: []string{"http://[2001:db8::1]", "http://127.0.0.1:*", "https://a.com."}},
		{Origins: []string{"http://[::1]:9090", "http://[fe80::1]:9090", "http://[2001:db8::1]", "http://[2001:db8::21]:*"}},
		{Origins: []string{"http://example.com"}, ExtraConfig: cors.ExtraConfig{PrivateNetworkAccessInNoCORSModeOnly: true, DangerouslyTolerateInsecureOrigins: true}},
		{Origins: []string{"https://foo.example.com", "https://*.example.com"}},
		{Origins: []string{"https://*.example.com", "https://*.example.com"}},
		{Origins: []string{"https://a.com:1", "https://a.com:*"}},
		{Origins: []string{"*", "https://a.com"}, Methods: []string{"*", "PUT"}, RequestHeaders: []string{"Authorization", "*"}, ResponseHeaders: []string{"x-a", "*"}},
		{Origins: []string{"https://a.com"}, Methods: []string{"GET", "POST"}, ResponseHeaders: []string{"Content-Type"}, MaxAgeInSeconds: -1, ExtraConfig: cors.ExtraConfig{PreflightSuccessStatus: 204}},
		{Origins: []string{"https://a.com"}, Credentialed: true, RequestHeaders: []string{"*", "authorization"}, MaxAgeInSeconds: 0, ExtraConfig: cors.ExtraConfig{PreflightSuccessStatus: 200}},
	}
	special = append(special,
		cors.Config{Origins: []string{"http://[2606:4700:4700::1111]:8080", "http://[2001:db8::abcd]", "http://[2001:db8:aaaa:1111::100]:*"}},
		cors.Config{Origins: []string{"https://example.com"}, RequestHeaders: []string{"X_Request_Id", "x-Trace^Span", "X-`Q~|"}, ResponseHeaders: []string{"X_Trace_Id", "x!#$%&'+.^"}, Methods: []string{"Pu_T", "q^Z"}})
	for _, e := range extremeTrees(tier) { // maximal fan-out and maximal depth must survive the round trip too
		special = append(special, cors.Config{Origins: e.pats})
	}
	// dense lists over a small universe (several schemes and port forms per host, wildcards over inner nodes), in the order
	// written and in the order Config() will produce: the tree the round trip rebuilds is built in ANOTHER insertion order
	{
		labels := []string{"a", "b", "ab"}
		var uni []string
		for _, l1 := range labels {
			uni = append(uni, l1+".example.com")
			for _, l2 := range labels {
				uni = append(uni, l2+"."+l1+".example.com")
			}
		}
		uni = append(uni, "example.com")
		nd := 12
		if tier == "thorough" {
			nd = 200
		}
		for i := 0; i < nd; i++ {
			var pats []string
			for j := 3 + r.Intn(10); j > 0; j-- {
				h := r.pick(uni)
				if r.chance(1, 3) {
					h = "*." + h
				}
				pats = append(pats, r.pick([]string{"https", "http", "https"})+"://"+h+r.pick([]string{"", ":81", ":*", ":*"}))
			}
			special = append(special, cors.Config{Origins: pats, ExtraConfig: cors.ExtraConfig{DangerouslyTolerateInsecureOrigins: true}})
		}
	}
	for k := 0; k < 12; k++ {
		c := cors.Config{Origins: []string{"http://" + genIPv6(r) + genPort(r, "http"), "http://" + genIPv6(r), genInsecureOrigin(r)}}
		for j := 0; j < 1+k%3; j++ {
			c.RequestHeaders = append(c.RequestHeaders, genHdrName(r))
			c.ResponseHeaders = append(c.ResponseHeaders, genHdrName(r))
			c.Methods = append(c.Methods, genMethod(r))
		}
		special = append(special, c)
	}
	for i := 0; i < n+len(special); i++ {
		func() {
			var c cors.Config
			if i < len(special) {
				c = special[i]
			} else {
				c = genValidConfig(r)
			}
			defer func() { // a crash anywhere in the round trip is a failing input of its own, not the end of the run
				if e := recover(); e != nil {
					o.emitDirect("roundtrip/panic", false, fmt.Sprintf("PANIC %v in NewMiddleware/Config/Reconfigure(Config()) on %s", e, truncate(str(cfgSX(&c)))))
				}
			}()
			a, err := cors.NewMiddleware(cloneCfg(c))
			if err != nil {
				return
			}
			k1 := a.Config()
			// Config() is a read: asked twice in a row (no Reconfigure in between) it gives the same answer
			if k1b := a.Config(); !reflect.DeepEqual(k1, k1b) {
				o.emitDirect("roundtrip/config-twice", false, "two successive Config() calls on one middleware differ for "+truncate(str(cfgSX(&c))))
			}
			var bm *cors.Middleware
			reconfOK := true
			if k1 != nil {
				bm, err = cors.NewMiddleware(cloneCfg(*k1))
				if err != nil {
					reconfOK = false
				}
			}
			var z cors.Middleware
			cc := cloneCfg(c)
			if z.Reconfigure(&cc) != nil {
				reconfOK = false
			}
			// Reconfigure(Config()) on a itself, twice
			a2, _ := cors.NewMiddleware(cloneCfg(c))
			if a2.Reconfigure(a2.Config()) != nil {
				reconfOK = false
			}
			k2 := a2.Config()
			if a2.Reconfigure(a2.Config()) != nil {
				reconfOK = false
			}
			k3 := a2.Config()
			probes := probeSuite(&c)
			for j := 0; j < 6; j++ {
				probes = append(probes, genRequest(&c, r))
			}
			probeSX := make(SL, len(probes))
			for i, q := range probes {
				probeSX[i] = q.sx()
			}
			outsOf := func(m *cors.Middleware, debug bool) SX {
				if m == nil {
					return L()
				}
				m.SetDebug(debug)
				l := make(SL, len(probes))
				for i, q := range probes {
					l[i] = serveOnce(m, q, http.Header{}).sx()
				}
				return l
			}
			outs := L(outsOf(a, false), outsOf(a, true), outsOf(bm, false), outsOf(bm, true), outsOf(&z, false), outsOf(&z, true))
			cfgs := SL{}
			for _, k := range []*cors.Config{k1, k2, k3} {
				cfgs = append(cfgs, cfgSX(k))
			}
			all := append([]string{}, c.Origins...)
			for _, k := range []*cors.Config{k1, k2, k3} {
				if k != nil {
					all = append(all, k.Origins...)
				}
			}
			kind := "roundtrip"
			if i < len(special) {
				kind = "roundtrip-corpus"
			}
			o.emit("roundtrip", true, kind, KV("cfg", cfgSX(&c)), KV("probes", probeSX), KV("configs", cfgs),
				KV("reconfok", Bool(reconfOK)), KV("outs", outs), oracleFor(all))
		}()
	}
}

// ---------- C13: strings generated from the documented grammar and single-defect mutations ----------

func patternImpl(raw string) (impl SX, ok bool) {
	p, err := origins.ParsePattern(raw)
	if err != nil {
		if e, isT := err.(*cfgerrors.UnacceptableOriginPatternError); isT && e != nil {
			return L(Y("err"), Y(e.Reason), B(e.Value)), false
		}
		return L(Y("err"), Y("wrong-type"), B("")), false
	}
	kind := []string{"domain", "ip", "loopback", "subdomains"}[p.Kind]
	return L(Y("ok"), B(p.Scheme), B(p.HostPattern.Value), Y(kind), I(p.Port)), true
}

func selfMatch(raw string) bool {
	m, err := cors.NewMiddleware(cors.Config{Origins: []string{raw}})
	if err != nil {
		return false
	}
	out := serveOnce(m, reqT{method: "GET", hdrs: http.Header{"Origin": {raw}}}, http.Header{})
	v := out.hdrs["Access-Control-Allow-Origin"]
	return len(v) == 1 && v[0] == raw
}

func genLabel(r R, max int) string {
	n := 1 + r.Intn(max)
	bs := make([]byte, n)
	const alnum = "abcdefghijklmnopqrstuvwxyz0123456789"
	for i := range bs {
		bs[i] = alnum[r.Intn(len(alnum))]
		if i > 0 && i < n-1 && r.chance(1, 10) && !(i == 2 || i == 3) {
			bs[i] = '-'
		}
	}
	return string(bs)
}

func genDomain(r R) string {
	switch r.Intn(12) {
	case 0:
		return longHost(253, 'a')
	case 1:
		return strings.Repeat("a", 63) + ".com"
	case 2:
		return "xn--xample-9ua.com"
	}
	n := 1 + r.Intn(4)
	ls := make([]string, n)
	for i := range ls {
		ls[i] = genLabel(r, 12)
	}
	// last label must not start with a digit (else the host is treated as an IPv4 attempt: grey zone)
	last := ls[n-1]
	if last[0] >= '0' && last[0] <= '9' {
		ls[n-1] = "c" + last
	}
	return strings.Join(ls, ".")
}

func famPattern(o *Out, r R, tier string) {
	n := 1500
	if tier == "thorough" {
		n = 40000
	}
	// an error keeps naming ITS string: every rejection's error value is retained and re-read after the next rejections
	// (a shared or recycled error object would by then name another pattern)
	type kept struct {
		raw string
		err error
	}
	var retained []kept
	recheck := func() {
		for _, k := range retained {
			pe, isT := k.err.(*cfgerrors.UnacceptableOriginPatternError)
			if !isT || pe == nil || pe.Value != k.raw {
				got := "<other type>"
				if isT && pe != nil {
					got = pe.Value
				}
				o.emitDirect("pattern-error-retained", false, "the error returned for "+strconv.Quote(truncate(k.raw))+" later names "+strconv.Quote(truncate(got)))
			}
		}
		retained = retained[:0]
	}
	defer recheck()
	emit := func(label, kind, raw string) {
		if _, perr := origins.ParsePattern(raw); perr != nil {
			retained = append(retained, kept{raw, perr})
			if len(retained) >= 8 {
				recheck()
			}
		}
		impl, ok := patternImpl(raw)
		wildfree := ok && !strings.Contains(raw, "*")
		sm := false
		if wildfree {
			sm = selfMatch(raw)
		}
		// the error reported through the public API must be the same one
		if !ok {
			_, err := cors.NewMiddleware(cors.Config{Origins: []string{raw}})
			cnt := 0
			good := err != nil
			if err != nil {
				for e := range cfgerrors.All(err) {
					cnt++
					if pe, isT := e.(*cfgerrors.UnacceptableOriginPatternError); !isT || pe.Value != raw {
						good = false
					}
				}
			}
			if !good || cnt != 1 {
				o.emitDirect("pattern-public-api", label != "defect", raw)
			}
		}
		o.emit("pattern", true, label+"/"+kind, KV("raw", B(raw)), KV("label", Y(label)), KV("impl", impl),
			KV("selfmatch", Bool(sm)), KV("wildfree", Bool(wildfree)), oracleFor([]string{raw}))
	}
	// every maximum at once (F3)
	maxScheme := "a" + strings.Repeat("b", 63)
	// a dictionary of scheme names that exist (everything but `file` is permitted)
	for _, sc := range []string{"data", "blob", "about", "javascript", "ws", "wss", "ftp", "chrome-extension", "moz-extension", "safari-web-extension", "capacitor", "ionic", "tauri", "app", "vscode-webview",
		"resource", "filesystem", "view-source", "mailto", "tel", "urn", "content", "android-app", "ms-appx-web", "gopher", "irc", "git", "ssh", "s3", "intent", "files", "filex", "fil"} {
		emit("valid", "real-scheme", sc+"://example.com")
		emit("valid", "real-scheme", sc+"://*.example.com:8080")
	}
	emit("defect", "file-scheme", "file://example.com")
	// numbers of labels at the DNS limit: one-byte labels, with and without the root dot, with and without the wildcard
	for _, nl := range []int{125, 126, 127} {
		h := strings.TrimSuffix(strings.Repeat("a.", nl), ".")
		emit("valid", "label-count", "https://"+h)
		emit("valid", "label-count", "https://"+h+".")
		if nl <= 126 {
			emit("valid", "label-count", "https://*."+strings.TrimSuffix(strings.Repeat("a.", nl-1), "."))
		}
	}
	// every prefix of a maximal valid pattern (each is valid or has exactly the defect the grammar names; none may crash)
	{
		full := maxScheme + "://" + longHost(253, 'a') + ".:65535"
		for k := 0; k <= len(full); k++ {
			if k < 80 || k > len(full)-12 || k%9 == 0 {
				emit("prefix", "of-maximal", full[:k])
			}
		}
	}
	emit("valid", "all-maxima", maxScheme+"://"+longHost(253, 'a')+".:65535")
	emit("valid", "all-maxima", maxScheme+"://"+longHost(253, 'a')+":65535")
	emit("valid", "all-maxima", maxScheme+"://*."+longHost(251, 'a')+":*")
	emit("defect", "too-long", maxScheme+"://"+longHost(254, 'a'))
	emit("defect", "too-long", "https://"+strings.Repeat("a", 64)+".com")
	emit("defect", "too-long", maxScheme+"c://example.com")
	emit("defect", "too-long", "https://*."+longHost(252, 'a'))
	for _, n := range []int{249, 250, 251, 252} { // the wildcard's length limit counts the trailing full stop (the model decides)
		emit("grey", "wildcard-absolute", "https://*."+longHost(n, 'a')+".")
		emit("grey", "wildcard-absolute", "https://*."+longHost(n, 'a'))
	}
	for _, h := range []string{strings.Repeat("a", 64), "example." + strings.Repeat("a", 64), "www.example." + strings.Repeat("b", 64), "example." + strings.Repeat("a", 200), strings.Repeat("a", 64) + "."} {
		emit("defect", "long-last-label", "https://"+h)
		emit("defect", "long-last-label", "http://"+h+":8080")
		emit("defect", "long-last-label", "https://*."+h)
	}
	for _, d := range []string{longHost(251, 'a'), longHost(248, 'b'), longHost(250, 'c')} { // wildcard before a near-maximal domain, with a port
		emit("valid", "wildcard-max-port", "https://*."+d+":8443")
		emit("valid", "wildcard-max-port", "https://*."+d+":*")
		emit("valid", "wildcard-max-port", "https://*."+d[:len(d)-3]+":65535")
	}
	for _, d := range originsDefect {
		if d == "https://xn--a.com" || d == "https://[::1]" || d == "https://127.0.0.1" || d == "http://1.2.3" || d == "https://*." || d == "https://*" {
			emit("grey", "corpus", d)
		} else {
			emit("defect", "corpus", d)
		}
	}
	for _, v := range append(append(append([]string{}, originsValidSecure...), originsValidInsecure...), originsPSL...) {
		emit("valid", "corpus", v)
	}
	for _, v := range originsACE {
		emit("grey", "ace-corpus", v)
	}
	// long rejected strings (the error must carry the offending value exactly as supplied, whatever its length)
	for _, ln := range []int{300, 1023, 1024, 1025, 1100, 2048} {
		fill := strings.Repeat("a", ln)
		emit("defect", "long-defect", "https://example.com/"+fill)
		emit("defect", "long-defect", "https://example.com?"+fill)
		emit("defect", "long-defect", "https://example.com#"+fill)
		emit("defect", "long-defect", "https://"+fill+"@example.com")
		emit("defect", "long-defect", "https://example.com:"+strings.Repeat("9", ln))
		emit("defect", "long-defect", "https://"+fill+".example.com")
		emit("defect", "long-defect", "https://"+longHost(ln, 'b'))
		emit("defect", "long-defect", "https://example.com"+strings.Repeat(" ", ln))
		emit("defect", "long-defect", fill+"://example.com")
		emit("defect", "long-defect", "https://r\xc3\xa9sum\xc3\xa9"+fill+".example.com")
	}
	// non-ASCII hosts: every single byte 0x80-0xFF, and code points of every UTF-8 length, at the start, in the
	// middle and at the end of a label (a Unicode host is a documented non-form, whatever the script)
	for bv := 0x80; bv <= 0xFF; bv++ {
		c := string([]byte{byte(bv)})
		emit("defect", "high-byte-host", "https://"+c+".example.com")
		emit("defect", "high-byte-host", "https://exa"+c+"mple.com")
		emit("defect", "high-byte-host", "https://*.example"+c+".com:8443")
	}
	nrunes := 600
	if tier == "thorough" {
		nrunes = 20000
	}
	for k := 0; k < nrunes; k++ {
		var cp rune
		switch k % 4 {
		case 0:
			cp = rune(0x80 + r.Intn(0x800-0x80))
		case 1, 2:
			cp = rune(0x800 + r.Intn(0x10000-0x800))
			if cp >= 0xD800 && cp <= 0xDFFF {
				cp = 0x4E2D
			}
		default:
			cp = rune(0x10000 + r.Intn(0x100000))
		}
		c := string(cp)
		switch r.Intn(5) {
		case 0:
			emit("defect", "unicode-host", "https://"+c+".example.com")
		case 1:
			emit("defect", "unicode-host", "https://shop"+c+".example.com"+r.pick([]string{"", ":8443", ":*"}))
		case 2:
			emit("defect", "unicode-host", "http://*."+c+".example.com")
		case 3:
			emit("defect", "unicode-host", r.pick([]string{"connector", "https", "http"})+"://"+c)
		default:
			emit("defect", "unicode-host", "https://a."+c+c+".example.org.")
		}
	}
	ipv4s := []string{"127.0.0.1", "10.0.0.1", "255.255.255.255", "0.0.0.0", "1.2.3.4", "192.168.1.254"}
	ipv6s := []string{"[::1]", "[::]", "[2001:db8::1]", "[1:2:3:4:5:6:7:8]", "[fe80::1]", "[2001:db8:0:1:1:1:1:1]", "[1::8]", "[2001:db8::]"}
	schemes := []string{"https", "http", "connector", "a", "x+y", "x-y.z", "h2", maxScheme,
		"httpx", "http+unix", "https-proxy", "https+insecure", "httpss", "http2", "htt", "ht", "h", "https.", "http-", "file2", "nul", "ws", "wss"}
	for i := 0; i < n; i++ {
		scheme := r.pick(schemes)
		var host string
		hk := r.Intn(10)
		switch {
		case hk == 0:
			host = r.pick(ipv4s)
		case hk == 1:
			host = r.pick(ipv6s)
			if r.chance(1, 2) {
				host = genIPv6(r)
			}
		default:
			host = genDomain(r)
			if r.chance(1, 6) && len(host) <= 253 {
				host += "."
			}
			if r.chance(1, 4) && len(host) <= 251 {
				host = "*." + host
			}
		}
		if (hk <= 1) && scheme == "https" {
			scheme = "http"
		}
		port := ""
		switch r.Intn(6) {
		case 0:
			port = ":*"
		case 1:
			port = ":" + strconv.Itoa(1+r.Intn(65535))
		case 2:
			port = r.pick([]string{":1", ":65535", ":8080", ":443", ":80"})
		}
		if (scheme == "http" && port == ":80") || (scheme == "https" && port == ":443") {
			port = ""
		}
		valid := scheme + "://" + host + port
		emit("valid", "generated", valid)
		// one single-defect mutation of it
		base := strings.TrimPrefix(host, "*.")
		var bad, kind string
		switch r.Intn(22) {
		case 0:
			bad, kind = scheme+"://"+strings.ToUpper(host[:1])+host[1:]+port, "uppercase-host"
			if strings.ToUpper(host[:1]) == host[:1] {
				bad = scheme + "://" + "X" + host + port
			}
		case 1:
			bad, kind = scheme+"://user@"+host+port, "userinfo"
		case 2:
			bad, kind = valid+"/", "path"
		case 3:
			bad, kind = valid+"?q", "query"
		case 4:
			bad, kind = valid+"#f", "fragment"
		case 5:
			bad, kind = " "+valid, "leading-space"
		case 6:
			bad, kind = valid+" ", "trailing-space"
		case 7:
			bad, kind = scheme+"://"+host+":", "empty-port"
		case 8:
			bad, kind = scheme+"://"+host+":0", "zero-port"
		case 9:
			bad, kind = scheme+"://"+host+":65536", "over-range-port"
		case 10:
			bad, kind = scheme+"://"+host+":123456", "over-long-port"
		case 11:
			bad, kind = scheme+"://"+host+":08080", "leading-zero-port"
		case 12:
			if scheme == "http" {
				bad, kind = "http://"+host+":80", "default-port"
			} else {
				bad, kind = "https://"+genDomain(r)+":443", "default-port"
			}
		case 13:
			bad, kind = "file://"+host+port, "file-scheme"
		case 14:
			bad, kind = scheme+"://a*."+base+port, "wildcard-not-whole-label"
		case 15:
			bad, kind = scheme+"://"+base+".*"+port, "wildcard-not-leading"
		case 16:
			bad, kind = scheme+"://"+host+":8*", "wildcard-not-whole-port"
		case 17:
			bad, kind = "http://*."+r.pick(ipv4s)+port, "wildcard-before-ip"
		case 18:
			bad, kind = scheme+"://"+strings.Repeat("b", 64)+"."+base+port, "long-label"
			if len(base) > 150 {
				bad = scheme + "://" + strings.Repeat("b", 64) + ".com" + port
			}
		case 19:
			bad, kind = "http://"+r.pick([]string{"[0:0:0:0:0:0:0:1]", "[::1%eth0]", "[::ffff:1.2.3.4]", "[2001:DB8::1]", "[2001:db8:0:0:0:0:0:1]", "[::0:1]", "010.0.0.1", "1.2.3.04", "0x7f.0.0.1", "1.2.3.256"})+port, "non-canonical-ip"
		case 20:
			bad, kind = scheme+"://r\xc3\xa9sum\xc3\xa9."+base+port, "unicode-host"
		case 21:
			bad, kind = strings.ToUpper(scheme[:1])+scheme[1:]+"://"+host+port, "uppercase-scheme"
		}
		emit("defect", kind, bad)
	}
}

// ---------- C15: permuted / duplicated / case-varied twins ----------

func caseVary(r R, s string) string {
	bs := []byte(s)
	for i := range bs {
		if r.chance(1, 2) {
			if 'a' <= bs[i] && bs[i] <= 'z' {
				bs[i] -= 32
			} else if 'A' <= bs[i] && bs[i] <= 'Z' {
				bs[i] += 32
			}
		}
	}
	return string(bs)
}

func twinList(r R, l []string, vary func(string) string, extra []string) []string {
	out := r.perm(l)
	if len(out) > 0 && r.chance(1, 2) {
		out = append(out, out[r.Intn(len(out))])
	}
	for i := range out {
		if out[i] != "*" && r.chance(1, 2) {
			out[i] = vary(out[i])
		}
	}
	if len(extra) > 0 && r.chance(1, 3) {
		out = append(out, r.pick(extra))
	}
	return r.perm(out)
}

func famTwins(o *Out, r R, tier string) {
	n, nreq := 400, 16
	if tier == "thorough" {
		n, nreq = 8000, 40
	}
	id := func(s string) string { return s }
	emitTwin := func(kind string, c, t cors.Config) {
		mismatch := ""
		nreqs := 0
		for _, debug := range []bool{false, true} {
			m1, m2 := newMW(&c, debug), newMW(&t, debug)
			if m1 == nil {
				if m2 != nil { // equivalent configurations are accepted alike
					o.emitDirect("twin-rejected", false, str(cfgSX(&t))+" is accepted while its twin is rejected: "+str(cfgSX(&c)))
				}
				return
			}
			if m2 == nil {
				o.emitDirect("twin-rejected", false, str(cfgSX(&c))+" vs "+str(cfgSX(&t)))
				return
			}
			// every listed origin pattern as the origin it denotes (first 16), then generated requests
			var fixed []reqT
			for k, p := range c.Origins {
				if k >= 64 || !strings.Contains(p, "://") {
					continue
				}
				og := strings.Replace(strings.Replace(p, "://*.", "://sub.", 1), ":*", ":7777", 1)
				fixed = append(fixed, reqT{method: "GET", hdrs: http.Header{"Origin": {og}}})
				if strings.Contains(p, "://*.") {
					fixed = append(fixed, reqT{method: "GET", hdrs: http.Header{"Origin": {strings.Replace(strings.Replace(p, "://*.", "://x.y.", 1), ":*", ":7777", 1)}}})
				}
			}
			for j := 0; j < nreq/2+len(fixed); j++ {
				var q reqT
				if j < len(fixed) {
					q = fixed[j]
				} else {
					q = genRequest(&c, r)
				}
				pre := genPre(r, false)
				o1, o2 := serveOnce(m1, q, pre), serveOnce(m2, q, pre)
				nreqs++
				if str(o1.sx()) != str(o2.sx()) && mismatch == "" {
					mismatch = str(cfgSX(&c)) + " vs " + str(cfgSX(&t)) + " on " + str(q.sx()) + ": " + str(o1.sx()) + " != " + str(o2.sx())
				}
				// correspondence for the twin itself
				if j >= len(fixed) && j < len(fixed)+2 {
					o.emit("serve", true, "twin-serve", KV("cfg", cfgSX(&t)), KV("debug", Bool(debug)), KV("req", q.sx()), KV("pre", hdrSX(pre)),
						KV("impl", o2.sx()), KV("want", L(Y("none"))), oracleForCfg(&t))
				}
			}
		}
		o.emitDirect(kind, mismatch == "", str(cfgSX(&t))+" "+mismatch)
	}
	// the `*` next to Authorization in both orders, with and without credentials
	for _, cred := range []bool{false, true} {
		for _, auth := range []string{"Authorization", "authorization", "AUTHORIZATION"} {
			c := cors.Config{Origins: []string{"https://example.com"}, Credentialed: cred, RequestHeaders: []string{"*", auth}}
			t := cloneCfg(c)
			t.RequestHeaders = []string{auth, "*"}
			emitTwin("twin-star-auth", c, t)
			t2 := cloneCfg(c)
			t2.RequestHeaders = []string{auth, "*", strings.ToLower(auth), "x-foo"}
			c2 := cloneCfg(c)
			c2.RequestHeaders = []string{"x-foo", "*", auth}
			emitTwin("twin-star-auth", c2, t2)
		}
	}
	// nested public-suffix lists in every order, with and without the tolerance (rejected twins must be rejected alike)
	for _, l := range originsPSLNested {
		for _, tol := range []bool{false, true} {
			for _, perm := range permutations(l) {
				c := cors.Config{Origins: append([]string{}, l...)}
				c.DangerouslyTolerateSubdomainsOfPublicSuffixes = tol
				t := cloneCfg(c)
				t.Origins = perm
				emitTwin("twin-psl-nested", c, t)
				emitTwin("twin-psl-nested", t, c)
			}
		}
	}
	// dense lists over a small universe (discrete hosts, deeper hosts under other schemes or ports, wildcards over inner
	// nodes) against their reversal and two permutations
	{
		var uni []string
		for _, l1 := range []string{"a", "b", "ab"} {
			uni = append(uni, l1+".example.com")
			for _, l2 := range []string{"a", "b"} {
				uni = append(uni, l2+"."+l1+".example.com")
			}
		}
		uni = append(uni, "example.com")
		nd := 10
		if tier == "thorough" {
			nd = 150
		}
		for i := 0; i < nd; i++ {
			var pats []string
			for j := 3 + r.Intn(6); j > 0; j-- {
				h := r.pick(uni)
				if r.chance(1, 3) {
					h = "*." + h
				}
				pats = append(pats, r.pick([]string{"https", "http", "https"})+"://"+h+r.pick([]string{"", "", ":81", ":*"}))
			}
			c := cors.Config{Origins: pats, ExtraConfig: cors.ExtraConfig{DangerouslyTolerateInsecureOrigins: true}}
			for x := 0; x < 3; x++ {
				t := cloneCfg(c)
				if x == 0 {
					for i, j := 0, len(t.Origins)-1; i < j; i, j = i+1, j-1 {
						t.Origins[i], t.Origins[j] = t.Origins[j], t.Origins[i]
					}
				} else {
					t.Origins = r.perm(pats)
				}
				emitTwin("twin-dense", c, t)
			}
		}
	}
	// one host under four to six schemes with one to three ports each (one tree node holding several parallel port
	// lists), against its reversal and random permutations; every listed origin is probed by emitTwin
	for k := 4; k <= 6; k++ {
		for rep := 0; rep < 3; rep++ {
			schemes := []string{"app", "http", "https", "tauri", "wails", "zz"}[:k]
			ports := []string{"", ":3000", ":8443", ":9000"}
			var pats []string
			for si, sc := range schemes {
				pats = append(pats, sc+"://example.com"+ports[(si+rep)%len(ports)])
			}
			for si, sc := range schemes {
				if (si+rep)%2 == 0 {
					pats = append(pats, sc+"://example.com"+ports[(si+rep+1)%len(ports)])
				}
			}
			c := cors.Config{Origins: pats, Credentialed: true, ExtraConfig: cors.ExtraConfig{DangerouslyTolerateInsecureOrigins: true}}
			t := cloneCfg(c)
			t.Origins = append([]string{}, pats...)
			for i, j := 0, len(t.Origins)-1; i < j; i, j = i+1, j-1 {
				t.Origins[i], t.Origins[j] = t.Origins[j], t.Origins[i]
			}
			emitTwin("twin-schemes-ports", c, t)
			for x := 0; x < 3; x++ {
				t2 := cloneCfg(c)
				t2.Origins = r.perm(pats)
				emitTwin("twin-schemes-ports", c, t2)
				emitTwin("twin-schemes-ports", t2, c)
			}
		}
	}
	for i := 0; i < n; i++ {
		c := genValidConfig(r)
		t := cloneCfg(c)
		t.Origins = twinList(r, c.Origins, id, nil)
		t.Methods = twinList(r, c.Methods, func(s string) string {
			if fetchNormalize(strings.ToLower(s)) != strings.ToLower(s) {
				return caseVary(r, s) // only spellings that Fetch normalises (DELETE, GET, HEAD, OPTIONS, POST, PUT)
			}
			return s
		}, []string{"GET", "POST", "HEAD", "get"})
		if len(c.Methods) == 0 {
			t.Methods = pickN(r, []string{"GET", "POST", "HEAD"}, 2)
		}
		t.RequestHeaders = twinList(r, c.RequestHeaders, func(s string) string { return caseVary(r, s) }, nil)
		t.ResponseHeaders = twinList(r, c.ResponseHeaders, func(s string) string { return caseVary(r, s) }, []string{"Content-Type", "cache-control", "Expires"})
		if len(c.ResponseHeaders) == 0 {
			t.ResponseHeaders = pickN(r, []string{"Content-Type", "pragma"}, 2)
		}
		emitTwin("twin", c, t)
		// exhaustive permutations for short lists
		if len(c.Origins) >= 2 && len(c.Origins) <= 3 && i%4 == 0 {
			for _, p := range permutations(c.Origins) {
				t := cloneCfg(c)
				t.Origins = p
				emitTwin("twin-origins-perm", c, t)
			}
		}
		if len(c.RequestHeaders) >= 2 && len(c.RequestHeaders) <= 3 && i%4 == 1 {
			for _, p := range permutations(c.RequestHeaders) {
				t := cloneCfg(c)
				t.RequestHeaders = p
				emitTwin("twin-reqhdrs-perm", c, t)
			}
		}
	}
}
