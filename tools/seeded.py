#!/usr/bin/env python3
"""seeded.py -- confirm and evaluate seeded changes (never commits anything to /repo).

  tools/seeded.py verify <dir>          in a scratch worktree under /var/tmp: the patch applies, the library builds,
                                        the whole existing test suite passes, the demonstration FAILS with the patch
                                        and PASSES without it
  tools/seeded.py detect <dir> [Cxx..]  apply the patch to /repo, run the quick checks (default: all in MANIFEST),
                                        print which ones report a VIOLATION, undo the patch, regenerate
<dir> holds patch.diff, the demonstration file(s) and demo_cmd.txt / meta.json.
"""
import json, os, re, shutil, subprocess, sys

VERIF = os.path.dirname(os.path.dirname(os.path.abspath(__file__)))
REPO = "/repo"
ENV = dict(os.environ, GOFLAGS="-mod=mod", GOPROXY="off", GOSUMDB="off", GOTOOLCHAIN="local")


def sh(cmd, cwd=None, timeout=1800):
    p = subprocess.run(cmd, cwd=cwd, env=ENV, shell=isinstance(cmd, str), timeout=timeout,
                       stdout=subprocess.PIPE, stderr=subprocess.STDOUT, text=True, errors="replace")
    return p.returncode, p.stdout


def demo_files(d):
    return [f for f in os.listdir(d) if f.endswith(".go")]


def demo_cmd(d):
    meta = os.path.join(d, "meta.json")
    if os.path.exists(meta):
        m = json.load(open(meta))
        if m.get("demo_cmd"):
            return m["demo_cmd"], m.get("demo_dest", {})
    txt = open(os.path.join(d, "demo_cmd.txt")).read() if os.path.exists(os.path.join(d, "demo_cmd.txt")) else ""
    return txt, {}


def place_demo(d, wt, dest):
    placed = []
    for f in demo_files(d):
        rel = dest.get(f, f)
        target = os.path.join(wt, rel)
        os.makedirs(os.path.dirname(target), exist_ok=True)
        shutil.copy(os.path.join(d, f), target)
        placed.append(target)
    return placed


def verify(d):
    d = os.path.abspath(d)
    meta = json.load(open(os.path.join(d, "meta.json")))
    wt = "/var/tmp/seeded-verify-%d" % os.getpid()
    rc, out = sh(["git", "-C", REPO, "worktree", "add", "-q", "--detach", wt, "HEAD"])
    assert rc == 0, out
    res = {}
    try:
        cmd = meta["demo_cmd"]
        dest = meta.get("demo_dest", {})
        place_demo(d, wt, dest)
        rc, out = sh(cmd, cwd=wt)
        res["demo_on_clean_tree_passes"] = rc == 0
        res["demo_clean_tail"] = out[-400:]
        sh("git checkout -q -- . && git clean -fdq", cwd=wt)
        rc, out = sh(["git", "apply", os.path.join(d, "patch.diff")], cwd=wt)
        res["patch_applies"] = rc == 0
        rc, out = sh("go build ./... && go test -vet=off -count=1 ./...", cwd=wt)
        res["suite_passes_with_patch"] = rc == 0
        res["suite_tail"] = out[-400:]
        place_demo(d, wt, dest)
        rc, out = sh(cmd, cwd=wt)
        res["demo_with_patch_fails"] = rc != 0
        res["demo_patch_tail"] = out[-600:]
    finally:
        sh(["git", "-C", REPO, "worktree", "remove", "--force", wt])
    ok = all(res.get(k) for k in ("demo_on_clean_tree_passes", "patch_applies", "suite_passes_with_patch", "demo_with_patch_fails"))
    print(json.dumps(dict(ok=ok, **res), indent=1))
    return 0 if ok else 1


def detect(d, props):
    d = os.path.abspath(d)
    rc, out = sh(["git", "-C", REPO, "status", "--porcelain"])
    assert out.strip() == "", "/repo is not clean: " + out
    if not props:
        props = [c["property_id"] for c in json.load(open(os.path.join(VERIF, "MANIFEST.json")))["checks"]]
    results = {}
    rc, out = sh(["git", "-C", REPO, "apply", os.path.join(d, "patch.diff")])
    assert rc == 0, out
    try:
        for p in props:
            rc, out = sh([os.path.join(VERIF, "check"), p, "quick"], cwd=VERIF, timeout=3000)
            v = [l for l in out.splitlines() if l.startswith("VIOLATION")]
            results[p] = dict(exit=rc, violation=v[0] if v else None)
            print(p, rc, v[0] if v else "-", flush=True)
    finally:
        sh(["git", "-C", REPO, "checkout", "--", "."])
        sh([os.path.join(VERIF, "check"), "setup"], cwd=VERIF)          # regenerate Gen/Tables.v and binaries from the clean tree
        sh(["git", "-C", VERIF, "checkout", "--", "evidence"], cwd=VERIF)  # evidence files are only ever committed from clean-tree runs
    caught = [p for p, r in results.items() if r["exit"] != 0]
    print(json.dumps(dict(caught_by=caught, results=results), indent=1))
    return 0


if __name__ == "__main__":
    if len(sys.argv) < 3:
        print(__doc__)
        sys.exit(2)
    sys.exit(verify(sys.argv[2]) if sys.argv[1] == "verify" else detect(sys.argv[2], sys.argv[3:]))
