module verif/genloop

go 1.23.0
