// genloop: translator for the loop-carrying byte-level code: internal/origins/origins.go (Parse, fastParseHost,
// parseScheme, parsePort and the byte-class predicates), internal/headers/acrh.go (Check, cutAtComma) and
// internal/headers/ows.go (TrimOWS, trimLeftOWS, trimRightOWS). It parses the files (go/parser only) and
// regenerates coq/Gen/LoopSrc.v, one Gallina function per Go function, translated statement by statement:
//   - a local variable is a let-bound name re-bound by every assignment; strings are byte lists, s[i] is `nth`,
//     s[a:b] is `firstn`/`skipn`, Go ints are Z;
//   - `if c { A }; R` is `if c then [[A; R]] else [[R]]` when A can leave, a tuple re-binding otherwise;
//   - a loop is `loop_n fuel body state` (Model/LoopRt.v): the body maps the tuple of loop-carried variables to
//     Next / Brk (break or false loop condition) / Ret (a `return` inside the loop) / Exh; `continue` is Next.
//     The fuel is read off the loop's form: (bound - i) + 1 for `for ; i < bound; i++`, length + 1 for
//     `for len(s) > 0` and for `range`, and length of the string being consumed + 1 for the one `for { }` loop
//     (Check). Running out of fuel is NOT silently the end of the loop: it makes the function return None, and the
//     equality theorems (generated function = Some (model)) therefore prove that the fuel always suffices;
//   - a function that contains a loop (or calls one that does) returns `option <results>`.
// Library calls are the contract functions of Model/UtilRt.v and Model/LoopRt.v (strings.IndexByte,
// strings.CutPrefix, min, util.ASCIISet.Contains = membership in the set's defining string).
// Anything outside this fragment stops the translator (it writes a file recording why; dependent proofs fail).
package main

import (
	"bytes"
	"fmt"
	"go/ast"
	"go/parser"
	"go/printer"
	"go/token"
	"os"
	"path/filepath"
	"strconv"
	"strings"
)

var fset = token.NewFileSet()

type failure struct{ msg string }

func fail(n ast.Node, format string, a ...any) {
	pos := ""
	if n != nil {
		pos = fset.Position(n.Pos()).String() + ": "
	}
	panic(failure{pos + fmt.Sprintf(format, a...)})
}

func src(n ast.Node) string {
	var b bytes.Buffer
	printer.Fprint(&b, fset, n)
	return b.String()
}

func ident(e ast.Expr) string {
	if id, ok := e.(*ast.Ident); ok {
		return id.Name
	}
	return ""
}

func sel(e ast.Expr) (string, string) {
	if se, ok := e.(*ast.SelectorExpr); ok {
		if id, ok := se.X.(*ast.Ident); ok {
			return id.Name, se.Sel.Name
		}
	}
	return "", ""
}

func bytesLit(s string) string {
	if s == "" {
		return "([] : bytes)"
	}
	parts := make([]string, len(s))
	for i := 0; i < len(s); i++ {
		parts[i] = strconv.Itoa(int(s[i]))
	}
	return "([" + strings.Join(parts, "; ") + "]%N : bytes)"
}

// ---- kinds ----
// "str" bytes, "byte" N, "int" Z, "bool", "host", "origin", "set", "strs" (list bytes)

var coqType = map[string]string{"str": "bytes", "byte": "N", "int": "Z", "bool": "bool", "host": "host", "origin": "origin", "set": "sset", "strs": "list bytes",
	"err": "option (bytes * reason)", "hostpat": "hostpat", "pattern": "pattern", "pkind": "pkind", "ip": "ipres"}

func kindOfType(ty string) string {
	switch ty {
	case "string":
		return "str"
	case "byte":
		return "byte"
	case "int", "uint":
		return "int"
	case "bool":
		return "bool"
	case "Host":
		return "host"
	case "Origin":
		return "origin"
	case "util.SortedSet":
		return "set"
	case "[]string":
		return "strs"
	case "error":
		return "err"
	case "HostPattern", "*HostPattern":
		return "hostpat"
	case "Pattern", "*Pattern":
		return "pattern"
	case "PatternKind":
		return "pkind"
	}
	return ""
}

var zeroOfKind = map[string]string{"str": "([] : bytes)", "byte": "0%N", "int": "0%Z", "bool": "false", "host": "zero_host", "origin": "zero_origin",
	"err": "(None : option (bytes * reason))", "hostpat": "zero_hostpat", "pattern": "zero_pat"}

// struct fields: (receiver kind, field) -> (projection, setter, kind)
var fields = map[string][3]string{
	"hostpat.Value":       {"hp_value", "set_hp_value", "str"},
	"hostpat.Kind":        {"hp_kind", "set_hp_kind", "pkind"},
	"pattern.Scheme":      {"pscheme", "", "str"},
	"pattern.Kind":        {"pkind_of", "", "pkind"},
	"pattern.Value":       {"pvalue", "", "str"},
	"pattern.Port":        {"pport", "", "int"},
	"pattern.HostPattern": {"hostpat_of", "", "hostpat"},
	"host.Value":          {"hvalue", "", "str"},
	"host.AssumeIP":       {"assume_ip", "", "bool"},
}

var pkinds = map[string]string{"PatternKindDomain": "KDomain", "PatternKindNonLoopbackIP": "KNonLoopbackIP", "PatternKindLoopbackIP": "KLoopbackIP", "PatternKindSubdomains": "KSubdomains"}
var reasonsTbl = map[string]string{"invalid": "RInvalid", "prohibited": "RProhibited"}

type fnInfo struct {
	gname   string
	results []string // kinds
	loopy   bool
	recv    string // kind of the receiver ("" for plain functions)
	oracles string // extra leading arguments inside the section ("" : none)
}

// checked mode (-checked): every function additionally returns, as its LAST result, a boolean that is true iff no
// index or slice expression evaluated along the way was out of range (Go would have panicked otherwise). The flag is
// one more variable (`_chk`) threaded through statements, loops and calls; calls of translated functions are hoisted
// out of expressions.
var checked bool
var prefix = "go_"

const chkVar = "_chk"

var funcs = map[string]*fnInfo{}   // Go name -> info (translated so far, in this package)
var consts = map[string][2]string{} // Go const/var name -> (Gallina term, kind)

type tr struct {
	pkg     string
	fn      string
	info    *fnInfo
	kinds   map[string]string
	scope   []string
	loop    []loopCtx // innermost last
	depth   int
	hasLoop bool
	usesOracles bool
	pending []string // checked mode: hoisted calls to emit before the current statement
	guards  []string // checked mode: bound checks of the expressions of the current statement
	tmp     int
}

func (t *tr) guard(g string) {
	if checked {
		t.guards = append(t.guards, g)
	}
}

// flush returns what checked mode emits before the current statement (hoisted calls, then the flag update)
func (t *tr) flush() string {
	if !checked {
		return ""
	}
	out := ""
	for _, p := range t.pending {
		out += p + "\n" + t.ind()
	}
	if len(t.guards) > 0 {
		out += "let " + v(chkVar) + " := " + v(chkVar) + " && " + strings.Join(t.guards, " && ") + " in\n" + t.ind()
	}
	t.pending, t.guards = nil, nil
	return out
}

func inRange(i, l string) string { return "(in_range " + i + " (length " + l + "))" }

type loopCtx struct {
	lv   []string
	post string // translated post statement lets ("" if none)
}

func v(n string) string {
	if n == "_" {
		return "_"
	}
	return "v_" + n
}

func (t *tr) declare(name, k string) {
	if name == "_" || name == "" {
		return
	}
	t.kinds[name] = k
	for _, s := range t.scope {
		if s == name {
			return
		}
	}
	t.scope = append(t.scope, name)
}

func (t *tr) ind() string { return strings.Repeat("  ", t.depth+1) }

func (t *tr) snapshot() ([]string, map[string]string) {
	k := map[string]string{}
	for a, b := range t.kinds {
		k[a] = b
	}
	return append([]string{}, t.scope...), k
}

func (t *tr) restore(scope []string, kinds map[string]string) {
	t.scope = append([]string{}, scope...)
	t.kinds = map[string]string{}
	for a, b := range kinds {
		t.kinds[a] = b
	}
}

// ---- expressions ----

func (t *tr) kind(e ast.Expr) string {
	switch e := e.(type) {
	case *ast.ParenExpr:
		return t.kind(e.X)
	case *ast.Ident:
		if k, ok := t.kinds[e.Name]; ok {
			return k
		}
		if c, ok := consts[t.pkg+"."+e.Name]; ok {
			return c[1]
		}
		switch e.Name {
		case "true", "false":
			return "bool"
		case "zeroPattern":
			return "pattern"
		case "zeroHostPattern":
			return "hostpat"
		case "nil":
			return "err"
		}
		if _, ok := pkinds[e.Name]; ok {
			return "pkind"
		}
	case *ast.SelectorExpr:
		if x := ident(e.X); x != "" {
			if f, ok := fields[t.kinds[x]+"."+e.Sel.Name]; ok {
				return f[2]
			}
		}
		if inner, ok := e.X.(*ast.SelectorExpr); ok { // p.HostPattern.X
			if f, ok := fields[t.kind(inner)+"."+e.Sel.Name]; ok {
				return f[2]
			}
		}
	case *ast.BasicLit:
		switch e.Kind {
		case token.INT:
			return "int"
		case token.CHAR:
			return "byte"
		case token.STRING:
			return "str"
		}
	case *ast.UnaryExpr:
		if e.Op == token.NOT {
			return "bool"
		}
		if e.Op == token.AND {
			if cl, ok := e.X.(*ast.CompositeLit); ok && src(cl.Type) == "cfgerrors.UnacceptableOriginPatternError" {
				return "err"
			}
		}
		return t.kind(e.X)
	case *ast.BinaryExpr:
		switch e.Op {
		case token.ADD, token.SUB, token.MUL:
			return "int"
		}
		return "bool"
	case *ast.IndexExpr:
		if t.kind(e.X) == "str" {
			return "byte"
		}
	case *ast.SliceExpr:
		return t.kind(e.X)
	case *ast.CompositeLit:
		switch src(e.Type) {
		case "Host":
			return "host"
		case "Origin":
			return "origin"
		case "HostPattern":
			return "hostpat"
		case "Pattern":
			return "pattern"
		}
	case *ast.CallExpr:
		switch src(e.Fun) {
		case "len", "int", "uint", "min", "max", "strings.IndexByte":
			return "int"
		case "string", "strings.TrimSuffix":
			return "str"
		case "strings.HasPrefix":
			return "bool"
		}
		if f, ok := funcs[t.pkg+"."+src(e.Fun)]; ok && len(f.results) == 1 {
			return f.results[0]
		}
		if se, ok := e.Fun.(*ast.SelectorExpr); ok {
			if f, ok := funcs[t.pkg+"."+se.Sel.Name]; ok && f.recv != "" && len(f.results) == 1 {
				return f.results[0]
			}
			switch se.Sel.Name {
			case "MaxLen", "IndexAfter":
				return "int"
			case "Contains", "Is4In6", "IsLoopback":
				return "bool"
			case "Zone", "String":
				return "str"
			}
		}
	}
	return ""
}

func (t *tr) expr(e ast.Expr) string {
	switch e := e.(type) {
	case *ast.ParenExpr:
		return "(" + t.expr(e.X) + ")"
	case *ast.Ident:
		switch e.Name {
		case "true", "false":
			return e.Name
		case "zeroHost":
			return "zero_host"
		case "zeroOrigin":
			return "zero_origin"
		case "zeroPattern":
			return "zero_pat"
		case "zeroHostPattern":
			return "zero_hostpat"
		case "nil":
			return "(None : option (bytes * reason))"
		}
		if k, ok := pkinds[e.Name]; ok {
			return k
		}
		if _, ok := t.kinds[e.Name]; ok {
			return v(e.Name)
		}
		if c, ok := consts[t.pkg+"."+e.Name]; ok {
			return c[0]
		}
		if c, ok := consts[t.pkg+"."+t.fn+"."+e.Name]; ok {
			return c[0]
		}
		fail(e, "%s: unknown identifier %s", t.fn, e.Name)
	case *ast.BasicLit:
		switch e.Kind {
		case token.INT:
			return "(" + e.Value + ")%Z"
		case token.CHAR:
			s, err := strconv.Unquote(e.Value)
			if err == nil && len(s) == 1 {
				return "(" + strconv.Itoa(int(s[0])) + ")%N"
			}
		case token.STRING:
			s, err := strconv.Unquote(e.Value)
			if err == nil {
				return bytesLit(s)
			}
		}
		fail(e, "literal %s", e.Value)
	case *ast.UnaryExpr:
		switch e.Op {
		case token.NOT:
			return "(negb " + t.expr(e.X) + ")"
		case token.SUB:
			if l, ok := e.X.(*ast.BasicLit); ok && l.Kind == token.INT {
				return "(-" + l.Value + ")%Z"
			}
		case token.AND: // &cfgerrors.UnacceptableOriginPatternError{Value: v, Reason: "r"}
			if cl, ok := e.X.(*ast.CompositeLit); ok && src(cl.Type) == "cfgerrors.UnacceptableOriginPatternError" && len(cl.Elts) == 2 {
				var val, reason string
				for _, el := range cl.Elts {
					kv, ok := el.(*ast.KeyValueExpr)
					if !ok {
						fail(e, "unkeyed error literal")
					}
					switch ident(kv.Key) {
					case "Value":
						val = t.expr(kv.Value)
					case "Reason":
						if l, ok := kv.Value.(*ast.BasicLit); ok {
							u, _ := strconv.Unquote(l.Value)
							reason = reasonsTbl[u]
						}
					}
				}
				if val != "" && reason != "" {
					return "(Some (" + val + ", " + reason + "))"
				}
			}
		}
		fail(e, "unary %s", src(e))
	case *ast.SelectorExpr:
		if x := ident(e.X); x != "" {
			if f, ok := fields[t.kinds[x]+"."+e.Sel.Name]; ok {
				return "(" + f[0] + " " + v(x) + ")"
			}
		}
		if inner, ok := e.X.(*ast.SelectorExpr); ok {
			if f, ok := fields[t.kind(inner)+"."+e.Sel.Name]; ok {
				return "(" + f[0] + " " + t.expr(inner) + ")"
			}
		}
		fail(e, "%s: selector %s", t.fn, src(e))
	case *ast.BinaryExpr:
		return t.binary(e)
	case *ast.IndexExpr:
		if t.kind(e.X) == "str" {
			ix, xx := t.expr(e.Index), t.expr(e.X)
			t.guard(inRange(ix, xx))
			return "(nth (Z.to_nat " + ix + ") " + xx + " 0%N)"
		}
		fail(e, "index expression %s", src(e))
	case *ast.SliceExpr:
		if e.Max != nil || t.kind(e.X) != "str" {
			fail(e, "slice expression %s", src(e))
		}
		x := t.expr(e.X)
		switch {
		case e.Low != nil && e.High != nil:
			lo, hi := t.expr(e.Low), t.expr(e.High)
			t.guard("(slice_ok " + lo + " " + hi + " (length " + x + "))")
			return "(slice3 " + x + " " + lo + " " + hi + ")"
		case e.Low != nil:
			lo := t.expr(e.Low)
			t.guard("(slice_ok " + lo + " (Z.of_nat (length " + x + ")) (length " + x + "))")
			return "(skipn (Z.to_nat " + lo + ") " + x + ")"
		case e.High != nil:
			hi := t.expr(e.High)
			t.guard("(slice_ok 0%Z " + hi + " (length " + x + "))")
			return "(firstn (Z.to_nat " + hi + ") " + x + ")"
		}
		return x
	case *ast.CompositeLit:
		vals := map[string]string{}
		for _, el := range e.Elts {
			kv, ok := el.(*ast.KeyValueExpr)
			if !ok {
				fail(e, "unkeyed composite literal")
			}
			vals[ident(kv.Key)] = t.expr(kv.Value)
		}
		switch src(e.Type) {
		case "Host":
			if len(vals) == 2 && vals["Value"] != "" && vals["AssumeIP"] != "" {
				return "{| hvalue := " + vals["Value"] + "; assume_ip := " + vals["AssumeIP"] + " |}"
			}
		case "Origin":
			if len(vals) == 3 && vals["Scheme"] != "" && vals["Host"] != "" && vals["Port"] != "" {
				return "{| oscheme := " + vals["Scheme"] + "; ohost := " + vals["Host"] + "; oport := " + vals["Port"] + " |}"
			}
		case "HostPattern":
			if len(vals) == 2 && vals["Value"] != "" && vals["Kind"] != "" {
				return "{| hp_value := " + vals["Value"] + "; hp_kind := " + vals["Kind"] + " |}"
			}
		case "Pattern":
			if len(vals) == 3 && vals["HostPattern"] != "" && vals["Scheme"] != "" && vals["Port"] != "" {
				return "(mk_pattern " + vals["Scheme"] + " " + vals["HostPattern"] + " " + vals["Port"] + ")"
			}
		}
		fail(e, "composite literal %s", src(e))
	case *ast.CallExpr:
		return t.call(e)
	}
	fail(e, "expression %s", src(e))
	return ""
}

// an operand of integer arithmetic: an untyped rune constant is an integer there
func (t *tr) intOperand(e ast.Expr) string {
	if l, ok := e.(*ast.BasicLit); ok && l.Kind == token.CHAR {
		s, err := strconv.Unquote(l.Value)
		if err == nil && len(s) == 1 {
			return "(" + strconv.Itoa(int(s[0])) + ")%Z"
		}
	}
	if t.kind(e) == "byte" {
		return "(Z.of_N " + t.expr(e) + ")"
	}
	return t.expr(e)
}

func (t *tr) binary(e *ast.BinaryExpr) string {
	switch e.Op {
	case token.ADD:
		return "(" + t.intOperand(e.X) + " + " + t.intOperand(e.Y) + ")%Z"
	case token.SUB:
		return "(" + t.intOperand(e.X) + " - " + t.intOperand(e.Y) + ")%Z"
	case token.MUL:
		return "(" + t.intOperand(e.X) + " * " + t.intOperand(e.Y) + ")%Z"
	}
	if e.Op == token.LAND || e.Op == token.LOR { // the right operand's bounds are checked only when it is evaluated
		a := t.expr(e.X)
		saved := t.guards
		t.guards = nil
		b := t.expr(e.Y)
		inner := t.guards
		t.guards = saved
		if len(inner) > 0 {
			if e.Op == token.LAND {
				t.guard("(implb " + a + " (" + strings.Join(inner, " && ") + "))")
			} else {
				t.guard("(" + a + " || (" + strings.Join(inner, " && ") + "))")
			}
		}
		if e.Op == token.LAND {
			return "(" + a + " && " + b + ")"
		}
		return "(" + a + " || " + b + ")"
	}
	a, b := t.expr(e.X), t.expr(e.Y)
	ka, kb := t.kind(e.X), t.kind(e.Y)
	k := ka
	if k == "" {
		k = kb
	}
	neg := func(s string, n bool) string {
		if n {
			return "(negb " + s + ")"
		}
		return s
	}
	switch k {
	case "pkind":
		if e.Op == token.EQL || e.Op == token.NEQ {
			return neg("(pkind_eqb "+a+" "+b+")", e.Op == token.NEQ)
		}
	case "err":
		if ident(e.Y) == "nil" && (e.Op == token.EQL || e.Op == token.NEQ) {
			return neg("(is_some_err "+a+")", e.Op == token.EQL)
		}
	case "byte":
		if e.Op == token.EQL || e.Op == token.NEQ {
			return neg("(N.eqb "+a+" "+b+")", e.Op == token.NEQ)
		}
	case "str":
		if e.Op == token.EQL || e.Op == token.NEQ {
			return neg("(beqb "+a+" "+b+")", e.Op == token.NEQ)
		}
	case "int":
		switch e.Op {
		case token.EQL:
			return "(" + a + " =? " + b + ")%Z"
		case token.NEQ:
			return "(negb (" + a + " =? " + b + ")%Z)"
		case token.LSS:
			return "(" + a + " <? " + b + ")%Z"
		case token.LEQ:
			return "(" + a + " <=? " + b + ")%Z"
		case token.GTR:
			return "(" + b + " <? " + a + ")%Z"
		case token.GEQ:
			return "(" + b + " <=? " + a + ")%Z"
		}
	}
	fail(e, "%s: binary expression %s (kinds %q %q)", t.fn, src(e), ka, kb)
	return ""
}

func (t *tr) call(c *ast.CallExpr) string {
	name := src(c.Fun)
	arg := func(i int) string { return t.expr(c.Args[i]) }
	switch name {
	case "len":
		if len(c.Args) == 1 {
			if s, ok := c.Args[0].(*ast.BasicLit); ok && s.Kind == token.STRING {
				u, _ := strconv.Unquote(s.Value)
				return "(" + strconv.Itoa(len(u)) + ")%Z"
			}
			return "(Z.of_nat (length " + arg(0) + "))"
		}
	case "int", "uint":
		if len(c.Args) == 1 {
			if t.kind(c.Args[0]) == "byte" {
				return "(Z.of_N " + arg(0) + ")"
			}
			return arg(0)
		}
	case "min":
		if len(c.Args) == 2 {
			return "(Z.min " + arg(0) + " " + arg(1) + ")"
		}
	case "string": // string(hostPortSep)
		if len(c.Args) == 1 && t.kind(c.Args[0]) == "byte" {
			return "[" + arg(0) + "]"
		}
	case "strings.IndexByte":
		if len(c.Args) == 2 {
			return "(strings_IndexByte " + arg(0) + " " + arg(1) + ")"
		}
	case "isOWS":
		if len(c.Args) == 1 {
			return "(go_isOWS " + arg(0) + ")"
		}
	case "strings.HasPrefix":
		if len(c.Args) == 2 {
			return "(strings_HasPrefix " + arg(0) + " " + arg(1) + ")"
		}
	case "strings.TrimSuffix":
		if len(c.Args) == 2 {
			return "(strings_TrimSuffix " + arg(0) + " " + arg(1) + ")"
		}
	}
	if f, ok := funcs[t.pkg+"."+name]; ok && !f.loopy && len(f.results) == 1 && f.recv == "" {
		s := "(" + f.gname + f.oraclesIn(t)
		for i := range c.Args {
			s += " " + arg(i)
		}
		return t.hoist(s + ")")
	}
	if se, ok := c.Fun.(*ast.SelectorExpr); ok {
		x := ident(se.X)
		// a method of a translated type: hp.IsIP(), pattern.hostOnly(), p.hostOnly()
		if f, ok := funcs[t.pkg+"."+se.Sel.Name]; ok && f.recv != "" && !f.loopy && len(f.results) == 1 {
			rk := t.kind(se.X)
			recv := t.expr(se.X)
			if rk == "pattern" && f.recv == "hostpat" { // promoted method of the embedded HostPattern
				recv = "(hostpat_of " + recv + ")"
				rk = "hostpat"
			}
			if rk == f.recv {
				s := "(" + f.gname + " " + recv
				for i := range c.Args {
					s += " " + arg(i)
				}
				return t.hoist(s + ")")
			}
		}
		if t.kinds[x] == "ip" && len(c.Args) == 0 {
			switch se.Sel.Name {
			case "Zone":
				return "(ip_Zone " + v(x) + ")"
			case "Is4In6":
				return "(ip_Is4In6 " + v(x) + ")"
			case "String":
				return "(ip_String " + v(x) + ")"
			case "IsLoopback":
				return "(ip_IsLoopback " + v(x) + ")"
			}
		}
		switch se.Sel.Name {
		case "Contains": // ASCIISet membership
			if cc, ok := consts[t.pkg+"."+x]; ok && cc[1] == "asciiset" && len(c.Args) == 1 {
				return "(memN " + arg(0) + " " + cc[0] + ")"
			}
		case "MaxLen":
			if t.kinds[x] == "set" && len(c.Args) == 0 {
				return "(Z.of_N (maxlen " + v(x) + "))"
			}
		case "IndexAfter":
			if t.kinds[x] == "set" && len(c.Args) == 2 {
				// SortedSet.IndexAfter slices set.elems[n+1:]: its documented precondition n < Size is a bounds check
				t.guard("(slice_ok (" + arg(0) + " + 1)%Z (Z.of_nat (length (elems " + v(x) + "))) (length (elems " + v(x) + ")))")
				return "(index_after " + v(x) + " " + arg(0) + " " + arg(1) + ")"
			}
		}
	}
	fail(c, "%s: call %s", t.fn, src(c))
	return ""
}

// hoist: in checked mode a translated callee also returns its flag, so the call is bound before the statement
func (t *tr) hoist(app string) string {
	if !checked {
		return app
	}
	t.tmp++
	h, hk := "h_"+strconv.Itoa(t.tmp), "hk_"+strconv.Itoa(t.tmp)
	t.pending = append(t.pending, "let '("+h+", "+hk+") := "+app+" in")
	t.guard(hk)
	return h
}

func (f *fnInfo) oraclesIn(t *tr) string { return "" }

// ---- statements ----

func mentions(n ast.Node, kinds ...string) bool {
	found := false
	var walk func(n ast.Node, inLoop bool)
	walk = func(n ast.Node, inLoop bool) {
		ast.Inspect(n, func(x ast.Node) bool {
			if x == nil || x == n {
				return true
			}
			switch s := x.(type) {
			case *ast.ReturnStmt:
				for _, k := range kinds {
					if k == "return" {
						found = true
					}
				}
			case *ast.BranchStmt:
				if !inLoop { // break/continue inside a nested loop belong to that loop
					for _, k := range kinds {
						if k == strings.ToLower(s.Tok.String()) {
							found = true
						}
					}
				}
			case *ast.ForStmt:
				walk(s.Body, true)
				return false
			case *ast.RangeStmt:
				walk(s.Body, true)
				return false
			case *ast.FuncLit:
				return false
			}
			return true
		})
	}
	walk(n, false)
	return found
}

func flatten(list []ast.Stmt) []ast.Stmt {
	var out []ast.Stmt
	for _, s := range list {
		if b, ok := s.(*ast.BlockStmt); ok {
			out = append(out, flatten(b.List)...)
		} else {
			out = append(out, s)
		}
	}
	return out
}

func (t *tr) assigned(list []ast.Stmt) []string {
	set := map[string]bool{}
	inside := map[string]bool{}
	for _, s := range list {
		ast.Inspect(s, func(x ast.Node) bool {
			switch s := x.(type) {
			case *ast.AssignStmt:
				for _, l := range s.Lhs {
					id := ident(l)
					if s.Tok == token.DEFINE {
						if _, known := t.kinds[id]; !known || inside[id] {
							inside[id] = true
							continue
						}
					}
					if id != "" && id != "_" && !inside[id] {
						set[id] = true
					}
					if x, _ := sel(l); x != "" && !inside[x] { // x.F = e updates the struct-valued local x
						set[x] = true
					}
				}
			case *ast.IncDecStmt:
				if id := ident(s.X); id != "" && !inside[id] {
					set[id] = true
				}
			case *ast.RangeStmt:
				inside[ident(s.Value)] = true
			case *ast.DeclStmt:
				if gd, ok := s.Decl.(*ast.GenDecl); ok {
					for _, sp := range gd.Specs {
						if vs, ok := sp.(*ast.ValueSpec); ok {
							for _, n := range vs.Names {
								inside[n.Name] = true
							}
						}
					}
				}
			}
			return true
		})
	}
	var out []string
	if checked {
		set[chkVar] = true
	}
	for _, n := range t.scope {
		if set[n] {
			out = append(out, n)
		}
	}
	return out
}

func mapv(names []string) []string {
	out := make([]string, len(names))
	for i, n := range names {
		out[i] = v(n)
	}
	return out
}

func tuple(names []string) string {
	if len(names) == 0 {
		return "tt"
	}
	if len(names) == 1 {
		return v(names[0])
	}
	vs := make([]string, len(names))
	for i, n := range names {
		vs[i] = v(n)
	}
	return "(" + strings.Join(vs, ", ") + ")"
}

func letPat(names []string) string {
	if len(names) == 0 {
		return "let _ :="
	}
	if len(names) == 1 {
		return "let " + v(names[0]) + " :="
	}
	return "let '" + tuple(names) + " :="
}

func funPat(names []string) string {
	if len(names) == 0 {
		return "_"
	}
	if len(names) == 1 {
		return v(names[0])
	}
	return "'" + tuple(names)
}

// how a `return`, fuel exhaustion, and the end of the current block are rendered
func (t *tr) kRet(vals string) string {
	if len(t.loop) > 0 {
		return "(Ret " + vals + ")"
	}
	if t.info.loopy {
		return "(Some " + vals + ")"
	}
	return vals
}

func (t *tr) kExh() string {
	if len(t.loop) > 0 {
		return "Exh"
	}
	return "None"
}

func (t *tr) retValues(s *ast.ReturnStmt) string {
	if len(s.Results) != len(t.info.results) {
		fail(s, "%s: return with %d values", t.fn, len(s.Results))
	}
	parts := make([]string, len(s.Results))
	for i, r := range s.Results {
		parts[i] = t.expr(r)
	}
	if checked {
		parts = append(parts, v(chkVar))
	}
	if len(parts) == 1 {
		return parts[0]
	}
	return "(" + strings.Join(parts, ", ") + ")"
}

// loopyCall recognises f(args) with f a translated function that returns an option
func (t *tr) loopyCall(e ast.Expr) (*fnInfo, string, bool) {
	c, ok := e.(*ast.CallExpr)
	if !ok {
		return nil, "", false
	}
	f, ok := funcs[t.pkg+"."+src(c.Fun)]
	if !ok {
		return nil, "", false
	}
	if f.recv != "" {
		return nil, "", false
	}
	s := f.gname
	for _, a := range c.Args {
		s += " " + t.expr(a)
	}
	return f, s, true
}

func (t *tr) seq(list []ast.Stmt, end string) string {
	list = flatten(list)
	if len(list) == 0 {
		if end == "" {
			fail(nil, "%s: control reaches the end of the function", t.fn)
		}
		return end
	}
	s, rest := list[0], list[1:]
	cont := func(line string) string { return t.flush() + line + "\n" + t.ind() + t.seq(rest, end) }
	switch s := s.(type) {
	case *ast.ReturnStmt:
		if len(s.Results) == 1 && len(t.info.results) > 1 {
			if f, call, ok := t.loopyCall(s.Results[0]); ok && len(f.results) == len(t.info.results) {
				pre := t.flush()
				if checked { // return f(x): the callee's flag joins ours
					rs := make([]string, len(f.results))
					for i := range rs {
						rs[i] = "r_" + strconv.Itoa(i)
					}
					pat := "(" + strings.Join(rs, ", ") + ", r_chk)"
					val := "(" + strings.Join(rs, ", ") + ", " + v(chkVar) + " && r_chk)"
					if f.loopy {
						return pre + "match " + call + " with None => " + t.kExh() + " | Some " + pat + " => " + t.kRet(val) + " end"
					}
					return pre + "let '" + pat + " := " + call + " in " + t.kRet(val)
				}
				if f.loopy {
					return "match " + call + " with None => " + t.kExh() + " | Some r => " + t.kRet("r") + " end"
				}
				return t.kRet("(" + call + ")")
			}
		}
		rv := t.retValues(s)
		return t.flush() + t.kRet(rv)
	case *ast.BranchStmt:
		if len(t.loop) == 0 || s.Label != nil {
			fail(s, "branch statement %s", src(s))
		}
		lc := t.loop[len(t.loop)-1]
		switch s.Tok {
		case token.CONTINUE:
			return lc.post + "(Next " + tuple(lc.lv) + ")"
		case token.BREAK:
			return "(Brk " + tuple(lc.lv) + ")"
		}
		fail(s, "branch statement %s", src(s))
	case *ast.DeclStmt:
		gd := s.Decl.(*ast.GenDecl)
		out := ""
		for _, sp := range gd.Specs {
			vs, ok := sp.(*ast.ValueSpec)
			if !ok {
				fail(s, "declaration %s", src(s))
			}
			for i, n := range vs.Names {
				switch {
				case gd.Tok == token.CONST:
					c, ok := consts[t.pkg+"."+t.fn+"."+n.Name]
					if !ok {
						fail(vs, "%s: constant %s is not in Gen/Tables.v", t.fn, n.Name)
					}
					t.declare(n.Name, c[1])
					out += "let " + v(n.Name) + " := " + c[0] + " in\n" + t.ind()
				case gd.Tok == token.VAR && i < len(vs.Values):
					k := t.kind(vs.Values[i])
					t.declare(n.Name, k)
					val := t.expr(vs.Values[i])
					out += t.flush() + "let " + v(n.Name) + " := " + val + " in\n" + t.ind()
				case gd.Tok == token.VAR && vs.Type != nil:
					k := kindOfType(src(vs.Type))
					z, ok := zeroOfKind[k]
					if !ok {
						fail(vs, "zero value of %s", src(vs.Type))
					}
					t.declare(n.Name, k)
					out += "let " + v(n.Name) + " := " + z + " in\n" + t.ind()
				default:
					fail(vs, "declaration %s", src(s))
				}
			}
		}
		return out + t.seq(rest, end)
	case *ast.IncDecStmt:
		id := ident(s.X)
		if t.kinds[id] != "int" {
			fail(s, "statement %s", src(s))
		}
		op := "+"
		if s.Tok == token.DEC {
			op = "-"
		}
		return cont("let " + v(id) + " := (" + v(id) + " " + op + " 1)%Z in")
	case *ast.AssignStmt:
		return t.assign(s, rest, end)
	case *ast.IfStmt:
		return t.ifStmt(s, rest, end)
	case *ast.ForStmt:
		return t.forStmt(s, rest, end)
	case *ast.RangeStmt:
		return t.rangeStmt(s, rest, end)
	}
	fail(s, "%s: statement %s", t.fn, src(s))
	return ""
}

func (t *tr) assign(s *ast.AssignStmt, rest []ast.Stmt, end string) string {
	cont := func(line string) string { return t.flush() + line + "\n" + t.ind() + t.seq(rest, end) }
	if len(s.Rhs) != 1 {
		fail(s, "parallel assignment")
	}
	rhs := s.Rhs[0]
	// x.F = e on a struct-valued local
	if len(s.Lhs) == 1 && s.Tok == token.ASSIGN {
		if x, f := sel(s.Lhs[0]); x != "" {
			if fd, ok := fields[t.kinds[x]+"."+f]; ok && fd[1] != "" {
				return cont("let " + v(x) + " := " + fd[1] + " " + v(x) + " " + t.expr(rhs) + " in")
			}
			fail(s, "%s: assignment %s", t.fn, src(s))
		}
	}
	names := make([]string, len(s.Lhs))
	for i, l := range s.Lhs {
		names[i] = ident(l)
		if names[i] == "" {
			fail(s, "assignment target %s", src(l))
		}
	}
	if len(names) == 1 && names[0] == "_" { // _ = str[i:end]: a bounds-check hint
		if checked {
			_ = t.expr(rhs)
			return t.flush() + t.seq(rest, end)
		}
		return t.seq(rest, end)
	}
	if s.Tok == token.ADD_ASSIGN && len(names) == 1 && t.kinds[names[0]] == "int" {
		return cont("let " + v(names[0]) + " := (" + v(names[0]) + " + " + t.intOperand(rhs) + ")%Z in")
	}
	if c, ok := rhs.(*ast.CallExpr); ok && len(names) == 2 {
		switch src(c.Fun) {
		case "netip.ParseAddr": // ip, err := netip.ParseAddr(x)
			if len(c.Args) == 1 && s.Tok == token.DEFINE {
				val := "netip_ParseAddr ip6 " + t.expr(c.Args[0])
				t.declare(names[0], "ip")
				t.declare(names[1], "err")
				t.usesOracles = true
				return cont("let '(" + v(names[0]) + ", " + v(names[1]) + ") := " + val + " in")
			}
		case "publicsuffix.PublicSuffix": // etld, _ := publicsuffix.PublicSuffix(x): the list is an oracle
			if len(c.Args) == 1 && names[1] == "_" && s.Tok == token.DEFINE {
				val := "psl " + t.expr(c.Args[0])
				t.declare(names[0], "str")
				t.usesOracles = true
				return cont("let " + v(names[0]) + " := " + val + " in")
			}
		case "profile.ToASCII": // _, err := profile.ToASCII(x)
			if len(c.Args) == 1 && names[0] == "_" && s.Tok == token.DEFINE {
				val := "idna_ToASCII ace_ok " + t.expr(c.Args[0])
				t.declare(names[1], "err")
				t.usesOracles = true
				return cont("let " + v(names[1]) + " := " + val + " in")
			}
		}
	}
	bind := func(kinds []string) {
		for i, n := range names {
			if n == "_" {
				continue
			}
			if s.Tok == token.DEFINE {
				if _, known := t.kinds[n]; !known {
					t.declare(n, kinds[i])
					continue
				}
			}
			if _, known := t.kinds[n]; !known {
				fail(s, "assignment to unknown variable %s", n)
			}
		}
	}
	pat := func() string {
		ps := make([]string, len(names))
		for i, n := range names {
			ps[i] = v(n)
		}
		if len(ps) == 1 {
			return ps[0]
		}
		return "'(" + strings.Join(ps, ", ") + ")"
	}
	// strings.CutPrefix
	if c, ok := rhs.(*ast.CallExpr); ok && src(c.Fun) == "strings.CutPrefix" && len(names) == 2 && len(c.Args) == 2 {
		val := "strings_CutPrefix " + t.expr(c.Args[0]) + " " + t.expr(c.Args[1])
		bind([]string{"str", "bool"})
		return cont("let " + pat() + " := " + val + " in")
	}
	if f, call, ok := t.loopyCall(rhs); ok && len(f.results) == len(names) {
		bind(f.results)
		pt := pat()
		post := ""
		if checked {
			pt = "'(" + strings.Join(append(mapv(names), "r_chk"), ", ") + ")"
			post = "let " + v(chkVar) + " := " + v(chkVar) + " && r_chk in\n" + t.ind()
		}
		if f.loopy {
			pre := t.flush()
			t.depth++
			r := post + t.seq(rest, end)
			t.depth--
			return pre + "match " + call + " with\n" + t.ind() + "| None => " + t.kExh() + "\n" + t.ind() + "| Some " + strings.TrimPrefix(pt, "'") + " =>\n" + t.ind() + "  " + r + "\n" + t.ind() + "end"
		}
		return t.flush() + "let " + pt + " := " + call + " in\n" + t.ind() + post + t.seq(rest, end)
	}
	if len(names) != 1 {
		fail(s, "%s: assignment %s", t.fn, src(s))
	}
	val := t.expr(rhs)
	bind([]string{t.kind(rhs)})
	if t.kinds[names[0]] == "" {
		fail(s, "%s: cannot tell the type of %s", t.fn, src(rhs))
	}
	return cont("let " + v(names[0]) + " := " + val + " in")
}

func (t *tr) ifStmt(s *ast.IfStmt, rest []ast.Stmt, end string) string {
	var els []ast.Stmt
	switch e := s.Else.(type) {
	case nil:
	case *ast.BlockStmt:
		els = e.List
	case *ast.IfStmt:
		els = []ast.Stmt{e}
	}
	scope0, kinds0 := t.snapshot()
	pre := ""
	if s.Init != nil { // if i := strings.IndexByte(...); i >= 0 { ... }
		as, ok := s.Init.(*ast.AssignStmt)
		if !ok || len(as.Rhs) != 1 {
			fail(s, "if with an init statement %s", src(s.Init))
		}
		c, isCall := as.Rhs[0].(*ast.CallExpr)
		switch {
		case as.Tok == token.DEFINE && len(as.Lhs) == 1:
			val := t.expr(as.Rhs[0])
			t.declare(ident(as.Lhs[0]), t.kind(as.Rhs[0]))
			pre = t.flush() + "let " + v(ident(as.Lhs[0])) + " := " + val + " in\n" + t.ind()
		case as.Tok == token.ASSIGN && len(as.Lhs) == 2 && isCall && src(c.Fun) == "strings.CutPrefix" && len(c.Args) == 2 &&
			t.kinds[ident(as.Lhs[0])] == "str" && t.kinds[ident(as.Lhs[1])] == "bool":
			cp := "strings_CutPrefix " + t.expr(c.Args[0]) + " " + t.expr(c.Args[1])
			pre = t.flush() + "let '(" + v(ident(as.Lhs[0])) + ", " + v(ident(as.Lhs[1])) + ") := " + cp + " in\n" + t.ind()
		default:
			fail(s, "if with an init statement %s", src(s.Init))
		}
	}
	cond := t.expr(s.Cond)
	pre += t.flush()
	scope1, kinds1 := t.snapshot()
	body := &ast.BlockStmt{List: append(append([]ast.Stmt{}, s.Body.List...), els...)}
	if !mentions(body, "return", "continue", "break") {
		t.restore(scope0, kinds0)
		av := t.assigned(body.List)
		t.restore(scope1, kinds1)
		t.depth++
		a := t.seq(s.Body.List, tuple(av))
		t.restore(scope1, kinds1)
		b := t.seq(els, tuple(av))
		t.depth--
		t.restore(scope0, kinds0)
		if hasLoopStmt(body) {
			fail(s, "a loop inside a non-leaving if")
		}
		return pre + letPat(av) + " if " + cond + " then (" + a + ") else (" + b + ") in\n" + t.ind() + t.seq(rest, end)
	}
	t.depth++
	a := t.seq(append(append([]ast.Stmt{}, s.Body.List...), rest...), end)
	t.restore(scope1, kinds1)
	b := t.seq(append(append([]ast.Stmt{}, els...), rest...), end)
	t.depth--
	t.restore(scope0, kinds0)
	return pre + "if " + cond + " then (\n" + t.ind() + "  " + a + ")\n" + t.ind() + "else (\n" + t.ind() + "  " + b + ")"
}

func hasLoopStmt(n ast.Node) bool {
	found := false
	ast.Inspect(n, func(x ast.Node) bool {
		switch x.(type) {
		case *ast.ForStmt, *ast.RangeStmt:
			found = true
		}
		return true
	})
	return found
}

func (t *tr) stateType(lv []string) string {
	if len(lv) == 0 {
		return "unit"
	}
	ts := make([]string, len(lv))
	for i, n := range lv {
		ts[i] = coqType[t.kinds[n]]
		if ts[i] == "" {
			fail(nil, "%s: unknown type of loop-carried variable %s", t.fn, n)
		}
	}
	return "(" + strings.Join(ts, " * ") + ")"
}

func (t *tr) resultType() string {
	ts := make([]string, len(t.info.results))
	for i, k := range t.info.results {
		ts[i] = coqType[k]
	}
	if checked {
		ts = append(ts, "bool")
	}
	return "(" + strings.Join(ts, " * ") + ")"
}

// infinite `for { }` loops: the string whose length bounds the number of iterations (trusted annotation; the
// equality theorem proves it sufficient)
var infiniteLoopMeasure = map[string]string{"Check": "acrh"}

func (t *tr) forStmt(s *ast.ForStmt, rest []ast.Stmt, end string) string {
	t.hasLoop = true
	scope0, kinds0 := t.snapshot()
	pre := ""
	if s.Init != nil { // for end := min(...); i < end; i++
		as, ok := s.Init.(*ast.AssignStmt)
		if !ok || as.Tok != token.DEFINE || len(as.Lhs) != 1 || len(as.Rhs) != 1 {
			fail(s, "loop init %s", src(s.Init))
		}
		val := t.expr(as.Rhs[0])
		t.declare(ident(as.Lhs[0]), t.kind(as.Rhs[0]))
		pre = t.flush() + "let " + v(ident(as.Lhs[0])) + " := " + val + " in\n" + t.ind()
	}
	var bodyStmts []ast.Stmt
	bodyStmts = append(bodyStmts, s.Body.List...)
	lvSrc := append([]ast.Stmt{}, bodyStmts...)
	if s.Post != nil {
		lvSrc = append(lvSrc, s.Post)
	}
	// loop-carried: variables that exist before the loop (incl. the init variable) and are assigned in it
	lv := t.assigned(lvSrc)
	fuel := ""
	condS := "true"
	condPre := ""
	switch {
	case s.Cond == nil:
		m, ok := infiniteLoopMeasure[t.fn]
		if !ok || t.kinds[m] != "str" {
			fail(s, "%s: an unbounded loop without a known measure", t.fn)
		}
		fuel = "(S (length " + v(m) + "))"
	default:
		condS = t.expr(s.Cond)
		condPre = t.flush() // the condition's bounds are checked inside the loop, on every evaluation
		be, ok := s.Cond.(*ast.BinaryExpr)
		switch {
		case ok && be.Op == token.LSS && t.kind(be.X) == "int" && s.Post != nil && src(s.Post) == ident(be.X)+"++":
			// for ; i < bound; i++ : the bound must not be assigned in the loop
			for _, n := range lv {
				if n == ident(be.Y) || (ident(be.Y) == "" && strings.Contains(src(be.Y), n) && n != ident(be.X)) {
					fail(s, "loop bound assigned in the loop")
				}
			}
			fuel = "(S (Z.to_nat (" + t.expr(be.Y) + " - " + t.expr(be.X) + ")))"
		case ok && be.Op == token.GTR && src(be.Y) == "0":
			c, isCall := be.X.(*ast.CallExpr)
			if !isCall || ident(c.Fun) != "len" || len(c.Args) != 1 || t.kind(c.Args[0]) != "str" {
				fail(s, "loop condition %s", src(s.Cond))
			}
			fuel = "(S (length " + t.expr(c.Args[0]) + "))"
		default:
			fail(s, "loop condition %s", src(s.Cond))
		}
	}
	t.guards, t.pending = nil, nil // the fuel expressions above are not evaluated by Go
	post := ""
	if s.Post != nil {
		inc, ok := s.Post.(*ast.IncDecStmt)
		if !ok || inc.Tok != token.INC {
			fail(s, "loop post statement %s", src(s.Post))
		}
		post = "let " + v(ident(inc.X)) + " := (" + v(ident(inc.X)) + " + 1)%Z in "
	}
	scope1, kinds1 := t.snapshot()
	t.loop = append(t.loop, loopCtx{lv: lv, post: post})
	t.depth += 2
	body := t.seq(bodyStmts, post+"(Next "+tuple(lv)+")")
	t.depth -= 2
	t.loop = t.loop[:len(t.loop)-1]
	t.restore(scope1, kinds1)
	t.depth++
	after := t.seq(rest, end)
	t.depth--
	t.restore(scope0, kinds0)
	// re-declare loop-carried variables' kinds are unchanged; rest was translated with them in scope
	return pre + "match loop_n (S := " + t.stateType(lv) + ") (R := " + t.resultType() + ") " + fuel + " (fun " + funPat(lv) + " =>\n" + t.ind() + "    " + condPre + "if " + condS + " then (\n" + t.ind() + "      " + body + ")\n" + t.ind() + "    else (Brk " + tuple(lv) + ")) " + tuple(lv) + " with\n" +
		t.ind() + "| Done " + strings.TrimPrefix(funPat(lv), "'") + " =>\n" + t.ind() + "  " + after + "\n" +
		t.ind() + "| Returned r => " + t.kRet("r") + "\n" + t.ind() + "| Exhausted => " + t.kExh() + "\n" + t.ind() + "end"
}

func (t *tr) rangeStmt(s *ast.RangeStmt, rest []ast.Stmt, end string) string {
	t.hasLoop = true
	if ident(s.Key) != "_" || s.Value == nil || s.Tok != token.DEFINE || t.kind(s.X) != "strs" {
		fail(s, "range statement over %s", src(s.X))
	}
	scope0, kinds0 := t.snapshot()
	lv := t.assigned(s.Body.List)
	xs := t.expr(s.X)
	rpre := t.flush()
	t.declare(ident(s.Value), "str")
	t.loop = append(t.loop, loopCtx{lv: lv})
	t.depth += 2
	body := t.seq(s.Body.List, "(Next "+tuple(lv)+")")
	t.depth -= 2
	t.loop = t.loop[:len(t.loop)-1]
	t.restore(scope0, kinds0)
	t.depth++
	after := t.seq(rest, end)
	t.depth--
	return rpre + "match loop_list (S := " + t.stateType(lv) + ") (R := " + t.resultType() + ") " + xs + " (fun " + funPat(lv) + " " + v(ident(s.Value)) + " =>\n" + t.ind() + "      " + body + ") " + tuple(lv) + " with\n" +
		t.ind() + "| Done " + strings.TrimPrefix(funPat(lv), "'") + " =>\n" + t.ind() + "  " + after + "\n" +
		t.ind() + "| Returned r => " + t.kRet("r") + "\n" + t.ind() + "| Exhausted => " + t.kExh() + "\n" + t.ind() + "end"
}

// ---- functions ----

func containsLoopOrLoopyCall(pkg string, fd *ast.FuncDecl) bool {
	loopy := false
	ast.Inspect(fd.Body, func(x ast.Node) bool {
		switch c := x.(type) {
		case *ast.ForStmt, *ast.RangeStmt:
			loopy = true
		case *ast.CallExpr:
			if f, ok := funcs[pkg+"."+src(c.Fun)]; ok && f.loopy {
				loopy = true
			}
		}
		return true
	})
	return loopy
}

func translate(pkg string, fd *ast.FuncDecl, gname string) string {
	name := fd.Name.Name
	info := &fnInfo{gname: gname}
	t := &tr{pkg: pkg, fn: name, info: info, kinds: map[string]string{}}
	params := ""
	if fd.Recv != nil {
		r := fd.Recv.List[0]
		k := kindOfType(src(r.Type))
		if k != "hostpat" && k != "pattern" || len(r.Names) != 1 {
			fail(fd, "%s: receiver %s", name, src(r.Type))
		}
		info.recv = k
		t.declare(r.Names[0].Name, k)
		params += " (" + v(r.Names[0].Name) + " : " + coqType[k] + ")"
	}
	for _, f := range fd.Type.Params.List {
		k := kindOfType(src(f.Type))
		if k == "" {
			fail(f, "%s: parameter type %s", name, src(f.Type))
		}
		for _, n := range f.Names {
			t.declare(n.Name, k)
			params += " (" + v(n.Name) + " : " + coqType[k] + ")"
		}
	}
	var named []string
	if fd.Type.Results != nil {
		for _, f := range fd.Type.Results.List {
			k := kindOfType(src(f.Type))
			if k == "" {
				fail(f, "%s: result type %s", name, src(f.Type))
			}
			if len(f.Names) == 0 {
				info.results = append(info.results, k)
			}
			for _, n := range f.Names {
				info.results = append(info.results, k)
				named = append(named, n.Name)
				t.declare(n.Name, k)
			}
		}
	}
	if len(info.results) == 0 {
		fail(fd, "%s: no result", name)
	}
	info.loopy = containsLoopOrLoopyCall(pkg, fd)
	// inside the Section, a function that uses the oracles (or calls one that does) takes them as leading arguments
	ast.Inspect(fd.Body, func(x ast.Node) bool {
		if c, ok := x.(*ast.CallExpr); ok {
			switch src(c.Fun) {
			case "netip.ParseAddr", "profile.ToASCII":
				info.oracles = " ace_ok ip6"
			}
			if f, ok := funcs[pkg+"."+src(c.Fun)]; ok && f.oracles != "" {
				info.oracles = " ace_ok ip6"
			}
		}
		return true
	})
	pre := ""
	for _, n := range named {
		pre += "let " + v(n) + " := " + zeroOfKind[t.kinds[n]] + " in\n  "
	}
	if checked {
		t.declare(chkVar, "bool")
		pre += "let " + v(chkVar) + " := true in\n  "
	}
	body := t.seq(fd.Body.List, "")
	funcs[pkg+"."+name] = info
	rts := make([]string, len(info.results))
	for i, k := range info.results {
		rts[i] = coqType[k]
	}
	if checked {
		rts = append(rts, "bool")
	}
	rt := strings.Join(rts, " * ")
	if info.loopy {
		rt = "option (" + rt + ")"
	}
	return fmt.Sprintf("Definition %s%s : %s :=\n  %s%s.\n", gname, params, rt, pre, body)
}

// collectConsts registers package-level constants and ASCII sets of a file; values come from Gen/Tables.v
func collectConsts(pkg string, file *ast.File, exact bool) {
	for _, d := range file.Decls {
		gd, ok := d.(*ast.GenDecl)
		if !ok {
			continue
		}
		switch gd.Tok {
		case token.CONST:
			for _, sp := range gd.Specs {
				vs := sp.(*ast.ValueSpec)
				for i, n := range vs.Names {
					k := "int"
					if i < len(vs.Values) {
						if l, ok := vs.Values[i].(*ast.BasicLit); ok {
							switch l.Kind {
							case token.CHAR:
								k = "byte"
							case token.STRING:
								k = "str"
							}
						}
					}
					if vs.Type != nil && src(vs.Type) == "PatternKind" || len(vs.Values) == 0 && pkinds[n.Name] != "" || pkinds[n.Name] != "" {
						continue // the PatternKind enumeration is mapped by name
					}
					term := pkg + "_" + n.Name
					if k == "byte" {
						term = "(Z.to_N " + term + ")"
					}
					consts[pkg+"."+n.Name] = [2]string{term, k}
				}
			}
		case token.VAR:
			for _, sp := range gd.Specs {
				vs := sp.(*ast.ValueSpec)
				for i, n := range vs.Names {
					if i < len(vs.Values) {
						if c, ok := vs.Values[i].(*ast.CallExpr); ok && src(c.Fun) == "util.MakeASCIISet" {
							consts[pkg+"."+n.Name] = [2]string{pkg + "_" + n.Name, "asciiset"}
							continue
						}
					}
					switch n.Name {
					case "zeroOrigin", "zeroHost", "zeroPattern", "zeroHostPattern":
						if vs.Values == nil {
							continue
						}
					case "profile": // the IDNA profile: an oracle (ace_ok) plus Model/Idna.v; its options are part of the contract
						want := "idna.New(idna.BidiRule(), idna.ValidateLabels(true), idna.StrictDomainName(true), idna.VerifyDNSLength(true),)"
						if i < len(vs.Values) && strings.Join(strings.Fields(src(vs.Values[i])), "") == strings.Join(strings.Fields(want), "") {
							continue
						}
						fail(vs, "the IDNA profile is not idna.New(BidiRule, ValidateLabels(true), StrictDomainName(true), VerifyDNSLength(true))")
					}
					if exact {
						fail(vs, "package-level variable %s", n.Name)
					}
				}
			}
		}
	}
	// function-local constants
	for _, d := range file.Decls {
		fd, ok := d.(*ast.FuncDecl)
		if !ok || fd.Body == nil {
			continue
		}
		ast.Inspect(fd.Body, func(x ast.Node) bool {
			ds, ok := x.(*ast.DeclStmt)
			if !ok {
				return true
			}
			gd := ds.Decl.(*ast.GenDecl)
			if gd.Tok != token.CONST {
				return true
			}
			for _, sp := range gd.Specs {
				vs := sp.(*ast.ValueSpec)
				for i, n := range vs.Names {
					k := "int"
					if i < len(vs.Values) && (strings.Contains(src(vs.Values[i]), "\"") || strings.Contains(src(vs.Values[i]), "string(")) {
						k = "str"
					}
					consts[pkg+"."+fd.Name.Name+"."+n.Name] = [2]string{pkg + "_" + fd.Name.Name + "_" + n.Name, k}
				}
			}
			return true
		})
	}
}

type job struct {
	file, pkg string
	funcs     [][2]string
	exact     bool
}

func main() {
	args := os.Args[1:]
	if len(args) > 0 && args[0] == "-checked" {
		checked, prefix = true, "chk_"
		args = args[1:]
	}
	if len(args) != 3 {
		fmt.Fprintln(os.Stderr, "usage: genloop [-checked] <repo> <LoopSrc.v|LoopChk.v> <PatSrc.v|PatChk.v>")
		os.Exit(2)
	}
	repo, out, outPat := args[0], args[1], args[2]
	gn := func(n string) string { return prefix + strings.TrimPrefix(n, "go_") }
	header := "(* GENERATED by tools/genloop from internal/origins/origins.go and internal/headers/{acrh,ows}.go on every run -- do not edit. *)\n" +
		"Require Import Base.Bytes Gen.Tables Model.Util Model.Headers Model.Origins Model.UtilRt Gen.UtilSrc Model.LoopRt.\nOpen Scope bool_scope.\n\n"
	if checked {
		header = "(* GENERATED by tools/genloop -checked from internal/origins/origins.go and internal/headers/{acrh,ows}.go on every run -- do not edit.\n" +
			"   Every function also returns a flag that is true iff no index or slice expression evaluated on the way was out of range. *)\n" +
			"Require Import Base.Bytes Gen.Tables Model.Util Model.Headers Model.Origins Model.UtilRt Gen.UtilSrc Model.LoopRt Model.RadixRt.\nOpen Scope bool_scope.\n\n"
	}
	jobs := []job{
		{"internal/origins/origins.go", "origins", [][2]string{
			{"isLowerAlpha", "go_isLowerAlpha"}, {"isSubsequentSchemeByte", "go_isSubsequentSchemeByte"}, {"isASCIILabelByte", "go_isASCIILabelByte"},
			{"intFromDigit", "go_intFromDigit"}, {"isDigit", "go_isDigit"}, {"isNonZeroDigit", "go_isNonZeroDigit"},
			{"parseScheme", "go_parseScheme"}, {"fastParseHost", "go_fastParseHost"}, {"parsePort", "go_parsePort"}, {"Parse", "go_Parse"}}, true},
		{"internal/headers/ows.go", "headers", [][2]string{{"trimLeftOWS", "go_trimLeftOWS"}, {"trimRightOWS", "go_trimRightOWS"}, {"TrimOWS", "go_TrimOWS"}}, false},
		{"internal/headers/acrh.go", "headers", [][2]string{{"cutAtComma", "go_cutAtComma"}, {"Check", "go_Check"}}, true},
	}
	var sb strings.Builder
	sb.WriteString(header)
	errMsg := ""
	func() {
		defer func() {
			if e := recover(); e != nil {
				if f, ok := e.(failure); ok {
					errMsg = f.msg
					return
				}
				panic(e)
			}
		}()
		for _, j := range jobs {
			file, err := parser.ParseFile(fset, filepath.Join(repo, j.file), nil, parser.SkipObjectResolution)
			if err != nil {
				fail(nil, "parse error: %v", err)
			}
			collectConsts(j.pkg, file, j.exact)
			decls := map[string]*ast.FuncDecl{}
			for _, d := range file.Decls {
				if fd, ok := d.(*ast.FuncDecl); ok {
					decls[fd.Name.Name] = fd
				}
			}
			want := map[string]bool{}
			for _, f := range j.funcs {
				want[f[0]] = true
			}
			if j.file == "internal/headers/ows.go" {
				want["isOWS"] = true // translated by genutil
			}
			for n, d := range decls {
				if !want[n] {
					fail(d, "function %s in %s is not modelled", n, j.file)
				}
			}
			for _, f := range j.funcs {
				fd := decls[f[0]]
				if fd == nil {
					fail(nil, "function %s not found in %s", f[0], j.file)
				}
				sb.WriteString(translate(j.pkg, fd, gn(f[1])))
				sb.WriteString("\n")
			}
		}
	}()
	text := sb.String()
	if errMsg != "" {
		esc := strings.NewReplacer("\n", " ", "*)", "* )").Replace(errMsg)
		text = header + "(* the translator stopped: the source is outside the translated fragment *)\n" +
			"Definition genloop_failed : bool := true.\n(* reason: " + esc + " *)\n"
		fmt.Fprintln(os.Stderr, "genloop: "+errMsg)
	}
	if err := os.WriteFile(out, []byte(text), 0o644); err != nil {
		fmt.Fprintln(os.Stderr, err)
		os.Exit(1)
	}
	// ---- second file: internal/origins/pattern.go (needs the origins.go functions above) ----
	headerPat := "(* GENERATED by tools/genloop from internal/origins/pattern.go on every run -- do not edit. *)\n" +
		"Require Import Base.Bytes Gen.Tables Model.Util Model.Headers Model.Origins Model.Netip Model.Idna Model.Pattern Model.UtilRt Gen.UtilSrc Model.LoopRt Gen.LoopSrc Model.PatRt.\nOpen Scope bool_scope.\n\n"
	if checked {
		headerPat = "(* GENERATED by tools/genloop -checked from internal/origins/pattern.go on every run -- do not edit. *)\n" +
			"Require Import Base.Bytes Gen.Tables Model.Util Model.Headers Model.Origins Model.Netip Model.Idna Model.Pattern Model.UtilRt Gen.UtilSrc Model.LoopRt Model.RadixRt Gen.LoopChk Model.PatRt.\nOpen Scope bool_scope.\n\n"
	}
	var sp strings.Builder
	sp.WriteString(headerPat)
	errPat := errMsg
	if errPat == "" {
		func() {
			defer func() {
				if e := recover(); e != nil {
					if f, ok := e.(failure); ok {
						errPat = f.msg
						return
					}
					panic(e)
				}
			}()
			file, err := parser.ParseFile(fset, filepath.Join(repo, "internal/origins/pattern.go"), nil, parser.SkipObjectResolution)
			if err != nil {
				fail(nil, "parse error: %v", err)
			}
			collectConsts("origins", file, true)
			consts["origins.wildcardPort"] = [2]string{"origins_wildcardPort", "int"} // declared in radix.go
			decls := map[string]*ast.FuncDecl{}
			for _, d := range file.Decls {
				if fd, ok := d.(*ast.FuncDecl); ok {
					decls[fd.Name.Name] = fd
				}
			}
			order := [][2]string{{"peekKind", "go_peekKind"}, {"hostOnly", "go_hostOnly"}, {"IsIP", "go_IsIP"}, {"isDefaultPortForScheme", "go_isDefaultPortForScheme"},
				{"parsePortPattern", "go_parsePortPattern"}, {"parseHostPattern", "go_parseHostPattern"}, {"ParsePattern", "go_ParsePattern"}, {"IsDeemedInsecure", "go_IsDeemedInsecure"},
				{"HostIsEffectiveTLD", "go_HostIsEffectiveTLD"}} // publicsuffix.PublicSuffix is the oracle `psl`
			want := map[string]bool{}
			for _, f := range order {
				want[f[0]] = true
			}
			for n, d := range decls {
				if !want[n] {
					fail(d, "function %s in pattern.go is not modelled", n)
				}
			}
			sp.WriteString("Section Oracles.\nVariable ace_ok : bytes -> bool.\nVariable ip6 : bytes -> ipres.\nVariable psl : bytes -> bytes.\n\n")
			for _, f := range order {
				fd := decls[f[0]]
				if fd == nil {
					fail(nil, "function %s not found in pattern.go", f[0])
				}
				sp.WriteString(translate("origins", fd, gn(f[1])))
				sp.WriteString("\n")
			}
			sp.WriteString("End Oracles.\n")
		}()
	}
	textPat := sp.String()
	if errPat != "" {
		esc := strings.NewReplacer("\n", " ", "*)", "* )").Replace(errPat)
		textPat = headerPat + "(* the translator stopped: the source is outside the translated fragment *)\n" +
			"Definition genloop_pattern_failed : bool := true.\n(* reason: " + esc + " *)\n"
		fmt.Fprintln(os.Stderr, "genloop: "+errPat)
	}
	if err := os.WriteFile(outPat, []byte(textPat), 0o644); err != nil {
		fmt.Fprintln(os.Stderr, err)
		os.Exit(1)
	}
	if errMsg != "" || errPat != "" {
		os.Exit(3)
	}
}
