#!/usr/bin/env python3
"""import_seeded.py <Cxx> <mN> [demo_cmd] -- copy a sub-agent's deliverable /tmp/mut-<Cxx>-out/<mN> into
/verif/seeded/<Cxx>-<mN>/ and write meta.json (demo command derived from demo_cmd.txt unless given)."""
import json, os, re, shutil, sys

prop, mn = sys.argv[1], sys.argv[2]
rnd = os.environ.get("ROUND", "")            # "" = first round (/tmp/mut-Cxx-out), "2" = second round (/tmp/mut2-Cxx-out)
src = "/tmp/mut%s-%s-out/%s" % (rnd, prop, mn)
dst = "/verif/seeded/%s-%s%s" % (prop, ("r%s" % rnd) if rnd else "", mn)
os.makedirs(dst, exist_ok=True)
for f in os.listdir(src):
    if os.path.isfile(os.path.join(src, f)):
        shutil.copy(os.path.join(src, f), os.path.join(dst, f))
cmd = sys.argv[3] if len(sys.argv) > 3 else None
dest = {}
txt = open(os.path.join(src, "demo_cmd.txt")).read() if os.path.exists(os.path.join(src, "demo_cmd.txt")) else ""
if cmd is None:
    m = re.findall(r"^(?:cd \S+ && )?(go (?:test|run)[^\n]*)$", txt, flags=re.M)
    cmd = m[-1] if m else "go test -vet=off -count=1 -run TestDemo ."
# destination of demo files: a path mentioned as <worktree>/<rel>/file.go
for f in os.listdir(src):
    if f.endswith(".go"):
        mm = re.search(r"/tmp/mut%s-%s/(\S*?)%s" % (rnd, prop, re.escape(f)), txt)
        rel = (mm.group(1) if mm else "")
        mm2 = re.search(r"(internal/\w+|cfgerrors)/%s" % re.escape(f), txt)
        if not rel and mm2:
            rel = mm2.group(1) + "/"
        dest[f] = rel + f
notes = open(os.path.join(src, "notes.md")).read() if os.path.exists(os.path.join(src, "notes.md")) else ""
meta = dict(id=os.path.basename(dst), breaks_property=prop, demo_cmd=cmd, demo_dest=dest,
            needs_to_manifest="see notes.md", produced_by="independent sub-agent given only the property text and a scratch worktree",
            confirmed=None, caught_by=None)
json.dump(meta, open(os.path.join(dst, "meta.json"), "w"), indent=1)
print(dst, cmd, dest)
