module verif/genascii

go 1.23.0
