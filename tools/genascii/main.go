// genascii: translator for internal/util/asciiset.go (the 256-bit set behind every byte-class predicate of the
// parsers). It parses the file (go/parser only) and regenerates coq/Gen/AsciiSrc.v: `ASCIISet` ([8]uint32) is a
// list of eight N words, uint32 arithmetic is arithmetic on N reduced modulo 2^32 where a result can exceed 32 bits
// (shifts and ors), `as[e] |= x` is a list update, `for i := range len(s)` is a fold over the indices 0..len(s)-1.
// The fragment: byte/uint32 expressions built from variables, integer literals, s[i], as[e], / % << & | and the
// comparison != 0. Anything else stops the translator (it writes a file recording why; the dependent proof fails).
package main

import (
	"bytes"
	"fmt"
	"go/ast"
	"go/parser"
	"go/printer"
	"go/token"
	"os"
	"path/filepath"
	"strings"
)

var fset = token.NewFileSet()

type failure struct{ msg string }

func fail(n ast.Node, format string, a ...any) {
	pos := ""
	if n != nil {
		pos = fset.Position(n.Pos()).String() + ": "
	}
	panic(failure{pos + fmt.Sprintf(format, a...)})
}

func src(n ast.Node) string {
	var b bytes.Buffer
	printer.Fprint(&b, fset, n)
	return b.String()
}

func ident(e ast.Expr) string {
	if id, ok := e.(*ast.Ident); ok {
		return id.Name
	}
	return ""
}

// kinds: "str" bytes, "byte" N (< 256), "int" Z, "set" list N (eight uint32 words), "u32" N
type tr struct {
	fn    string
	kinds map[string]string
}

func v(n string) string { return "v_" + n }

// numeric expressions, all rendered on N; `wide` tells whether the value is a uint32 (words) or a byte
func (t *tr) num(e ast.Expr) string {
	switch e := e.(type) {
	case *ast.ParenExpr:
		return t.num(e.X)
	case *ast.BasicLit:
		if e.Kind == token.INT {
			return "(" + e.Value + ")%N"
		}
	case *ast.Ident:
		switch t.kinds[e.Name] {
		case "byte", "u32":
			return v(e.Name)
		}
	case *ast.IndexExpr:
		x := ident(e.X)
		switch t.kinds[x] {
		case "str":
			return "(nth (Z.to_nat " + t.idx(e.Index) + ") " + v(x) + " 0%N)"
		case "set":
			return "(nth (N.to_nat " + t.num(e.Index) + ") " + v(x) + " 0%N)"
		}
	case *ast.BinaryExpr:
		a, b := t.num(e.X), t.num(e.Y)
		switch e.Op {
		case token.QUO:
			return "(" + a + " / " + b + ")%N"
		case token.REM:
			return "(" + a + " mod " + b + ")%N"
		case token.SHL: // on uint32: the result is reduced modulo 2^32
			return "(u32 (N.shiftl " + a + " " + b + "))"
		case token.AND:
			return "(N.land " + a + " " + b + ")"
		case token.OR:
			return "(N.lor " + a + " " + b + ")"
		}
	}
	fail(e, "%s: numeric expression %s", t.fn, src(e))
	return ""
}

func (t *tr) idx(e ast.Expr) string {
	if id := ident(e); id != "" && t.kinds[id] == "int" {
		return v(id)
	}
	fail(e, "%s: index %s", t.fn, src(e))
	return ""
}

func (t *tr) boolean(e ast.Expr) string {
	if p, ok := e.(*ast.ParenExpr); ok {
		return t.boolean(p.X)
	}
	if be, ok := e.(*ast.BinaryExpr); ok && be.Op == token.NEQ && src(be.Y) == "0" {
		return "(negb (N.eqb " + t.num(be.X) + " 0%N))"
	}
	fail(e, "%s: boolean expression %s", t.fn, src(e))
	return ""
}

func (t *tr) stmts(list []ast.Stmt, end func() string) string {
	if len(list) == 0 {
		return end()
	}
	s, rest := list[0], list[1:]
	switch s := s.(type) {
	case *ast.DeclStmt: // var as ASCIISet
		gd := s.Decl.(*ast.GenDecl)
		if gd.Tok == token.VAR && len(gd.Specs) == 1 {
			vs := gd.Specs[0].(*ast.ValueSpec)
			if len(vs.Names) == 1 && len(vs.Values) == 0 && src(vs.Type) == "ASCIISet" {
				t.kinds[vs.Names[0].Name] = "set"
				return "let " + v(vs.Names[0].Name) + " := zero_asciiset in\n  " + t.stmts(rest, end)
			}
		}
	case *ast.AssignStmt:
		if len(s.Lhs) == 1 && len(s.Rhs) == 1 {
			if id := ident(s.Lhs[0]); id != "" && s.Tok == token.DEFINE { // c := chars[i]
				val := t.num(s.Rhs[0])
				t.kinds[id] = "byte"
				return "let " + v(id) + " := " + val + " in\n  " + t.stmts(rest, end)
			}
			if ie, ok := s.Lhs[0].(*ast.IndexExpr); ok && s.Tok == token.OR_ASSIGN && t.kinds[ident(ie.X)] == "set" { // as[e] |= x
				x := ident(ie.X)
				i := t.num(ie.Index)
				return "let " + v(x) + " := set_word " + v(x) + " " + i + " (N.lor (nth (N.to_nat " + i + ") " + v(x) + " 0%N) " + t.num(s.Rhs[0]) + ") in\n  " + t.stmts(rest, end)
			}
		}
	case *ast.RangeStmt: // for i := range len(chars) { body }   (body assigns the set only)
		c, ok := s.X.(*ast.CallExpr)
		if ok && s.Value == nil && s.Tok == token.DEFINE && ident(c.Fun) == "len" && len(c.Args) == 1 && t.kinds[ident(c.Args[0])] == "str" {
			var set string
			for n, k := range t.kinds {
				if k == "set" {
					if set != "" {
						fail(s, "two sets in scope")
					}
					set = n
				}
			}
			ast.Inspect(s.Body, func(x ast.Node) bool {
				switch b := x.(type) {
				case *ast.BranchStmt, *ast.ReturnStmt, *ast.ForStmt:
					fail(b, "%s: control flow inside the loop", t.fn)
				case *ast.AssignStmt:
					for _, l := range b.Lhs {
						if id := ident(l); id != "" && b.Tok != token.DEFINE {
							fail(b, "%s: assignment to %s inside the loop", t.fn, id)
						}
					}
				}
				return true
			})
			key := ident(s.Key)
			saved := map[string]string{}
			for a, b := range t.kinds {
				saved[a] = b
			}
			t.kinds[key] = "int"
			body := t.stmts(s.Body.List, func() string { return v(set) })
			t.kinds = saved
			return "let " + v(set) + " := fold_left (fun " + v(set) + " " + v(key) + " =>\n  " + body + ") (index_range (length " + v(ident(c.Args[0])) + ")) " + v(set) + " in\n  " + t.stmts(rest, end)
		}
	case *ast.ReturnStmt:
		if len(s.Results) == 1 && len(rest) == 0 {
			if id := ident(s.Results[0]); id != "" && t.kinds[id] == "set" {
				return v(id)
			}
			return t.boolean(s.Results[0])
		}
	}
	fail(s, "%s: statement %s", t.fn, src(s))
	return ""
}

func main() {
	if len(os.Args) != 3 {
		fmt.Fprintln(os.Stderr, "usage: genascii <repo> <AsciiSrc.v>")
		os.Exit(2)
	}
	repo, out := os.Args[1], os.Args[2]
	header := "(* GENERATED by tools/genascii from internal/util/asciiset.go on every run -- do not edit. *)\n" +
		"Require Import Base.Bytes Model.AsciiRt.\nOpen Scope bool_scope.\n\n"
	var sb strings.Builder
	sb.WriteString(header)
	errMsg := ""
	func() {
		defer func() {
			if e := recover(); e != nil {
				if f, ok := e.(failure); ok {
					errMsg = f.msg
					return
				}
				panic(e)
			}
		}()
		file, err := parser.ParseFile(fset, filepath.Join(repo, "internal/util/asciiset.go"), nil, parser.SkipObjectResolution)
		if err != nil {
			fail(nil, "parse error: %v", err)
		}
		if len(file.Imports) != 0 {
			fail(file, "asciiset.go imports a package")
		}
		seenType := false
		decls := map[string]*ast.FuncDecl{}
		for _, d := range file.Decls {
			switch d := d.(type) {
			case *ast.GenDecl:
				if d.Tok != token.TYPE || len(d.Specs) != 1 {
					fail(d, "declaration %s", src(d))
				}
				ts := d.Specs[0].(*ast.TypeSpec)
				if ts.Name.Name != "ASCIISet" || src(ts.Type) != "[8]uint32" {
					fail(d, "type %s = %s (modelled: ASCIISet [8]uint32)", ts.Name.Name, src(ts.Type))
				}
				seenType = true
			case *ast.FuncDecl:
				decls[d.Name.Name] = d
			}
		}
		if !seenType || len(decls) != 2 || decls["MakeASCIISet"] == nil || decls["Contains"] == nil {
			fail(nil, "asciiset.go must declare ASCIISet, MakeASCIISet and Contains only")
		}
		mk := decls["MakeASCIISet"]
		if mk.Recv != nil || src(mk.Type) != "func(chars string) ASCIISet" {
			fail(mk, "signature of MakeASCIISet: %s", src(mk.Type))
		}
		t := &tr{fn: "MakeASCIISet", kinds: map[string]string{"chars": "str"}}
		sb.WriteString("Definition go_MakeASCIISet (v_chars : bytes) : list N :=\n  " + t.stmts(mk.Body.List, func() string { fail(mk, "no return"); return "" }) + ".\n\n")
		ct := decls["Contains"]
		if ct.Recv == nil || src(ct.Recv.List[0].Type) != "*ASCIISet" || len(ct.Recv.List[0].Names) != 1 || src(ct.Type) != "func(c byte) bool" {
			fail(ct, "signature of Contains")
		}
		r := ct.Recv.List[0].Names[0].Name
		t = &tr{fn: "Contains", kinds: map[string]string{r: "set", "c": "byte"}}
		sb.WriteString("Definition go_ASCIISet_Contains (" + v(r) + " : list N) (v_c : N) : bool :=\n  " + t.stmts(ct.Body.List, func() string { fail(ct, "no return"); return "" }) + ".\n")
	}()
	text := sb.String()
	if errMsg != "" {
		esc := strings.NewReplacer("\n", " ", "*)", "* )").Replace(errMsg)
		text = header + "(* the translator stopped: the source is outside the translated fragment *)\n" +
			"Definition genascii_failed : bool := true.\n(* reason: " + esc + " *)\n"
		fmt.Fprintln(os.Stderr, "genascii: "+errMsg)
	}
	if err := os.WriteFile(out, []byte(text), 0o644); err != nil {
		fmt.Fprintln(os.Stderr, err)
		os.Exit(1)
	}
	if errMsg != "" {
		os.Exit(3)
	}
}
