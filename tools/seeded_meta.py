#!/usr/bin/env python3
"""seeded_meta.py -- (re)write seeded/<id>/meta.json from the descriptions below, verify.json and detect.json,
and print the markdown table used in DESIGN.md section 10."""
import json, os, sys

VERIF = os.path.dirname(os.path.dirname(os.path.abspath(__file__)))

DESC = {
 "C01-m1": ("Tree.Contains consults a node's `*.` entry only when the walk is stuck", "a `*.` pattern plus a deeper pattern below it that the wildcard does not subsume (other port/scheme), and an origin whose host tail overlaps the deeper host"),
 "C01-m2": ("Insert prunes a node's children after adding `scheme://*.base:*` (only valid for the same scheme)", "a `*.`+`:*` pattern listed AFTER a pattern with another scheme under the same base: order-dependent"),
 "C02-m1": ("Authorization listed after `*` no longer sets allowAuthorization", "anonymous configuration, `*` before Authorization, request carrying `authorization`"),
 "C02-m2": ("configured methods stored un-normalised (checks use the normalised spelling)", "Methods listing put/Delete/options in non-upper case; browser sends the normalised method"),
 "C03-m1": ("parsePort loses its 5-digit cap: the int accumulator wraps modulo 2^64", "an Origin whose port has >= 20 digits and is congruent to an allowed port modulo 2^64"),
 "C03-m2": ("ACAC is put into the preflight buffer before the origin check; debug mode copies the buffer on failure", "debug on + credentialed + preflight from a syntactically valid but disallowed origin"),
 "C04-m1": ("validateOrigins skips every pattern listed after a `*`", "a bad/insecure/public-suffix pattern listed after `*`"),
 "C04-m2": ("status range check done after narrowing to uint8", "a status congruent to 200..299 modulo 256 (460, 1, -1, ...)"),
 "C05-m1": ("PNA flags copied into the internal config only when the two modes are compatible", "both PNA switches on together with a PNA-incompatible origin: the pna errors vanish"),
 "C05-m2": ("validateResponseHeaders stops at the first `*`", "a violation listed after `*` in ResponseHeaders"),
 "C06-m1": ("allowAuthorization depends on list order (`*` first loses it)", "anonymous config with RequestHeaders [Authorization, *]: Config() renders [*, authorization] and feeding it back loses the flag"),
 "C06-m2": ("Config() omits DangerouslyTolerateInsecureOrigins in no-cors-only PNA mode", "no-cors-only PNA + insecure origin + tolerance flag"),
 "C07-m1": ("Reconfigure overwrites the live internalConfig in place (*m.icfg = *icfg)", "a reconfiguration between two configured states landing inside a request, plus a debug change or real parallelism"),
 "C07-m2": ("Wrap reads the debug flag lazily in a second critical section", "a writer landing between the two reads: configuration of one instant with the debug mode of a later one; no data race, no interaction point in the window"),
 "C08-m1": ("origin tree reused when patterns/cred/PNA are unchanged - tolerance flags not in the key", "configured prior state, Reconfigure with identical origins whose only violation is a dropped tolerance flag"),
 "C08-m2": ("newInternalConfig returns the partial config with the error; Reconfigure installs it when passthrough", "passthrough prior state and any invalid config"),
 "C09-m1": ("Reconfigure(nil) no longer switches debug off", "debug on at the moment of Reconfigure(nil), then Reconfigure(valid)"),
 "C09-m2": ("passthrough guard moved from SetDebug to Wrap (dead code there)", "zero value; SetDebug(true); Reconfigure(valid)"),
 "C10-m1": ("handleNonCORS returns early for ANY PNA mode (pnaEnabled helper)", "regular PrivateNetworkAccess + request without Origin: no Vary: Origin"),
 "C10-m2": ("Vary: Origin only for GET/HEAD ('cacheable' methods)", "restricted origins + POST/PUT/DELETE/PATCH"),
 "C11-m1": ("headers.First treats an empty first value as absent", "OPTIONS with an empty first Origin or ACRM value"),
 "C11-m2": ("Vary Set instead of Add in no-cors-only PNA mode", "no-cors-only PNA + non-preflight CORS OPTIONS + pre-set Vary"),
 "C12-m1": ("ACEH installed as a configuration-owned slice", "non-empty ResponseHeaders and a handler writing in place to the ACEH slice"),
 "C12-m2": ("SortedSet.ToSlice clips instead of cloning", "element write to Config().Methods / RequestHeaders, then a preflight with debug off"),
 "C13-m1": ("Origin length cap forgets the trailing full stop (F3 reverted)", "every length maximum at once"),
 "C13-m2": ("the IPv4-mapped IPv6 rejection removed", "canonical dotted IPv4-mapped literal such as [::ffff:127.0.0.1]"),
 "C14-m1": ("fast path: first ACRH line equal to the full joined list approves later lines unseen", ">= 2 ACRH lines, the first exactly the full sorted list"),
 "C14-m2": ("early rejection bound forgets OWS on both sides", "longest allowed name with one OWS byte on both sides as last element of a line"),
 "C15-m1": ("node.add appends the new scheme's port list instead of inserting it", "two schemes on the same host listed in decreasing scheme order with different port sets"),
 "C15-m2": ("Authorization after `*` no longer sets allowAuthorization", "anonymous config, [*, Authorization] vs [Authorization, *]"),
 "C16-m1": ("processACRPN writes to the response instead of the buffer", "PNA enabled, ACRPN: true, a later step failing with debug off"),
 "C16-m2": ("acah reused for a precomputed `*` answer; discrete anonymous configs skip Check and send the full list", "non-credentialed config with discrete request headers, debug off"),
 "C17-m1": ("Tree.Contains indexes host[len(host)-1] before the emptiness test", "Origin with an empty bracketed host: http://[]:9"),
 "C17-m2": ("processACRPN indexes acrpn[0] without the length guard of First", "ACRPN key present with zero values"),
 "C18-m1": ("multiple ACRH field lines are joined into one ACAH line", "N >= 2 ACRH field lines on the reflecting paths"),
 "C18-m2": ("case-insensitive leniency in headers.Check lower-cases per element", "upper-case spellings of allowed names, repeated N times"),
 "C19-m1": ("early exit not propagated to the loop over siblings", "break at any leaf other than the last"),
 "C19-m2": ("traversal limited to two levels", "a join nested three levels deep"),
 "C01-r2m1": ("Contains follows the matching edge first and consults the `*.` entry only when stuck", "`*.` pattern plus a non-subsumed deeper pattern (other scheme/port); origin leading into that branch"),
 "C01-r2m2": ("single-origin fast path compares the Origin textually with the lone pattern", "exactly one listed pattern with a plain host and `:*`: nothing ever matches; listing it twice works"),
 "C02-r2m1": ("processACRH skips Check when the first ACRH line equals the full allowed list", "ACRH split over >= 2 lines, first = full list, a disallowed name later"),
 "C02-r2m2": ("Authorization after `*` no longer sets allowAuthorization", "anonymous config [*, Authorization], request carrying authorization"),
 "C03-r2m1": ("node.add appends a new scheme's port list instead of inserting it at the scheme's index", "same host, two schemes with different port sets, later-listed scheme sorts first: scheme downgrade echoed"),
 "C03-r2m2": ("preflight origin step fills the buffer (ACAO, ACAC) before the lookup; debug copies it on failure", "debug on, preflight from a valid but disallowed origin, config not allow-all"),
 "C04-r2m1": ("public-suffix guard skipped for patterns listed after `*`", "`*` then `https://*.com`, tolerance off, no credentials/PNA"),
 "C04-r2m2": ("status bounds checked on a uint8 offset", "status congruent to 200..299 mod 256 (500, 1, -1)"),
 "C05-r2m1": ("status bounds checked on a uint8 offset", "PreflightSuccessStatus 456 etc.: the status error is missing"),
 "C05-r2m2": ("the two `*` incompatibility errors alias one struct", "`*` with Credentialed AND a PNA mode: `pna` reported twice, `credentialed` never"),
 "C06-r2m1": ("node.elems brackets the accumulated suffix in place and hands it to children", "two IPv6 patterns sharing a suffix that contains a colon (::1 and fe80::1)"),
 "C06-r2m2": ("Config() omits the insecure-origins tolerance in no-cors-only PNA mode", "no-cors-only PNA + insecure origin + tolerance flag, not credentialed"),
 "C07-r2m1": ("memoised Config() whose store does not re-check the current configuration", "Config() racing with two Reconfigure calls: a stale normal form is served afterwards"),
 "C07-r2m2": ("SetDebug decides under the read lock and writes later without the passthrough guard", "SetDebug(true) racing with Reconfigure(nil): (passthrough, debug on)"),
 "C08-r2m1": ("errors accumulated before validateMaxAge are dropped when MaxAgeInSeconds == -1", "an invalid config (origins/methods/...) with max-age -1 and valid response headers: accepted, tree left empty"),
 "C08-r2m2": ("Reconfigure reuses the current tree when origins/cred/tolerances match - PNA flags not in the key", "Config() with PNA switched on over an insecure origin"),
 "C09-r2m1": ("the debug-mode header list is built lazily by SetDebug(true) and not by Reconfigure", "SetDebug(true) before Reconfigure(B) with discrete request headers; preflight reaching the header step"),
 "C09-r2m2": ("SetDebug check-then-act window", "only concurrently: SetDebug(true) racing with Reconfigure(nil)"),
 "C10-r2m1": ("Vary de-duplication by substring match", "a pre-set Vary value whose name contains `Origin` (X-Forwarded-Origin)"),
 "C10-r2m2": ("explicit allowAnyOrigin flag; the ACAO decision of actual requests still tests tree.IsEmpty", "`*` mixed with another pattern"),
 "C11-r2m1": ("preflights are only recognised in no-cors-only PNA mode when ACRPN is true", "no-cors-only PNA + genuine preflight without ACRPN: the handler runs"),
 "C11-r2m2": ("Vary rewritten through Header.Get / Header.Set", "two or more pre-set Vary field lines"),
 "C12-r2m1": ("non-CORS path installs the shared OriginSgl slice when no Vary is present", "no Origin, non-OPTIONS, restricted origins, handler writing Vary in place"),
 "C12-r2m2": ("memo of the last approved ACRH value keyed on the first field line only", "a prior successful single-line preflight, then a multi-line ACRH with the same first line"),
 "C13-r2m1": ("wildcard length cap measured on the untrimmed input (port bytes counted)", "`*.` + domain within a few bytes of 251 + a port"),
 "C13-r2m2": ("IDNA skipped for hyphen-free hosts; hand-rolled length check forgets the last label", "over-long LAST label, no trailing dot, no hyphen"),
 "C14-r2m1": ("isOWS as a bitmap indexed by b&63", "bytes 0x49, 0x60, 0x89, 0xA0, 0xC9, 0xE0 next to an allowed name"),
 "C14-r2m2": ("processACRH skips Check when the first ACRH line equals the full allowed list", ">= 2 lines, first = full list"),
 "C15-r2m1": ("node.add appends a new scheme's port list", "https listed before http on the same host with different ports"),
 "C15-r2m2": ("`*` resets the tree instead of discarding it at the end", "`*` mixed with patterns and not in last position"),
 "C16-r2m1": ("preflight steps write straight to the response; the failure clean-up forgets ACAPN", "PNA + ACRPN true + a later step failing, debug off"),
 "C16-r2m2": ("headers.First treats an empty first value as absent", "OPTIONS with an empty ACRM or Origin value: actual-path headers on what should be a refused preflight"),
 "C17-r2m1": ("Tree.Contains reads host[len(host)-1] before the emptiness test", "Origin with an empty host: https://:8080, https://[]:8080"),
 "C17-r2m2": ("cfgerrors.All as a recursive walk that does not propagate a stop out of a nested join", "break inside a nested join with another top-level child to come"),
 "C18-r2m1": ("reflected ACRH lines coalesced with an unsized strings.Builder", "`*` headers + credentialed + >= 2 ACRH field lines"),
 "C18-r2m2": ("Check retries after lower-casing every line", "discrete allow-list, debug off, rejected ACRH containing upper-case bytes, many lines"),
 "C19-r2m1": ("join-of-one fast path discards the consumer's stop", "a join of exactly one error nested in a join, break on its leaf, something still to come"),
 "C19-r2m2": ("explicit-stack traversal with a stale pointer across append", "joins nested at least four levels deep: leaves duplicated"),
 # ---- third round: agents were told that the first two rounds had all been detected ----
 "C01-r3m1": ("radix.go: hybrid edge lookup, linear up to 16 children, then a hand-written binary search that is off by one for a label greater than all", "a tree node with at least 17 distinct child bytes and a later pattern whose byte sorts after all of them (insertion-order dependent)"),
 "C01-r3m2": ("validateOrigins: `continue` one block too far out skips tree.Insert for every tolerated `*.<public suffix>` pattern", "DangerouslyTolerateSubdomainsOfPublicSuffixes with a wildcard over a public suffix"),
 "C02-r3m1": ("ByteLowercase rewritten as bit-twiddling that treats 0x40-0x5F as upper case: `_` -> 0x7F, `^` -> `~`", "a configured header name containing `_` or `^` together with an upper-case letter"),
 "C02-r3m2": ("per-configuration ACAC slice installed in the response map on the actual-request path", "a wrapped handler that edits its response's ACAC value in place, then any later request"),
 "C03-r3m1": ("fast path comparing the Origin with the first non-`*.` pattern's raw text, skipping Parse/Contains", "first discrete pattern with a `:*` port and an Origin equal to that pattern text"),
 "C03-r3m2": ("node.add: append + sort of the schemes slice desynchronises it from the parallel ports slice", "one host under two schemes with different port sets, the later-listed scheme sorting first"),
 "C04-r3m1": ("tree.Insert reports 'unchanged' for a subsumed pattern and validateOrigins then skips its public-suffix check", "`*.amazonaws.com` listed before `*.s3.amazonaws.com` (parent not a public suffix, child is)"),
 "C04-r3m2": ("IsForbiddenRequestHeaderName returns early for names shorter than 2 or longer than 38 bytes", "a `sec-`/`proxy-` prefixed name of 39 bytes or more"),
 "C05-r3m1": ("refactored per-pattern checks: the guard for tolerated insecure origins also skips the public-suffix check", "DangerouslyTolerateInsecureOrigins + an insecure wildcard pattern over a public suffix"),
 "C05-r3m2": ("cfgerrors.All iteratively with `stack = joined.Unwrap()`: the traversal rewrites the error's own backing array", "a second traversal (or Error()/errors.As) of the same error value with three or more failing fields"),
 "C06-r3m1": ("node.elems restores IPv6 brackets by looking at the last 4 bytes of the host only", "an IPv6 origin whose last hextet has four hex digits"),
 "C06-r3m2": ("ByteLowercase sets bit 5 on every byte in 'A'..'z' when the string has an upper-case letter", "a header name with both an upper-case letter and `_`/`^`: Config() returns a name that validation rejects"),
 "C07-r3m1": ("package-level memo of the last validated origin list; a prefix-extending list copies the Tree value and shares its nodes", "8+ patterns, a later Reconfigure/NewMiddleware whose list extends the remembered one by an origin sharing a tree path"),
 "C07-r3m2": ("internalConfig keeps `&cfg.ExtraConfig` of the caller's Config", "state installed through Reconfigure(&cfg); the caller later flips an ExtraConfig boolean of cfg"),
 "C08-r3m1": ("validateRequestHeaders accumulates in a pooled scratch slice of capacity 16 that the live set keeps when it is exactly full", "exactly 16 distinct request-header names in the live state, then any validation that lists a request header (e.g. a rejected Reconfigure)"),
 "C08-r3m2": ("header names lower-cased BEFORE the token check", "a name containing U+212A KELVIN SIGN (strings.ToLower maps it to `k`)"),
 "C09-r3m1": ("processACRH: the debug branch moved above the `no ACRH header` early exit", "debug on, discrete request headers, a succeeding preflight without ACRH"),
 "C09-r3m2": ("processOriginForPreflight stages ACAC before tree.Contains; the untouched debug copy flushes it", "debug on, credentialed, a valid but disallowed origin"),
 "C10-r3m1": ("Vary: Origin de-duplication that compares only the last six bytes of existing elements", "a pre-existing Vary element ending in `origin` (X-Forwarded-Origin)"),
 "C10-r3m2": ("requests with `Sec-Fetch-Site: same-origin` handled as non-CORS", "that request header next to an Origin header"),
 "C11-r3m1": ("aceh becomes a shared slice with spare capacity", "two or more exposed names, handlers that Add to Expose-Headers, overlapping requests"),
 "C11-r3m2": ("`Origin: null` short-circuited to handleNonCORS before the preflight test", "a preflight whose Origin is exactly `null`"),
 "C12-r3m1": ("Reconfigure reuses the previous tree when the new pattern list equals the REMEMBERED list, which aliases the caller's array", "the caller overwrites the array it once passed in, then reconfigures with a fresh list equal to the overwritten content"),
 "C12-r3m2": ("per-configuration fingerprint (fnv32a + length) of the last ACRH line that passed Check short-circuits Check", "a rejected ACRH value that collides (chosen 32-bit collision) with a previously accepted one"),
 "C13-r3m1": ("origins.Parse fast path for schemes that merely START with http/https", "a pattern with scheme httpx / http+unix / https-proxy presented verbatim as Origin"),
 "C13-r3m2": ("ASCII byte sets replaced by unicode.IsLower/IsDigit on bytes", "hosts containing one of 20 code points whose UTF-8 bytes are Latin-1 lower-case letters"),
 "C14-r3m1": ("SortedSet.IndexAfter: 8-element linear probe whose binary-search fallback drops the probe offset", "more than 8 allowed names and a list whose next name is 8+ positions further: unsorted / repeated lists approved"),
 "C14-r3m2": ("NewSortedSet drops the result of slices.Compact", "two configured names that coincide after lower-casing: binary search misses members"),
 "C15-r3m1": ("ByteLowercase range check 'A'..'z'", "names with `_`/`^` after an upper-case letter versus their lower-case spelling"),
 "C15-r3m2": ("adding a `*.` pattern prunes descendant entries, over-pruning port wildcards", "`a.example.com:*` listed before `*.example.com:8080` (order-dependent)"),
 "C16-r3m1": ("Config() hands out the package-level `*` singleton", "in-place write to a slice returned by Config(), then any preflight"),
 "C16-r3m2": ("OPTIONS requests carrying Cookie/Authorization are not treated as preflights", "a preflight with a Cookie or Authorization header"),
 "C17-r3m1": ("case conversion into a 64-byte stack buffer guarded on the wrong length", "a valid name/method longer than 64 bytes whose first wrong-case letter lies in its last 64 bytes: panic in NewMiddleware"),
 "C17-r3m2": ("Tree.Contains rebuilt on a false 'host is never empty' invariant", "an Origin with an empty host and a valid port (https://:8080): panic in the handler"),
 "C18-r3m1": ("a failed Check is retried on lower-cased field lines", "many ACRH field lines each containing an upper-case byte"),
 "C18-r3m2": ("reflected ACRH lines coalesced into 4 KiB chunks above 64 lines", "more than 64 ACRH field lines under credentialed + `*` request headers"),
 "C19-r3m1": ("All: explicit stack declared outside the returned closure (shared between traversals of one Seq)", "nested or interleaved traversals of the same iter.Seq value"),
 "C19-r3m2": ("parseHostPattern wraps the cfgerrors error and the idna error with two %w", "a host that fails strict IDNA validation only: All yields two errors for one violation"),
 # ---- fourth round: agents confined to internal/ and cfgerrors/ (middleware.go and config.go are tied structurally) ----
 "C01-r4m1": ("Tree.Contains asks only the deepest node that can hold `*.` entries", "two nested `*.` patterns with different scheme/port sets and an origin under the inner base carrying the outer pattern's scheme/port"),
 "C01-r4m2": ("node.elems decodes wildcard-subdomain ports IN PLACE (`ports[j] += portOffset`)", "a `*.` pattern, one Config()/Elems call on the live middleware, then more requests"),
 "C03-r4m1": ("parsePort reads the whole digit run; the int accumulator wraps", "a port of 20+ digits congruent to an allowed port modulo 2^64"),
 "C03-r4m2": ("Tree.Contains elides the scheme's default port before the walk", "an allowed port-less origin presented with :443 / :80 spelled out"),
 "C06-r4m1": ("IPv6 brackets decided from the node's own fragment instead of the whole host", "two IPv6 literals where one is stored as a colon-free child of the other's suffix node"),
 "C06-r4m2": ("adding `*.host:*` clears the node's whole subtree, forgetting other schemes", "`https://*.example.com:*` listed before `http://foo.example.com` (Config() sorts the other way round)"),
 "C13-r4m1": ("fastParseHost classifies bytes through a 128-entry table indexed with b&0x7f", "a non-ASCII character all of whose UTF-8 bytes alias label bytes (about 3% of three-byte code points)"),
 "C13-r4m2": ("IDNA applied to the pattern text (with its `*` label) instead of the host", "a leading `*.` together with a right-to-left Punycode label (Bidi rule fails on `*`)"),
 "C14-r4m1": ("Check split into checkLine; the exit after a trailing empty element returns the entry position", "two or more field lines, an earlier one ending in an empty element, a later allowed-but-not-greater name"),
 "C14-r4m2": ("isOWS as a table lookup on b&0x7f", "bytes 0x89 / 0xA0 next to an allowed name or alone as an element"),
 "C15-r4m1": ("Insert prunes the child node holding the wildcard's (scheme, port) - with everything else that child holds", "two sibling subdomains listed before `*.parent`, one of them carrying an extra port (order-dependent)"),
 "C15-r4m2": ("SortedSet/Set.Add de-duplicates with strings.EqualFold", "a non-normalisable method listed in two case spellings, lower case first"),
 "C17-r4m1": ("Tree.Contains reshaped on a 'host is non-empty' invariant", "Origin with an empty host and a port: https://[]:8, https://:8"),
 "C17-r4m2": ("All specialised to two levels; `break` in the leaf arm leaves the switch, not the loop", "errors in two or more fields, the consumer stopping at a scalar-field error that is not the last"),
 "C19-r4m1": ("join detection through errors.As", "a leaf that wraps a join with %w: its inner errors are yielded instead of the leaf"),
 "C19-r4m2": ("cycle guard hashing every visited error in a map", "a leaf of a non-comparable dynamic type (slice-typed or slice-holding error): panic"),
 # ---- fifth round: same confinement, agents told what round 4 had tried ----
 "C01-r5m1": ("node.contains binary-searches the schemes with a length-first comparator; add keeps them lexicographic", "one host under two schemes where the longer scheme sorts first (capacitor / http)"),
 "C01-r5m2": ("fastParseHost rejects labels that start or end with a hyphen", "an origin like https://foo-.example.com under a `*.` pattern"),
 "C03-r5m1": ("node.add: append + sort of the schemes only", "same host, two schemes, the smaller scheme inserted later, different port sets"),
 "C03-r5m2": ("Tree.Contains runs the wildcard test before the host-exhausted test", "a `*.` pattern and a bracketed Origin whose host is `.` + base: https://[.example.com]"),
 "C06-r5m1": ("IPv6 bracket decision scans the node's own chunk", "two IPv6 literals that share a tail and differ in (or extend) the first group"),
 "C06-r5m2": ("Contains keeps only the LAST node's wildcard verdict", "a discrete host listed before a covering wildcard; origin extending the discrete host"),
 "C13-r5m1": ("rejected patterns are echoed clipped to 1024 bytes in the error's Value", "a rejected pattern longer than 1 KiB"),
 "C13-r5m2": ("the `null` special case folded into the scheme switch", "a documented-form pattern whose scheme is spelled null: null://example.com"),
 "C14-r5m1": ("a field line without any name resets the position of the last name seen", "three or more field lines, a middle one made of empty elements only, unsorted/repeated names across it"),
 "C14-r5m2": ("early `line too long` rejection with an under-estimated bound for empty elements", "12+ two-byte whitespace-only empty elements in one line next to (nearly) all allowed names"),
 "C15-r5m1": ("Contains follows the matching edge first and asks an ancestor's wildcard only when the first step fails", "an explicit host listed before a covering wildcard and an origin extending the explicit host"),
 "C15-r5m2": ("SortedSet caches the joined list incrementally (wrong for middle insertions); Check short-circuits on equality with it", "three or more names listed so that one lands in the middle, debug off, ACRH mirroring the mis-ordered concatenation"),
 "C17-r5m1": ("All delegates nested joins with `All(err)(yield); continue`, discarding the stop signal", "a nested join followed by a sibling, the consumer stopping inside the nested join: runtime panic"),
 "C17-r5m2": ("headers.First guards `v == nil` instead of `len(v) == 0`", "a request header key present with a non-nil empty slice"),
 "C19-r5m1": ("cycle guard that is a visited set: a join value reachable along two paths is skipped the second time", "the same errors.Join value used twice in one tree"),
 "C19-r5m2": ("explicit stack whose frame pointer goes stale when append reallocates", "join nesting depth of 9 or more"),
}


def main():
    rows = []
    for sid in sorted(DESC):
        d = os.path.join(VERIF, "seeded", sid)
        if not os.path.isdir(d):
            continue
        meta = json.load(open(os.path.join(d, "meta.json")))
        ver = {}
        if os.path.exists(os.path.join(d, "verify.json")):
            try:
                ver = json.load(open(os.path.join(d, "verify.json")))
            except Exception:
                ver = {}
        det = json.load(open(os.path.join(d, "detect.json"))) if os.path.exists(os.path.join(d, "detect.json")) else {}
        with_input = sorted(p for p, r in det.get("results", {}).items() if r.get("violation") and "no-failing-input-found" not in r["violation"])
        no_input = sorted(p for p, r in det.get("results", {}).items() if r.get("violation") and "no-failing-input-found" in r["violation"])
        meta.update(dict(
            id=sid, breaks_property=sid[:3], summary=DESC[sid][0], needs_to_manifest=DESC[sid][1],
            confirmed=bool(ver.get("ok")),
            what_i_ran=["tools/seeded.py verify seeded/%s  (scratch worktree: patch applies, go build + full go test suite pass with the patch, the demonstration fails with the patch and passes without)" % sid,
                        "tools/seeded_matrix.py seeded/%s  (every quick check against the patched tree; tools/seeded.py detect is the same with git -C /repo apply)" % sid],
            caught_by_with_failing_input=with_input, flagged_no_failing_input=no_input))
        json.dump(meta, open(os.path.join(d, "meta.json"), "w"), indent=1)
        rows.append("| %s | %s | %s | %s | %s |" % (sid, DESC[sid][0], DESC[sid][1], ", ".join(with_input) or "-", ", ".join(no_input) or "-"))
    print("| id | change | needs | caught with a failing input by | flagged (broken correspondence, no input) by |")
    print("|----|--------|-------|-------------------------------|----------------------------------------------|")
    print("\n".join(rows))


if __name__ == "__main__":
    main()
