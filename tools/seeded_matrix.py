#!/usr/bin/env python3
"""seeded_matrix.py [-j N] <seeded dir>... -- for each seeded change, in an isolated scratch copy
(/var/tmp/sm-<id>-repo = worktree of /repo with the patch, /var/tmp/sm-<id>-verif = copy of /verif,
checks run with VERIF_REPO pointing at the scratch worktree), run every claimed quick check and record
which ones report a VIOLATION in <seeded dir>/detect.json. Scratch copies are removed afterwards.
This is the fast cross-matrix; the sanctioned confirmation (git -C /repo apply; ./check; git checkout) is
tools/seeded.py detect."""
import json, os, shutil, subprocess, sys
from concurrent.futures import ThreadPoolExecutor

VERIF = os.path.dirname(os.path.dirname(os.path.abspath(__file__)))
MERGE = False


def sh(cmd, cwd=None, env=None, timeout=3600):
    p = subprocess.run(cmd, cwd=cwd, env=env, timeout=timeout, stdout=subprocess.PIPE, stderr=subprocess.STDOUT, text=True, errors="replace")
    return p.returncode, p.stdout


def one(d, props):
    d = os.path.abspath(d)
    sid = os.path.basename(d)
    wt, vf = "/var/tmp/sm-%s-repo" % sid, "/var/tmp/sm-%s-verif" % sid
    for x in (wt, vf):
        if os.path.exists(x):
            sh(["git", "-C", "/repo", "worktree", "remove", "--force", x])
            shutil.rmtree(x, ignore_errors=True)
    res = {}
    try:
        rc, out = sh(["git", "-C", "/repo", "worktree", "add", "-q", "--detach", wt, "HEAD"])
        if rc != 0:
            return sid, {"error": out}
        rc, out = sh(["git", "apply", os.path.join(d, "patch.diff")], cwd=wt)
        if rc != 0:
            return sid, {"error": "patch does not apply: " + out}
        shutil.copytree(VERIF, vf, symlinks=True, ignore=shutil.ignore_patterns(".git", "replays", "seeded"))
        env = dict(os.environ, VERIF_REPO=wt, VERIF_SCRATCH="/var/tmp")
        for p in props:
            rc, out = sh([os.path.join(vf, "check"), p, "quick"], cwd=vf, env=env)
            v = [l for l in out.splitlines() if l.startswith("VIOLATION")]
            summ = [l for l in out.splitlines() if l.startswith(p + " quick:")]
            res[p] = dict(exit=rc, violation=(v[0].replace(vf, "/verif") if v else None), summary=(summ[-1] if summ else out[-300:]))
    finally:
        sh(["git", "-C", "/repo", "worktree", "remove", "--force", wt])
        shutil.rmtree(wt, ignore_errors=True)
        shutil.rmtree(vf, ignore_errors=True)
    dj = os.path.join(d, "detect.json")
    if MERGE and os.path.exists(dj):  # keep the other checks' earlier results, stamp the refreshed ones
        old = json.load(open(dj)).get("results", {})
        for p, r in res.items():
            r["machinery"] = "final"
        for p, r in old.items():
            if p not in res:
                r.setdefault("machinery", "earlier run")
                res[p] = r
    caught = sorted(p for p, r in res.items() if r.get("exit") not in (0, None))
    json.dump(dict(caught_by=caught, results=res), open(dj, "w"), indent=1)
    return sid, sorted(p for p in props if res.get(p, {}).get("exit") not in (0, None))


def main():
    args = sys.argv[1:]
    j = 4
    if args and args[0] == "-j":
        j = int(args[1])
        args = args[2:]
    global MERGE
    props = [c["property_id"] for c in json.load(open(os.path.join(VERIF, "MANIFEST.json")))["checks"]]
    if "--merge" in args:
        MERGE = True
        args.remove("--merge")
    target = "--target" in args
    if target:
        args.remove("--target")
    if "--props" in args:
        i = args.index("--props")
        props = args[i + 1].split(",")
        args = args[:i] + args[i + 2:]
    with ThreadPoolExecutor(max_workers=j) as ex:
        for sid, caught in ex.map(lambda d: one(d, [os.path.basename(os.path.abspath(d))[:3]] if target else props), args):
            print(sid, "caught by:", caught, flush=True)


if __name__ == "__main__":
    main()
