module verif/genradix

go 1.23.0
