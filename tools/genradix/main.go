// genradix: translator for internal/origins/radix.go (the radix tree: Tree.Insert, Tree.Contains, Tree.Elems,
// Tree.IsEmpty and their helpers). It parses the file (go/parser only) and regenerates coq/Gen/RadixSrc.v, one
// Gallina function per Go function, translated statement by statement:
//   - the tree keeps the Go layout (Model/RadixRt.v: `gnode` with suf, edges, children, schemes, ports as parallel
//     lists); strings are byte lists, s[i] is `nth`, s[a:b] is `firstn`/`skipn`, ints are Z;
//   - a method with a pointer receiver that assigns to the receiver's fields returns the updated receiver first
//     (state passing); a `*[]string` parameter is an in-out value returned after it; a method that returns
//     `&n.children[i]` returns the index i;
//   - inside the methods of *Tree a `*node` variable is a PATH from the root (gpath): `&t.root` is [],
//     `&n.children[i]` is `gchild n i`, a read `n.f` is `g_f (gget t n)`, a mutating call `n.m(..)` is
//     `t := gset t n (go_m (gget t n) ..)`;
//   - `if c { A }; R` is `if c then [[A; R]] else [[R]]` when A can leave, a tuple re-binding otherwise; a tag
//     switch is an if-chain;
//   - `for` loops are `loop_n fuel body state` with explicit exhaustion (Model/LoopRt.v); the two `for { }` loops
//     get the length of the string they consume + 1 as fuel (annotation below; the equality theorems have the
//     form `go_f x = Some ..`, so they prove the fuel sufficient); `for i, x := range l` is `loop_list` over
//     `zip_index l`, `for i := range l` whose body uses i only as `l[i]` is `loop_elems` over the elements
//     (so that the recursive call of `elems` on a child is structurally guarded);
//   - slices.BinarySearch / slices.Sort / strconv.Itoa / strings.IndexByte / append / copy are the contract
//     functions of Model/RadixRt.v and Model/UtilRt.v.
// Element assignment `x[i] = e` is only accepted for a receiver field (`n.ports[i] = ..`, a record update) or for a
// local slice that was re-bound by `append` earlier in the same function (its backing array is then private to the
// function as far as the value semantics is concerned). Anything outside this fragment stops the translator (it
// writes a file recording why; the dependent proofs fail).
package main

import (
	"bytes"
	"fmt"
	"go/ast"
	"go/parser"
	"go/printer"
	"go/token"
	"os"
	"path/filepath"
	"sort"
	"strconv"
	"strings"
)

var fset = token.NewFileSet()

type failure struct{ msg string }

func fail(n ast.Node, format string, a ...any) {
	pos := ""
	if n != nil {
		pos = fset.Position(n.Pos()).String() + ": "
	}
	panic(failure{pos + fmt.Sprintf(format, a...)})
}

func src(n ast.Node) string {
	var b bytes.Buffer
	printer.Fprint(&b, fset, n)
	return b.String()
}

func ident(e ast.Expr) string {
	if id, ok := e.(*ast.Ident); ok {
		return id.Name
	}
	return ""
}

func bytesLit(s string) string {
	if s == "" {
		return "([] : bytes)"
	}
	parts := make([]string, len(s))
	for i := 0; i < len(s); i++ {
		parts[i] = strconv.Itoa(int(s[i]))
	}
	return "([" + strings.Join(parts, "; ") + "]%N : bytes)"
}

// ---- kinds ----
// str bytes | byte N | int Z | bool | node gnode (a value, or the receiver of a node method) | nodeptr gpath |
// tree gnode (the receiver of a Tree method: its root) | pattern | origin | bytel list N | nodes list gnode |
// strs list bytes | ints list Z | intss list (list Z) | strsptr (*[]string, in-out) | T, Ts (type parameter)

var coqType = map[string]string{"str": "bytes", "byte": "N", "int": "Z", "bool": "bool", "node": "gnode", "nodeptr": "gpath", "tree": "gnode",
	"pattern": "pattern", "origin": "origin", "bytel": "list N", "nodes": "list gnode", "strs": "list bytes", "ints": "list Z", "intss": "list (list Z)",
	"strsptr": "list bytes", "T": "T", "Ts": "list T", "relptr": "Z"}

func kindOfType(ty string) string {
	switch ty {
	case "string":
		return "str"
	case "byte":
		return "byte"
	case "int":
		return "int"
	case "bool":
		return "bool"
	case "node":
		return "node"
	case "*node":
		return "nodeptr"
	case "*Tree":
		return "tree"
	case "*Pattern":
		return "pattern"
	case "*Origin":
		return "origin"
	case "[]byte":
		return "bytel"
	case "[]node":
		return "nodes"
	case "[]string":
		return "strs"
	case "[]int":
		return "ints"
	case "[][]int":
		return "intss"
	case "*[]string":
		return "strsptr"
	case "T":
		return "T"
	case "[]T":
		return "Ts"
	}
	return ""
}

var elemKind = map[string]string{"str": "byte", "bytel": "byte", "nodes": "node", "strs": "str", "ints": "int", "intss": "ints", "Ts": "T", "strsptr": "str"}
var sliceOf = map[string]string{"byte": "bytel", "node": "nodes", "str": "strs", "int": "ints", "ints": "intss", "T": "Ts"}
var zeroOfKind = map[string]string{"str": "([] : bytes)", "byte": "0%N", "int": "0%Z", "bool": "false", "node": "zero_gnode",
	"bytel": "([] : list N)", "nodes": "([] : list gnode)", "strs": "([] : list bytes)", "ints": "([] : list Z)", "intss": "([] : list (list Z))", "T": "zeroT"}

// the fields of node, in declaration order, with their Go types (checked against the source)
var nodeFields = [][2]string{{"suf", "string"}, {"edges", "[]byte"}, {"children", "[]node"}, {"schemes", "[]string"}, {"ports", "[][]int"}}

func nodeFieldKind(f string) string {
	for _, nf := range nodeFields {
		if nf[0] == f {
			return kindOfType(nf[1])
		}
	}
	return ""
}

// constants: Go name -> (Gallina term, kind); "rune" is an untyped rune constant (Z in Gen/Tables.v)
var consts = map[string][2]string{
	"schemeHostSep":     {"origins_schemeHostSep", "str"},
	"hostPortSep":       {"origins_hostPortSep", "rune"},
	"subdomainWildcard": {"origins_subdomainWildcard", "str"},
	"portWildcard":      {"origins_portWildcard", "str"},
}

// the unbounded `for { }` loops: the string whose length bounds the number of iterations (annotation; the equality
// theorems prove it sufficient on well-formed trees)
var infiniteLoopMeasure = map[string]string{"Insert": "s", "Contains": "host"}

type fnInfo struct {
	goName   string
	gname    string
	recv     string   // "", "node", "tree"
	recvName string
	mutates  bool     // the updated receiver is the first result
	params   [][2]string // name, kind
	outs     []string // in-out parameters (returned after the receiver)
	results  []string // kinds of the Go results ("relptr": &recv.children[i], returned as i)
	named    []string
	loopy    bool
	generic  bool
	rec      bool
	decl     *ast.FuncDecl
}

func (f *fnInfo) retKinds() []string {
	ks := f.goKinds()
	if checked {
		ks = append(ks, "bool")
	}
	return ks
}

// the results without the checked-mode flag
func (f *fnInfo) goKinds() []string {
	var ks []string
	if f.mutates {
		ks = append(ks, f.recv)
	}
	for _, o := range f.outs {
		for _, p := range f.params {
			if p[0] == o {
				ks = append(ks, p[1])
			}
		}
	}
	return append(ks, f.results...)
}

var funcs = map[string]*fnInfo{} // key: "name" for functions, "node.name" / "tree.name" for methods

// checked mode (-checked): every function additionally returns a boolean that is true iff no index or slice expression
// evaluated along the way was out of range (Go would have panicked otherwise). The flag is one more state variable
// (`_chk`) threaded through every statement, loop and call; calls of translated functions are hoisted out of expressions.
var checked bool
var prefix = "go_"

const chkVar = "_chk"

type loopCtx struct {
	lv   []string
	post string
}

type tr struct {
	info     *fnInfo
	kinds    map[string]string
	scope    []string
	loop     []loopCtx
	depth    int
	fresh    map[string]bool   // local slices re-bound by append in this function
	elemVar  map[string]string // "n.children[i]" -> element variable inside a loop_elems body
	noAssign map[string]bool   // variables that must not be assigned inside the current loop_elems body
	pending  []string          // checked mode: hoisted calls to emit before the current statement
	guards   []string          // checked mode: bound checks of the expressions of the current statement
	tmp      int
}

// guard records a bound check of the current statement (checked mode only)
func (t *tr) guard(g string) {
	if checked {
		t.guards = append(t.guards, g)
	}
}

// flush returns the text to emit before the current statement in checked mode -- the hoisted calls, then the update of
// the flag with the statement's bound checks -- and clears both buffers
func (t *tr) flush() string {
	if !checked {
		return ""
	}
	out := ""
	for _, p := range t.pending {
		out += p + "\n" + t.ind()
	}
	if len(t.guards) > 0 {
		out += "let " + v(chkVar) + " := " + v(chkVar) + " && " + strings.Join(t.guards, " && ") + " in\n" + t.ind()
	}
	t.pending, t.guards = nil, nil
	return out
}

func inRange(i, l string) string { return "(in_range " + i + " (length " + l + "))" }

func v(n string) string {
	if n == "_" {
		return "_"
	}
	return "v_" + n
}

func (t *tr) declare(name, k string) {
	if name == "_" || name == "" {
		return
	}
	if k == "" {
		fail(nil, "%s: cannot tell the type of %s", t.info.goName, name)
	}
	t.kinds[name] = k
	for _, s := range t.scope {
		if s == name {
			return
		}
	}
	t.scope = append(t.scope, name)
}

func (t *tr) ind() string { return strings.Repeat("  ", t.depth+1) }

func (t *tr) snapshot() ([]string, map[string]string) {
	k := map[string]string{}
	for a, b := range t.kinds {
		k[a] = b
	}
	return append([]string{}, t.scope...), k
}

func (t *tr) restore(scope []string, kinds map[string]string) {
	t.scope = append([]string{}, scope...)
	t.kinds = map[string]string{}
	for a, b := range kinds {
		t.kinds[a] = b
	}
}

// the name of the tree variable (receiver of a Tree method), "" elsewhere
func (t *tr) treeVar() string {
	if t.info.recv == "tree" {
		return t.info.recvName
	}
	return ""
}

// ---- expressions ----

// a node-valued place: an identifier of kind node (value), a pointer variable (read through the tree), t.root,
// or x.children[i] of such a place. Returns the Gallina term of its current value.
func (t *tr) nodeValue(e ast.Expr) (string, bool) {
	switch e := e.(type) {
	case *ast.ParenExpr:
		return t.nodeValue(e.X)
	case *ast.Ident:
		switch t.kinds[e.Name] {
		case "node":
			return v(e.Name), true
		case "nodeptr":
			if tv := t.treeVar(); tv != "" {
				return "(gget " + v(tv) + " " + v(e.Name) + ")", true
			}
		}
	case *ast.SelectorExpr:
		if x := ident(e.X); x != "" && t.kinds[x] == "tree" && e.Sel.Name == "root" {
			return v(x), true
		}
	case *ast.IndexExpr:
		if ev, ok := t.elemVar[src(e)]; ok {
			return v(ev), true
		}
		if se, ok := e.X.(*ast.SelectorExpr); ok && se.Sel.Name == "children" {
			if base, ok := t.nodeValue(se.X); ok {
				idx := t.expr(e.Index)
				t.guard(inRange(idx, "(g_children "+base+")"))
				return "(nth (Z.to_nat " + idx + ") (g_children " + base + ") zero_gnode)", true
			}
		}
	}
	return "", false
}

func (t *tr) kind(e ast.Expr) string {
	switch e := e.(type) {
	case *ast.ParenExpr:
		return t.kind(e.X)
	case *ast.Ident:
		if k, ok := t.kinds[e.Name]; ok {
			return k
		}
		if c, ok := consts[e.Name]; ok {
			return c[1]
		}
		switch e.Name {
		case "true", "false":
			return "bool"
		}
	case *ast.SelectorExpr:
		if _, ok := t.nodeValue(e); ok {
			return "node"
		}
		if _, ok := t.nodeValue(e.X); ok {
			return nodeFieldKind(e.Sel.Name)
		}
		switch t.kind(e.X) {
		case "pattern":
			switch e.Sel.Name {
			case "Scheme":
				return "str"
			case "Port":
				return "int"
			case "HostPattern":
				return "hostpat"
			}
		case "hostpat":
			if e.Sel.Name == "Value" {
				return "str"
			}
		case "origin":
			switch e.Sel.Name {
			case "Scheme":
				return "str"
			case "Port":
				return "int"
			case "Host":
				return "host"
			}
		case "host":
			if e.Sel.Name == "Value" {
				return "str"
			}
		}
	case *ast.BasicLit:
		switch e.Kind {
		case token.INT:
			return "int"
		case token.CHAR:
			return "rune"
		case token.STRING:
			return "str"
		}
	case *ast.UnaryExpr:
		switch e.Op {
		case token.NOT:
			return "bool"
		case token.SUB:
			return "int"
		}
	case *ast.StarExpr:
		if t.kind(e.X) == "strsptr" {
			return "strs"
		}
	case *ast.BinaryExpr:
		switch e.Op {
		case token.ADD:
			if t.kind(e.X) == "str" || t.kind(e.Y) == "str" {
				return "str"
			}
			return "int"
		case token.SUB, token.MUL:
			return "int"
		}
		return "bool"
	case *ast.IndexExpr:
		if _, ok := t.nodeValue(e); ok {
			return "node"
		}
		return elemKind[t.kind(e.X)]
	case *ast.SliceExpr:
		return t.kind(e.X)
	case *ast.CompositeLit:
		switch src(e.Type) {
		case "node":
			return "node"
		case "[]int":
			return "ints"
		}
	case *ast.CallExpr:
		switch src(e.Fun) {
		case "len", "strings.IndexByte":
			return "int"
		case "string", "strconv.Itoa":
			return "str"
		case "append":
			if len(e.Args) > 0 {
				return t.kind(e.Args[0])
			}
		}
		if f, _, ok := t.callee(e); ok && len(f.goKinds()) == 1 {
			if f.generic {
				return t.kind(e.Args[0])
			}
			return f.goKinds()[0]
		}
	}
	return ""
}

// in a byte context an untyped rune constant or literal is a byte; in an int context a byte is converted
func (t *tr) asByte(e ast.Expr) string {
	switch t.kind(e) {
	case "byte":
		return t.expr(e)
	case "rune":
		if l, ok := e.(*ast.BasicLit); ok {
			s, err := strconv.Unquote(l.Value)
			if err == nil && len(s) == 1 {
				return "(" + strconv.Itoa(int(s[0])) + ")%N"
			}
			fail(e, "rune literal %s", l.Value)
		}
		return "(Z.to_N " + t.expr(e) + ")"
	case "int":
		if l, ok := e.(*ast.BasicLit); ok {
			return "(" + l.Value + ")%N"
		}
	}
	fail(e, "%s: %s is not a byte", t.info.goName, src(e))
	return ""
}

func (t *tr) asInt(e ast.Expr) string {
	switch t.kind(e) {
	case "int":
		return t.expr(e)
	case "rune":
		if l, ok := e.(*ast.BasicLit); ok {
			s, err := strconv.Unquote(l.Value)
			if err == nil && len(s) == 1 {
				return "(" + strconv.Itoa(int(s[0])) + ")%Z"
			}
		}
		return t.expr(e)
	}
	fail(e, "%s: %s is not an int", t.info.goName, src(e))
	return ""
}

// an expression in a context that expects kind k
func (t *tr) exprAs(e ast.Expr, k string) string {
	switch k {
	case "byte":
		return t.asByte(e)
	case "int":
		return t.asInt(e)
	}
	if id := ident(e); id == "nil" {
		if z, ok := zeroOfKind[k]; ok {
			return z
		}
	}
	got := t.kind(e)
	if got != k && !(k == "T" || k == "Ts") {
		fail(e, "%s: %s has kind %q where %q is expected", t.info.goName, src(e), got, k)
	}
	return t.expr(e)
}

func (t *tr) expr(e ast.Expr) string {
	switch e := e.(type) {
	case *ast.ParenExpr:
		return "(" + t.expr(e.X) + ")"
	case *ast.Ident:
		switch e.Name {
		case "true", "false":
			return e.Name
		}
		if k, ok := t.kinds[e.Name]; ok {
			if k == "nodeptr" {
				fail(e, "%s: the pointer %s used as a value", t.info.goName, e.Name)
			}
			return v(e.Name)
		}
		if c, ok := consts[e.Name]; ok {
			return c[0]
		}
		fail(e, "%s: unknown identifier %s", t.info.goName, e.Name)
	case *ast.BasicLit:
		switch e.Kind {
		case token.INT:
			return "(" + e.Value + ")%Z"
		case token.STRING:
			s, err := strconv.Unquote(e.Value)
			if err == nil {
				return bytesLit(s)
			}
		}
		fail(e, "literal %s", e.Value)
	case *ast.UnaryExpr:
		switch e.Op {
		case token.NOT:
			return "(negb " + t.expr(e.X) + ")"
		case token.SUB:
			return "(- " + t.asInt(e.X) + ")%Z"
		}
		fail(e, "unary %s", src(e))
	case *ast.StarExpr:
		if t.kind(e.X) == "strsptr" {
			return v(ident(e.X))
		}
		fail(e, "dereference %s", src(e))
	case *ast.SelectorExpr:
		if nv, ok := t.nodeValue(e); ok {
			return nv
		}
		if nv, ok := t.nodeValue(e.X); ok {
			if nodeFieldKind(e.Sel.Name) == "" {
				fail(e, "unknown node field %s", e.Sel.Name)
			}
			return "(g_" + e.Sel.Name + " " + nv + ")"
		}
		switch t.kind(e.X) {
		case "pattern":
			switch e.Sel.Name {
			case "Scheme":
				return "(pscheme " + t.expr(e.X) + ")"
			case "Port":
				return "(pport " + t.expr(e.X) + ")"
			case "HostPattern":
				return t.expr(e.X) // only p.HostPattern.Value is read
			}
		case "hostpat":
			if e.Sel.Name == "Value" {
				return "(pvalue " + t.expr(e.X) + ")"
			}
		case "origin":
			switch e.Sel.Name {
			case "Scheme":
				return "(oscheme " + t.expr(e.X) + ")"
			case "Port":
				return "(oport " + t.expr(e.X) + ")"
			case "Host":
				return "(ohost " + t.expr(e.X) + ")"
			}
		case "host":
			if e.Sel.Name == "Value" {
				return "(hvalue " + t.expr(e.X) + ")"
			}
		}
		fail(e, "%s: selector %s", t.info.goName, src(e))
	case *ast.BinaryExpr:
		return t.binary(e)
	case *ast.IndexExpr:
		if nv, ok := t.nodeValue(e); ok {
			return nv
		}
		k := t.kind(e.X)
		ek, ok := elemKind[k]
		if !ok || k == "strsptr" {
			fail(e, "index expression %s", src(e))
		}
		if ev, ok := t.elemVar[src(e)]; ok {
			return v(ev)
		}
		ix, xx := t.asInt(e.Index), t.expr(e.X)
		t.guard(inRange(ix, xx))
		return "(nth (Z.to_nat " + ix + ") " + xx + " " + zeroOfKind[ek] + ")"
	case *ast.SliceExpr:
		k := t.kind(e.X)
		if e.Max != nil || elemKind[k] == "" || k == "strsptr" {
			fail(e, "slice expression %s", src(e))
		}
		x := t.expr(e.X)
		switch {
		case e.Low != nil && e.High != nil:
			lo, hi := t.asInt(e.Low), t.asInt(e.High)
			t.guard("(slice_ok " + lo + " " + hi + " (length " + x + "))")
			return "(slice3g " + x + " " + lo + " " + hi + ")"
		case e.Low != nil:
			lo := t.asInt(e.Low)
			t.guard("(slice_ok " + lo + " (Z.of_nat (length " + x + ")) (length " + x + "))")
			return "(skipn (Z.to_nat " + lo + ") " + x + ")"
		case e.High != nil:
			hi := t.asInt(e.High)
			t.guard("(slice_ok 0%Z " + hi + " (length " + x + "))")
			return "(firstn (Z.to_nat " + hi + ") " + x + ")"
		}
		return x
	case *ast.CompositeLit:
		switch src(e.Type) {
		case "node":
			vals := map[string]string{}
			for _, el := range e.Elts {
				kv, ok := el.(*ast.KeyValueExpr)
				if !ok {
					fail(e, "unkeyed composite literal")
				}
				f := ident(kv.Key)
				fk := nodeFieldKind(f)
				if fk == "" {
					fail(e, "unknown node field %s", f)
				}
				vals[f] = t.exprAs(kv.Value, fk)
			}
			s := "(GNode"
			for _, nf := range nodeFields {
				if x, ok := vals[nf[0]]; ok {
					s += " " + x
				} else {
					s += " " + zeroOfKind[kindOfType(nf[1])]
				}
			}
			return s + ")"
		case "[]int":
			parts := make([]string, len(e.Elts))
			for i, el := range e.Elts {
				parts[i] = t.asInt(el)
			}
			return "[" + strings.Join(parts, "; ") + "]"
		}
		fail(e, "composite literal %s", src(e))
	case *ast.CallExpr:
		return t.call(e)
	}
	fail(e, "expression %s", src(e))
	return ""
}

func (t *tr) binary(e *ast.BinaryExpr) string {
	switch e.Op {
	case token.ADD:
		if t.kind(e) == "str" {
			return "(" + t.exprAs(e.X, "str") + " ++ " + t.exprAs(e.Y, "str") + ")"
		}
		return "(" + t.asInt(e.X) + " + " + t.asInt(e.Y) + ")%Z"
	case token.SUB:
		return "(" + t.asInt(e.X) + " - " + t.asInt(e.Y) + ")%Z"
	case token.MUL:
		return "(" + t.asInt(e.X) + " * " + t.asInt(e.Y) + ")%Z"
	case token.LAND, token.LOR: // the right operand is evaluated (and its bounds checked) only when the left one does not decide
		a := t.expr(e.X)
		saved := t.guards
		t.guards = nil
		b := t.expr(e.Y)
		inner := t.guards
		t.guards = saved
		if len(inner) > 0 {
			if e.Op == token.LAND {
				t.guard("(implb " + a + " (" + strings.Join(inner, " && ") + "))")
			} else {
				t.guard("(" + a + " || (" + strings.Join(inner, " && ") + "))")
			}
		}
		if e.Op == token.LAND {
			return "(" + a + " && " + b + ")"
		}
		return "(" + a + " || " + b + ")"
	}
	neg := func(s string, n bool) string {
		if n {
			return "(negb " + s + ")"
		}
		return s
	}
	ka, kb := t.kind(e.X), t.kind(e.Y)
	if ident(e.Y) == "nil" && (e.Op == token.EQL || e.Op == token.NEQ) {
		if _, ok := elemKind[ka]; ok && ka != "str" {
			return neg("(is_nil "+t.expr(e.X)+")", e.Op == token.NEQ)
		}
	}
	k := ka
	if k == "" || k == "rune" {
		k = kb
	}
	if k == "rune" {
		k = "int"
	}
	switch k {
	case "byte":
		if e.Op == token.EQL || e.Op == token.NEQ {
			return neg("(N.eqb "+t.asByte(e.X)+" "+t.asByte(e.Y)+")", e.Op == token.NEQ)
		}
	case "str":
		if e.Op == token.EQL || e.Op == token.NEQ {
			return neg("(beqb "+t.expr(e.X)+" "+t.expr(e.Y)+")", e.Op == token.NEQ)
		}
	case "bool":
		if e.Op == token.EQL || e.Op == token.NEQ {
			return neg("(Bool.eqb "+t.expr(e.X)+" "+t.expr(e.Y)+")", e.Op == token.NEQ)
		}
	case "int":
		a, b := t.asInt(e.X), t.asInt(e.Y)
		switch e.Op {
		case token.EQL:
			return "(" + a + " =? " + b + ")%Z"
		case token.NEQ:
			return "(negb (" + a + " =? " + b + ")%Z)"
		case token.LSS:
			return "(" + a + " <? " + b + ")%Z"
		case token.LEQ:
			return "(" + a + " <=? " + b + ")%Z"
		case token.GTR:
			return "(" + b + " <? " + a + ")%Z"
		case token.GEQ:
			return "(" + b + " <=? " + a + ")%Z"
		}
	}
	fail(e, "%s: binary expression %s (kinds %q %q)", t.info.goName, src(e), ka, kb)
	return ""
}

// callee resolves f(args) / x.m(args) to a translated function; the second result is the Gallina term of the
// receiver's current value ("" for plain functions)
func (t *tr) callee(c *ast.CallExpr) (*fnInfo, string, bool) {
	switch fun := c.Fun.(type) {
	case *ast.Ident:
		f, ok := funcs[fun.Name]
		return f, "", ok
	case *ast.SelectorExpr:
		if nv, ok := t.nodeValue(fun.X); ok {
			f, ok := funcs["node."+fun.Sel.Name]
			return f, nv, ok
		}
	}
	return nil, "", false
}

// the Gallina application of a translated function (receiver value first, then the arguments; an in-out argument is
// passed as its current value)
func (t *tr) apply(f *fnInfo, recv string, c *ast.CallExpr) string {
	if len(c.Args) != len(f.params) {
		fail(c, "call %s: %d arguments", src(c), len(c.Args))
	}
	s := f.gname
	if f.generic {
		ek := elemKind[t.kind(c.Args[0])]
		z, ok := zeroOfKind[ek]
		if !ok {
			fail(c, "call %s: element type of %s", src(c), src(c.Args[0]))
		}
		s += " " + z
	}
	if recv != "" {
		s += " " + recv
	}
	for i, a := range c.Args {
		pk := f.params[i][1]
		switch pk {
		case "strsptr":
			if u, ok := a.(*ast.UnaryExpr); ok && u.Op == token.AND && t.kind(u.X) == "strs" {
				s += " " + v(ident(u.X))
			} else if t.kind(a) == "strsptr" {
				s += " " + v(ident(a))
			} else {
				fail(c, "call %s: argument %s", src(c), src(a))
			}
		case "T":
			s += " " + t.exprAs(a, elemKind[t.kind(c.Args[0])])
		case "Ts":
			s += " " + t.expr(a)
		default:
			s += " " + t.exprAs(a, pk)
		}
	}
	return s
}

func (t *tr) call(c *ast.CallExpr) string {
	name := src(c.Fun)
	switch name {
	case "len":
		if len(c.Args) == 1 {
			return "(Z.of_nat (length " + t.expr(c.Args[0]) + "))"
		}
	case "string":
		if len(c.Args) == 1 {
			return "[" + t.asByte(c.Args[0]) + "]"
		}
	case "strings.IndexByte":
		if len(c.Args) == 2 {
			return "(strings_IndexByte " + t.exprAs(c.Args[0], "str") + " " + t.asByte(c.Args[1]) + ")"
		}
	case "strconv.Itoa":
		if len(c.Args) == 1 {
			return "(strconv_Itoa " + t.asInt(c.Args[0]) + ")"
		}
	case "append":
		if len(c.Args) == 2 && c.Ellipsis == token.NoPos {
			k := t.kind(c.Args[0])
			if k == "strsptr" {
				k = "strs"
			}
			ek, ok := elemKind[k]
			if ok && k != "str" {
				return "(" + t.expr(c.Args[0]) + " ++ [" + t.exprAs(c.Args[1], ek) + "])"
			}
		}
	}
	if f, recv, ok := t.callee(c); ok {
		if f.loopy || f.mutates || len(f.outs) > 0 || len(f.results) != 1 || f.results[0] == "relptr" {
			fail(c, "%s: the call %s is not a pure expression", t.info.goName, src(c))
		}
		if checked { // the callee also returns its flag: bind the call before the statement
			t.tmp++
			h, hk := "h_"+strconv.Itoa(t.tmp), "hk_"+strconv.Itoa(t.tmp)
			app := t.apply(f, recv, c)
			t.pending = append(t.pending, "let '("+h+", "+hk+") := "+app+" in")
			t.guard(hk)
			return h
		}
		return "(" + t.apply(f, recv, c) + ")"
	}
	fail(c, "%s: call %s", t.info.goName, src(c))
	return ""
}

// ---- statements ----

func mentions(n ast.Node, kinds ...string) bool {
	found := false
	var walk func(n ast.Node, inLoop bool)
	walk = func(n ast.Node, inLoop bool) {
		ast.Inspect(n, func(x ast.Node) bool {
			if x == nil || x == n {
				return true
			}
			switch s := x.(type) {
			case *ast.ReturnStmt:
				for _, k := range kinds {
					if k == "return" {
						found = true
					}
				}
			case *ast.BranchStmt:
				if !inLoop {
					for _, k := range kinds {
						if k == strings.ToLower(s.Tok.String()) {
							found = true
						}
					}
				}
			case *ast.ForStmt:
				walk(s.Body, true)
				return false
			case *ast.RangeStmt:
				walk(s.Body, true)
				return false
			case *ast.FuncLit:
				return false
			}
			return true
		})
	}
	walk(n, false)
	return found
}

func flatten(list []ast.Stmt) []ast.Stmt {
	var out []ast.Stmt
	for _, s := range list {
		if b, ok := s.(*ast.BlockStmt); ok {
			out = append(out, flatten(b.List)...)
		} else if _, ok := s.(*ast.EmptyStmt); ok {
			continue
		} else {
			out = append(out, s)
		}
	}
	return out
}

// the root variable of a place expression: x, x.f, x.f[i], x[i], *x
func rootVar(e ast.Expr) string {
	for {
		switch x := e.(type) {
		case *ast.Ident:
			return x.Name
		case *ast.SelectorExpr:
			e = x.X
		case *ast.IndexExpr:
			e = x.X
		case *ast.StarExpr:
			e = x.X
		case *ast.ParenExpr:
			e = x.X
		default:
			return ""
		}
	}
}

// the variables (of the enclosing scope) that a statement list may assign -- directly, through a field or element,
// through a mutating method call (the receiver, or the tree when the receiver is a pointer), through an in-out
// argument, or through slices.Sort
func (t *tr) assigned(list []ast.Stmt) []string {
	set := map[string]bool{}
	inside := map[string]bool{}
	mark := func(id string) {
		if id != "" && id != "_" && !inside[id] {
			set[id] = true
		}
	}
	markCall := func(c *ast.CallExpr) {
		if (src(c.Fun) == "slices.Sort" && len(c.Args) == 1) || (src(c.Fun) == "copy" && len(c.Args) == 2) {
			mark(rootVar(c.Args[0]))
			return
		}
		var f *fnInfo
		switch fun := c.Fun.(type) {
		case *ast.Ident:
			f = funcs[fun.Name]
		case *ast.SelectorExpr:
			f = funcs["node."+fun.Sel.Name]
			if f != nil && (f.mutates || f == t.info && t.info.mutates) {
				r := rootVar(fun.X)
				if t.kinds[r] == "nodeptr" && !inside[r] {
					mark(t.treeVar())
				} else {
					mark(r)
				}
			}
		}
		if f == nil {
			return
		}
		for i, p := range f.params {
			if p[1] == "strsptr" && i < len(c.Args) {
				a := c.Args[i]
				if u, ok := a.(*ast.UnaryExpr); ok && u.Op == token.AND {
					a = u.X
				}
				mark(rootVar(a))
			}
		}
	}
	for _, s := range list {
		ast.Inspect(s, func(x ast.Node) bool {
			switch s := x.(type) {
			case *ast.AssignStmt:
				for _, l := range s.Lhs {
					id := ident(l)
					if s.Tok == token.DEFINE && id != "" {
						if _, known := t.kinds[id]; !known || inside[id] {
							inside[id] = true
							continue
						}
					}
					r := rootVar(l)
					if id == "" && t.kinds[r] == "nodeptr" && !inside[r] { // n.f = e through a pointer
						mark(t.treeVar())
						continue
					}
					mark(r)
				}
			case *ast.IncDecStmt:
				mark(rootVar(s.X))
			case *ast.RangeStmt:
				inside[ident(s.Key)] = true
				inside[ident(s.Value)] = true
			case *ast.DeclStmt:
				if gd, ok := s.Decl.(*ast.GenDecl); ok {
					for _, sp := range gd.Specs {
						if vs, ok := sp.(*ast.ValueSpec); ok {
							for _, n := range vs.Names {
								inside[n.Name] = true
							}
						}
					}
				}
			case *ast.CallExpr:
				markCall(s)
			}
			return true
		})
	}
	var out []string
	if checked {
		set[chkVar] = true
	}
	for _, n := range t.scope {
		if set[n] {
			out = append(out, n)
		}
	}
	return out
}

func tuple(names []string) string {
	if len(names) == 0 {
		return "tt"
	}
	if len(names) == 1 {
		return v(names[0])
	}
	vs := make([]string, len(names))
	for i, n := range names {
		vs[i] = v(n)
	}
	return "(" + strings.Join(vs, ", ") + ")"
}

func letPat(names []string) string {
	if len(names) == 0 {
		return "let _ :="
	}
	if len(names) == 1 {
		return "let " + v(names[0]) + " :="
	}
	return "let '" + tuple(names) + " :="
}

func funPat(names []string) string {
	if len(names) == 0 {
		return "_"
	}
	if len(names) == 1 {
		return v(names[0])
	}
	return "'" + tuple(names)
}

func (t *tr) kRet(vals string) string {
	if len(t.loop) > 0 {
		return "(Ret " + vals + ")"
	}
	if t.info.loopy {
		return "(Some " + vals + ")"
	}
	return vals
}

func (t *tr) kExh() string {
	if len(t.loop) > 0 {
		return "Exh"
	}
	return "None"
}

// the value a `return e1, .., en` produces: the threaded receiver, the in-out parameters, then the results
func (t *tr) retValues(s *ast.ReturnStmt) string {
	f := t.info
	var parts []string
	if f.mutates {
		parts = append(parts, v(f.recvName))
	}
	for _, o := range f.outs {
		parts = append(parts, v(o))
	}
	switch {
	case len(s.Results) == 0 && len(f.named) == len(f.results):
		for _, n := range f.named {
			parts = append(parts, v(n))
		}
	case len(s.Results) == len(f.results):
		for i, r := range s.Results {
			if f.results[i] == "relptr" { // return &n.children[i]
				u, ok := r.(*ast.UnaryExpr)
				if ok && u.Op == token.AND {
					if ie, ok := u.X.(*ast.IndexExpr); ok && src(ie.X) == f.recvName+".children" {
						parts = append(parts, t.asInt(ie.Index))
						continue
					}
				}
				fail(s, "%s: a *node result must be &%s.children[i]", f.goName, f.recvName)
			}
			parts = append(parts, t.exprAs(r, f.results[i]))
		}
	default:
		fail(s, "%s: return with %d values", f.goName, len(s.Results))
	}
	if len(parts) == 0 {
		fail(s, "%s: a function without any effect or result", f.goName)
	}
	if checked {
		parts = append(parts, v(chkVar))
	}
	if len(parts) == 1 {
		return parts[0]
	}
	return "(" + strings.Join(parts, ", ") + ")"
}

// bindCall translates a call of a translated function whose results (threaded receiver, in-out arguments, Go
// results) are bound to places; `targets` are the Gallina binders for the Go results ("_" to drop one).
// It returns the text up to and including the binding; `wrap` closes a `match` when the callee is loopy.
func (t *tr) bindCall(c *ast.CallExpr, targets []string, rest func() string) string {
	f, recv, ok := t.callee(c)
	if !ok {
		fail(c, "%s: call %s", t.info.goName, src(c))
	}
	if len(targets) != len(f.results) {
		fail(c, "%s: call %s yields %d results", t.info.goName, src(c), len(f.results))
	}
	app := t.apply(f, recv, c)
	var binders []string
	post := ""
	if f.mutates {
		// where does the updated receiver go?
		se := c.Fun.(*ast.SelectorExpr)
		switch x := se.X.(type) {
		case *ast.Ident:
			switch t.kinds[x.Name] {
			case "node":
				binders = append(binders, v(x.Name))
			case "nodeptr":
				binders = append(binders, "r_node")
				tv := t.treeVar()
				post += "let " + v(tv) + " := gset " + v(tv) + " " + v(x.Name) + " r_node in\n" + t.ind()
			default:
				fail(c, "receiver %s", src(se.X))
			}
		case *ast.IndexExpr: // n.children[i].m(..) with n a node value
			bse, ok := x.X.(*ast.SelectorExpr)
			r := ident(bse.X)
			if !ok || bse.Sel.Name != "children" || t.kinds[r] != "node" {
				fail(c, "receiver %s", src(se.X))
			}
			if _, isElem := t.elemVar[src(x)]; isElem {
				fail(c, "a mutating call on %s inside a loop over the elements", src(x))
			}
			binders = append(binders, "r_node")
			t.guard(inRange(t.asInt(x.Index), "(g_children "+v(r)+")"))
			post += "let " + v(r) + " := set_g_children " + v(r) + " (list_set (g_children " + v(r) + ") " + t.asInt(x.Index) + " r_node) in\n" + t.ind()
		default:
			fail(c, "receiver %s", src(se.X))
		}
	}
	for i, p := range f.params {
		if p[1] == "strsptr" {
			a := c.Args[i]
			if u, ok := a.(*ast.UnaryExpr); ok && u.Op == token.AND {
				a = u.X
			}
			binders = append(binders, v(ident(a)))
		}
	}
	binders = append(binders, targets...)
	if checked {
		binders = append(binders, "r_chk")
		post += "let " + v(chkVar) + " := " + v(chkVar) + " && r_chk in\n" + t.ind()
	}
	pre := t.flush()
	pat := binders[0]
	if len(binders) > 1 {
		pat = "'(" + strings.Join(binders, ", ") + ")"
	}
	if f.loopy {
		t.depth++
		r := post + rest()
		t.depth--
		return pre + "match " + app + " with\n" + t.ind() + "| None => " + t.kExh() + "\n" + t.ind() + "| Some " + strings.TrimPrefix(pat, "'") + " =>\n" + t.ind() + "  " + r + "\n" + t.ind() + "end"
	}
	return pre + "let " + pat + " := " + app + " in\n" + t.ind() + post + rest()
}

func (t *tr) seq(list []ast.Stmt, end string) string {
	list = flatten(list)
	if len(list) == 0 {
		if end == "" {
			// falling off the end of a function without Go results
			if len(t.info.results) == 0 {
				return t.kRet(t.retValues(&ast.ReturnStmt{}))
			}
			fail(nil, "%s: control reaches the end of the function", t.info.goName)
		}
		return end
	}
	s, rest := list[0], list[1:]
	cont := func(line string) string { return t.flush() + line + "\n" + t.ind() + t.seq(rest, end) }
	switch s := s.(type) {
	case *ast.ReturnStmt:
		rv := t.retValues(s)
		return t.flush() + t.kRet(rv)
	case *ast.BranchStmt:
		if len(t.loop) == 0 || s.Label != nil {
			fail(s, "branch statement %s", src(s))
		}
		lc := t.loop[len(t.loop)-1]
		switch s.Tok {
		case token.CONTINUE:
			return lc.post + "(Next " + tuple(lc.lv) + ")"
		case token.BREAK:
			return "(Brk " + tuple(lc.lv) + ")"
		}
		fail(s, "branch statement %s", src(s))
	case *ast.DeclStmt:
		gd := s.Decl.(*ast.GenDecl)
		out := ""
		if gd.Tok != token.VAR {
			fail(s, "declaration %s", src(s))
		}
		for _, sp := range gd.Specs {
			vs := sp.(*ast.ValueSpec)
			for i, n := range vs.Names {
				t.guardAssign(s, n.Name)
				switch {
				case i < len(vs.Values):
					val := t.expr(vs.Values[i])
					t.declare(n.Name, t.kind(vs.Values[i]))
					out += t.flush() + "let " + v(n.Name) + " := " + val + " in\n" + t.ind()
				case vs.Type != nil:
					k := kindOfType(src(vs.Type))
					z, ok := zeroOfKind[k]
					if !ok {
						fail(vs, "zero value of %s", src(vs.Type))
					}
					t.declare(n.Name, k)
					out += "let " + v(n.Name) + " := " + z + " in\n" + t.ind()
				default:
					fail(vs, "declaration %s", src(s))
				}
			}
		}
		return out + t.seq(rest, end)
	case *ast.IncDecStmt:
		id := ident(s.X)
		if t.kinds[id] != "int" {
			fail(s, "statement %s", src(s))
		}
		t.guardAssign(s, id)
		op := "+"
		if s.Tok == token.DEC {
			op = "-"
		}
		return cont("let " + v(id) + " := (" + v(id) + " " + op + " 1)%Z in")
	case *ast.ExprStmt:
		c, ok := s.X.(*ast.CallExpr)
		if !ok {
			fail(s, "statement %s", src(s))
		}
		if src(c.Fun) == "slices.Sort" && len(c.Args) == 1 {
			id := ident(c.Args[0])
			t.guardAssign(s, id)
			switch t.kinds[id] {
			case "ints":
				return cont("let " + v(id) + " := slices_Sort_Z " + v(id) + " in")
			case "strs":
				return cont("let " + v(id) + " := slices_Sort " + v(id) + " in")
			}
			fail(s, "statement %s", src(s))
		}
		if src(c.Fun) == "copy" && len(c.Args) == 2 { // copy(x[a:], y[b:]) into a slice re-bound by append
			d, ok1 := c.Args[0].(*ast.SliceExpr)
			y, ok2 := c.Args[1].(*ast.SliceExpr)
			if ok1 && ok2 && d.High == nil && y.High == nil && d.Low != nil && y.Low != nil && d.Max == nil && y.Max == nil {
				id := ident(d.X)
				k := t.kinds[id]
				if _, isSlice := elemKind[k]; isSlice && k != "str" && k != "strsptr" && t.fresh[id] && t.kind(y.X) == k {
					t.guardAssign(s, id)
					return cont("let " + v(id) + " := go_copy " + v(id) + " " + t.asInt(d.Low) + " " + t.expr(y.X) + " " + t.asInt(y.Low) + " in")
				}
			}
			fail(s, "%s: statement %s", t.info.goName, src(s))
		}
		f, _, ok := t.callee(c)
		if !ok {
			fail(s, "%s: statement %s", t.info.goName, src(s))
		}
		if !f.mutates && len(f.outs) == 0 {
			fail(s, "%s: the call %s has no effect", t.info.goName, src(s))
		}
		targets := make([]string, len(f.results))
		for i := range targets {
			targets[i] = "_"
		}
		t.guardCall(c, f)
		return t.bindCall(c, targets, func() string { return t.seq(rest, end) })
	case *ast.AssignStmt:
		return t.assign(s, rest, end)
	case *ast.IfStmt:
		return t.ifStmt(s, rest, end)
	case *ast.SwitchStmt:
		return t.switchStmt(s, rest, end)
	case *ast.ForStmt:
		return t.forStmt(s, rest, end)
	case *ast.RangeStmt:
		return t.rangeStmt(s, rest, end)
	}
	fail(s, "%s: statement %s", t.info.goName, src(s))
	return ""
}

// inside the body of a loop over the elements of X, neither X's root variable nor the key may be assigned
func (t *tr) guardAssign(n ast.Node, name string) {
	if t.noAssign[name] {
		fail(n, "%s: %s is assigned inside a loop that ranges over it", t.info.goName, name)
	}
}

func (t *tr) guardCall(c *ast.CallExpr, f *fnInfo) {
	if f.mutates {
		if se, ok := c.Fun.(*ast.SelectorExpr); ok {
			t.guardAssign(c, rootVar(se.X))
			if t.kinds[rootVar(se.X)] == "nodeptr" {
				t.guardAssign(c, t.treeVar())
			}
		}
	}
	for i, p := range f.params {
		if p[1] == "strsptr" {
			a := c.Args[i]
			if u, ok := a.(*ast.UnaryExpr); ok && u.Op == token.AND {
				a = u.X
			}
			t.guardAssign(c, rootVar(a))
		}
	}
}

func (t *tr) assign(s *ast.AssignStmt, rest []ast.Stmt, end string) string {
	cont := func(line string) string { return t.flush() + line + "\n" + t.ind() + t.seq(rest, end) }
	for _, l := range s.Lhs {
		t.guardAssign(s, rootVar(l))
	}
	// parallel assignment  a, b = x, y  (simultaneous)
	if len(s.Rhs) == len(s.Lhs) && len(s.Rhs) > 1 {
		vals := make([]string, len(s.Rhs))
		names := make([]string, len(s.Lhs))
		for i, r := range s.Rhs {
			names[i] = ident(s.Lhs[i])
			if names[i] == "" {
				fail(s, "assignment target %s", src(s.Lhs[i]))
			}
			vals[i] = t.expr(r)
		}
		for i, r := range s.Rhs {
			k := t.kind(r)
			if _, known := t.kinds[names[i]]; known && s.Tok == token.ASSIGN {
				if t.kinds[names[i]] != k {
					fail(s, "assignment %s changes a kind", src(s))
				}
			} else if s.Tok == token.DEFINE {
				t.declare(names[i], k)
			} else {
				fail(s, "assignment to unknown variable %s", names[i])
			}
		}
		return cont("let '(" + strings.Join(mapv(names), ", ") + ") := (" + strings.Join(vals, ", ") + ") in")
	}
	if len(s.Rhs) != 1 {
		fail(s, "assignment %s", src(s))
	}
	rhs := s.Rhs[0]
	if len(s.Lhs) == 1 {
		lhs := s.Lhs[0]
		// _ = l[:len(s)] : a bounds-check hint
		if ident(lhs) == "_" && s.Tok == token.ASSIGN {
			if _, ok := rhs.(*ast.SliceExpr); ok {
				if checked { // the hint is itself a bounds check
					_ = t.expr(rhs)
					return t.flush() + t.seq(rest, end)
				}
				return t.seq(rest, end)
			}
		}
		// *dst = e
		if st, ok := lhs.(*ast.StarExpr); ok && s.Tok == token.ASSIGN && t.kind(st.X) == "strsptr" {
			return cont("let " + v(ident(st.X)) + " := " + t.exprAs(rhs, "strs") + " in")
		}
		// x.f = e  and  x.f[i] = e  on a node value (the receiver, or a local)
		if se, ok := lhs.(*ast.SelectorExpr); ok && s.Tok == token.ASSIGN {
			x := ident(se.X)
			fk := nodeFieldKind(se.Sel.Name)
			if t.kinds[x] == "node" && fk != "" {
				return cont("let " + v(x) + " := set_g_" + se.Sel.Name + " " + v(x) + " " + t.exprAs(rhs, fk) + " in")
			}
			fail(s, "%s: assignment %s", t.info.goName, src(s))
		}
		if ie, ok := lhs.(*ast.IndexExpr); ok && s.Tok == token.ASSIGN {
			if se, ok := ie.X.(*ast.SelectorExpr); ok {
				x := ident(se.X)
				fk := nodeFieldKind(se.Sel.Name)
				if t.kinds[x] == "node" && fk != "" && fk != "str" {
					if _, isElem := t.elemVar[src(ie)]; isElem {
						fail(s, "assignment to %s inside a loop over the elements", src(ie))
					}
					ix := t.asInt(ie.Index)
					t.guard(inRange(ix, "(g_"+se.Sel.Name+" "+v(x)+")"))
					return cont("let " + v(x) + " := set_g_" + se.Sel.Name + " " + v(x) + " (list_set (g_" + se.Sel.Name + " " + v(x) + ") " + ix + " " + t.exprAs(rhs, elemKind[fk]) + ") in")
				}
			}
			if x := ident(ie.X); x != "" && t.fresh[x] {
				k := t.kinds[x]
				if ek, ok := elemKind[k]; ok && k != "str" && k != "strsptr" {
					ix := t.asInt(ie.Index)
					t.guard(inRange(ix, v(x)))
					return cont("let " + v(x) + " := list_set " + v(x) + " " + ix + " " + t.exprAs(rhs, ek) + " in")
				}
			}
			fail(s, "%s: element assignment %s (not a receiver field, not a slice re-bound by append)", t.info.goName, src(s))
		}
	}
	names := make([]string, len(s.Lhs))
	for i, l := range s.Lhs {
		names[i] = ident(l)
		if names[i] == "" {
			fail(s, "assignment target %s", src(l))
		}
	}
	bind := func(kinds []string) {
		for i, n := range names {
			if n == "_" {
				continue
			}
			if _, known := t.kinds[n]; known {
				if s.Tok == token.DEFINE || t.kinds[n] == kinds[i] {
					if t.kinds[n] != kinds[i] { // := in an inner scope that shadows
						t.declare(n, kinds[i])
					}
					continue
				}
				fail(s, "assignment %s changes the kind of %s", src(s), n)
			}
			if s.Tok != token.DEFINE {
				fail(s, "assignment to unknown variable %s", n)
			}
			t.declare(n, kinds[i])
		}
	}
	if len(names) == 1 {
		n := names[0]
		switch s.Tok {
		case token.ADD_ASSIGN, token.SUB_ASSIGN:
			if t.kinds[n] != "int" {
				fail(s, "statement %s", src(s))
			}
			op := "+"
			if s.Tok == token.SUB_ASSIGN {
				op = "-"
			}
			return cont("let " + v(n) + " := (" + v(n) + " " + op + " " + t.asInt(rhs) + ")%Z in")
		case token.ASSIGN, token.DEFINE:
		default:
			fail(s, "statement %s", src(s))
		}
		// pointers
		if u, ok := rhs.(*ast.UnaryExpr); ok && u.Op == token.AND {
			tv := t.treeVar()
			if tv == "" {
				fail(s, "%s: address-of outside a Tree method", t.info.goName)
			}
			if src(u.X) == tv+".root" {
				bind([]string{"nodeptr"})
				return cont("let " + v(n) + " := ([] : gpath) in")
			}
			if ie, ok := u.X.(*ast.IndexExpr); ok {
				if se, ok := ie.X.(*ast.SelectorExpr); ok && se.Sel.Name == "children" && t.kinds[ident(se.X)] == "nodeptr" {
					val := "gchild " + v(ident(se.X)) + " " + t.asInt(ie.Index)
					t.guard(inRange(t.asInt(ie.Index), "(g_children (gget "+v(t.treeVar())+" "+v(ident(se.X))+"))"))
					bind([]string{"nodeptr"})
					return cont("let " + v(n) + " := " + val + " in")
				}
			}
			fail(s, "%s: address-of %s", t.info.goName, src(u.X))
		}
		if id := ident(rhs); id != "" && t.kinds[id] == "nodeptr" { // n = child
			bind([]string{"nodeptr"})
			return cont("let " + v(n) + " := " + v(id) + " in")
		}
		// x := x  where the right-hand side is the package-level constant of the same name
		if id := ident(rhs); id == n && s.Tok == token.DEFINE {
			if _, local := t.kinds[n]; !local {
				if c, ok := consts[n]; ok {
					t.declare(n, c[1])
					return cont("let " + v(n) + " := " + c[0] + " in")
				}
			}
		}
	}
	// calls of translated functions that are not pure expressions
	if c, ok := rhs.(*ast.CallExpr); ok {
		if f, _, ok := t.callee(c); ok && (f.loopy || f.mutates || len(f.outs) > 0 || len(f.results) != 1 || f.results[0] == "relptr") {
			if len(names) != len(f.results) {
				fail(s, "%s: assignment %s", t.info.goName, src(s))
			}
			t.guardCall(c, f)
			targets := make([]string, len(names))
			post := ""
			var ks []string
			for i, n := range names {
				rk := f.results[i]
				if f.generic && (rk == "T" || rk == "Ts") {
					rk = t.kind(c.Args[0])
				}
				if rk == "relptr" {
					// child = n.upsertEdge(..): the pointer is the receiver's path extended by the index
					se := c.Fun.(*ast.SelectorExpr)
					r := ident(se.X)
					if t.kinds[r] != "nodeptr" || n == "_" {
						fail(s, "%s: assignment %s", t.info.goName, src(s))
					}
					targets[i] = "r_idx"
					post += "let " + v(n) + " := gchild " + v(r) + " r_idx in\n"
					ks = append(ks, "nodeptr")
					continue
				}
				targets[i] = v(n)
				ks = append(ks, rk)
			}
			if f.generic && t.kinds[names[0]] != "" {
				t.fresh[names[0]] = false
			}
			bind(ks)
			return t.bindCall(c, targets, func() string { return post + t.ind() + t.seq(rest, end) })
		}
		// slices.BinarySearch
		if src(c.Fun) == "slices.BinarySearch" && len(c.Args) == 2 && len(names) == 2 {
			k := t.kind(c.Args[0])
			fn := map[string]string{"bytel": "slices_BinarySearch_N", "strs": "slices_BinarySearch", "ints": "slices_BinarySearch_Z"}[k]
			if fn == "" {
				fail(s, "%s: %s", t.info.goName, src(s))
			}
			val := fn + " " + t.expr(c.Args[0]) + " " + t.exprAs(c.Args[1], elemKind[k])
			bind([]string{"int", "bool"})
			return cont("let '(" + v(names[0]) + ", " + v(names[1]) + ") := " + val + " in")
		}
	}
	if len(names) != 1 {
		fail(s, "%s: assignment %s", t.info.goName, src(s))
	}
	n := names[0]
	k := t.kind(rhs)
	var val string
	if known, ok := t.kinds[n]; ok && s.Tok == token.ASSIGN {
		val = t.exprAs(rhs, known)
		k = known
	} else {
		val = t.expr(rhs)
	}
	bind([]string{k})
	if c, ok := rhs.(*ast.CallExpr); ok && src(c.Fun) == "append" {
		if _, isSlice := elemKind[k]; isSlice {
			t.fresh[n] = true
		}
	} else {
		t.fresh[n] = false
	}
	return cont("let " + v(n) + " := " + val + " in")
}

func mapv(names []string) []string {
	out := make([]string, len(names))
	for i, n := range names {
		out[i] = v(n)
	}
	return out
}

func hasLoopStmt(n ast.Node) bool {
	found := false
	ast.Inspect(n, func(x ast.Node) bool {
		switch x.(type) {
		case *ast.ForStmt, *ast.RangeStmt:
			found = true
		}
		return true
	})
	return found
}

// does a statement list call a loopy function in statement position?
func (t *tr) hasLoopyCall(n ast.Node) bool {
	found := false
	ast.Inspect(n, func(x ast.Node) bool {
		if c, ok := x.(*ast.CallExpr); ok {
			if f, _, ok := t.callee(c); ok && f.loopy {
				found = true
			}
			if se, ok := c.Fun.(*ast.SelectorExpr); ok && funcs["node."+se.Sel.Name] != nil && funcs["node."+se.Sel.Name].loopy {
				found = true
			}
		}
		return true
	})
	return found
}

func (t *tr) ifStmt(s *ast.IfStmt, rest []ast.Stmt, end string) string {
	var els []ast.Stmt
	switch e := s.Else.(type) {
	case nil:
	case *ast.BlockStmt:
		els = e.List
	case *ast.IfStmt:
		els = []ast.Stmt{e}
	}
	if s.Init != nil {
		fail(s, "if with an init statement %s", src(s.Init))
	}
	scope0, kinds0 := t.snapshot()
	cond := t.exprAs(s.Cond, "bool")
	pre := t.flush()
	body := &ast.BlockStmt{List: append(append([]ast.Stmt{}, s.Body.List...), els...)}
	if !mentions(body, "return", "continue", "break") && !hasLoopStmt(body) && !t.hasLoopyCall(body) {
		av := t.assigned(body.List)
		t.depth++
		a := t.seq(s.Body.List, tuple(av))
		t.restore(scope0, kinds0)
		b := t.seq(els, tuple(av))
		t.depth--
		t.restore(scope0, kinds0)
		return pre + letPat(av) + " if " + cond + " then (" + a + ") else (" + b + ") in\n" + t.ind() + t.seq(rest, end)
	}
	fresh0 := copyBool(t.fresh)
	t.depth++
	a := t.seq(append(append([]ast.Stmt{}, s.Body.List...), rest...), end)
	t.restore(scope0, kinds0)
	t.fresh = fresh0
	b := t.seq(append(append([]ast.Stmt{}, els...), rest...), end)
	t.depth--
	t.restore(scope0, kinds0)
	return pre + "if " + cond + " then (\n" + t.ind() + "  " + a + ")\n" + t.ind() + "else (\n" + t.ind() + "  " + b + ")"
}

func copyBool(m map[string]bool) map[string]bool {
	out := map[string]bool{}
	for k, x := range m {
		out[k] = x
	}
	return out
}

// switch tag { case a: A  case b: B  default: D }  =  if tag == a { A } else if tag == b { B } else { D }
func (t *tr) switchStmt(s *ast.SwitchStmt, rest []ast.Stmt, end string) string {
	if s.Init != nil || s.Tag == nil {
		fail(s, "switch statement %s", src(s))
	}
	var def []ast.Stmt
	type arm struct {
		cond ast.Expr
		body []ast.Stmt
	}
	var arms []arm
	for _, cs := range s.Body.List {
		cc := cs.(*ast.CaseClause)
		for _, st := range cc.Body {
			if b, ok := st.(*ast.BranchStmt); ok && (b.Tok == token.FALLTHROUGH || b.Tok == token.BREAK) {
				fail(b, "%s inside a switch", b.Tok)
			}
		}
		if mentions(&ast.BlockStmt{List: cc.Body}, "break") {
			fail(cc, "break inside a switch")
		}
		if cc.List == nil {
			def = cc.Body
			continue
		}
		var cond ast.Expr
		for _, x := range cc.List {
			c := ast.Expr(&ast.BinaryExpr{X: s.Tag, Op: token.EQL, Y: x})
			if cond == nil {
				cond = c
			} else {
				cond = &ast.BinaryExpr{X: cond, Op: token.LOR, Y: c}
			}
		}
		arms = append(arms, arm{cond, cc.Body})
	}
	var chain ast.Stmt = &ast.BlockStmt{List: def}
	for i := len(arms) - 1; i >= 0; i-- {
		chain = &ast.IfStmt{Cond: arms[i].cond, Body: &ast.BlockStmt{List: arms[i].body}, Else: chain}
	}
	return t.seq(append([]ast.Stmt{chain}, rest...), end)
}

func (t *tr) stateType(lv []string) string {
	if len(lv) == 0 {
		return "unit"
	}
	ts := make([]string, len(lv))
	for i, n := range lv {
		ts[i] = coqType[t.kinds[n]]
		if ts[i] == "" {
			fail(nil, "%s: unknown type of loop-carried variable %s", t.info.goName, n)
		}
	}
	return "(" + strings.Join(ts, " * ") + ")"
}

func (t *tr) resultType() string {
	ks := t.info.retKinds()
	ts := make([]string, len(ks))
	for i, k := range ks {
		ts[i] = coqType[k]
	}
	return "(" + strings.Join(ts, " * ") + ")"
}

func (t *tr) forStmt(s *ast.ForStmt, rest []ast.Stmt, end string) string {
	scope0, kinds0 := t.snapshot()
	if s.Init != nil {
		fail(s, "loop init %s", src(s.Init))
	}
	bodyStmts := append([]ast.Stmt{}, s.Body.List...)
	lvSrc := append([]ast.Stmt{}, bodyStmts...)
	if s.Post != nil {
		lvSrc = append(lvSrc, s.Post)
	}
	lv := t.assigned(lvSrc)
	fuel := ""
	condS := "true"
	condPre := ""
	post := ""
	switch {
	case s.Cond == nil:
		m, ok := infiniteLoopMeasure[t.info.goName]
		if !ok || t.kinds[m] != "str" || s.Post != nil {
			fail(s, "%s: an unbounded loop without a known measure", t.info.goName)
		}
		fuel = "(S (length " + v(m) + "))"
	default:
		// for ; 0 <= i && c; i-- { }  : at most i+1 iterations
		condS = t.exprAs(s.Cond, "bool")
		condPre = t.flush()
		first := s.Cond
		if be, ok := s.Cond.(*ast.BinaryExpr); ok && be.Op == token.LAND {
			first = be.X
		}
		be, ok := first.(*ast.BinaryExpr)
		dec, isDec := s.Post.(*ast.IncDecStmt)
		if !ok || be.Op != token.LEQ || src(be.X) != "0" || t.kinds[ident(be.Y)] != "int" || !isDec || dec.Tok != token.DEC || ident(dec.X) != ident(be.Y) {
			fail(s, "loop form %s", src(s.Cond))
		}
		i := ident(be.Y)
		for _, st := range bodyStmts {
			for _, n := range t.assigned([]ast.Stmt{st}) {
				if n == i {
					fail(s, "the loop counter is assigned in the loop body")
				}
			}
		}
		fuel = "(S (Z.to_nat (" + v(i) + " + 1)))"
		post = "let " + v(i) + " := (" + v(i) + " - 1)%Z in "
	}
	t.loop = append(t.loop, loopCtx{lv: lv, post: post})
	t.depth += 2
	body := t.seq(bodyStmts, post+"(Next "+tuple(lv)+")")
	t.depth -= 2
	t.loop = t.loop[:len(t.loop)-1]
	t.restore(scope0, kinds0)
	t.depth++
	var after string
	if s.Cond == nil && !mentions(s.Body, "break") && len(flatten(rest)) == 0 && end == "" {
		after = t.kExh() // `for { }` without break: the code after the loop is unreachable
	} else {
		after = t.seq(rest, end)
	}
	t.depth--
	t.restore(scope0, kinds0)
	return "match loop_n (S := " + t.stateType(lv) + ") (R := " + t.resultType() + ") " + fuel + " (fun " + funPat(lv) + " =>\n" + t.ind() + "    " + condPre + "if " + condS + " then (\n" + t.ind() + "      " + body + ")\n" + t.ind() + "    else (Brk " + tuple(lv) + ")) " + tuple(lv) + " with\n" +
		t.ind() + "| Done " + strings.TrimPrefix(funPat(lv), "'") + " =>\n" + t.ind() + "  " + after + "\n" +
		t.ind() + "| Returned r => " + t.kRet("r") + "\n" + t.ind() + "| Exhausted => " + t.kExh() + "\n" + t.ind() + "end"
}

// uses of the identifier `name` in n that are not exactly the expression `only`
func usedOtherwise(n ast.Node, name, only string) bool {
	found := false
	var walk func(x ast.Node) bool
	walk = func(x ast.Node) bool {
		if e, ok := x.(ast.Expr); ok && src(e) == only {
			return false
		}
		if id, ok := x.(*ast.Ident); ok && id.Name == name {
			found = true
		}
		return true
	}
	ast.Inspect(n, walk)
	return found
}

func (t *tr) rangeStmt(s *ast.RangeStmt, rest []ast.Stmt, end string) string {
	if s.Tok != token.DEFINE || s.Key == nil {
		fail(s, "range statement %s", src(s.X))
	}
	xk := t.kind(s.X)
	ek, ok := elemKind[xk]
	if !ok || xk == "str" || xk == "strsptr" {
		fail(s, "range statement over %s", src(s.X))
	}
	scope0, kinds0 := t.snapshot()
	lv := t.assigned(s.Body.List)
	xs := t.expr(s.X)
	rpre := t.flush()
	key, val := ident(s.Key), ""
	if s.Value != nil {
		val = ident(s.Value)
	}
	root := rootVar(s.X)
	for _, n := range lv {
		if n == root {
			fail(s, "%s: the loop assigns %s, over which it ranges", t.info.goName, root)
		}
	}
	saveElem, saveNo := t.elemVar, t.noAssign
	t.elemVar = map[string]string{}
	for k, x := range saveElem {
		t.elemVar[k] = x
	}
	t.noAssign = copyBool(saveNo)
	t.noAssign[root] = true
	var loopFn, binder string
	elemOnly := val == "" && key != "_" && !usedOtherwise(s.Body, key, src(s.X)+"["+key+"]")
	switch {
	case elemOnly: // for i := range l { .. l[i] .. }
		ev := key + "_elem"
		t.declare(ev, ek)
		t.elemVar[src(s.X)+"["+key+"]"] = ev
		loopFn = "loop_elems"
		binder = v(ev)
	case val == "" || val == "_":
		t.declare(key, "int")
		t.noAssign[key] = true
		loopFn = "loop_list"
		binder = "'(" + v(key) + ", _)"
		xs = "(zip_index " + xs + ")"
	default:
		binder = "'(" + v(key) + ", " + v(val) + ")"
		if key != "_" {
			t.declare(key, "int")
			t.noAssign[key] = true
		}
		t.declare(val, ek)
		loopFn = "loop_list"
		xs = "(zip_index " + xs + ")"
	}
	t.loop = append(t.loop, loopCtx{lv: lv})
	t.depth += 2
	body := t.seq(s.Body.List, "(Next "+tuple(lv)+")")
	t.depth -= 2
	t.loop = t.loop[:len(t.loop)-1]
	t.elemVar, t.noAssign = saveElem, saveNo
	t.restore(scope0, kinds0)
	t.depth++
	after := t.seq(rest, end)
	t.depth--
	t.restore(scope0, kinds0)
	var head string
	if loopFn == "loop_elems" {
		head = "match loop_elems (S := " + t.stateType(lv) + ") (R := " + t.resultType() + ") (fun " + funPat(lv) + " " + binder + " =>\n" + t.ind() + "      " + body + ") " + xs + " " + tuple(lv) + " with\n"
	} else {
		head = "match loop_list (S := " + t.stateType(lv) + ") (R := " + t.resultType() + ") " + xs + " (fun " + funPat(lv) + " " + binder + " =>\n" + t.ind() + "      " + body + ") " + tuple(lv) + " with\n"
	}
	return rpre + head +
		t.ind() + "| Done " + strings.TrimPrefix(funPat(lv), "'") + " =>\n" + t.ind() + "  " + after + "\n" +
		t.ind() + "| Returned r => " + t.kRet("r") + "\n" + t.ind() + "| Exhausted => " + t.kExh() + "\n" + t.ind() + "end"
}

// ---- functions ----

func key(fd *ast.FuncDecl) string {
	if fd.Recv != nil {
		switch src(fd.Recv.List[0].Type) {
		case "*node":
			return "node." + fd.Name.Name
		case "*Tree":
			return "tree." + fd.Name.Name
		}
		fail(fd, "receiver %s", src(fd.Recv.List[0].Type))
	}
	return fd.Name.Name
}

// does the body assign to the receiver's fields, or call (on the receiver or one of its children) a method that does?
func mutatesRecv(fd *ast.FuncDecl, recv string) bool {
	m := false
	ast.Inspect(fd.Body, func(x ast.Node) bool {
		switch s := x.(type) {
		case *ast.AssignStmt:
			for _, l := range s.Lhs {
				if ident(l) == "" && rootVar(l) == recv {
					m = true
				}
			}
		case *ast.IncDecStmt:
			if ident(s.X) == "" && rootVar(s.X) == recv {
				m = true
			}
		case *ast.CallExpr:
			if se, ok := s.Fun.(*ast.SelectorExpr); ok && rootVar(se.X) == recv {
				if f := funcs["node."+se.Sel.Name]; f != nil && f.mutates {
					m = true
				}
			}
			if src(s.Fun) == "slices.Sort" && len(s.Args) == 1 && ident(s.Args[0]) == "" && rootVar(s.Args[0]) == recv {
				m = true
			}
		}
		return true
	})
	return m
}

func prepare(fd *ast.FuncDecl) *fnInfo {
	name := fd.Name.Name
	k := key(fd)
	info := &fnInfo{goName: name, decl: fd}
	switch {
	case strings.HasPrefix(k, "node."):
		info.recv, info.gname = "node", prefix+"node_"+name
	case strings.HasPrefix(k, "tree."):
		info.recv, info.gname = "tree", prefix+"Tree_"+name
	default:
		info.gname = prefix + name
	}
	if fd.Recv != nil {
		if len(fd.Recv.List[0].Names) != 1 {
			fail(fd, "%s: receiver without a name", name)
		}
		info.recvName = fd.Recv.List[0].Names[0].Name
	}
	if fd.Type.TypeParams != nil {
		tp := fd.Type.TypeParams.List
		if len(tp) != 1 || len(tp[0].Names) != 1 || tp[0].Names[0].Name != "T" || src(tp[0].Type) != "any" {
			fail(fd, "%s: type parameters", name)
		}
		info.generic = true
	}
	for _, f := range fd.Type.Params.List {
		pk := kindOfType(src(f.Type))
		if pk == "" || pk == "tree" || (pk == "nodeptr") {
			fail(f, "%s: parameter type %s", name, src(f.Type))
		}
		for _, n := range f.Names {
			info.params = append(info.params, [2]string{n.Name, pk})
			if pk == "strsptr" {
				info.outs = append(info.outs, n.Name)
			}
		}
	}
	if fd.Type.Results != nil {
		for _, f := range fd.Type.Results.List {
			rk := kindOfType(src(f.Type))
			if rk == "nodeptr" && info.recv == "node" {
				rk = "relptr"
			}
			if rk == "" || rk == "tree" || rk == "nodeptr" || rk == "strsptr" {
				fail(f, "%s: result type %s", name, src(f.Type))
			}
			if len(f.Names) == 0 {
				info.results = append(info.results, rk)
			}
			for _, n := range f.Names {
				info.results = append(info.results, rk)
				info.named = append(info.named, n.Name)
			}
		}
	}
	if info.generic && (len(info.params) == 0 || info.params[0][1] != "Ts") {
		fail(fd, "%s: a generic function must take the slice first", name)
	}
	return info
}

// the functions a body calls (keys of `funcs`)
func calls(fd *ast.FuncDecl, all map[string]*fnInfo) []string {
	set := map[string]bool{}
	ast.Inspect(fd.Body, func(x ast.Node) bool {
		if c, ok := x.(*ast.CallExpr); ok {
			switch fun := c.Fun.(type) {
			case *ast.Ident:
				if _, ok := all[fun.Name]; ok {
					set[fun.Name] = true
				}
			case *ast.SelectorExpr:
				if _, ok := all["node."+fun.Sel.Name]; ok {
					set["node."+fun.Sel.Name] = true
				}
			}
		}
		return true
	})
	var out []string
	for k := range set {
		out = append(out, k)
	}
	sort.Strings(out)
	return out
}

func translate(info *fnInfo) string {
	fd := info.decl
	t := &tr{info: info, kinds: map[string]string{}, fresh: map[string]bool{}, elemVar: map[string]string{}, noAssign: map[string]bool{}}
	params := ""
	if info.generic {
		params += " {T : Type} (zeroT : T)"
	}
	if info.recv != "" {
		t.declare(info.recvName, info.recv)
		params += " (" + v(info.recvName) + " : gnode)"
	}
	for _, p := range info.params {
		t.declare(p[0], p[1])
		params += " (" + v(p[0]) + " : " + coqType[p[1]] + ")"
	}
	pre := ""
	for i, n := range info.named {
		t.declare(n, info.results[i])
		pre += "let " + v(n) + " := " + zeroOfKind[info.results[i]] + " in\n  "
	}
	if checked {
		t.declare(chkVar, "bool")
		pre += "let " + v(chkVar) + " := true in\n  "
	}
	body := t.seq(fd.Body.List, "")
	rks := info.retKinds()
	rts := make([]string, len(rks))
	for i, k := range rks {
		rts[i] = coqType[k]
	}
	rt := strings.Join(rts, " * ")
	if info.loopy {
		rt = "option (" + rt + ")"
	}
	kw, strct := "Definition", ""
	if info.rec {
		if info.recv != "node" {
			fail(fd, "%s: recursion outside a node method", info.goName)
		}
		kw, strct = "Fixpoint", " {struct "+v(info.recvName)+"}"
	}
	return fmt.Sprintf("%s %s%s%s : %s :=\n  %s%s.\n", kw, info.gname, params, strct, rt, pre, body)
}

func checkTypes(file *ast.File) {
	seenTree, seenNode, seenConsts := false, false, false
	for _, d := range file.Decls {
		gd, ok := d.(*ast.GenDecl)
		if !ok {
			continue
		}
		switch gd.Tok {
		case token.IMPORT:
		case token.VAR:
			fail(gd, "radix.go declares a package-level variable (state shared between calls is not modelled)")
		case token.CONST:
			var names []string
			for _, sp := range gd.Specs {
				for _, n := range sp.(*ast.ValueSpec).Names {
					names = append(names, n.Name)
				}
			}
			if strings.Join(names, ",") != "wildcardPort,portOffset" || seenConsts {
				fail(gd, "constants of radix.go: %v", names)
			}
			seenConsts = true
			consts["wildcardPort"] = [2]string{"origins_wildcardPort", "int"}
			consts["portOffset"] = [2]string{"origins_portOffset", "int"}
		case token.TYPE:
			for _, sp := range gd.Specs {
				ts := sp.(*ast.TypeSpec)
				st, ok := ts.Type.(*ast.StructType)
				if !ok {
					fail(ts, "type %s", ts.Name.Name)
				}
				var fs [][2]string
				for _, f := range st.Fields.List {
					for _, n := range f.Names {
						fs = append(fs, [2]string{n.Name, src(f.Type)})
					}
					if len(f.Names) == 0 {
						fail(f, "embedded field in %s", ts.Name.Name)
					}
				}
				switch ts.Name.Name {
				case "Tree":
					if len(fs) != 1 || fs[0] != [2]string{"root", "node"} {
						fail(ts, "type Tree has fields %v (modelled: root node)", fs)
					}
					seenTree = true
				case "node":
					if len(fs) != len(nodeFields) {
						fail(ts, "type node has fields %v (modelled: %v)", fs, nodeFields)
					}
					for i := range fs {
						if fs[i] != nodeFields[i] {
							fail(ts, "type node has fields %v (modelled: %v)", fs, nodeFields)
						}
					}
					seenNode = true
				default:
					fail(ts, "type %s is not modelled", ts.Name.Name)
				}
			}
		}
	}
	if !seenTree || !seenNode || !seenConsts {
		fail(nil, "radix.go must declare Tree, node and the two port constants")
	}
	for _, im := range file.Imports {
		switch im.Path.Value {
		case `"math"`, `"slices"`, `"strconv"`, `"strings"`:
		default:
			fail(im, "import %s", im.Path.Value)
		}
	}
}

func main() {
	args := os.Args[1:]
	if len(args) > 0 && args[0] == "-checked" {
		checked, prefix = true, "chk_"
		args = args[1:]
	}
	if len(args) != 2 {
		fmt.Fprintln(os.Stderr, "usage: genradix [-checked] <repo> <RadixSrc.v | RadixChk.v>")
		os.Exit(2)
	}
	repo, out := args[0], args[1]
	header := "(* GENERATED by tools/genradix from internal/origins/radix.go on every run -- do not edit. *)\n" +
		"Require Import Base.Bytes Gen.Tables Model.Util Model.Headers Model.Origins Model.Pattern Model.UtilRt Model.LoopRt Model.RadixRt.\nOpen Scope bool_scope.\n\n" +
		"Definition slice3g {A : Type} (s : list A) (a b : Z) : list A := firstn (Z.to_nat (b - a)) (skipn (Z.to_nat a) s).\n\n"
	if checked {
		header = "(* GENERATED by tools/genradix -checked from internal/origins/radix.go on every run -- do not edit.\n" +
			"   Every function also returns a flag that is true iff no index or slice expression evaluated on the way was out of range. *)\n" +
			"Require Import Base.Bytes Gen.Tables Model.Util Model.Headers Model.Origins Model.Pattern Model.UtilRt Model.LoopRt Model.RadixRt Gen.RadixSrc.\nOpen Scope bool_scope.\n\n"
	}
	var sb strings.Builder
	sb.WriteString(header)
	errMsg := ""
	func() {
		defer func() {
			if e := recover(); e != nil {
				if f, ok := e.(failure); ok {
					errMsg = f.msg
					return
				}
				panic(e)
			}
		}()
		file, err := parser.ParseFile(fset, filepath.Join(repo, "internal/origins/radix.go"), nil, parser.SkipObjectResolution)
		if err != nil {
			fail(nil, "parse error: %v", err)
		}
		checkTypes(file)
		all := map[string]*fnInfo{}
		var keys []string
		for _, d := range file.Decls {
			if fd, ok := d.(*ast.FuncDecl); ok {
				if fd.Body == nil {
					fail(fd, "function %s without a body", fd.Name.Name)
				}
				k := key(fd)
				if _, dup := all[k]; dup {
					fail(fd, "two functions named %s", k)
				}
				all[k] = prepare(fd)
				keys = append(keys, k)
			}
		}
		// node methods and Tree methods must not share a name with different receivers being confused: method calls
		// resolve by name to node methods only; Tree methods are never called from inside the file.
		for k := range all {
			if strings.HasPrefix(k, "tree.") {
				if _, clash := all["node."+strings.TrimPrefix(k, "tree.")]; clash {
					// e.g. Tree.Contains / node.contains differ in case; an exact clash is not handled
					fail(all[k].decl, "method name %s is used with both receivers", k)
				}
			}
		}
		// dependency order (source order among independent functions); direct recursion is allowed for node methods
		done := map[string]bool{}
		var order []string
		var visit func(k string, stack map[string]bool)
		visit = func(k string, stack map[string]bool) {
			if done[k] {
				return
			}
			if stack[k] {
				fail(all[k].decl, "mutual recursion through %s", k)
			}
			stack[k] = true
			for _, c := range calls(all[k].decl, all) {
				if c == k {
					all[k].rec = true
					continue
				}
				visit(c, stack)
			}
			delete(stack, k)
			done[k] = true
			order = append(order, k)
		}
		for _, k := range keys {
			visit(k, map[string]bool{})
		}
		for _, k := range order {
			info := all[k]
			// loopy: contains a loop, or calls a loopy function
			info.loopy = hasLoopStmt(info.decl.Body)
			for _, c := range calls(info.decl, all) {
				if c != k && all[c].loopy {
					info.loopy = true
				}
			}
			funcs[k] = info // visible to itself (recursion) and to later functions
			switch info.recv {
			case "node":
				info.mutates = mutatesRecv(info.decl, info.recvName)
			case "tree":
				// a Tree method mutates when it assigns through a pointer or calls a mutating node method
				m := false
				ast.Inspect(info.decl.Body, func(x ast.Node) bool {
					switch s := x.(type) {
					case *ast.AssignStmt:
						for _, l := range s.Lhs {
							if ident(l) == "" {
								if _, isStar := l.(*ast.StarExpr); !isStar {
									m = true
								}
							}
						}
					case *ast.CallExpr:
						if se, ok := s.Fun.(*ast.SelectorExpr); ok {
							if f := funcs["node."+se.Sel.Name]; f != nil && f.mutates {
								m = true
							}
						}
					}
					return true
				})
				info.mutates = m
			}
			sb.WriteString(translate(info))
			sb.WriteString("\n")
		}
	}()
	text := sb.String()
	if errMsg != "" {
		esc := strings.NewReplacer("\n", " ", "*)", "* )").Replace(errMsg)
		text = header + "(* the translator stopped: the source is outside the translated fragment *)\n" +
			"Definition genradix_failed : bool := true.\n(* reason: " + esc + " *)\n"
		fmt.Fprintln(os.Stderr, "genradix: "+errMsg)
	}
	if err := os.WriteFile(out, []byte(text), 0o644); err != nil {
		fmt.Fprintln(os.Stderr, err)
		os.Exit(1)
	}
	if errMsg != "" {
		os.Exit(3)
	}
}
