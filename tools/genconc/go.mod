module verif/genconc

go 1.23.0
