// genconc: translator for the locking protocol of cors.Middleware (C07). It parses /repo/middleware.go
// (go/parser only) and regenerates coq/Gen/ConcSrc.v: for each of the four method bodies that touch the
// shared fields (the handler closure returned by Wrap, Reconfigure, SetDebug, Config) the sequence of
// lock operations and accesses to m.icfg / m.debug in source order, everything else collapsed into GOther.
// The Coq development proves that these sequences are exactly the shapes of the programs of Model/Conc.v.
package main

import (
	"fmt"
	"go/ast"
	"go/parser"
	"go/printer"
	"go/token"
	"os"
	"path/filepath"
	"strings"
)

type walker struct {
	recv   string
	events []string
}

func (w *walker) emit(e string) {
	if e == "GOther" && len(w.events) > 0 && w.events[len(w.events)-1] == "GOther" {
		return
	}
	w.events = append(w.events, e)
}

// isField reports whether e is <recv>.<name>
func (w *walker) isField(e ast.Expr, name string) bool {
	se, ok := e.(*ast.SelectorExpr)
	if !ok || se.Sel.Name != name {
		return false
	}
	id, ok := se.X.(*ast.Ident)
	return ok && id.Name == w.recv
}

// lockOp recognises <recv>.mu.<Op>()
func (w *walker) lockOp(call *ast.CallExpr) string {
	se, ok := call.Fun.(*ast.SelectorExpr)
	if !ok {
		return ""
	}
	inner, ok := se.X.(*ast.SelectorExpr)
	if !ok || inner.Sel.Name != "mu" {
		return ""
	}
	if id, ok := inner.X.(*ast.Ident); !ok || id.Name != w.recv {
		return ""
	}
	switch se.Sel.Name {
	case "RLock":
		return "GRLock"
	case "RUnlock":
		return "GRUnlock"
	case "Lock":
		return "GLock"
	case "Unlock":
		return "GUnlock"
	}
	return ""
}

// expr records reads of the shared fields and calls inside an expression, in source order
func (w *walker) expr(e ast.Expr) {
	if e == nil {
		return
	}
	ast.Inspect(e, func(n ast.Node) bool {
		switch n := n.(type) {
		case *ast.FuncLit:
			return false
		case *ast.CallExpr:
			if op := w.lockOp(n); op != "" {
				w.emit(op)
				return false
			}
			for _, a := range n.Args {
				w.expr(a)
			}
			w.emit("GOther")
			return false
		case *ast.SelectorExpr:
			if w.isField(n, "icfg") {
				w.emit("GReadIcfg")
				return false
			}
			if w.isField(n, "debug") {
				w.emit("GReadDebug")
				return false
			}
		}
		return true
	})
}

func mentions(e ast.Expr, pred func(ast.Node) bool) bool {
	found := false
	ast.Inspect(e, func(n ast.Node) bool {
		if n != nil && pred(n) {
			found = true
		}
		return !found
	})
	return found
}

func (w *walker) stmts(list []ast.Stmt) {
	for _, s := range list {
		w.stmt(s)
	}
}

func (w *walker) stmt(s ast.Stmt) {
	switch s := s.(type) {
	case *ast.BlockStmt:
		w.stmts(s.List)
	case *ast.ExprStmt:
		w.expr(s.X)
	case *ast.AssignStmt:
		for i, lhs := range s.Lhs {
			var rhs ast.Expr
			if i < len(s.Rhs) {
				rhs = s.Rhs[i]
			}
			switch {
			case w.isField(lhs, "icfg"):
				w.expr(rhs)
				w.emit("GWriteIcfg")
			case w.isField(lhs, "debug"):
				readsDebug := mentions(rhs, func(n ast.Node) bool { e, ok := n.(ast.Expr); return ok && w.isField(e, "debug") })
				readsIcfg := mentions(rhs, func(n ast.Node) bool { e, ok := n.(ast.Expr); return ok && w.isField(e, "icfg") })
				switch {
				case readsDebug && !readsIcfg:
					w.emit("(GWriteDebug WReconf)") // m.debug = cfg != nil && m.debug
				case readsIcfg && !readsDebug:
					w.emit("(GWriteDebug WSet)") // m.debug = b && m.icfg != nil
				default:
					w.emit("(GWriteDebug WOther)")
				}
			default:
				w.expr(rhs)
			}
		}
		if len(s.Rhs) == 1 && len(s.Lhs) > 1 {
			// multi-value call already handled through i == 0
		}
	case *ast.IfStmt:
		if s.Init != nil {
			w.stmt(s.Init)
		}
		w.expr(s.Cond)
		w.stmt(s.Body)
		if s.Else != nil {
			w.stmt(s.Else)
		}
	case *ast.ReturnStmt:
		for _, r := range s.Results {
			w.expr(r)
		}
	case *ast.DeclStmt, *ast.EmptyStmt:
	case *ast.DeferStmt:
		w.emit("GDefer")
		w.expr(s.Call)
	case *ast.GoStmt:
		w.emit("GGo")
	case *ast.SwitchStmt:
		if s.Init != nil {
			w.stmt(s.Init)
		}
		w.expr(s.Tag)
		w.stmt(s.Body)
	case *ast.CaseClause:
		for _, e := range s.List {
			w.expr(e)
		}
		w.stmts(s.Body)
	case *ast.ForStmt, *ast.RangeStmt:
		w.emit("GLoop")
	default:
		w.emit("GOther")
	}
}

// ---- second table: every write to a header map in the request-handling functions (C12, C18) ----

// hdrKey renders headers.ACAO etc. as the Coq constant headers_ACAO
func hdrKey(e ast.Expr) string {
	if se, ok := e.(*ast.SelectorExpr); ok {
		if id, ok := se.X.(*ast.Ident); ok && id.Name == "headers" {
			return "headers_" + se.Sel.Name
		}
	}
	return ""
}

func rhsKind(e ast.Expr) string {
	switch e := e.(type) {
	case *ast.SelectorExpr:
		if id, ok := e.X.(*ast.Ident); ok {
			if id.Name == "headers" && strings.HasSuffix(e.Sel.Name, "Sgl") {
				return "(WShared " + e.Sel.Name + ")"
			}
			if id.Name == "icfg" {
				return "(WCfg " + strings.ToUpper(e.Sel.Name[:1]) + e.Sel.Name[1:] + ")"
			}
		}
	case *ast.Ident:
		switch e.Name {
		case "originSgl":
			return "(WReq headers_Origin)"
		case "acrmSgl":
			return "(WReq headers_ACRM)"
		case "acrh":
			return "(WReq headers_ACRH)"
		}
	case *ast.CallExpr:
		if id, ok := e.Fun.(*ast.Ident); ok && id.Name == "append" {
			return "WAppend"
		}
	}
	return "WUnknown"
}

func headerWrites(fd *ast.FuncDecl) []string {
	var out []string
	ast.Inspect(fd.Body, func(n ast.Node) bool {
		switch n := n.(type) {
		case *ast.AssignStmt:
			for i, lhs := range n.Lhs {
				ix, ok := lhs.(*ast.IndexExpr)
				if !ok {
					continue
				}
				m, ok := ix.X.(*ast.Ident)
				k := hdrKey(ix.Index)
				if !ok || k == "" || i >= len(n.Rhs) {
					continue
				}
				out = append(out, fmt.Sprintf("(M%s, %s, %s)", m.Name, k, rhsKind(n.Rhs[i])))
			}
		case *ast.CallExpr:
			se, ok := n.Fun.(*ast.SelectorExpr)
			if !ok {
				return true
			}
			if m, ok := se.X.(*ast.Ident); ok && len(n.Args) >= 1 {
				if k := hdrKey(n.Args[0]); k != "" {
					switch se.Sel.Name {
					case "Add":
						out = append(out, fmt.Sprintf("(M%s, %s, WAdd)", m.Name, k))
					case "Set":
						out = append(out, fmt.Sprintf("(M%s, %s, WSet)", m.Name, k))
					case "Del":
						out = append(out, fmt.Sprintf("(M%s, %s, WDel)", m.Name, k))
					}
				}
				if m.Name == "maps" && se.Sel.Name == "Copy" {
					out = append(out, "(MresHdrs, headers_Vary, WCopy)") // key irrelevant: marks a buffer copy
				}
			}
		}
		return true
	})
	return out
}

func main() {
	if len(os.Args) != 3 && len(os.Args) != 4 {
		fmt.Fprintln(os.Stderr, "usage: genconc <repo> <ConcSrc.v> [<ProvSrc.v>]")
		os.Exit(2)
	}
	fset := token.NewFileSet()
	f, err := parser.ParseFile(fset, filepath.Join(os.Args[1], "middleware.go"), nil, 0)
	if err != nil {
		fmt.Fprintln(os.Stderr, err)
		os.Exit(1)
	}
	res := map[string][]string{}
	for _, d := range f.Decls {
		fd, ok := d.(*ast.FuncDecl)
		if !ok || fd.Recv == nil || len(fd.Recv.List) != 1 || fd.Body == nil {
			continue
		}
		st, ok := fd.Recv.List[0].Type.(*ast.StarExpr)
		if !ok {
			continue
		}
		if id, ok := st.X.(*ast.Ident); !ok || id.Name != "Middleware" {
			continue
		}
		recv := "m"
		if len(fd.Recv.List[0].Names) == 1 {
			recv = fd.Recv.List[0].Names[0].Name
		}
		w := &walker{recv: recv}
		if fd.Name.Name == "Wrap" {
			// the body of the returned handler closure
			var lit *ast.FuncLit
			ast.Inspect(fd.Body, func(n ast.Node) bool {
				if fl, ok := n.(*ast.FuncLit); ok && lit == nil {
					lit = fl
					return false
				}
				return true
			})
			if lit == nil {
				fmt.Fprintln(os.Stderr, "genconc: no handler closure in Wrap")
				os.Exit(1)
			}
			w.stmts(lit.Body.List)
		} else {
			w.stmts(fd.Body.List)
		}
		res[fd.Name.Name] = w.events
	}
	var sb strings.Builder
	sb.WriteString("(* GENERATED by tools/genconc from /repo/middleware.go on every run. DO NOT EDIT. *)\n")
	sb.WriteString("From Coq Require Import List.\nImport ListNotations.\nRequire Import Model.Conc.\n\n")
	for _, name := range []string{"Wrap", "Reconfigure", "SetDebug", "Config"} {
		ev, ok := res[name]
		if !ok {
			fmt.Fprintln(os.Stderr, "genconc: method not found:", name)
			os.Exit(1)
		}
		sb.WriteString(fmt.Sprintf("Definition go_%s : list gev := [%s].\n", name, strings.Join(ev, "; ")))
	}
	// any other method of *Middleware that touches the shared fields must be listed too
	var extra []string
	for name, ev := range res {
		switch name {
		case "Wrap", "Reconfigure", "SetDebug", "Config":
			continue
		}
		for _, e := range ev {
			if e != "GOther" {
				extra = append(extra, name)
				break
			}
		}
	}
	sb.WriteString(fmt.Sprintf("Definition go_other_methods_touching_state : nat := %d.\n", len(extra)))
	// the shared state itself: the fields of Middleware, in declaration order (a further field -- a cache, a snapshot of the
	// last applied Config -- is state that the protocol model does not have)
	var fields []string
	for _, d := range f.Decls {
		gd, ok := d.(*ast.GenDecl)
		if !ok || gd.Tok != token.TYPE {
			continue
		}
		for _, sp := range gd.Specs {
			ts := sp.(*ast.TypeSpec)
			st, isStruct := ts.Type.(*ast.StructType)
			if ts.Name.Name != "Middleware" || !isStruct {
				continue
			}
			for _, fl := range st.Fields.List {
				var tb strings.Builder
				printer.Fprint(&tb, fset, fl.Type)
				if len(fl.Names) == 0 {
					fields = append(fields, "FEmbedded")
				}
				for _, n := range fl.Names {
					switch n.Name + " " + tb.String() {
					case "mu sync.RWMutex":
						fields = append(fields, "FMu")
					case "icfg *internalConfig":
						fields = append(fields, "FIcfg")
					case "debug bool":
						fields = append(fields, "FDebug")
					default:
						fields = append(fields, "FOther")
					}
				}
			}
		}
	}
	sb.WriteString("Inductive gfield := FMu | FIcfg | FDebug | FOther | FEmbedded.\n")
	sb.WriteString("Definition go_Middleware_fields : list gfield := [" + strings.Join(fields, "; ") + "].\n")
	old, _ := os.ReadFile(os.Args[2])
	if string(old) != sb.String() {
		if err := os.WriteFile(os.Args[2], []byte(sb.String()), 0o644); err != nil {
			fmt.Fprintln(os.Stderr, err)
			os.Exit(1)
		}
	}
	if len(os.Args) == 4 {
		var pb strings.Builder
		pb.WriteString("(* GENERATED by tools/genconc from /repo/middleware.go on every run. DO NOT EDIT. *)\n")
		pb.WriteString("From Coq Require Import List.\nImport ListNotations.\nRequire Import Base.Bytes Gen.Tables Model.Prov.\n\n")
		want := []string{"handleNonCORS", "handleCORSPreflight", "processOriginForPreflight", "processACRPN", "handleCORSActual", "processACRM", "processACRH"}
		found := map[string]bool{}
		for _, d := range f.Decls {
			fd, ok := d.(*ast.FuncDecl)
			if !ok || fd.Body == nil {
				continue
			}
			for _, wn := range want {
				if fd.Name.Name == wn {
					found[wn] = true
					pb.WriteString(fmt.Sprintf("Definition go_writes_%s : list wev := [%s].\n", wn, strings.Join(headerWrites(fd), "; ")))
				}
			}
		}
		for _, wn := range want {
			if !found[wn] {
				fmt.Fprintln(os.Stderr, "genconc: function not found:", wn)
				os.Exit(1)
			}
		}
		// header writes anywhere else in the file (there should be none)
		other := 0
		for _, d := range f.Decls {
			if fd, ok := d.(*ast.FuncDecl); ok && fd.Body != nil && !found[fd.Name.Name] {
				other += len(headerWrites(fd))
			}
		}
		pb.WriteString(fmt.Sprintf("Definition go_header_writes_elsewhere : nat := %d.\n", other))
		oldp, _ := os.ReadFile(os.Args[3])
		if string(oldp) != pb.String() {
			if err := os.WriteFile(os.Args[3], []byte(pb.String()), 0o644); err != nil {
				fmt.Fprintln(os.Stderr, err)
				os.Exit(1)
			}
		}
	}
}
