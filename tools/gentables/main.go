// gentables: the translator for the declarative part of jub0bs/cors.
// It loads the repository with full type information and regenerates
// coq/Gen/Tables.v: every package-level and function-local constant, the
// argument strings of every util.MakeASCIISet, the elements of every
// util.NewSet and []string{...} package variable, and the string literals of
// selected function bodies. Output is deterministic (sorted by name).
package main

import (
	"fmt"
	"go/ast"
	"go/constant"
	"go/token"
	"go/types"
	"os"
	"sort"
	"strconv"
	"strings"

	"golang.org/x/tools/go/packages"
)

var litFuncs = map[string]bool{
	"headers_IsForbiddenRequestHeaderName": true,
	"origins_Pattern_IsDeemedInsecure":     true,
	"origins_ParsePattern":                 true,
}

func sanitize(s string) string {
	r := strings.NewReplacer("/", "_", "-", "_", ".", "_", "*", "")
	return r.Replace(s)
}

func coqBytes(s string) string {
	var sb strings.Builder
	sb.WriteString("[")
	for i := 0; i < len(s); i++ {
		if i > 0 {
			sb.WriteString(";")
		}
		sb.WriteString(strconv.Itoa(int(s[i])))
	}
	sb.WriteString("]%N")
	return sb.String()
}

func coqList(l []string) string {
	parts := make([]string, len(l))
	for i, s := range l {
		parts[i] = coqBytes(s)
	}
	return "[" + strings.Join(parts, "; ") + "]"
}

type out struct {
	defs map[string]string
}

func (o *out) add(name, typ, body, comment string) {
	if _, dup := o.defs[name]; dup {
		return
	}
	c := ""
	if comment != "" {
		c = " (* " + strings.ReplaceAll(comment, "*)", "* )") + " *)"
	}
	o.defs[name] = fmt.Sprintf("Definition %s : %s := %s.%s", name, typ, body, c)
}

func (o *out) addConst(name string, c *types.Const) {
	v := c.Val()
	switch v.Kind() {
	case constant.String:
		s := constant.StringVal(v)
		o.add(name, "bytes", coqBytes(s), strconv.Quote(s))
	case constant.Int:
		o.add(name, "Z", "("+v.ExactString()+")%Z", "")
	case constant.Bool:
		o.add(name, "bool", fmt.Sprint(constant.BoolVal(v)), "")
	}
}

func main() {
	if len(os.Args) != 3 {
		fmt.Fprintln(os.Stderr, "usage: gentables <repo> <out.v>")
		os.Exit(2)
	}
	repo, outPath := os.Args[1], os.Args[2]
	cfg := &packages.Config{
		Mode: packages.NeedName | packages.NeedFiles | packages.NeedSyntax | packages.NeedTypes |
			packages.NeedTypesInfo | packages.NeedDeps | packages.NeedImports,
		Dir:   repo,
		Tests: false,
	}
	pkgs, err := packages.Load(cfg, "./...")
	if err != nil {
		fmt.Fprintln(os.Stderr, "load:", err)
		os.Exit(1)
	}
	if packages.PrintErrors(pkgs) > 0 {
		os.Exit(1)
	}
	o := &out{defs: map[string]string{}}
	for _, p := range pkgs {
		short := p.Name // cors, cfgerrors, headers, methods, origins, util
		if short == "main" {
			continue
		}
		info := p.TypesInfo
		// constant value of an expression, resolving ByteLowercase/ByteUppercase
		var strOf func(e ast.Expr) (string, bool)
		strOf = func(e ast.Expr) (string, bool) {
			if tv, ok := info.Types[e]; ok && tv.Value != nil && tv.Value.Kind() == constant.String {
				return constant.StringVal(tv.Value), true
			}
			if call, ok := e.(*ast.CallExpr); ok && len(call.Args) == 1 {
				fn := ""
				switch f := call.Fun.(type) {
				case *ast.SelectorExpr:
					fn = f.Sel.Name
				case *ast.Ident:
					fn = f.Name
				}
				if s, ok := strOf(call.Args[0]); ok {
					switch fn {
					case "ByteLowercase":
						return strings.ToLower(s), true
					case "ByteUppercase":
						return strings.ToUpper(s), true
					case "string":
						return s, true
					}
				}
			}
			return "", false
		}
		for _, f := range p.Syntax {
			fname := p.Fset.Position(f.Pos()).Filename
			if strings.HasSuffix(fname, "_test.go") {
				continue
			}
			for _, d := range f.Decls {
				switch d := d.(type) {
				case *ast.GenDecl:
					if d.Tok == token.CONST {
						for _, s := range d.Specs {
							for _, id := range s.(*ast.ValueSpec).Names {
								if c, ok := info.Defs[id].(*types.Const); ok && id.Name != "_" {
									o.addConst(short+"_"+id.Name, c)
								}
							}
						}
					}
					if d.Tok == token.VAR {
						for _, s := range d.Specs {
							vs := s.(*ast.ValueSpec)
							if len(vs.Names) != len(vs.Values) {
								continue
							}
							for i, id := range vs.Names {
								name := short + "_" + id.Name
								switch v := vs.Values[i].(type) {
								case *ast.CallExpr:
									fn := ""
									if se, ok := v.Fun.(*ast.SelectorExpr); ok {
										fn = se.Sel.Name
									} else if idf, ok := v.Fun.(*ast.Ident); ok {
										fn = idf.Name
									}
									switch fn {
									case "MakeASCIISet":
										if s, ok := strOf(v.Args[0]); ok {
											o.add(name, "bytes", coqBytes(s), "MakeASCIISet "+strconv.Quote(s))
										}
									case "NewSet":
										var elems []string
										good := true
										for _, a := range v.Args {
											s, ok := strOf(a)
											if !ok {
												good = false
												break
											}
											elems = append(elems, s)
										}
										if good {
											o.add(name, "list bytes", coqList(elems), "NewSet "+strings.Join(elems, " "))
										} else {
											fmt.Fprintln(os.Stderr, "gentables: cannot resolve elements of", name)
											os.Exit(1)
										}
									}
								case *ast.CompositeLit:
									if at, ok := v.Type.(*ast.ArrayType); ok {
										if idt, ok := at.Elt.(*ast.Ident); ok && idt.Name == "string" {
											var elems []string
											good := true
											for _, a := range v.Elts {
												s, ok := strOf(a)
												if !ok {
													good = false
													break
												}
												elems = append(elems, s)
											}
											if good {
												o.add(name, "list bytes", coqList(elems), "[]string "+strings.Join(elems, " | "))
											}
										}
									}
								}
							}
						}
					}
				case *ast.FuncDecl:
					fn := d.Name.Name
					if d.Recv != nil && len(d.Recv.List) == 1 {
						t := d.Recv.List[0].Type
						if st, ok := t.(*ast.StarExpr); ok {
							t = st.X
						}
						if idt, ok := t.(*ast.Ident); ok {
							fn = idt.Name + "_" + fn
						}
					}
					full := short + "_" + fn
					if d.Body == nil {
						continue
					}
					var lits []string
					ast.Inspect(d.Body, func(n ast.Node) bool {
						switch n := n.(type) {
						case *ast.GenDecl:
							if n.Tok == token.CONST {
								for _, s := range n.Specs {
									for _, id := range s.(*ast.ValueSpec).Names {
										if c, ok := info.Defs[id].(*types.Const); ok && id.Name != "_" {
											o.addConst(full+"_"+id.Name, c)
										}
									}
								}
							}
						case *ast.BasicLit:
							if n.Kind == token.STRING {
								if s, err := strconv.Unquote(n.Value); err == nil {
									lits = append(lits, s)
								}
							}
						}
						return true
					})
					if litFuncs[full] || (short == "cfgerrors" && strings.HasSuffix(fn, "_Error")) {
						o.add(full+"_lits", "list bytes", coqList(lits), strings.Join(lits, " | "))
					}
				}
			}
		}
	}
	names := make([]string, 0, len(o.defs))
	for n := range o.defs {
		names = append(names, n)
	}
	sort.Strings(names)
	var sb strings.Builder
	sb.WriteString("(* GENERATED by tools/gentables from the Go sources of /repo on every run. DO NOT EDIT. *)\n")
	sb.WriteString("From Coq Require Import List NArith ZArith.\nImport ListNotations.\nRequire Import Base.Bytes.\n\n")
	for _, n := range names {
		sb.WriteString(o.defs[n])
		sb.WriteString("\n")
	}
	old, _ := os.ReadFile(outPath)
	if string(old) == sb.String() {
		return
	}
	if err := os.WriteFile(outPath, []byte(sb.String()), 0o644); err != nil {
		fmt.Fprintln(os.Stderr, err)
		os.Exit(1)
	}
}
