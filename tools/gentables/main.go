// gentables: the translator for the declarative part of jub0bs/cors.
// It loads the repository with full type information and regenerates
// coq/Gen/Tables.v: every package-level and function-local constant, the
// argument strings of every util.MakeASCIISet, the elements of every
// util.NewSet and []string{...} package variable, and the string literals of
// selected function bodies. Output is deterministic (sorted by name).
package main

import (
	"fmt"
	"go/ast"
	"go/constant"
	"go/token"
	"go/types"
	"os"
	"sort"
	"strconv"
	"strings"

	"golang.org/x/tools/go/packages"
)

var litFuncs = map[string]bool{
	"headers_IsForbiddenRequestHeaderName": true,
	"origins_Pattern_IsDeemedInsecure":     true,
	"origins_ParsePattern":                 true,
}

func sanitize(s string) string {
	r := strings.NewReplacer("/", "_", "-", "_", ".", "_", "*", "")
	return r.Replace(s)
}

func coqBytes(s string) string {
	var sb strings.Builder
	sb.WriteString("[")
	for i := 0; i < len(s); i++ {
		if i > 0 {
			sb.WriteString(";")
		}
		sb.WriteString(strconv.Itoa(int(s[i])))
	}
	sb.WriteString("]%N")
	return sb.String()
}

func coqList(l []string) string {
	parts := make([]string, len(l))
	for i, s := range l {
		parts[i] = coqBytes(s)
	}
	return "[" + strings.Join(parts, "; ") + "]"
}

type out struct {
	defs map[string]string
}

func (o *out) add(name, typ, body, comment string) {
	if _, dup := o.defs[name]; dup {
		return
	}
	c := ""
	if comment != "" {
		c = " (* " + strings.ReplaceAll(comment, "*)", "* )") + " *)"
	}
	o.defs[name] = fmt.Sprintf("Definition %s : %s := %s.%s", name, typ, body, c)
}

func (o *out) addConst(name string, c *types.Const) {
	v := c.Val()
	switch v.Kind() {
	case constant.String:
		s := constant.StringVal(v)
		o.add(name, "bytes", coqBytes(s), strconv.Quote(s))
	case constant.Int:
		o.add(name, "Z", "("+v.ExactString()+")%Z", "")
	case constant.Bool:
		o.add(name, "bool", fmt.Sprint(constant.BoolVal(v)), "")
	}
}

func main() {
	if len(os.Args) != 3 {
		fmt.Fprintln(os.Stderr, "usage: gentables <repo> <out.v>")
		os.Exit(2)
	}
	repo, outPath := os.Args[1], os.Args[2]
	cfg := &packages.Config{
		Mode: packages.NeedName | packages.NeedFiles | packages.NeedSyntax | packages.NeedTypes |
			packages.NeedTypesInfo | packages.NeedDeps | packages.NeedImports,
		Dir:   repo,
		Tests: false,
	}
	pkgs, err := packages.Load(cfg, "./...")
	if err != nil {
		fmt.Fprintln(os.Stderr, "load:", err)
		os.Exit(1)
	}
	if packages.PrintErrors(pkgs) > 0 {
		os.Exit(1)
	}
	o := &out{defs: map[string]string{}}
	// build facts: which files make up the library, and whether anything but a declaration ever writes a
	// package-level variable (the translators read named files and assume there is no state shared between calls)
	var buildFiles, initFuncs, pkgVarWrites, constrained, blankVars []string
	rel := func(fname string) string {
		r := strings.TrimPrefix(fname, strings.TrimSuffix(repo, "/")+"/")
		return r
	}
	for _, p := range pkgs {
		short := p.Name // cors, cfgerrors, headers, methods, origins, util
		if short == "main" {
			continue
		}
		info := p.TypesInfo
		for _, f := range p.Syntax {
			fname := p.Fset.Position(f.Pos()).Filename
			if strings.HasSuffix(fname, "_test.go") {
				continue
			}
			buildFiles = append(buildFiles, rel(fname))
			for _, cg := range f.Comments {
				for _, c := range cg.List {
					if strings.HasPrefix(c.Text, "//go:build") || strings.HasPrefix(c.Text, "// +build") || strings.HasPrefix(c.Text, "//go:linkname") {
						constrained = append(constrained, rel(fname)+": "+c.Text)
					}
				}
			}
			// the package-level variable an lvalue expression is rooted in ("" if none)
			var rootVar func(e ast.Expr) string
			rootVar = func(e ast.Expr) string {
				switch x := e.(type) {
				case *ast.ParenExpr:
					return rootVar(x.X)
				case *ast.StarExpr:
					return rootVar(x.X)
				case *ast.IndexExpr:
					return rootVar(x.X)
				case *ast.SliceExpr:
					return rootVar(x.X)
				case *ast.SelectorExpr:
					if id, ok := x.X.(*ast.Ident); ok {
						if _, isPkg := info.Uses[id].(*types.PkgName); isPkg {
							if v, ok := info.Uses[x.Sel].(*types.Var); ok && v.Pkg() != nil && v.Parent() == v.Pkg().Scope() {
								return v.Pkg().Name() + "." + v.Name()
							}
							return ""
						}
					}
					return rootVar(x.X)
				case *ast.Ident:
					if v, ok := info.Uses[x].(*types.Var); ok && v.Pkg() != nil && v.Parent() == v.Pkg().Scope() {
						return v.Pkg().Name() + "." + v.Name()
					}
				}
				return ""
			}
			for _, d := range f.Decls {
				switch d := d.(type) {
				case *ast.FuncDecl:
					if d.Recv == nil && d.Name.Name == "init" {
						initFuncs = append(initFuncs, rel(fname)+": init")
					}
					if d.Body == nil {
						continue
					}
					where := rel(fname) + ": " + d.Name.Name
					ast.Inspect(d.Body, func(n ast.Node) bool {
						switch s := n.(type) {
						case *ast.AssignStmt:
							if s.Tok != token.DEFINE {
								for _, l := range s.Lhs {
									if v := rootVar(l); v != "" {
										pkgVarWrites = append(pkgVarWrites, where+" writes "+v)
									}
								}
							}
						case *ast.IncDecStmt:
							if v := rootVar(s.X); v != "" {
								pkgVarWrites = append(pkgVarWrites, where+" writes "+v)
							}
						case *ast.RangeStmt:
							if s.Tok == token.ASSIGN {
								for _, l := range []ast.Expr{s.Key, s.Value} {
									if l != nil {
										if v := rootVar(l); v != "" {
											pkgVarWrites = append(pkgVarWrites, where+" writes "+v)
										}
									}
								}
							}
						case *ast.CallExpr: // in-place library calls on a package-level slice or map
							switch fn := types.ExprString(s.Fun); fn {
							case "slices.Sort", "slices.SortFunc", "slices.Reverse", "sort.Strings", "sort.Ints", "clear", "copy", "delete", "maps.Copy", "slices.Compact", "slices.Delete", "slices.Insert":
								if len(s.Args) > 0 {
									if v := rootVar(s.Args[0]); v != "" {
										pkgVarWrites = append(pkgVarWrites, where+" writes "+v+" through "+fn)
									}
								}
							}
						}
						return true
					})
				case *ast.GenDecl:
					if d.Tok == token.VAR {
						for _, sp := range d.Specs {
							for _, id := range sp.(*ast.ValueSpec).Names {
								if id.Name == "_" {
									blankVars = append(blankVars, rel(fname)+": var _")
								}
							}
						}
					}
				}
			}
		}
	}
	sort.Strings(buildFiles)
	o.add("build_files", "list bytes", coqList(buildFiles), strings.Join(buildFiles, " "))
	o.add("build_init_functions", "list bytes", coqList(initFuncs), strings.Join(initFuncs, " | "))
	o.add("build_package_variable_writes", "list bytes", coqList(pkgVarWrites), strings.Join(pkgVarWrites, " | "))
	o.add("build_constrained_files", "list bytes", coqList(constrained), strings.Join(constrained, " | "))
	o.add("build_blank_variables", "list bytes", coqList(blankVars), strings.Join(blankVars, " | "))
	for _, p := range pkgs {
		short := p.Name // cors, cfgerrors, headers, methods, origins, util
		if short == "main" {
			continue
		}
		info := p.TypesInfo
		// constant value of an expression, resolving ByteLowercase/ByteUppercase
		var strOf func(e ast.Expr) (string, bool)
		strOf = func(e ast.Expr) (string, bool) {
			if tv, ok := info.Types[e]; ok && tv.Value != nil && tv.Value.Kind() == constant.String {
				return constant.StringVal(tv.Value), true
			}
			if call, ok := e.(*ast.CallExpr); ok && len(call.Args) == 1 {
				fn := ""
				switch f := call.Fun.(type) {
				case *ast.SelectorExpr:
					fn = f.Sel.Name
				case *ast.Ident:
					fn = f.Name
				}
				if s, ok := strOf(call.Args[0]); ok {
					switch fn {
					case "ByteLowercase":
						return strings.ToLower(s), true
					case "ByteUppercase":
						return strings.ToUpper(s), true
					case "string":
						return s, true
					}
				}
			}
			return "", false
		}
		for _, f := range p.Syntax {
			fname := p.Fset.Position(f.Pos()).Filename
			if strings.HasSuffix(fname, "_test.go") {
				continue
			}
			for _, d := range f.Decls {
				switch d := d.(type) {
				case *ast.GenDecl:
					if d.Tok == token.CONST {
						for _, s := range d.Specs {
							for _, id := range s.(*ast.ValueSpec).Names {
								if c, ok := info.Defs[id].(*types.Const); ok && id.Name != "_" {
									o.addConst(short+"_"+id.Name, c)
								}
							}
						}
					}
					if d.Tok == token.VAR {
						for _, s := range d.Specs {
							vs := s.(*ast.ValueSpec)
							if len(vs.Names) != len(vs.Values) {
								continue
							}
							for i, id := range vs.Names {
								name := short + "_" + id.Name
								switch v := vs.Values[i].(type) {
								case *ast.CallExpr:
									fn := ""
									if se, ok := v.Fun.(*ast.SelectorExpr); ok {
										fn = se.Sel.Name
									} else if idf, ok := v.Fun.(*ast.Ident); ok {
										fn = idf.Name
									}
									switch fn {
									case "MakeASCIISet":
										if s, ok := strOf(v.Args[0]); ok {
											o.add(name, "bytes", coqBytes(s), "MakeASCIISet "+strconv.Quote(s))
										}
									case "NewSet":
										var elems []string
										good := true
										for _, a := range v.Args {
											s, ok := strOf(a)
											if !ok {
												good = false
												break
											}
											elems = append(elems, s)
										}
										if good {
											o.add(name, "list bytes", coqList(elems), "NewSet "+strings.Join(elems, " "))
										} else {
											fmt.Fprintln(os.Stderr, "gentables: cannot resolve elements of", name)
											os.Exit(1)
										}
									}
								case *ast.CompositeLit:
									if at, ok := v.Type.(*ast.ArrayType); ok {
										if idt, ok := at.Elt.(*ast.Ident); ok && idt.Name == "string" {
											var elems []string
											good := true
											for _, a := range v.Elts {
												s, ok := strOf(a)
												if !ok {
													good = false
													break
												}
												elems = append(elems, s)
											}
											if good {
												o.add(name, "list bytes", coqList(elems), "[]string "+strings.Join(elems, " | "))
											}
										}
									}
								}
							}
						}
					}
				case *ast.FuncDecl:
					fn := d.Name.Name
					if d.Recv != nil && len(d.Recv.List) == 1 {
						t := d.Recv.List[0].Type
						if st, ok := t.(*ast.StarExpr); ok {
							t = st.X
						}
						if idt, ok := t.(*ast.Ident); ok {
							fn = idt.Name + "_" + fn
						}
					}
					full := short + "_" + fn
					if d.Body == nil {
						continue
					}
					var lits []string
					ast.Inspect(d.Body, func(n ast.Node) bool {
						switch n := n.(type) {
						case *ast.GenDecl:
							if n.Tok == token.CONST {
								for _, s := range n.Specs {
									for _, id := range s.(*ast.ValueSpec).Names {
										if c, ok := info.Defs[id].(*types.Const); ok && id.Name != "_" {
											o.addConst(full+"_"+id.Name, c)
										}
									}
								}
							}
						case *ast.BasicLit:
							if n.Kind == token.STRING {
								if s, err := strconv.Unquote(n.Value); err == nil {
									lits = append(lits, s)
								}
							}
						}
						return true
					})
					if litFuncs[full] || (short == "cfgerrors" && strings.HasSuffix(fn, "_Error")) {
						o.add(full+"_lits", "list bytes", coqList(lits), strings.Join(lits, " | "))
					}
				}
			}
		}
	}
	names := make([]string, 0, len(o.defs))
	for n := range o.defs {
		names = append(names, n)
	}
	sort.Strings(names)
	var sb strings.Builder
	sb.WriteString("(* GENERATED by tools/gentables from the Go sources of /repo on every run. DO NOT EDIT. *)\n")
	sb.WriteString("From Coq Require Import List NArith ZArith.\nImport ListNotations.\nRequire Import Base.Bytes.\n\n")
	for _, n := range names {
		sb.WriteString(o.defs[n])
		sb.WriteString("\n")
	}
	old, _ := os.ReadFile(outPath)
	if string(old) == sb.String() {
		return
	}
	if err := os.WriteFile(outPath, []byte(sb.String()), 0o644); err != nil {
		fmt.Fprintln(os.Stderr, err)
		os.Exit(1)
	}
}
