#!/bin/bash
# r3_batch.sh Cxx...  -- import, verify and evaluate round-3 seeded changes for the given properties
cd /verif || exit 1
RN=${RN:-4}
export RN
dirs=""
for p in "$@"; do
  for m in m1 m2; do
    test -f /tmp/mut${RN}-$p-out/$m/patch.diff || { echo "missing $p $m"; continue; }
    ROUND=$RN python3 tools/import_seeded.py $p $m >/dev/null
    # demo command: last "go test"/"go run" fragment of demo_cmd.txt
    python3 - "$p" "$m" <<'EOF'
import json, os, re, sys
p, m = sys.argv[1], sys.argv[2]
d = "/verif/seeded/%s-r%s%s" % (p, os.environ["RN"], m)
txt = open(d + "/demo_cmd.txt").read()
c = re.findall(r"(go (?:test|run) [^\n&|;]*)", txt)
meta = json.load(open(d + "/meta.json"))
if c:
    meta["demo_cmd"] = c[-1].strip().rstrip('`')
json.dump(meta, open(d + "/meta.json", "w"), indent=1)
print(d, meta["demo_cmd"], meta["demo_dest"])
EOF
    python3 tools/seeded.py verify seeded/$p-r${RN}$m > seeded/$p-r${RN}$m/verify.json 2>&1; grep '"ok"' seeded/$p-r${RN}$m/verify.json
    dirs="$dirs seeded/$p-r${RN}$m"
  done
done
python3 tools/seeded_matrix.py -j 4 $dirs 2>&1 | grep 'caught by'
