module verif/genmw

go 1.23.0
