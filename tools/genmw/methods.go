package main

// The four methods that read or write the middleware's state (NewMiddleware, Reconfigure, SetDebug, Config),
// translated sequentially: the state is the pair st = (m.icfg, m.debug) of Model/Mw.v, lock operations are skipped
// here (their placement is the subject of genconc / C07) but must be calls of m.mu.{Lock,Unlock,RLock,RUnlock}
// and nothing else. newInternalConfig / newConfig are the functions of config.go (translated by gencfg); here they
// are referred to through their nil-guarded wrappers of Model/MwRt.v.

import (
	"go/ast"
	"go/token"
	"strings"
)

type mtr struct {
	fn    string
	kinds map[string]string // local -> "icfgopt" | "err" | "cfgopt" | "bool" | "mw"
}

func (t *mtr) expr(e ast.Expr) string {
	switch e := e.(type) {
	case *ast.ParenExpr:
		return "(" + t.expr(e.X) + ")"
	case *ast.Ident:
		if e.Name == "nil" {
			fail(e, "nil outside a comparison")
		}
		if _, ok := t.kinds[e.Name]; ok {
			return "v_" + e.Name
		}
		fail(e, "%s: unknown identifier %s", t.fn, e.Name)
	case *ast.SelectorExpr:
		switch src(e) {
		case "m.icfg":
			return "(fst st)"
		case "m.debug":
			return "(snd st)"
		}
		fail(e, "%s: selector %s", t.fn, src(e))
	case *ast.BinaryExpr:
		switch e.Op {
		case token.LAND:
			return "(" + t.expr(e.X) + " && " + t.expr(e.Y) + ")"
		case token.NEQ, token.EQL:
			if ident(e.Y) == "nil" {
				var x string
				switch {
				case src(e.X) == "m.icfg":
					x = "(is_some (fst st))"
				case t.kinds[ident(e.X)] != "" && t.kinds[ident(e.X)] != "bool":
					x = "(is_some v_" + ident(e.X) + ")"
				default:
					fail(e, "%s: comparison %s", t.fn, src(e))
				}
				if e.Op == token.EQL {
					return "(negb " + x + ")"
				}
				return x
			}
		}
		fail(e, "%s: expression %s", t.fn, src(e))
	}
	fail(e, "%s: expression %s", t.fn, src(e))
	return ""
}

func isLockCall(s ast.Stmt) bool {
	es, ok := s.(*ast.ExprStmt)
	if !ok {
		return false
	}
	switch src(es.X) {
	case "m.mu.Lock()", "m.mu.Unlock()", "m.mu.RLock()", "m.mu.RUnlock()":
		return true
	}
	return false
}

// seq: ret renders a return statement
func (t *mtr) seq(list []ast.Stmt, ret func(r *ast.ReturnStmt) string) string {
	list = flatten(list)
	if len(list) == 0 {
		return ret(nil)
	}
	s, rest := list[0], list[1:]
	next := func(line string) string { return line + "\n  " + t.seq(rest, ret) }
	if isLockCall(s) {
		return t.seq(rest, ret)
	}
	switch s := s.(type) {
	case *ast.ReturnStmt:
		return ret(s)
	case *ast.DeclStmt:
		switch strings.Join(strings.Fields(src(s)), " ") {
		case "var icfg *internalConfig":
			t.kinds["icfg"] = "icfgopt"
			return next("let v_icfg := (None : option icfg) in")
		case "var m Middleware":
			t.kinds["m"] = "mw"
			return next("let st := zero_mw in")
		}
		fail(s, "%s: declaration %s", t.fn, src(s))
	case *ast.AssignStmt:
		if len(s.Lhs) == 2 && len(s.Rhs) == 1 && s.Tok == token.DEFINE && ident(s.Lhs[0]) == "icfg" && ident(s.Lhs[1]) == "err" {
			switch src(s.Rhs[0]) {
			case "newInternalConfig(cfg)":
				if t.kinds["cfg"] == "cfgopt" {
					t.kinds["icfg"], t.kinds["err"] = "icfgopt", "err"
					return next("let '(v_icfg, v_err) := newInternalConfig2 ace_ok ip6 is_psl v_cfg in")
				}
			case "newInternalConfig(&cfg)":
				if t.kinds["cfg"] == "cfgval" {
					t.kinds["icfg"], t.kinds["err"] = "icfgopt", "err"
					return next("let '(v_icfg, v_err) := newInternalConfig2 ace_ok ip6 is_psl (Some v_cfg) in")
				}
			}
		}
		if len(s.Lhs) == 1 && len(s.Rhs) == 1 && s.Tok == token.ASSIGN {
			switch src(s.Lhs[0]) {
			case "m.icfg":
				return next("let st := (" + t.expr(s.Rhs[0]) + ", snd st) in")
			case "m.debug":
				return next("let st := (fst st, " + t.expr(s.Rhs[0]) + ") in")
			case "icfg":
				if t.kinds["icfg"] == "icfgopt" {
					return next("let v_icfg := " + t.expr(s.Rhs[0]) + " in")
				}
			}
		}
		fail(s, "%s: assignment %s", t.fn, src(s))
	case *ast.IfStmt:
		if s.Init == nil && s.Else == nil && len(s.Body.List) == 1 {
			if r, ok := s.Body.List[0].(*ast.ReturnStmt); ok {
				return "if " + t.expr(s.Cond) + " then " + ret(r) + " else\n  " + t.seq(rest, ret)
			}
		}
		fail(s, "%s: if statement", t.fn)
	}
	fail(s, "%s: statement %s", t.fn, src(s))
	return ""
}

func translateMethods(decls map[string]*ast.FuncDecl) string {
	var sb strings.Builder
	sb.WriteString("\nSection Oracles.\nVariable ace_ok : bytes -> bool.\nVariable ip6 : bytes -> ipres.\nVariable is_psl : bytes -> bool.\n\n")
	need := func(name, sig string) *ast.FuncDecl {
		fd := decls[name]
		if fd == nil {
			fail(nil, "%s not found", name)
		}
		if got := strings.Join(strings.Fields(src(fd.Type)), " "); got != sig {
			fail(fd, "%s: signature %s", name, got)
		}
		if name != "NewMiddleware" && (fd.Recv == nil || src(fd.Recv.List[0].Type) != "*Middleware" || fd.Recv.List[0].Names[0].Name != "m") {
			fail(fd, "%s: receiver", name)
		}
		return fd
	}
	// NewMiddleware(cfg Config) (*Middleware, error)
	{
		fd := need("NewMiddleware", "func(cfg Config) (*Middleware, error)")
		t := &mtr{fn: "NewMiddleware", kinds: map[string]string{"cfg": "cfgval"}}
		body := t.seq(fd.Body.List, func(r *ast.ReturnStmt) string {
			if r == nil || len(r.Results) != 2 {
				fail(fd, "NewMiddleware: return")
			}
			switch src(r.Results[0]) + "," + src(r.Results[1]) {
			case "nil,err":
				return "(None, v_err)"
			case "&m,nil":
				return "(Some st, None)"
			}
			fail(r, "NewMiddleware: return %s", src(r))
			return ""
		})
		sb.WriteString("Definition go_NewMiddleware (v_cfg : config) : option mstate * option (etree cerr) :=\n  " + body + ".\n\n")
	}
	// Reconfigure(cfg *Config) error
	{
		fd := need("Reconfigure", "func(cfg *Config) error")
		t := &mtr{fn: "Reconfigure", kinds: map[string]string{"cfg": "cfgopt"}}
		body := t.seq(fd.Body.List, func(r *ast.ReturnStmt) string {
			if r == nil || len(r.Results) != 1 {
				fail(fd, "Reconfigure: return")
			}
			switch src(r.Results[0]) {
			case "err":
				return "(st, v_err)"
			case "nil":
				return "(st, None)"
			}
			fail(r, "Reconfigure: return %s", src(r))
			return ""
		})
		sb.WriteString("Definition go_Reconfigure (st : mstate) (v_cfg : option config) : mstate * option (etree cerr) :=\n  " + body + ".\n\n")
	}
	sb.WriteString("End Oracles.\n\n")
	// SetDebug(b bool)
	{
		fd := need("SetDebug", "func(b bool)")
		t := &mtr{fn: "SetDebug", kinds: map[string]string{"b": "bool"}}
		body := t.seq(fd.Body.List, func(r *ast.ReturnStmt) string {
			if r != nil {
				fail(r, "SetDebug: return")
			}
			return "st"
		})
		sb.WriteString("Definition go_SetDebug (st : mstate) (v_b : bool) : mstate :=\n  " + body + ".\n\n")
	}
	// Config() *Config
	{
		fd := need("Config", "func() *Config")
		t := &mtr{fn: "Config", kinds: map[string]string{}}
		body := t.seq(fd.Body.List, func(r *ast.ReturnStmt) string {
			if r == nil || len(r.Results) != 1 || src(r.Results[0]) != "newConfig(icfg)" || t.kinds["icfg"] != "icfgopt" {
				fail(fd, "Config: return")
			}
			return "newConfig2 v_icfg"
		})
		sb.WriteString("Definition go_Config (st : mstate) : option config :=\n  " + body + ".\n")
	}
	return sb.String()
}
