// genmw: translator for the request-handling code of middleware.go. It parses /repo/middleware.go (go/parser
// only) and regenerates coq/Gen/MwSrc.v: one Gallina function per Go function (handleNonCORS,
// processOriginForPreflight, processACRPN, processACRM, processACRH, handleCORSPreflight, handleCORSActual and the
// handler closure returned by Wrap, after its snapshot section). The translation is a state-passing one:
//   - the ResponseWriter and the two header maps the code mutates (w / resHdrs / buf) become one record `gst`
//     (Model/MwRt.v) threaded through every statement; `return` ends the function with the current state;
//   - `if c { A }; R` becomes `if c then [[A; R]] else [[R]]` when A can return, and
//     `let st := if c then [[A]] else st in [[R]]` when it cannot; `switch { case ... }` is an if-chain;
//   - calls into other packages and into the configuration's data structures are mapped, by a fixed table, to the
//     functions of the hand-written model (Model/*.v) that the correspondence harness validates against the code.
// Any construct outside this fragment (a loop, a new field, a new call, a goroutine, ...) makes the translator
// stop: it then writes a Gen/MwSrc.v that records the reason, the proofs that tie Model/Serve.v to the source no
// longer compile, and the checks report the tie as broken.
package main

import (
	"bytes"
	"fmt"
	"go/ast"
	"go/parser"
	"go/printer"
	"go/token"
	"os"
	"path/filepath"
	"strings"
)

var fset = token.NewFileSet()

type failure struct{ msg string }

func fail(n ast.Node, format string, a ...any) {
	pos := ""
	if n != nil {
		pos = fset.Position(n.Pos()).String() + ": "
	}
	panic(failure{pos + fmt.Sprintf(format, a...)})
}

func src(n ast.Node) string {
	var b bytes.Buffer
	printer.Fprint(&b, fset, n)
	return b.String()
}

// ---- fixed tables (the trusted part of the translator) ----

var cfgFields = map[string]string{ // bool / string / numeric fields of internalConfig
	"credentialed":               "i_cred",
	"privateNetworkAccess":       "i_pna",
	"privateNetworkAccessNoCors": "i_pna_nocors",
	"allowAnyMethod":             "i_any_method",
	"asteriskReqHdrs":            "i_asterisk_req",
	"allowAuthorization":         "i_allow_auth",
	"aceh":                       "i_aceh",
}

var cfgSliceFields = map[string]string{"acma": "i_acma", "acah": "i_acah"} // nil or a singleton slice: option bytes in the model

var translated = map[string]bool{}   // Go function name -> already emitted
var returnsBool = map[string]bool{}  // Go function name -> has a bool result
var paramKinds = map[string][]string{} // Go function name -> per parameter: "state" or "value"

type tr struct {
	fn       string
	retBool  bool
	inWrap   bool
	tmp      int
	depth    int
	stateIDs map[string]string // Go identifier -> component of gst it denotes ("res" / "buf" / "w")
}

func v(name string) string {
	if name == "_" {
		return "_"
	}
	return "v_" + name
}

func ident(e ast.Expr) string {
	if id, ok := e.(*ast.Ident); ok {
		return id.Name
	}
	return ""
}

func sel(e ast.Expr) (string, string) { // X.Sel with X an identifier
	if se, ok := e.(*ast.SelectorExpr); ok {
		if id, ok := se.X.(*ast.Ident); ok {
			return id.Name, se.Sel.Name
		}
	}
	return "", ""
}

// icfgSel recognises icfg.<field> and icfg.<field>.<method>
func icfgField(e ast.Expr) string {
	if x, f := sel(e); x == "icfg" {
		return f
	}
	return ""
}

// ---- expressions ----

func (t *tr) expr(e ast.Expr) string {
	switch e := e.(type) {
	case *ast.ParenExpr:
		return "(" + t.expr(e.X) + ")"
	case *ast.Ident:
		switch e.Name {
		case "true", "false":
			return e.Name
		case "nil":
			fail(e, "nil outside a comparison")
		}
		if c, ok := t.stateIDs[e.Name]; ok {
			switch c {
			case "res":
				return "(g_res st)"
			case "buf":
				return "(g_buf st)"
			}
			fail(e, "the ResponseWriter used as a value")
		}
		return v(e.Name)
	case *ast.BasicLit:
		if e.Kind == token.STRING && e.Value == `""` {
			return "([] : bytes)"
		}
		if e.Kind == token.INT {
			return "(" + e.Value + ")%Z"
		}
		fail(e, "literal %s", e.Value)
	case *ast.UnaryExpr:
		if e.Op == token.NOT {
			return "(negb " + t.expr(e.X) + ")"
		}
		if e.Op == token.AND { // &o passed to Contains
			return t.expr(e.X)
		}
		fail(e, "unary operator %s", e.Op)
	case *ast.BinaryExpr:
		switch e.Op {
		case token.LAND:
			return "(" + t.expr(e.X) + " && " + t.expr(e.Y) + ")"
		case token.LOR:
			return "(" + t.expr(e.X) + " || " + t.expr(e.Y) + ")"
		case token.EQL, token.NEQ:
			return t.comparison(e)
		case token.ADD: // int(icfg.preflightStatusMinus200) + 200
			return "(" + t.expr(e.X) + " + " + t.expr(e.Y) + ")%Z"
		}
		fail(e, "binary operator %s", e.Op)
	case *ast.SelectorExpr:
		x, f := sel(e)
		switch x {
		case "icfg":
			if g, ok := cfgFields[f]; ok {
				return "(" + g + " ic)"
			}
			if g, ok := cfgSliceFields[f]; ok {
				return "(opt_list (" + g + " ic))"
			}
			fail(e, "field icfg.%s is not part of the modelled configuration", f)
		case "headers":
			return "headers_" + f
		case "http":
			switch f {
			case "StatusForbidden":
				return "(403)%Z"
			case "MethodOptions":
				return "method_options"
			}
		case "r":
			if t.inWrap {
				switch f {
				case "Method":
					return "(r_method v_r)"
				case "Header":
					return "(r_hdrs v_r)"
				}
			}
		}
		fail(e, "selector %s", src(e))
	case *ast.CallExpr:
		return t.call(e)
	case *ast.IndexExpr:
		fail(e, "map lookup outside a two-valued assignment")
	}
	fail(e, "expression %s", src(e))
	return ""
}

func (t *tr) comparison(e *ast.BinaryExpr) string {
	neg := e.Op == token.NEQ
	wrap := func(s string) string {
		if neg {
			return "(negb " + s + ")"
		}
		return s
	}
	// icfg == nil is handled at statement level (Wrap); slices compared with nil; sizes with 0; strings otherwise
	if ident(e.Y) == "nil" {
		if f := icfgField(e.X); f != "" {
			if g, ok := cfgSliceFields[f]; ok {
				return wrap("(negb (is_some (" + g + " ic)))")
			}
		}
		fail(e, "comparison with nil: %s", src(e))
	}
	if lit, ok := e.Y.(*ast.BasicLit); ok && lit.Kind == token.INT && lit.Value == "0" {
		if call, ok := e.X.(*ast.CallExpr); ok {
			if se, ok := call.Fun.(*ast.SelectorExpr); ok && se.Sel.Name == "Size" && len(call.Args) == 0 && icfgField(se.X) == "allowedReqHdrs" {
				return wrap("(N.eqb (sset_size (i_req_hdrs ic)) 0)")
			}
		}
		fail(e, "comparison with 0: %s", src(e))
	}
	return wrap("(beqb " + t.expr(e.X) + " " + t.expr(e.Y) + ")")
}

func (t *tr) call(c *ast.CallExpr) string {
	args := func(n int) []string {
		if len(c.Args) != n {
			fail(c, "%s: %d arguments expected", src(c.Fun), n)
		}
		out := make([]string, n)
		for i, a := range c.Args {
			out[i] = t.expr(a)
		}
		return out
	}
	if id := ident(c.Fun); id != "" {
		switch id {
		case "int": // int(icfg.preflightStatusMinus200)
			if len(c.Args) == 1 && icfgField(c.Args[0]) == "preflightStatusMinus200" {
				return "(i_status_m200 ic)"
			}
		case "append":
			a := args(2)
			return "(" + a[0] + " ++ [" + a[1] + "])"
		}
		fail(c, "call of %s", id)
	}
	se, ok := c.Fun.(*ast.SelectorExpr)
	if !ok {
		fail(c, "call %s", src(c))
	}
	if x, f := sel(c.Fun); x != "" {
		switch x + "." + f {
		case "methods.IsSafelisted":
			return "(method_is_safelisted " + args(1)[0] + ")"
		case "headers.Check":
			if len(c.Args) == 2 && icfgField(c.Args[0]) == "allowedReqHdrs" {
				return "(check (i_req_hdrs ic) " + t.expr(c.Args[1]) + ")"
			}
		}
		fail(c, "call %s", src(c))
	}
	// icfg.<field>.<method>(...)
	switch icfgField(se.X) + "." + se.Sel.Name {
	case "tree.IsEmpty":
		args(0)
		return "(tree_is_empty (i_tree ic))"
	case "tree.Contains":
		return "(tree_contains (i_tree ic) " + args(1)[0] + ")"
	case "allowedMethods.Contains":
		return "(set_contains (i_methods ic) " + args(1)[0] + ")"
	}
	fail(c, "call %s", src(c))
	return ""
}

// ---- statements ----

func containsReturn(n ast.Node) bool {
	found := false
	ast.Inspect(n, func(x ast.Node) bool {
		if _, ok := x.(*ast.ReturnStmt); ok {
			found = true
		}
		if _, ok := x.(*ast.FuncLit); ok {
			return false
		}
		return true
	})
	return found
}

func flatten(list []ast.Stmt) []ast.Stmt {
	var out []ast.Stmt
	for _, s := range list {
		if b, ok := s.(*ast.BlockStmt); ok {
			out = append(out, flatten(b.List)...)
		} else {
			out = append(out, s)
		}
	}
	return out
}

func (t *tr) ind() string { return strings.Repeat("  ", t.depth+1) }

// stateCall recognises a call of another translated function: icfg.<fn>(...)
func (t *tr) stateCall(e ast.Expr) (string, bool) {
	c, ok := e.(*ast.CallExpr)
	if !ok {
		return "", false
	}
	x, f := sel(c.Fun)
	if x != "icfg" || !translated[f] {
		return "", false
	}
	kinds := paramKinds[f]
	if len(kinds) != len(c.Args) {
		fail(c, "%s: wrong number of arguments", f)
	}
	s := "go_" + f + " ic st"
	for i, a := range c.Args {
		if kinds[i] == "state" { // must be the writer / its header map / the buffer themselves
			ok := false
			if id := ident(a); id != "" {
				_, ok = t.stateIDs[id]
			}
			if ac, isC := a.(*ast.CallExpr); isC && len(ac.Args) == 0 {
				if x, f := sel(ac.Fun); f == "Header" && t.stateIDs[x] == "w" {
					ok = true
				}
			}
			if !ok {
				fail(a, "argument %s of %s is not the response writer / header map / buffer", src(a), f)
			}
			continue
		}
		s += " " + t.expr(a)
	}
	return s, true
}

// hdrWrite recognises the writes to the response header map and to the buffer
func (t *tr) hdrWrite(s ast.Stmt) (string, bool) {
	set := func(comp, val string) string {
		return "let st := set_" + comp + " st " + val + " in"
	}
	switch s := s.(type) {
	case *ast.ExprStmt:
		c, ok := s.X.(*ast.CallExpr)
		if !ok {
			return "", false
		}
		x, f := sel(c.Fun)
		comp, isState := t.stateIDs[x]
		switch {
		case isState && comp != "w" && (f == "Add" || f == "Set") && len(c.Args) == 2:
			m := "(g_" + comp + " st)"
			if f == "Add" {
				return set(comp, "(hadd "+m+" "+t.expr(c.Args[0])+" "+t.expr(c.Args[1])+")"), true
			}
			return set(comp, "(hset "+m+" "+t.expr(c.Args[0])+" ["+t.expr(c.Args[1])+"])"), true
		case x == "maps" && f == "Copy" && len(c.Args) == 2:
			d, okd := t.stateIDs[ident(c.Args[0])]
			sC, oks := t.stateIDs[ident(c.Args[1])]
			if okd && oks && d != "w" && sC != "w" {
				return set(d, "(hcopy (g_"+d+" st) (g_"+sC+" st))"), true
			}
			fail(s, "maps.Copy on something else than the modelled maps")
		case isState && comp == "w" && f == "WriteHeader" && len(c.Args) == 1:
			return "let st := set_status st " + t.expr(c.Args[0]) + " in", true
		case x == "h" && f == "ServeHTTP" && t.inWrap && len(c.Args) == 2 && ident(c.Args[0]) == "w" && ident(c.Args[1]) == "r":
			return "let st := set_deleg st in", true
		}
	case *ast.AssignStmt:
		if len(s.Lhs) == 1 && len(s.Rhs) == 1 && s.Tok == token.ASSIGN {
			if ix, ok := s.Lhs[0].(*ast.IndexExpr); ok {
				comp, isState := t.stateIDs[ident(ix.X)]
				if !isState || comp == "w" {
					fail(s, "write to a map that is not modelled")
				}
				return set(comp, "(hset (g_"+comp+" st) "+t.expr(ix.Index)+" "+t.expr(s.Rhs[0])+")"), true
			}
		}
	}
	return "", false
}

// seq translates a statement list (the rest of the function); end is what a fall-through off its end yields.
func (t *tr) seq(list []ast.Stmt, end string) string {
	list = flatten(list)
	if len(list) == 0 {
		if end == "" {
			fail(nil, "%s: control reaches the end of a function with a result", t.fn)
		}
		return end
	}
	s, rest := list[0], list[1:]
	cont := func(line string) string { return line + "\n" + t.ind() + t.seq(rest, end) }
	if w, ok := t.hdrWrite(s); ok {
		return cont(w)
	}
	switch s := s.(type) {
	case *ast.ReturnStmt:
		switch {
		case !t.retBool && len(s.Results) == 0:
			return "st"
		case t.retBool && len(s.Results) == 1:
			return "(st, " + t.expr(s.Results[0]) + ")"
		}
		fail(s, "return with an unexpected number of results")
	case *ast.ExprStmt:
		if c, ok := t.stateCall(s.X); ok {
			x, f := sel(s.X.(*ast.CallExpr).Fun)
			_ = x
			if returnsBool[f] {
				return cont("let '(st, _) := " + c + " in")
			}
			return cont("let st := " + c + " in")
		}
		fail(s, "statement %s", src(s))
	case *ast.DeclStmt:
		gd, ok := s.Decl.(*ast.GenDecl)
		if ok && gd.Tok == token.CONST { // e.g. const bufSizeHint = 5 (a capacity hint)
			return t.seq(rest, end)
		}
		fail(s, "declaration %s", src(s))
	case *ast.AssignStmt:
		if s.Tok != token.DEFINE {
			fail(s, "assignment %s", src(s))
		}
		names := make([]string, len(s.Lhs))
		for i, l := range s.Lhs {
			names[i] = ident(l)
			if names[i] == "" {
				fail(s, "assignment target %s", src(l))
			}
		}
		if len(s.Rhs) != 1 {
			fail(s, "parallel assignment")
		}
		rhs := s.Rhs[0]
		if c, ok := rhs.(*ast.CallExpr); ok {
			x, f := sel(c.Fun)
			switch {
			case f == "Header" && len(c.Args) == 0 && t.stateIDs[x] == "w" && len(names) == 1: // resHdrs := w.Header()
				t.stateIDs[names[0]] = "res"
				return t.seq(rest, end)
			case ident(c.Fun) == "make" && len(names) == 1 && len(c.Args) >= 1 && src(c.Args[0]) == "http.Header": // buf := make(http.Header, n)
				t.stateIDs[names[0]] = "buf"
				return cont("let st := set_buf st [] in")
			case x == "headers" && f == "First" && len(names) == 3 && len(c.Args) == 2:
				return cont(fmt.Sprintf("let '(%s, %s, %s) := first3 %s %s in", v(names[0]), v(names[1]), v(names[2]), t.expr(c.Args[0]), t.expr(c.Args[1])))
			case x == "origins" && f == "Parse" && len(names) == 2 && len(c.Args) == 1:
				return cont(fmt.Sprintf("let '(%s, %s) := parse2 %s in", v(names[0]), v(names[1]), t.expr(c.Args[0])))
			}
		}
		if ix, ok := rhs.(*ast.IndexExpr); ok && len(names) == 2 { // v, found := m[k]
			return cont(fmt.Sprintf("let '(%s, %s) := lookup2 %s %s in", v(names[0]), v(names[1]), t.expr(ix.X), t.expr(ix.Index)))
		}
		if len(names) == 1 {
			return cont("let " + v(names[0]) + " := " + t.expr(rhs) + " in")
		}
		fail(s, "assignment %s", src(s))
	case *ast.IfStmt:
		if s.Init != nil {
			fail(s, "if with an init statement")
		}
		var els []ast.Stmt
		switch e := s.Else.(type) {
		case nil:
		case *ast.BlockStmt:
			els = e.List
		case *ast.IfStmt:
			els = []ast.Stmt{e}
		}
		return t.ifThenElse(s, s.Cond, s.Body.List, els, rest, end)
	case *ast.SwitchStmt:
		if s.Init != nil || s.Tag != nil {
			fail(s, "switch with a tag")
		}
		// switch { case a: A; case b: B } == if a { A } else if b { B }
		type arm struct {
			cond ast.Expr
			body []ast.Stmt
		}
		var arms []arm
		var def []ast.Stmt
		for _, cc := range s.Body.List {
			cl := cc.(*ast.CaseClause)
			for _, b := range cl.Body {
				if br, ok := b.(*ast.BranchStmt); ok {
					fail(br, "branch statement in a switch")
				}
			}
			if cl.List == nil {
				def = cl.Body
				continue
			}
			if len(cl.List) != 1 {
				fail(cl, "case with several expressions")
			}
			arms = append(arms, arm{cl.List[0], cl.Body})
		}
		var build func(i int) []ast.Stmt
		build = func(i int) []ast.Stmt {
			if i == len(arms) {
				return def
			}
			return []ast.Stmt{&ast.IfStmt{If: s.Pos(), Cond: arms[i].cond, Body: &ast.BlockStmt{List: arms[i].body}, Else: &ast.BlockStmt{List: build(i + 1)}}}
		}
		return t.seq(append(build(0), rest...), end)
	}
	fail(s, "statement %s", src(s))
	return ""
}

func (t *tr) ifThenElse(at ast.Node, cond ast.Expr, thn, els, rest []ast.Stmt, end string) string {
	// Wrap: if icfg == nil { ... }
	if be, ok := cond.(*ast.BinaryExpr); ok && t.inWrap && be.Op == token.EQL && ident(be.X) == "icfg" && ident(be.Y) == "nil" {
		if els != nil || !containsReturn(&ast.BlockStmt{List: thn}) {
			fail(at, "unexpected shape of the passthrough test")
		}
		t.depth++
		a := t.seq(thn, end)
		b := t.seq(rest, end)
		t.depth--
		return "match v_icfg with\n" + t.ind() + "| None =>\n" + t.ind() + "  " + a + "\n" + t.ind() + "| Some ic =>\n" + t.ind() + "  " + b + "\n" + t.ind() + "end"
	}
	// a call of a translated function in the condition is evaluated first (it may change the state)
	pre := ""
	c := cond
	negated := false
	if u, ok := c.(*ast.UnaryExpr); ok && u.Op == token.NOT {
		if _, isCall := t.stateCall(u.X); isCall {
			c, negated = u.X, true
		}
	}
	condS := ""
	if call, ok := t.stateCall(c); ok {
		t.tmp++
		tmp := fmt.Sprintf("c%d", t.tmp)
		pre = "let '(st, " + tmp + ") := " + call + " in\n" + t.ind()
		condS = tmp
		if negated {
			condS = "(negb " + tmp + ")"
		}
	} else {
		ast.Inspect(cond, func(n ast.Node) bool {
			if e, ok := n.(ast.Expr); ok {
				if _, isCall := t.stateCall(e); isCall {
					fail(at, "a state-changing call inside a compound condition")
				}
			}
			return true
		})
		condS = t.expr(cond)
	}
	body := &ast.BlockStmt{List: append(append([]ast.Stmt{}, thn...), els...)}
	if !containsReturn(body) {
		saved := t.cloneIDs()
		t.depth++
		a := t.seq(thn, "st")
		t.stateIDs = saved.clone()
		b := t.seq(els, "st")
		t.depth--
		t.stateIDs = saved
		return pre + "let st := if " + condS + " then (" + a + ") else (" + b + ") in\n" + t.ind() + t.seq(rest, end)
	}
	saved := t.cloneIDs()
	t.depth++
	a := t.seq(append(append([]ast.Stmt{}, thn...), rest...), end)
	t.stateIDs = saved.clone()
	b := t.seq(append(append([]ast.Stmt{}, els...), rest...), end)
	t.depth--
	t.stateIDs = saved
	return pre + "if " + condS + " then (\n" + t.ind() + "  " + a + ")\n" + t.ind() + "else (\n" + t.ind() + "  " + b + ")"
}

type idmap map[string]string

func (m idmap) clone() map[string]string {
	c := map[string]string{}
	for k, v := range m {
		c[k] = v
	}
	return c
}
func (t *tr) cloneIDs() idmap { return idmap(idmap(t.stateIDs).clone()) }

// ---- functions ----

func typeStr(e ast.Expr) string { return src(e) }

func translateFunc(fd *ast.FuncDecl) string {
	name := fd.Name.Name
	t := &tr{fn: name, stateIDs: map[string]string{}}
	if fd.Recv == nil || len(fd.Recv.List) != 1 || len(fd.Recv.List[0].Names) != 1 || fd.Recv.List[0].Names[0].Name != "icfg" {
		fail(fd, "%s: receiver is not icfg", name)
	}
	var params []string
	var kinds []string
	for _, f := range fd.Type.Params.List {
		ty := typeStr(f.Type)
		for _, n := range f.Names {
			switch {
			case ty == "http.ResponseWriter":
				t.stateIDs[n.Name] = "w"
				kinds = append(kinds, "state")
			case ty == "http.Header" && n.Name == "buf":
				t.stateIDs[n.Name] = "buf"
				kinds = append(kinds, "state")
			case ty == "http.Header" && n.Name == "resHdrs":
				t.stateIDs[n.Name] = "res"
				kinds = append(kinds, "state")
			case ty == "http.Header":
				params = append(params, "("+v(n.Name)+" : hmap)")
				kinds = append(kinds, "value")
			case ty == "string":
				params = append(params, "("+v(n.Name)+" : bytes)")
				kinds = append(kinds, "value")
			case ty == "[]string":
				params = append(params, "("+v(n.Name)+" : list bytes)")
				kinds = append(kinds, "value")
			case ty == "bool":
				params = append(params, "("+v(n.Name)+" : bool)")
				kinds = append(kinds, "value")
			default:
				fail(f, "%s: parameter type %s", name, ty)
			}
		}
	}
	res := "gst"
	if fd.Type.Results != nil {
		if len(fd.Type.Results.List) != 1 || typeStr(fd.Type.Results.List[0].Type) != "bool" {
			fail(fd, "%s: result type", name)
		}
		t.retBool = true
		res = "gst * bool"
	}
	end := "st"
	if t.retBool {
		end = ""
	}
	body := t.seq(fd.Body.List, end)
	translated[name] = true
	returnsBool[name] = t.retBool
	paramKinds[name] = kinds
	return fmt.Sprintf("Definition go_%s (ic : icfg) (st : gst) %s : %s :=\n  %s.\n", name, strings.Join(params, " "), res, body)
}

// the handler closure of Wrap: its snapshot section (validated by genconc / C07) must have exactly the known shape;
// the translation starts right after it, with the snapshot (icfg, debug) as parameters
func translateWrap(fd *ast.FuncDecl) string {
	var lit *ast.FuncLit
	ast.Inspect(fd.Body, func(n ast.Node) bool {
		if fl, ok := n.(*ast.FuncLit); ok && lit == nil {
			lit = fl
			return false
		}
		return true
	})
	if lit == nil || len(fd.Body.List) != 1 {
		fail(fd, "Wrap: unexpected shape")
	}
	if src(fd.Body.List[0].(*ast.ReturnStmt).Results[0].(*ast.CallExpr).Fun) != "http.HandlerFunc" {
		fail(fd, "Wrap: the closure is not returned as an http.HandlerFunc")
	}
	ps := lit.Type.Params.List
	if len(ps) != 2 || src(ps[0]) != "w http.ResponseWriter" && ps[0].Names[0].Name != "w" || ps[1].Names[0].Name != "r" {
		fail(lit, "Wrap: closure parameters")
	}
	list := lit.Body.List
	want := []string{"var icfg *internalConfig", "var debug bool", "m.mu.RLock()", "{\n\ticfg = m.icfg\n\tdebug = m.debug\n}", "m.mu.RUnlock()"}
	if len(list) < len(want) {
		fail(lit, "Wrap: snapshot section missing")
	}
	norm := func(s string) string { return strings.Join(strings.Fields(s), " ") }
	for i, w := range want {
		if norm(src(list[i])) != norm(w) {
			fail(list[i], "Wrap: snapshot section: got %q, expected %q", norm(src(list[i])), norm(w))
		}
	}
	t := &tr{fn: "Wrap", inWrap: true, stateIDs: map[string]string{"w": "w"}}
	body := t.seq(list[len(want):], "st")
	return fmt.Sprintf("Definition go_Wrap (v_icfg : option icfg) (v_debug : bool) (v_r : request) (st : gst) : gst :=\n  %s.\n", body)
}

func main() {
	if len(os.Args) != 3 {
		fmt.Fprintln(os.Stderr, "usage: genmw <repo> <out.v>")
		os.Exit(2)
	}
	repo, out := os.Args[1], os.Args[2]
	header := "(* GENERATED by tools/genmw from middleware.go on every run -- do not edit. *)\n" +
		"Require Import Base.Bytes Gen.Tables Model.Util Model.Headers Model.Methods Model.Origins Model.Pattern Model.Radix Model.Netip Model.CfgErrors Model.Config Model.CfgRt Model.Serve Model.Mw Model.MwRt.\nOpen Scope bool_scope.\n\n"
	var sb strings.Builder
	sb.WriteString(header)
	errMsg := ""
	func() {
		defer func() {
			if e := recover(); e != nil {
				if f, ok := e.(failure); ok {
					errMsg = f.msg
					return
				}
				panic(e)
			}
		}()
		file, err := parser.ParseFile(fset, filepath.Join(repo, "middleware.go"), nil, parser.SkipObjectResolution)
		if err != nil {
			fail(nil, "parse error: %v", err)
		}
		decls := map[string]*ast.FuncDecl{}
		for _, d := range file.Decls {
			if fd, ok := d.(*ast.FuncDecl); ok {
				decls[fd.Name.Name] = fd
			}
		}
		// helper functions of this file that the handlers could call must all be translated: any other
		// internalConfig method defined here is outside the model
		order := []string{"handleNonCORS", "processOriginForPreflight", "processACRPN", "processACRM", "processACRH", "handleCORSPreflight", "handleCORSActual"}
		known := map[string]bool{"NewMiddleware": true, "Reconfigure": true, "Wrap": true, "SetDebug": true, "Config": true}
		for _, n := range order {
			known[n] = true
		}
		for n, fd := range decls {
			if !known[n] {
				fail(fd, "function %s is not part of the modelled request handling", n)
			}
		}
		for _, n := range order {
			fd := decls[n]
			if fd == nil {
				fail(nil, "function %s not found", n)
			}
			sb.WriteString(translateFunc(fd))
			sb.WriteString("\n")
		}
		if decls["Wrap"] == nil {
			fail(nil, "Wrap not found")
		}
		sb.WriteString(translateWrap(decls["Wrap"]))
		sb.WriteString(translateMethods(decls))
	}()
	text := sb.String()
	if errMsg != "" {
		esc := strings.NewReplacer("\"", "'", "\n", " ").Replace(errMsg)
		text = header + "(* the translator stopped: the source is outside the translated fragment *)\n" +
			"Definition genmw_failed : bool := true.\n(* reason: " + strings.ReplaceAll(esc, "*)", "* )") + " *)\n"
		fmt.Fprintln(os.Stderr, "genmw: "+errMsg)
	}
	if err := os.WriteFile(out, []byte(text), 0o644); err != nil {
		fmt.Fprintln(os.Stderr, err)
		os.Exit(1)
	}
	if errMsg != "" {
		os.Exit(3)
	}
}
