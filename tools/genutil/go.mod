module verif/genutil

go 1.23.0
