// genutil: translator for the small helper functions under internal/: util/bytecase.go, util/sortedset.go,
// util/set.go, methods/methods.go, headers/req.go, headers/res.go, headers.IsValid and headers.isOWS. It parses
// the files (go/parser only) and regenerates coq/Gen/UtilSrc.v, one Gallina function per Go function, translated
// statement by statement (a pointer receiver is a value that is returned; `if c { return a }; R` is
// `if c then a else [[R]]`; the one loop, in NewSet, is a fold). Standard-library and x/net calls are mapped to the
// contract functions of Model/UtilRt.v (slices.BinarySearch on a sorted slice, slices.Sort, strings.ToLower/ToUpper/
// HasPrefix, httpguts.ValidHeaderFieldName); package-level name tables are the ones tools/gentables extracts.
// Anything else stops the translator (it then writes a file recording why, and the dependent proofs fail).
package main

import (
	"bytes"
	"fmt"
	"go/ast"
	"go/parser"
	"go/printer"
	"go/token"
	"os"
	"path/filepath"
	"strconv"
	"strings"
)

var fset = token.NewFileSet()

type failure struct{ msg string }

func fail(n ast.Node, format string, a ...any) {
	pos := ""
	if n != nil {
		pos = fset.Position(n.Pos()).String() + ": "
	}
	panic(failure{pos + fmt.Sprintf(format, a...)})
}

func src(n ast.Node) string {
	var b bytes.Buffer
	printer.Fprint(&b, fset, n)
	return b.String()
}

func ident(e ast.Expr) string {
	if id, ok := e.(*ast.Ident); ok {
		return id.Name
	}
	return ""
}

func sel(e ast.Expr) (string, string) {
	if se, ok := e.(*ast.SelectorExpr); ok {
		if id, ok := se.X.(*ast.Ident); ok {
			return id.Name, se.Sel.Name
		}
	}
	return "", ""
}

func bytesLit(s string) string {
	if s == "" {
		return "([] : bytes)"
	}
	parts := make([]string, len(s))
	for i := 0; i < len(s); i++ {
		parts[i] = strconv.Itoa(int(s[i]))
	}
	return "([" + strings.Join(parts, "; ") + "]%N : bytes)"
}

type tr struct {
	pkg    string            // Go package of the file (for the names of package-level tables)
	fn     string            // Gallina name of the function being translated
	recv   string            // receiver identifier ("" if none)
	recvTy string            // "SortedSet" or "Set"
	vars   map[string]string // local -> kind: "str", "int", "bool", "strs", "set"
}

func v(n string) string { return "v_" + n }

// package-level sets (util.NewSet(...) variables): <pkg>_<name> is the list gentables extracts
var tables = map[string]bool{}

func (t *tr) expr(e ast.Expr) string {
	switch e := e.(type) {
	case *ast.ParenExpr:
		return "(" + t.expr(e.X) + ")"
	case *ast.Ident:
		switch e.Name {
		case "true", "false":
			return e.Name
		}
		if e.Name == t.recv {
			return "v_set"
		}
		if _, ok := t.vars[e.Name]; ok {
			return v(e.Name)
		}
		if tables[t.pkg+"_"+e.Name] {
			return "(go_NewSet " + t.pkg + "_" + e.Name + ")"
		}
		fail(e, "unknown identifier %s", e.Name)
	case *ast.BasicLit:
		switch e.Kind {
		case token.INT:
			return "(" + e.Value + ")%Z"
		case token.STRING:
			s, err := strconv.Unquote(e.Value)
			if err == nil {
				return bytesLit(s)
			}
		case token.CHAR:
			s, err := strconv.Unquote(e.Value)
			if err == nil && len(s) == 1 {
				return "(" + strconv.Itoa(int(s[0])) + ")%N"
			}
		}
		fail(e, "literal %s", e.Value)
	case *ast.UnaryExpr:
		switch e.Op {
		case token.NOT:
			return "(negb " + t.expr(e.X) + ")"
		case token.SUB:
			if l, ok := e.X.(*ast.BasicLit); ok && l.Kind == token.INT {
				return "(-" + l.Value + ")%Z"
			}
		}
		fail(e, "unary %s", src(e))
	case *ast.BinaryExpr:
		a, b := t.expr(e.X), t.expr(e.Y)
		switch e.Op {
		case token.LOR:
			return "(" + a + " || " + b + ")"
		case token.LAND:
			return "(" + a + " && " + b + ")"
		}
		ka, kb := t.kind(e.X), t.kind(e.Y)
		switch {
		case ka == "byte" || kb == "byte":
			if e.Op == token.EQL {
				return "(N.eqb " + a + " " + b + ")"
			}
		case ka == "nat" || kb == "nat": // lengths (uint / N)
			if e.Op == token.LSS {
				return "(N.ltb " + a + " " + b + ")"
			}
		case ka == "int" || kb == "int":
			switch e.Op {
			case token.ADD:
				return "(" + a + " + " + b + ")%Z"
			case token.GEQ:
				return "(" + b + " <=? " + a + ")%Z"
			}
		}
		fail(e, "binary %s", src(e))
	case *ast.SelectorExpr:
		x, f := sel(e)
		if x == t.recv && t.recv != "" {
			switch f {
			case "elems":
				return "(elems v_set)"
			case "maxLen":
				return "(maxlen v_set)"
			}
		}
		if x == "http" { // http.MethodGet, ... used inside NewSet(...) only: not needed as expressions
			fail(e, "selector %s", src(e))
		}
		fail(e, "selector %s", src(e))
	case *ast.SliceExpr:
		if e.High == nil && e.Max == nil && e.Low != nil {
			return "(skipn (Z.to_nat " + t.expr(e.Low) + ") " + t.expr(e.X) + ")"
		}
		fail(e, "slice expression %s", src(e))
	case *ast.CallExpr:
		return t.call(e)
	}
	fail(e, "expression %s", src(e))
	return ""
}

func (t *tr) kind(e ast.Expr) string {
	switch e := e.(type) {
	case *ast.ParenExpr:
		return t.kind(e.X)
	case *ast.Ident:
		return t.vars[e.Name]
	case *ast.BasicLit:
		switch e.Kind {
		case token.INT:
			return "int"
		case token.CHAR:
			return "byte"
		}
	case *ast.UnaryExpr:
		return t.kind(e.X)
	case *ast.SelectorExpr:
		if x, f := sel(e); x == t.recv && f == "maxLen" {
			return "nat"
		}
	case *ast.CallExpr:
		switch src(e.Fun) {
		case "uint":
			return "nat"
		case "len":
			return "int"
		}
		if se, ok := e.Fun.(*ast.SelectorExpr); ok && se.Sel.Name == "IndexAfter" {
			return "int"
		}
	case *ast.BinaryExpr:
		if e.Op == token.ADD {
			return "int"
		}
	}
	return ""
}

func (t *tr) call(c *ast.CallExpr) string {
	name := src(c.Fun)
	arg := func(i int) string { return t.expr(c.Args[i]) }
	switch name {
	case "strings.ToLower":
		return "(strings_ToLower " + arg(0) + ")"
	case "strings.ToUpper":
		return "(strings_ToUpper " + arg(0) + ")"
	case "strings.HasPrefix":
		return "(strings_HasPrefix " + arg(0) + " " + arg(1) + ")"
	case "httpguts.ValidHeaderFieldName":
		return "(httpguts_ValidHeaderFieldName " + arg(0) + ")"
	case "util.ByteLowercase":
		return "(go_ByteLowercase " + arg(0) + ")"
	case "util.ByteUppercase":
		return "(go_ByteUppercase " + arg(0) + ")"
	case "slices.Clone":
		return arg(0)
	case "slices.Sort":
		fail(c, "slices.Sort as an expression")
	case "uint": // uint(len(e))
		if len(c.Args) == 1 {
			if l, ok := c.Args[0].(*ast.CallExpr); ok && ident(l.Fun) == "len" && len(l.Args) == 1 {
				return "(blen " + t.expr(l.Args[0]) + ")"
			}
		}
	case "len": // len(set.elems)
		if len(c.Args) == 1 {
			return "(Z.of_nat (length " + arg(0) + "))"
		}
	case "max":
		if len(c.Args) == 2 {
			return "(N.max " + arg(0) + " " + arg(1) + ")"
		}
	case "append":
		if len(c.Args) == 2 {
			return "(" + arg(0) + " ++ [" + arg(1) + "])"
		}
	case "SortedSet": // conversion SortedSet(set)
		if len(c.Args) == 1 {
			return arg(0)
		}
	}
	if se, ok := c.Fun.(*ast.SelectorExpr); ok {
		recv := t.expr(se.X)
		switch se.Sel.Name {
		case "Contains":
			if len(c.Args) == 1 {
				return "(go_Set_Contains " + recv + " " + arg(0) + ")"
			}
		case "IndexAfter":
			if len(c.Args) == 2 {
				return "(go_SortedSet_IndexAfter " + recv + " " + arg(0) + " " + arg(1) + ")"
			}
		case "Size":
			if len(c.Args) == 0 {
				return "(go_SortedSet_Size " + recv + ")"
			}
		case "ToSlice":
			if len(c.Args) == 0 {
				return "(go_SortedSet_ToSlice " + recv + ")"
			}
		}
	}
	fail(c, "call %s", src(c))
	return ""
}

// seq translates a statement list; a mutated receiver is threaded as v_set. retRecv: the function returns the receiver.
func (t *tr) seq(list []ast.Stmt, retRecv bool) string {
	if len(list) == 0 {
		if retRecv {
			return "v_set"
		}
		fail(nil, "%s: control reaches the end of the function", t.fn)
	}
	s, rest := list[0], list[1:]
	switch s := s.(type) {
	case *ast.ReturnStmt:
		if retRecv {
			if len(s.Results) != 0 {
				fail(s, "return with a value")
			}
			return "v_set"
		}
		if len(s.Results) != 1 {
			fail(s, "return")
		}
		return t.expr(s.Results[0])
	case *ast.IfStmt:
		if s.Init != nil || s.Else != nil {
			fail(s, "if with init/else")
		}
		last := s.Body.List[len(s.Body.List)-1]
		if _, ok := last.(*ast.ReturnStmt); !ok {
			fail(s, "if whose body does not return")
		}
		return "if " + t.expr(s.Cond) + " then (" + t.seq(s.Body.List, retRecv) + ")\n  else (" + t.seq(rest, retRecv) + ")"
	case *ast.AssignStmt:
		if len(s.Rhs) != 1 {
			fail(s, "assignment")
		}
		if s.Tok == token.DEFINE {
			if c, ok := s.Rhs[0].(*ast.CallExpr); ok && src(c.Fun) == "slices.BinarySearch" && len(s.Lhs) == 2 && len(c.Args) == 2 {
				a, b := ident(s.Lhs[0]), ident(s.Lhs[1])
				pa, pb := "_", "_"
				if a != "_" {
					t.vars[a] = "int"
					pa = v(a)
				}
				if b != "_" {
					t.vars[b] = "bool"
					pb = v(b)
				}
				return "let '(" + pa + ", " + pb + ") := slices_BinarySearch " + t.expr(c.Args[0]) + " " + t.expr(c.Args[1]) + " in\n  " + t.seq(rest, retRecv)
			}
			if len(s.Lhs) == 1 {
				val := t.expr(s.Rhs[0])
				k := t.kind(s.Rhs[0])
				if k == "" {
					k = "str"
				}
				t.vars[ident(s.Lhs[0])] = k
				return "let " + v(ident(s.Lhs[0])) + " := " + val + " in\n  " + t.seq(rest, retRecv)
			}
		}
		if s.Tok == token.ASSIGN && len(s.Lhs) == 1 {
			if x, f := sel(s.Lhs[0]); x == t.recv && t.recv != "" {
				switch f {
				case "elems":
					return "let v_set := set_elems v_set " + t.expr(s.Rhs[0]) + " in\n  " + t.seq(rest, retRecv)
				case "maxLen":
					return "let v_set := set_maxlen v_set " + t.expr(s.Rhs[0]) + " in\n  " + t.seq(rest, retRecv)
				}
			}
		}
		fail(s, "assignment %s", src(s))
	case *ast.ExprStmt:
		c, ok := s.X.(*ast.CallExpr)
		if !ok {
			fail(s, "statement %s", src(s))
		}
		switch {
		case src(c.Fun) == "slices.Sort" && len(c.Args) == 1 && src(c.Args[0]) == t.recv+".elems":
			return "let v_set := set_elems v_set (slices_Sort (elems v_set)) in\n  " + t.seq(rest, retRecv)
		case src(c.Fun) == "(*SortedSet)("+t.recv+").Add" && len(c.Args) == 1: // Set.Add
			return "let v_set := go_SortedSet_Add v_set " + t.expr(c.Args[0]) + " in\n  " + t.seq(rest, retRecv)
		}
		fail(s, "statement %s", src(s))
	case *ast.RangeStmt: // for _, e := range elems { set.Add(e) }
		if ident(s.Key) == "_" && s.Tok == token.DEFINE && len(s.Body.List) == 1 {
			if es, ok := s.Body.List[0].(*ast.ExprStmt); ok {
				if c, ok := es.X.(*ast.CallExpr); ok && src(c.Fun) == t.recv+".Add" && len(c.Args) == 1 && ident(c.Args[0]) == ident(s.Value) {
					return "let v_set := fold_left (fun v_set " + v(ident(s.Value)) + " => go_Set_Add v_set " + v(ident(s.Value)) + ") " + t.expr(s.X) + " v_set in\n  " + t.seq(rest, retRecv)
				}
			}
		}
		fail(s, "loop %s", src(s))
	}
	fail(s, "statement %s", src(s))
	return ""
}

// headers.First: a comma-ok map lookup, guards that return, and a final return of (string, []string, bool).
// Fragment: `v, found := hdrs[k]`; `if c { return a, b, c }`; `return a, b, c`; conditions built from !, ||, &&,
// identifiers and len(v) compared with an integer literal; values: "", nil, true, false, v[i] and v[:j] with literal i, j.
func translateFirst(fd *ast.FuncDecl, gname string) string {
	if fd.Recv != nil || src(fd.Type) != "func(hdrs http.Header, k string) (string, []string, bool)" {
		fail(fd, "signature of First: %s", src(fd.Type))
	}
	kinds := map[string]string{"hdrs": "hdrs", "k": "str"}
	var cond func(e ast.Expr) string
	cond = func(e ast.Expr) string {
		switch e := e.(type) {
		case *ast.ParenExpr:
			return "(" + cond(e.X) + ")"
		case *ast.Ident:
			if kinds[e.Name] == "bool" {
				return v(e.Name)
			}
		case *ast.UnaryExpr:
			if e.Op == token.NOT {
				return "(negb " + cond(e.X) + ")"
			}
		case *ast.BinaryExpr:
			switch e.Op {
			case token.LOR:
				return "(" + cond(e.X) + " || " + cond(e.Y) + ")"
			case token.LAND:
				return "(" + cond(e.X) + " && " + cond(e.Y) + ")"
			case token.EQL, token.NEQ, token.LSS, token.GTR, token.LEQ, token.GEQ:
				c, ok := e.X.(*ast.CallExpr)
				lit, ok2 := e.Y.(*ast.BasicLit)
				if ok && ok2 && ident(c.Fun) == "len" && len(c.Args) == 1 && kinds[ident(c.Args[0])] == "strs" && lit.Kind == token.INT {
					a, b := "(Z.of_nat (length "+v(ident(c.Args[0]))+"))", "("+lit.Value+")%Z"
					switch e.Op {
					case token.EQL:
						return "(" + a + " =? " + b + ")%Z"
					case token.NEQ:
						return "(negb (" + a + " =? " + b + ")%Z)"
					case token.LSS:
						return "(" + a + " <? " + b + ")%Z"
					case token.GTR:
						return "(" + b + " <? " + a + ")%Z"
					case token.LEQ:
						return "(" + a + " <=? " + b + ")%Z"
					case token.GEQ:
						return "(" + b + " <=? " + a + ")%Z"
					}
				}
			}
		}
		fail(e, "First: condition %s", src(e))
		return ""
	}
	val := func(e ast.Expr, k string) string {
		switch e := e.(type) {
		case *ast.Ident:
			switch {
			case e.Name == "nil" && k == "strs":
				return "([] : list bytes)"
			case (e.Name == "true" || e.Name == "false") && k == "bool":
				return e.Name
			case kinds[e.Name] == k:
				return v(e.Name)
			}
		case *ast.BasicLit:
			if e.Kind == token.STRING && k == "str" {
				u, err := strconv.Unquote(e.Value)
				if err == nil {
					return bytesLit(u)
				}
			}
		case *ast.IndexExpr:
			if lit, ok := e.Index.(*ast.BasicLit); ok && lit.Kind == token.INT && kinds[ident(e.X)] == "strs" && k == "str" {
				return "(nth " + lit.Value + " " + v(ident(e.X)) + " ([] : bytes))"
			}
		case *ast.SliceExpr:
			if lit, ok := e.High.(*ast.BasicLit); ok && e.Low == nil && e.Max == nil && lit.Kind == token.INT && kinds[ident(e.X)] == "strs" && k == "strs" {
				return "(firstn " + lit.Value + " " + v(ident(e.X)) + ")"
			}
		}
		fail(e, "First: value %s", src(e))
		return ""
	}
	ret := func(s *ast.ReturnStmt) string {
		if len(s.Results) != 3 {
			fail(s, "First: return")
		}
		return "(" + val(s.Results[0], "str") + ", " + val(s.Results[1], "strs") + ", " + val(s.Results[2], "bool") + ")"
	}
	var seq func(list []ast.Stmt) string
	seq = func(list []ast.Stmt) string {
		if len(list) == 0 {
			fail(fd, "First: control reaches the end")
		}
		switch s := list[0].(type) {
		case *ast.AssignStmt:
			if s.Tok == token.DEFINE && len(s.Lhs) == 2 && len(s.Rhs) == 1 {
				if ie, ok := s.Rhs[0].(*ast.IndexExpr); ok && kinds[ident(ie.X)] == "hdrs" && kinds[ident(ie.Index)] == "str" {
					a, b := ident(s.Lhs[0]), ident(s.Lhs[1])
					kinds[a], kinds[b] = "strs", "bool"
					return "let '(" + v(a) + ", " + v(b) + ") := map_lookup2 " + v(ident(ie.X)) + " " + v(ident(ie.Index)) + " in\n  " + seq(list[1:])
				}
			}
		case *ast.IfStmt:
			if s.Init == nil && s.Else == nil && len(s.Body.List) == 1 {
				if r, ok := s.Body.List[0].(*ast.ReturnStmt); ok {
					return "if " + cond(s.Cond) + " then " + ret(r) + "\n  else (" + seq(list[1:]) + ")"
				}
			}
		case *ast.ReturnStmt:
			return ret(s)
		}
		fail(list[0], "First: statement %s", src(list[0]))
		return ""
	}
	return fmt.Sprintf("Definition %s (v_hdrs : hmap) (v_k : bytes) : bytes * list bytes * bool :=\n  %s.\n", gname, seq(fd.Body.List))
}

func translate(pkg string, fd *ast.FuncDecl, gname string) string {
	if gname == "go_headers_First" {
		return translateFirst(fd, gname)
	}
	t := &tr{pkg: pkg, fn: gname, vars: map[string]string{}}
	params := ""
	retRecv := false
	if fd.Recv != nil {
		r := fd.Recv.List[0]
		t.recv = r.Names[0].Name
		ty := src(r.Type)
		retRecv = strings.HasPrefix(ty, "*")
		params += " (v_set : sset)"
	}
	for _, f := range fd.Type.Params.List {
		ty := src(f.Type)
		for _, n := range f.Names {
			switch ty {
			case "string":
				t.vars[n.Name] = "str"
				params += " (" + v(n.Name) + " : bytes)"
			case "int":
				t.vars[n.Name] = "int"
				params += " (" + v(n.Name) + " : Z)"
			case "byte":
				t.vars[n.Name] = "byte"
				params += " (" + v(n.Name) + " : N)"
			case "...string":
				t.vars[n.Name] = "strs"
				params += " (" + v(n.Name) + " : list bytes)"
			default:
				fail(f, "%s: parameter type %s", gname, ty)
			}
		}
	}
	res := ""
	if fd.Type.Results != nil && len(fd.Type.Results.List) == 1 {
		rf := fd.Type.Results.List[0]
		switch src(rf.Type) {
		case "bool":
			res = "bool"
		case "string":
			res = "bytes"
		case "int":
			res = "Z"
		case "uint":
			res = "N"
		case "[]string":
			res = "list bytes"
		case "Set": // NewSet: named result
			if len(rf.Names) == 1 {
				t.recv = rf.Names[0].Name
				retRecv = true
				return fmt.Sprintf("Definition %s%s : sset :=\n  let v_set := sset_empty in\n  %s.\n", gname, params, t.seq(fd.Body.List, true))
			}
			fail(fd, "%s: result", gname)
		default:
			fail(fd, "%s: result type %s", gname, src(rf.Type))
		}
	} else if fd.Type.Results != nil {
		fail(fd, "%s: results", gname)
	}
	if retRecv {
		if res != "" {
			fail(fd, "%s: pointer receiver with a result", gname)
		}
		res = "sset"
	}
	if res == "" {
		fail(fd, "%s: no result", gname)
	}
	return fmt.Sprintf("Definition %s%s : %s :=\n  %s.\n", gname, params, res, t.seq(fd.Body.List, retRecv))
}

type job struct {
	file, pkg string
	funcs     [][2]string // Go name (Recv.Name or Name) -> Gallina name, in dependency order
	exact     bool        // the file must not declare any other function
}

func main() {
	if len(os.Args) != 3 {
		fmt.Fprintln(os.Stderr, "usage: genutil <repo> <out.v>")
		os.Exit(2)
	}
	repo, out := os.Args[1], os.Args[2]
	header := "(* GENERATED by tools/genutil from internal/util, internal/methods and internal/headers on every run -- do not edit. *)\n" +
		"Require Import Base.Bytes Gen.Tables Model.Util Model.Headers Model.UtilRt.\nOpen Scope bool_scope.\n\n"
	jobs := []job{
		{"internal/util/bytecase.go", "util", [][2]string{{"ByteLowercase", "go_ByteLowercase"}, {"ByteUppercase", "go_ByteUppercase"}}, true},
		{"internal/util/sortedset.go", "util", [][2]string{{"SortedSet.Add", "go_SortedSet_Add"}, {"SortedSet.Size", "go_SortedSet_Size"}, {"SortedSet.MaxLen", "go_SortedSet_MaxLen"}, {"SortedSet.IndexAfter", "go_SortedSet_IndexAfter"}, {"SortedSet.ToSlice", "go_SortedSet_ToSlice"}}, true},
		{"internal/util/set.go", "util", [][2]string{{"Set.Add", "go_Set_Add"}, {"NewSet", "go_NewSet"}, {"Set.Contains", "go_Set_Contains"}, {"Set.Size", "go_Set_Size"}, {"Set.ToSlice", "go_Set_ToSlice"}}, true},
		{"internal/methods/methods.go", "methods", [][2]string{{"IsValid", "go_methods_IsValid"}, {"IsForbidden", "go_methods_IsForbidden"}, {"IsSafelisted", "go_methods_IsSafelisted"}, {"Normalize", "go_methods_Normalize"}}, true},
		{"internal/headers/req.go", "headers", [][2]string{{"IsForbiddenRequestHeaderName", "go_IsForbiddenRequestHeaderName"}, {"IsProhibitedRequestHeaderName", "go_IsProhibitedRequestHeaderName"}}, true},
		{"internal/headers/res.go", "headers", [][2]string{{"IsForbiddenResponseHeaderName", "go_IsForbiddenResponseHeaderName"}, {"IsProhibitedResponseHeaderName", "go_IsProhibitedResponseHeaderName"}, {"IsSafelistedResponseHeaderName", "go_IsSafelistedResponseHeaderName"}}, true},
		{"internal/headers/common.go", "headers", [][2]string{{"IsValid", "go_headers_IsValid"}, {"First", "go_headers_First"}}, false},
		{"internal/headers/ows.go", "headers", [][2]string{{"isOWS", "go_isOWS"}}, false},
	}
	var sb strings.Builder
	sb.WriteString(header)
	errMsg := ""
	func() {
		defer func() {
			if e := recover(); e != nil {
				if f, ok := e.(failure); ok {
					errMsg = f.msg
					return
				}
				panic(e)
			}
		}()
		for _, j := range jobs {
			file, err := parser.ParseFile(fset, filepath.Join(repo, j.file), nil, parser.SkipObjectResolution)
			if err != nil {
				fail(nil, "parse error: %v", err)
			}
			decls := map[string]*ast.FuncDecl{}
			for _, d := range file.Decls {
				switch d := d.(type) {
				case *ast.FuncDecl:
					name := d.Name.Name
					if d.Recv != nil {
						name = strings.TrimPrefix(src(d.Recv.List[0].Type), "*") + "." + name
					}
					decls[name] = d
				case *ast.GenDecl:
					if d.Tok != token.VAR {
						continue
					}
					for _, sp := range d.Specs {
						vs := sp.(*ast.ValueSpec)
						for i, n := range vs.Names {
							// only name tables built by util.NewSet(...) may be package-level state
							if i < len(vs.Values) {
								if c, ok := vs.Values[i].(*ast.CallExpr); ok && src(c.Fun) == "util.NewSet" {
									tables[j.pkg+"_"+n.Name] = true
									continue
								}
							}
							if j.exact {
								fail(vs, "package-level variable %s in %s", n.Name, j.file)
							}
						}
					}
				}
			}
			want := map[string]bool{}
			for _, f := range j.funcs {
				want[f[0]] = true
			}
			if j.exact {
				for n, d := range decls {
					if !want[n] {
						fail(d, "function %s in %s is not modelled", n, j.file)
					}
				}
			}
			for _, f := range j.funcs {
				fd := decls[f[0]]
				if fd == nil {
					fail(nil, "function %s not found in %s", f[0], j.file)
				}
				sb.WriteString(translate(j.pkg, fd, f[1]))
				sb.WriteString("\n")
			}
		}
	}()
	text := sb.String()
	if errMsg != "" {
		esc := strings.NewReplacer("\n", " ", "*)", "* )").Replace(errMsg)
		text = header + "(* the translator stopped: the source is outside the translated fragment *)\n" +
			"Definition genutil_failed : bool := true.\n(* reason: " + esc + " *)\n"
		fmt.Fprintln(os.Stderr, "genutil: "+errMsg)
	}
	if err := os.WriteFile(out, []byte(text), 0o644); err != nil {
		fmt.Fprintln(os.Stderr, err)
		os.Exit(1)
	}
	if errMsg != "" {
		os.Exit(3)
	}
}
