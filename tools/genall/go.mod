module verif/genall

go 1.23.0
