module verif/gencfg

go 1.23.0
