// gencfg: translator for the validation code of config.go. It parses /repo/config.go (go/parser only) and
// regenerates coq/Gen/CfgSrc.v: one Gallina function per Go function (validatePreflightStatus, validateOrigins,
// validateMethods, validateRequestHeaders, validateMaxAge, validateResponseHeaders, newInternalConfig, newConfig).
//
// The translation is statement by statement:
//   - a local variable is a let-bound name (`v_<name>`), re-bound by every assignment (shadowing);
//   - `if c { A }; R` becomes `if c then [[A; R]] else [[R]]` when A can leave (return/continue), and
//     `let '(xs) := if c then [[A]] else (xs) in [[R]]` otherwise, xs being the variables A assigns;
//   - `for _, x := range l { B }` becomes `fold_left (fun '(xs) v_x => [[B]]) l (xs)`, xs being the variables
//     declared outside the loop that B assigns; `continue` yields the current xs;
//   - the receiver *internalConfig is a value threaded through (field assignment = record update), a function with
//     an `error` result returns (receiver, option (etree cerr)); an `error` value is an `option (etree cerr)`;
//   - calls that leave the file (origins.ParsePattern, Tree.Insert, methods.*, headers.Is*, util.ByteLowercase,
//     Set/SortedSet methods, strconv, strings) are mapped by a fixed table to the functions of the hand-written
//     model that the correspondence harness validates against the code.
// Anything outside this fragment makes the translator stop; it then writes a Gen/CfgSrc.v recording the reason, the
// proofs tying Model/Config.v to the source no longer compile, and the checks report the tie as broken.
package main

import (
	"bytes"
	"fmt"
	"go/ast"
	"go/parser"
	"go/printer"
	"go/token"
	"os"
	"path/filepath"
	"sort"
	"strconv"
	"strings"
)

var fset = token.NewFileSet()

type failure struct{ msg string }

func fail(n ast.Node, format string, a ...any) {
	pos := ""
	if n != nil {
		pos = fset.Position(n.Pos()).String() + ": "
	}
	panic(failure{pos + fmt.Sprintf(format, a...)})
}

func src(n ast.Node) string {
	var b bytes.Buffer
	printer.Fprint(&b, fset, n)
	return b.String()
}

// ---- fixed tables (the trusted part of the translator) ----

// internalConfig field -> (projection, setter, kind)
var icfgFields = map[string][3]string{
	"tree":                       {"i_tree", "seti_tree", "tree"},
	"allowedMethods":             {"i_methods", "seti_methods", "set"},
	"allowedReqHdrs":             {"i_req_hdrs", "seti_req_hdrs", "set"},
	"acah":                       {"i_acah", "seti_acah", "optslice"},
	"preflightStatusMinus200":    {"i_status_m200", "seti_status_m200", "uint8"},
	"credentialed":               {"i_cred", "seti_cred", "bool"},
	"allowAnyMethod":             {"i_any_method", "seti_any_method", "bool"},
	"asteriskReqHdrs":            {"i_asterisk_req", "seti_asterisk_req", "bool"},
	"allowAuthorization":         {"i_allow_auth", "seti_allow_auth", "bool"},
	"privateNetworkAccess":       {"i_pna", "seti_pna", "bool"},
	"privateNetworkAccessNoCors": {"i_pna_nocors", "seti_pna_nocors", "bool"},
	"acma":                       {"i_acma", "seti_acma", "optslice"},
	"aceh":                       {"i_aceh", "seti_aceh", "string"},
	"subsOfPublicSuffixes":       {"i_tol_psl", "seti_tol_psl", "bool"},
	"insecureOrigins":            {"i_tol_insecure", "seti_tol_insecure", "bool"},
}

// Config field (ExtraConfig is embedded) -> (projection, setter, kind)
var cfgFields = map[string][3]string{
	"Origins":                                       {"c_origins", "setc_origins", "slice"},
	"Credentialed":                                  {"c_credentialed", "setc_credentialed", "bool"},
	"Methods":                                       {"c_methods", "setc_methods", "slice"},
	"RequestHeaders":                                {"c_req_headers", "setc_req_headers", "slice"},
	"MaxAgeInSeconds":                               {"c_max_age", "setc_max_age", "int"},
	"ResponseHeaders":                               {"c_res_headers", "setc_res_headers", "slice"},
	"PreflightSuccessStatus":                        {"c_status", "setc_status", "int"},
	"PrivateNetworkAccess":                          {"c_pna", "setc_pna", "bool"},
	"PrivateNetworkAccessInNoCORSModeOnly":          {"c_pna_nocors", "setc_pna_nocors", "bool"},
	"DangerouslyTolerateInsecureOrigins":            {"c_tol_insecure", "setc_tol_insecure", "bool"},
	"DangerouslyTolerateSubdomainsOfPublicSuffixes": {"c_tol_psl", "setc_tol_psl", "bool"},
}

var reasons = map[string]string{"missing": "RMissing", "invalid": "RInvalid", "prohibited": "RProhibited", "forbidden": "RForbidden",
	"credentialed": "RCredentialed", "pna": "RPna", "psl": "RPsl"}
var htypes = map[string]string{"request": "TRequest", "response": "TResponse"}

// cfgerrors struct -> constructor and the order of its arguments
var errCtors = map[string]struct {
	ctor   string
	fields []string
}{
	"UnacceptableOriginPatternError":         {"EOrigin", []string{"Value", "Reason"}},
	"UnacceptableMethodError":                {"EMethod", []string{"Value", "Reason"}},
	"UnacceptableHeaderNameError":            {"EHeader", []string{"Value", "Type", "Reason"}},
	"MaxAgeOutOfBoundsError":                 {"EMaxAge", []string{"Value", "Default", "Max", "Disable"}},
	"PreflightSuccessStatusOutOfBoundsError": {"EStatus", []string{"Value", "Default", "Min", "Max"}},
	"IncompatibleOriginPatternError":         {"EIncompatOrigin", []string{"Value", "Reason"}},
}
var errNullary = map[string]string{
	"IncompatiblePrivateNetworkAccessModesError":  "EIncompatPNA",
	"IncompatibleWildcardResponseHeaderNameError": "EIncompatWildcardResHdr",
}

// pure functions of other packages -> model functions
var pureCalls = map[string]string{
	"methods.IsValid":                        "method_is_valid",
	"methods.Normalize":                      "method_normalize",
	"methods.IsSafelisted":                   "method_is_safelisted",
	"methods.IsForbidden":                    "method_is_forbidden",
	"headers.IsValid":                        "is_valid_name",
	"util.ByteLowercase":                     "lower",
	"headers.IsForbiddenRequestHeaderName":   "is_forbidden_req",
	"headers.IsProhibitedRequestHeaderName":  "is_prohibited_req",
	"headers.IsForbiddenResponseHeaderName":  "is_forbidden_res",
	"headers.IsProhibitedResponseHeaderName": "is_prohibited_res",
	"headers.IsSafelistedResponseHeaderName": "is_safelisted_res",
}

// zero values by declared type
var zeroOf = map[string]string{
	"origins.Tree":    "empty_tree",
	"util.Set":        "sset_empty",
	"util.SortedSet":  "sset_empty",
	"[]error":         "([] : list (etree cerr))",
	"bool":            "false",
	"string":          "([] : bytes)",
	"internalConfig":  "zero_icfg",
	"Config":          "zero_config",
}

type vkind int

const (
	kOther vkind = iota
	kInt
	kString
	kBool
	kError   // option (etree cerr)
	kErrs    // list (etree cerr)
	kSlice   // list bytes
	kSet     // sset
	kTree    // node
	kPattern // pattern
	kIcfg
	kCfg
)

type tr struct {
	fn      string
	retKind string // "err" (receiver, error), "icfg+err" (newInternalConfig), "cfg" (newConfig)
	kinds   map[string]vkind
	scope   []string // declared variables, in order
	inLoop  bool
	loopOut string // what `continue` / falling off the loop body yields
	depth   int
}

func v(name string) string {
	if name == "_" {
		return "_"
	}
	return "v_" + name
}

func ident(e ast.Expr) string {
	if id, ok := e.(*ast.Ident); ok {
		return id.Name
	}
	return ""
}

func sel(e ast.Expr) (string, string) {
	if se, ok := e.(*ast.SelectorExpr); ok {
		if id, ok := se.X.(*ast.Ident); ok {
			return id.Name, se.Sel.Name
		}
	}
	return "", ""
}

func (t *tr) declare(name string, k vkind) {
	if name == "_" {
		return
	}
	t.kinds[name] = k
	for _, s := range t.scope {
		if s == name {
			return
		}
	}
	t.scope = append(t.scope, name)
}

func (t *tr) ind() string { return strings.Repeat("  ", t.depth+1) }

func bytesLit(s string) string {
	if s == "" {
		return "([] : bytes)"
	}
	parts := make([]string, len(s))
	for i := 0; i < len(s); i++ {
		parts[i] = strconv.Itoa(int(s[i]))
	}
	return "([" + strings.Join(parts, "; ") + "]%N : bytes)"
}

func strLit(e ast.Expr) (string, bool) {
	if l, ok := e.(*ast.BasicLit); ok && l.Kind == token.STRING {
		s, err := strconv.Unquote(l.Value)
		if err == nil {
			return s, true
		}
	}
	return "", false
}

// ---- kinds of expressions (a very small type inference, by name and shape) ----

func (t *tr) kindOf(e ast.Expr) vkind {
	switch e := e.(type) {
	case *ast.ParenExpr:
		return t.kindOf(e.X)
	case *ast.Ident:
		if k, ok := t.kinds[e.Name]; ok {
			return k
		}
		if e.Name == "defaultPreflightStatus" {
			return kInt
		}
	case *ast.BasicLit:
		if e.Kind == token.INT {
			return kInt
		}
		if e.Kind == token.STRING {
			return kString
		}
	case *ast.BinaryExpr:
		switch e.Op {
		case token.ADD, token.SUB:
			return kInt
		}
		return kBool
	case *ast.CallExpr:
		switch src(e.Fun) {
		case "int", "uint8", "len":
			return kInt
		}
	case *ast.SelectorExpr:
		x, f := sel(e)
		if x == "headers" {
			return kString
		}
		if x == "icfg" {
			switch icfgFields[f][2] {
			case "uint8":
				return kInt
			case "string":
				return kString
			}
		}
		if x == "cfg" {
			switch cfgFields[f][2] {
			case "int":
				return kInt
			}
		}
	}
	return kOther
}

// ---- expressions ----

func (t *tr) errLiteral(e ast.Expr) (string, bool) {
	// &cfgerrors.X{...}  or  new(cfgerrors.X)
	if u, ok := e.(*ast.UnaryExpr); ok && u.Op == token.AND {
		if cl, ok := u.X.(*ast.CompositeLit); ok {
			x, name := sel(cl.Type)
			if x != "cfgerrors" {
				return "", false
			}
			spec, ok := errCtors[name]
			if !ok {
				fail(e, "error type cfgerrors.%s is not modelled", name)
			}
			vals := map[string]string{}
			for _, el := range cl.Elts {
				kv, ok := el.(*ast.KeyValueExpr)
				if !ok {
					fail(el, "unkeyed field in an error literal")
				}
				k := ident(kv.Key)
				switch k {
				case "Reason":
					s, ok := strLit(kv.Value)
					r, ok2 := reasons[s]
					if !ok || !ok2 {
						fail(kv, "reason %s", src(kv.Value))
					}
					vals[k] = r
				case "Type":
					s, ok := strLit(kv.Value)
					r, ok2 := htypes[s]
					if !ok || !ok2 {
						fail(kv, "type %s", src(kv.Value))
					}
					vals[k] = r
				default:
					vals[k] = t.expr(kv.Value)
				}
			}
			out := "(" + spec.ctor
			for _, f := range spec.fields {
				val, ok := vals[f]
				if !ok {
					if f == "Value" { // zero value of the field
						val = "([] : bytes)"
					} else {
						fail(e, "field %s missing in %s literal", f, name)
					}
				}
				delete(vals, f)
				out += " " + val
			}
			if len(vals) != 0 {
				fail(e, "unknown fields in %s literal", name)
			}
			return "(Some (Leaf " + out + ")))", true
		}
	}
	if c, ok := e.(*ast.CallExpr); ok && ident(c.Fun) == "new" && len(c.Args) == 1 {
		if x, name := sel(c.Args[0]); x == "cfgerrors" {
			if ctor, ok := errNullary[name]; ok {
				return "(Some (Leaf " + ctor + "))", true
			}
			fail(e, "error type cfgerrors.%s is not modelled", name)
		}
	}
	return "", false
}

func (t *tr) expr(e ast.Expr) string {
	if s, ok := t.errLiteral(e); ok {
		return s
	}
	switch e := e.(type) {
	case *ast.ParenExpr:
		return "(" + t.expr(e.X) + ")"
	case *ast.Ident:
		switch e.Name {
		case "true", "false":
			return e.Name
		case "nil":
			fail(e, "nil outside a comparison")
		case "defaultPreflightStatus":
			return "cors_defaultPreflightStatus"
		}
		if _, ok := t.kinds[e.Name]; !ok {
			fail(e, "unknown identifier %s", e.Name)
		}
		return v(e.Name)
	case *ast.BasicLit:
		if e.Kind == token.INT {
			return "(" + e.Value + ")%Z"
		}
		if s, ok := strLit(e); ok {
			return bytesLit(s)
		}
		fail(e, "literal %s", e.Value)
	case *ast.UnaryExpr:
		switch e.Op {
		case token.NOT:
			return "(negb " + t.expr(e.X) + ")"
		case token.SUB:
			if l, ok := e.X.(*ast.BasicLit); ok && l.Kind == token.INT {
				return "(-" + l.Value + ")%Z"
			}
		case token.AND:
			if id := ident(e.X); id != "" { // &pattern, &icfg, &cfg
				return t.expr(e.X)
			}
		}
		fail(e, "unary expression %s", src(e))
	case *ast.BinaryExpr:
		return t.binary(e)
	case *ast.SelectorExpr:
		x, f := sel(e)
		switch {
		case x == "icfg" && t.kinds["icfg"] == kIcfg:
			if fd, ok := icfgFields[f]; ok {
				return "(" + fd[0] + " v_icfg)"
			}
			fail(e, "field icfg.%s is not part of the modelled configuration", f)
		case x == "cfg" && t.kinds["cfg"] == kCfg:
			if fd, ok := cfgFields[f]; ok {
				return "(" + fd[0] + " v_cfg)"
			}
			fail(e, "field cfg.%s is not part of the modelled Config", f)
		case x == "headers":
			return "headers_" + f
		case x == "origins" && f == "PatternKindSubdomains":
			return "KSubdomains"
		case t.kinds[x] == kPattern && f == "Kind":
			return "(pkind_of " + v(x) + ")"
		}
		fail(e, "selector %s", src(e))
	case *ast.CompositeLit:
		if src(e.Type) == "[]string" {
			parts := make([]string, len(e.Elts))
			for i, el := range e.Elts {
				parts[i] = t.expr(el)
			}
			return "[" + strings.Join(parts, "; ") + "]"
		}
		fail(e, "composite literal %s", src(e))
	case *ast.IndexExpr:
		if x, f := sel(e.X); x == "icfg" && icfgFields[f][2] == "optslice" && src(e.Index) == "0" {
			return "(opt_get (" + icfgFields[f][0] + " v_icfg))"
		}
		fail(e, "index expression %s", src(e))
	case *ast.CallExpr:
		return t.call(e)
	}
	fail(e, "expression %s", src(e))
	return ""
}

func (t *tr) binary(e *ast.BinaryExpr) string {
	switch e.Op {
	case token.LAND:
		return "(" + t.expr(e.X) + " && " + t.expr(e.Y) + ")"
	case token.LOR:
		return "(" + t.expr(e.X) + " || " + t.expr(e.Y) + ")"
	case token.ADD, token.SUB:
		op := "+"
		if e.Op == token.SUB {
			op = "-"
		}
		// uint8 arithmetic wraps: icfg.preflightStatusMinus200 + 200
		if x, f := sel(e.X); x == "icfg" && icfgFields[f][2] == "uint8" {
			return "((" + t.expr(e.X) + " " + op + " " + t.expr(e.Y) + ") mod 256)%Z"
		}
		return "(" + t.expr(e.X) + " " + op + " " + t.expr(e.Y) + ")%Z"
	}
	neg := func(s string, n bool) string {
		if n {
			return "(negb " + s + ")"
		}
		return s
	}
	// comparisons with nil
	if ident(e.Y) == "nil" && (e.Op == token.EQL || e.Op == token.NEQ) {
		if t.kindOf(e.X) == kError {
			return neg("(is_some "+t.expr(e.X)+")", e.Op == token.EQL)
		}
		fail(e, "comparison with nil: %s", src(e))
	}
	// len(x) and x.Size() compared with 0
	if lit, ok := e.Y.(*ast.BasicLit); ok && lit.Kind == token.INT && lit.Value == "0" {
		if c, ok := e.X.(*ast.CallExpr); ok {
			empty := ""
			if ident(c.Fun) == "len" && len(c.Args) == 1 {
				if x, f := sel(c.Args[0]); x == "icfg" && icfgFields[f][2] == "optslice" {
					empty = "(negb (is_some (" + icfgFields[f][0] + " v_icfg)))"
				} else {
					empty = "(is_nil " + t.expr(c.Args[0]) + ")"
				}
			} else if se, ok := c.Fun.(*ast.SelectorExpr); ok && se.Sel.Name == "Size" && len(c.Args) == 0 {
				empty = "(N.eqb (sset_size " + t.expr(se.X) + ") 0)"
			}
			if empty != "" {
				switch e.Op {
				case token.EQL:
					return empty
				case token.NEQ, token.GTR:
					return "(negb " + empty + ")"
				}
			}
		}
	}
	kx, ky := t.kindOf(e.X), t.kindOf(e.Y)
	if kx == kInt || ky == kInt {
		a, b := t.expr(e.X), t.expr(e.Y)
		switch e.Op {
		case token.EQL:
			return "(" + a + " =? " + b + ")%Z"
		case token.NEQ:
			return "(negb (" + a + " =? " + b + ")%Z)"
		case token.LSS:
			return "(" + a + " <? " + b + ")%Z"
		case token.LEQ:
			return "(" + a + " <=? " + b + ")%Z"
		case token.GTR:
			return "(" + b + " <? " + a + ")%Z"
		case token.GEQ:
			return "(" + b + " <=? " + a + ")%Z"
		}
	}
	if e.Op == token.EQL || e.Op == token.NEQ {
		if kx == kString || ky == kString {
			return neg("(beqb "+t.expr(e.X)+" "+t.expr(e.Y)+")", e.Op == token.NEQ)
		}
		// pattern.Kind compared with a kind constant
		if _, f := sel(e.X); f == "Kind" {
			return neg("(pkind_eqb "+t.expr(e.X)+" "+t.expr(e.Y)+")", e.Op == token.NEQ)
		}
	}
	fail(e, "comparison %s", src(e))
	return ""
}

func (t *tr) call(c *ast.CallExpr) string {
	name := src(c.Fun)
	if m, ok := pureCalls[name]; ok && len(c.Args) == 1 {
		return "(" + m + " " + t.expr(c.Args[0]) + ")"
	}
	switch name {
	case "int": // int(icfg.preflightStatusMinus200)
		if len(c.Args) == 1 {
			return t.expr(c.Args[0])
		}
	case "uint8":
		if len(c.Args) == 1 {
			return "(" + t.expr(c.Args[0]) + " mod 256)%Z"
		}
	case "strconv.Itoa":
		if len(c.Args) == 1 {
			return "(itoa (Z.to_N " + t.expr(c.Args[0]) + "))"
		}
	case "strings.Join":
		if len(c.Args) == 2 {
			return "(join " + t.expr(c.Args[1]) + " " + t.expr(c.Args[0]) + ")"
		}
	case "strings.Split":
		if len(c.Args) == 2 {
			return "(split_sep " + t.expr(c.Args[1]) + " " + t.expr(c.Args[0]) + ")"
		}
	}
	if se, ok := c.Fun.(*ast.SelectorExpr); ok && len(c.Args) == 0 {
		recv := se.X
		switch se.Sel.Name {
		case "ToSlice":
			return "(elems " + t.expr(recv) + ")"
		case "Elems":
			return "(tree_elems " + t.expr(recv) + ")"
		case "IsEmpty":
			return "(tree_is_empty " + t.expr(recv) + ")"
		case "IsDeemedInsecure":
			if t.kindOf(recv) == kPattern {
				return "(is_deemed_insecure " + t.expr(recv) + ")"
			}
		}
	}
	fail(c, "call %s", src(c))
	return ""
}

// ---- statements ----

func mentions(n ast.Node, kinds ...string) bool {
	found := false
	ast.Inspect(n, func(x ast.Node) bool {
		switch s := x.(type) {
		case *ast.ReturnStmt:
			for _, k := range kinds {
				if k == "return" {
					found = true
				}
			}
		case *ast.BranchStmt:
			for _, k := range kinds {
				if k == strings.ToLower(s.Tok.String()) {
					found = true
				}
			}
		case *ast.FuncLit:
			return false
		}
		return true
	})
	return found
}

func flatten(list []ast.Stmt) []ast.Stmt {
	var out []ast.Stmt
	for _, s := range list {
		if b, ok := s.(*ast.BlockStmt); ok {
			out = append(out, flatten(b.List)...)
		} else {
			out = append(out, s)
		}
	}
	return out
}

// assigned returns the variables (declared in scope before) that the statements assign
func (t *tr) assigned(list []ast.Stmt) []string {
	set := map[string]bool{}
	declaredInside := map[string]bool{}
	var walk func(n ast.Node)
	mark := func(name string) {
		if name != "" && name != "_" && !declaredInside[name] {
			set[name] = true
		}
	}
	walk = func(n ast.Node) {
		ast.Inspect(n, func(x ast.Node) bool {
			switch s := x.(type) {
			case *ast.AssignStmt:
				for _, l := range s.Lhs {
					if s.Tok == token.DEFINE {
						declaredInside[ident(l)] = true
						continue
					}
					if id := ident(l); id != "" {
						mark(id)
					} else if x, _ := sel(l); x != "" {
						mark(x)
					} else if se, ok := l.(*ast.SelectorExpr); ok { // cfg.ExtraConfig.F
						if x, _ := sel(se.X); x != "" {
							mark(x)
						}
					}
				}
			case *ast.RangeStmt:
				declaredInside[ident(s.Value)] = true
			case *ast.DeclStmt:
				if gd, ok := s.Decl.(*ast.GenDecl); ok {
					for _, sp := range gd.Specs {
						if vs, ok := sp.(*ast.ValueSpec); ok {
							for _, n := range vs.Names {
								declaredInside[n.Name] = true
							}
						}
					}
				}
			case *ast.ExprStmt:
				if c, ok := s.X.(*ast.CallExpr); ok {
					if x, f := sel(c.Fun); f == "Add" || f == "Insert" {
						mark(x)
					} else if x == "icfg" { // a validateX call updates the receiver
						mark("icfg")
					}
				}
			case *ast.IfStmt:
				if s.Init != nil {
					if as, ok := s.Init.(*ast.AssignStmt); ok && len(as.Rhs) == 1 {
						if c, ok := as.Rhs[0].(*ast.CallExpr); ok {
							if x, _ := sel(c.Fun); x == "icfg" {
								mark("icfg")
							}
						}
					}
				}
			}
			return true
		})
	}
	for _, s := range list {
		walk(s)
	}
	var out []string
	for _, name := range t.scope {
		if set[name] {
			out = append(out, name)
		}
	}
	return out
}

func tuple(names []string) string {
	if len(names) == 0 {
		return "tt"
	}
	if len(names) == 1 {
		return v(names[0])
	}
	vs := make([]string, len(names))
	for i, n := range names {
		vs[i] = v(n)
	}
	return "(" + strings.Join(vs, ", ") + ")"
}

func letPat(names []string) string {
	if len(names) == 0 {
		return "let _ :="
	}
	if len(names) == 1 {
		return "let " + v(names[0]) + " :="
	}
	return "let '" + tuple(names) + " :="
}

func funPat(names []string) string {
	if len(names) == 0 {
		return "_"
	}
	if len(names) == 1 {
		return v(names[0])
	}
	return "'" + tuple(names)
}

func (t *tr) ret(s *ast.ReturnStmt) string {
	switch t.retKind {
	case "err":
		if len(s.Results) != 1 {
			fail(s, "return")
		}
		r := s.Results[0]
		switch {
		case ident(r) == "nil":
			return "(v_icfg, None)"
		case src(r) == "errors.Join(errs...)":
			return "(v_icfg, Some (Join v_errs))"
		}
		if t.kindOf(r) == kError {
			return "(v_icfg, " + t.expr(r) + ")"
		}
		if e, ok := t.errLiteral(r); ok {
			return "(v_icfg, " + e + ")"
		}
		fail(s, "return %s", src(r))
	case "icfg+err":
		if len(s.Results) != 2 {
			fail(s, "return")
		}
		a, b := s.Results[0], s.Results[1]
		switch {
		case ident(a) == "nil" && src(b) == "errors.Join(errs...)":
			return "(inr (Join v_errs))"
		case src(a) == "&icfg" && ident(b) == "nil":
			return "(inl v_icfg)"
		}
		fail(s, "return %s", src(s))
	case "cfg":
		if len(s.Results) == 1 && src(s.Results[0]) == "&cfg" {
			return "v_cfg"
		}
		fail(s, "return %s", src(s))
	}
	return ""
}

// validateCall recognises icfg.validateX(args)
func (t *tr) validateCall(e ast.Expr) (string, bool) {
	c, ok := e.(*ast.CallExpr)
	if !ok {
		return "", false
	}
	x, f := sel(c.Fun)
	if x != "icfg" || !strings.HasPrefix(f, "validate") || !translated[f] {
		return "", false
	}
	s := "go_" + f + " v_icfg"
	for _, a := range c.Args {
		s += " " + t.expr(a)
	}
	return s, true
}

var translated = map[string]bool{}

// seq translates the rest of a block; end is what falling off its end yields ("" = not allowed).
func (t *tr) seq(list []ast.Stmt, end string) string {
	list = flatten(list)
	if len(list) == 0 {
		if end == "" {
			fail(nil, "%s: control reaches the end of the function", t.fn)
		}
		return end
	}
	s, rest := list[0], list[1:]
	cont := func(line string) string { return line + "\n" + t.ind() + t.seq(rest, end) }
	switch s := s.(type) {
	case *ast.ReturnStmt:
		if t.inLoop {
			fail(s, "return inside a loop")
		}
		return t.ret(s)
	case *ast.BranchStmt:
		if s.Tok == token.CONTINUE && t.inLoop && s.Label == nil {
			return t.loopOut
		}
		fail(s, "branch statement %s", src(s))
	case *ast.DeclStmt:
		gd := s.Decl.(*ast.GenDecl)
		out := ""
		for _, sp := range gd.Specs {
			vs, ok := sp.(*ast.ValueSpec)
			if !ok {
				fail(s, "declaration %s", src(s))
			}
			for i, n := range vs.Names {
				switch {
				case gd.Tok == token.CONST && len(vs.Values) == len(vs.Names):
					t.declare(n.Name, kInt)
					out += "let " + v(n.Name) + " := " + t.expr(vs.Values[i]) + " in\n" + t.ind()
				case gd.Tok == token.VAR && vs.Values == nil:
					ty := src(vs.Type)
					z, ok := zeroOf[ty]
					if !ok {
						fail(vs, "zero value of type %s", ty)
					}
					k := map[string]vkind{"origins.Tree": kTree, "util.Set": kSet, "util.SortedSet": kSet, "[]error": kErrs, "bool": kBool,
						"string": kString, "internalConfig": kIcfg, "Config": kCfg}[ty]
					t.declare(n.Name, k)
					out += "let " + v(n.Name) + " := " + z + " in\n" + t.ind()
				default:
					fail(vs, "declaration %s", src(s))
				}
			}
		}
		return out + t.seq(rest, end)
	case *ast.ExprStmt:
		c, ok := s.X.(*ast.CallExpr)
		if !ok {
			fail(s, "statement %s", src(s))
		}
		x, f := sel(c.Fun)
		switch {
		case f == "Add" && t.kinds[x] == kSet && len(c.Args) == 1:
			return cont("let " + v(x) + " := sset_add " + v(x) + " " + t.expr(c.Args[0]) + " in")
		case f == "Insert" && t.kinds[x] == kTree && len(c.Args) == 1:
			return cont("let " + v(x) + " := tree_insert " + v(x) + " " + t.expr(c.Args[0]) + " in")
		}
		fail(s, "statement %s", src(s))
	case *ast.AssignStmt:
		return t.assign(s, rest, end)
	case *ast.IfStmt:
		return t.ifStmt(s, rest, end)
	case *ast.SwitchStmt:
		if s.Init != nil || s.Tag != nil {
			fail(s, "switch with a tag")
		}
		type arm struct {
			cond ast.Expr
			body []ast.Stmt
		}
		var arms []arm
		var def []ast.Stmt
		for _, cc := range s.Body.List {
			cl := cc.(*ast.CaseClause)
			if mentions(&ast.BlockStmt{List: cl.Body}, "break", "fallthrough", "goto") {
				fail(cl, "branch statement in a switch")
			}
			if cl.List == nil {
				def = cl.Body
				continue
			}
			if len(cl.List) != 1 {
				fail(cl, "case with several expressions")
			}
			arms = append(arms, arm{cl.List[0], cl.Body})
		}
		var build func(i int) []ast.Stmt
		build = func(i int) []ast.Stmt {
			if i == len(arms) {
				return def
			}
			return []ast.Stmt{&ast.IfStmt{If: s.Pos(), Cond: arms[i].cond, Body: &ast.BlockStmt{List: arms[i].body}, Else: &ast.BlockStmt{List: build(i + 1)}}}
		}
		return t.seq(append(build(0), rest...), end)
	case *ast.RangeStmt:
		if ident(s.Key) != "_" || s.Value == nil || s.Tok != token.DEFINE || t.inLoop {
			fail(s, "range statement %s", src(s.X))
		}
		if mentions(s.Body, "return", "break", "goto") {
			fail(s, "a loop body that leaves the loop")
		}
		lv := t.assigned(s.Body.List)
		saved := append([]string{}, t.scope...)
		savedKinds := map[string]vkind{}
		for k, vv := range t.kinds {
			savedKinds[k] = vv
		}
		t.declare(ident(s.Value), kString)
		t.inLoop, t.loopOut = true, tuple(lv)
		t.depth++
		body := t.seq(s.Body.List, tuple(lv))
		t.depth--
		t.inLoop, t.loopOut = false, ""
		t.scope, t.kinds = saved, savedKinds
		return cont(letPat(lv) + " fold_left (fun " + funPat(lv) + " " + v(ident(s.Value)) + " =>\n" + t.ind() + "  " + body + ")\n" + t.ind() + "  " + t.expr(s.X) + " " + tuple(lv) + " in")
	}
	fail(s, "statement %s", src(s))
	return ""
}

func (t *tr) assign(s *ast.AssignStmt, rest []ast.Stmt, end string) string {
	cont := func(line string) string { return line + "\n" + t.ind() + t.seq(rest, end) }
	if len(s.Rhs) != 1 {
		fail(s, "parallel assignment")
	}
	rhs := s.Rhs[0]
	if s.Tok == token.DEFINE {
		names := make([]string, len(s.Lhs))
		for i, l := range s.Lhs {
			names[i] = ident(l)
		}
		if c, ok := rhs.(*ast.CallExpr); ok {
			switch src(c.Fun) {
			case "origins.ParsePattern":
				if len(names) == 2 && len(c.Args) == 1 {
					t.declare(names[0], kPattern)
					t.declare(names[1], kError)
					return cont("let '(" + v(names[0]) + ", " + v(names[1]) + ") := parse_pattern2 ace_ok ip6 " + t.expr(c.Args[0]) + " in")
				}
			case "strconv.Atoi":
				if len(names) == 2 && names[1] == "_" && len(c.Args) == 1 {
					t.declare(names[0], kInt)
					return cont("let " + v(names[0]) + " := Z.of_N (atoi " + t.expr(c.Args[0]) + ") in")
				}
			}
		}
		if len(names) != 1 {
			fail(s, "assignment %s", src(s))
		}
		k := t.kindOf(rhs)
		if _, isErr := t.errLiteral(rhs); isErr {
			k = kError
		}
		if c, ok := rhs.(*ast.CallExpr); ok {
			switch src(c.Fun) {
			case "util.ByteLowercase", "methods.Normalize":
				k = kString
			}
			if se, ok := c.Fun.(*ast.SelectorExpr); ok && se.Sel.Name == "ToSlice" {
				k = kSlice
			}
		}
		val := t.expr(rhs)
		t.declare(names[0], k)
		return cont("let " + v(names[0]) + " := " + val + " in")
	}
	if s.Tok != token.ASSIGN || len(s.Lhs) != 1 {
		fail(s, "assignment %s", src(s))
	}
	lhs := s.Lhs[0]
	// errs = append(errs, e)
	if id := ident(lhs); id != "" {
		if c, ok := rhs.(*ast.CallExpr); ok && ident(c.Fun) == "append" && len(c.Args) == 2 && ident(c.Args[0]) == id && t.kinds[id] == kErrs {
			return cont("let " + v(id) + " := " + v(id) + " ++ opt_list " + t.expr(c.Args[1]) + " in")
		}
		if _, ok := t.kinds[id]; !ok {
			fail(s, "assignment to an unknown variable %s", id)
		}
		return cont("let " + v(id) + " := " + t.expr(rhs) + " in")
	}
	// icfg.f = e   /   cfg.F = e   /   cfg.ExtraConfig.F = e
	x, f := sel(lhs)
	if se, ok := lhs.(*ast.SelectorExpr); ok && x == "" {
		if xx, mid := sel(se.X); xx == "cfg" && mid == "ExtraConfig" {
			x, f = "cfg", se.Sel.Name
		}
	}
	switch {
	case x == "icfg" && t.kinds["icfg"] == kIcfg:
		fd, ok := icfgFields[f]
		if !ok {
			fail(s, "field icfg.%s is not part of the modelled configuration", f)
		}
		val := ""
		if fd[2] == "optslice" { // []string{e}: nil or a singleton slice
			cl, ok := rhs.(*ast.CompositeLit)
			if !ok || src(cl.Type) != "[]string" || len(cl.Elts) != 1 {
				fail(s, "value of icfg.%s is not a singleton slice literal", f)
			}
			val = "(Some " + t.expr(cl.Elts[0]) + ")"
		} else {
			val = t.expr(rhs)
		}
		return cont("let v_icfg := " + fd[1] + " v_icfg " + val + " in")
	case x == "cfg" && t.kinds["cfg"] == kCfg:
		fd, ok := cfgFields[f]
		if !ok {
			fail(s, "field cfg.%s is not part of the modelled Config", f)
		}
		return cont("let v_cfg := " + fd[1] + " v_cfg " + t.expr(rhs) + " in")
	}
	fail(s, "assignment %s", src(s))
	return ""
}

func (t *tr) snapshot() ([]string, map[string]vkind) {
	k := map[string]vkind{}
	for a, b := range t.kinds {
		k[a] = b
	}
	return append([]string{}, t.scope...), k
}

func (t *tr) restore(scope []string, kinds map[string]vkind) {
	t.scope = append([]string{}, scope...)
	t.kinds = map[string]vkind{}
	for a, b := range kinds {
		t.kinds[a] = b
	}
}

func (t *tr) ifStmt(s *ast.IfStmt, rest []ast.Stmt, end string) string {
	var els []ast.Stmt
	switch e := s.Else.(type) {
	case nil:
	case *ast.BlockStmt:
		els = e.List
	case *ast.IfStmt:
		els = []ast.Stmt{e}
	}
	pre := ""
	scope0, kinds0 := t.snapshot()
	if s.Init != nil {
		as, ok := s.Init.(*ast.AssignStmt)
		if !ok || as.Tok != token.DEFINE || len(as.Rhs) != 1 {
			fail(s, "if with an init statement %s", src(s.Init))
		}
		if call, ok := t.validateCall(as.Rhs[0]); ok && len(as.Lhs) == 1 { // if err := icfg.validateX(...); err != nil
			t.declare(ident(as.Lhs[0]), kError)
			pre = "let '(v_icfg, " + v(ident(as.Lhs[0])) + ") := " + call + " in\n" + t.ind()
		} else if c, ok := as.Rhs[0].(*ast.CallExpr); ok && len(as.Lhs) == 2 && ident(as.Lhs[0]) == "_" { // if _, b := p.HostIsEffectiveTLD(); b
			se, ok := c.Fun.(*ast.SelectorExpr)
			if !ok || se.Sel.Name != "HostIsEffectiveTLD" || t.kindOf(se.X) != kPattern || len(c.Args) != 0 {
				fail(s, "if with an init statement %s", src(s.Init))
			}
			t.declare(ident(as.Lhs[1]), kBool)
			pre = "let " + v(ident(as.Lhs[1])) + " := host_is_etld is_psl " + t.expr(se.X) + " in\n" + t.ind()
		} else {
			fail(s, "if with an init statement %s", src(s.Init))
		}
	}
	cond := t.expr(s.Cond)
	scope1, kinds1 := t.snapshot()
	body := &ast.BlockStmt{List: append(append([]ast.Stmt{}, s.Body.List...), els...)}
	if !mentions(body, "return", "continue") {
		t.restore(scope0, kinds0)
		av := t.assigned(body.List) // only variables that exist before the if
		t.restore(scope1, kinds1)
		t.depth++
		a := t.seq(s.Body.List, tuple(av))
		t.restore(scope1, kinds1)
		b := t.seq(els, tuple(av))
		t.depth--
		t.restore(scope0, kinds0)
		return pre + letPat(av) + " if " + cond + " then (" + a + ") else (" + b + ") in\n" + t.ind() + t.seq(rest, end)
	}
	t.depth++
	a := t.seq(append(append([]ast.Stmt{}, s.Body.List...), rest...), end)
	t.restore(scope1, kinds1)
	b := t.seq(append(append([]ast.Stmt{}, els...), rest...), end)
	t.depth--
	t.restore(scope0, kinds0)
	return pre + "if " + cond + " then (\n" + t.ind() + "  " + a + ")\n" + t.ind() + "else (\n" + t.ind() + "  " + b + ")"
}

func savedKindsOr(t *tr, id string) vkind {
	if k, ok := t.kinds[id]; ok {
		return k
	}
	return kError
}

func contains(l []string, s string) bool {
	for _, x := range l {
		if x == s {
			return true
		}
	}
	return false
}

// ---- functions ----

func translateValidator(fd *ast.FuncDecl) string {
	name := fd.Name.Name
	t := &tr{fn: name, retKind: "err", kinds: map[string]vkind{}}
	if fd.Recv == nil || len(fd.Recv.List) != 1 || fd.Recv.List[0].Names[0].Name != "icfg" || src(fd.Recv.List[0].Type) != "*internalConfig" {
		fail(fd, "%s: receiver", name)
	}
	t.declare("icfg", kIcfg)
	params := ""
	for _, f := range fd.Type.Params.List {
		ty := src(f.Type)
		for _, n := range f.Names {
			switch ty {
			case "[]string":
				t.declare(n.Name, kSlice)
				params += " (" + v(n.Name) + " : list bytes)"
			case "int":
				t.declare(n.Name, kInt)
				params += " (" + v(n.Name) + " : Z)"
			default:
				fail(f, "%s: parameter type %s", name, ty)
			}
		}
	}
	if fd.Type.Results == nil || len(fd.Type.Results.List) != 1 || src(fd.Type.Results.List[0].Type) != "error" {
		fail(fd, "%s: result type", name)
	}
	body := t.seq(fd.Body.List, "")
	translated[name] = true
	return fmt.Sprintf("Definition go_%s (v_icfg : icfg)%s : icfg * option (etree cerr) :=\n  %s.\n", name, params, body)
}

// dropNilGuard removes the leading `if x == nil { return ... }` (the models are about non-nil arguments)
func dropNilGuard(fd *ast.FuncDecl, param string) []ast.Stmt {
	list := fd.Body.List
	if len(list) == 0 {
		fail(fd, "empty body")
	}
	is, ok := list[0].(*ast.IfStmt)
	if !ok || src(is.Cond) != param+" == nil" || is.Else != nil || len(is.Body.List) != 1 {
		fail(fd, "%s: the nil guard is missing", fd.Name.Name)
	}
	if r, ok := is.Body.List[0].(*ast.ReturnStmt); !ok || (src(r) != "return nil, nil" && src(r) != "return nil") {
		fail(fd, "%s: unexpected nil guard", fd.Name.Name)
	}
	return list[1:]
}

func translateNewInternalConfig(fd *ast.FuncDecl) string {
	if src(fd.Type) != "func(cfg *Config) (*internalConfig, error)" {
		fail(fd, "newInternalConfig: signature %s", src(fd.Type))
	}
	t := &tr{fn: "newInternalConfig", retKind: "icfg+err", kinds: map[string]vkind{}}
	t.declare("cfg", kCfg)
	body := t.seq(dropNilGuard(fd, "cfg"), "")
	return fmt.Sprintf("Definition go_newInternalConfig (v_cfg : config) : icfg + etree cerr :=\n  %s.\n", body)
}

func translateNewConfig(fd *ast.FuncDecl) string {
	if src(fd.Type) != "func(icfg *internalConfig) *Config" {
		fail(fd, "newConfig: signature %s", src(fd.Type))
	}
	t := &tr{fn: "newConfig", retKind: "cfg", kinds: map[string]vkind{}}
	t.declare("icfg", kIcfg)
	body := t.seq(dropNilGuard(fd, "icfg"), "")
	return fmt.Sprintf("Definition go_newConfig (v_icfg : icfg) : config :=\n  %s.\n", body)
}

func main() {
	if len(os.Args) != 3 {
		fmt.Fprintln(os.Stderr, "usage: gencfg <repo> <out.v>")
		os.Exit(2)
	}
	repo, out := os.Args[1], os.Args[2]
	header := "(* GENERATED by tools/gencfg from config.go on every run -- do not edit. *)\n" +
		"Require Import Base.Bytes Gen.Tables Model.Util Model.Headers Model.Methods Model.Origins Model.Netip Model.Pattern Model.Radix Model.CfgErrors Model.Config Model.CfgRt.\nOpen Scope bool_scope.\n\n"
	var sb strings.Builder
	sb.WriteString(header)
	errMsg := ""
	func() {
		defer func() {
			if e := recover(); e != nil {
				if f, ok := e.(failure); ok {
					errMsg = f.msg
					return
				}
				panic(e)
			}
		}()
		file, err := parser.ParseFile(fset, filepath.Join(repo, "config.go"), nil, parser.SkipObjectResolution)
		if err != nil {
			fail(nil, "parse error: %v", err)
		}
		decls := map[string]*ast.FuncDecl{}
		var names []string
		for _, d := range file.Decls {
			if fd, ok := d.(*ast.FuncDecl); ok {
				decls[fd.Name.Name] = fd
				names = append(names, fd.Name.Name)
			}
			// package-level variables would be state shared between calls (caches, pools): outside the model
			if gd, ok := d.(*ast.GenDecl); ok && gd.Tok == token.VAR {
				fail(gd, "package-level variable in config.go")
			}
		}
		order := []string{"validatePreflightStatus", "validateOrigins", "validateMethods", "validateRequestHeaders", "validateMaxAge", "validateResponseHeaders"}
		known := map[string]bool{"newInternalConfig": true, "newConfig": true}
		for _, n := range order {
			known[n] = true
		}
		sort.Strings(names)
		for _, n := range names {
			if !known[n] {
				fail(decls[n], "function %s is not part of the modelled validation", n)
			}
		}
		// the fields of internalConfig must be exactly the modelled ones
		for _, d := range file.Decls {
			gd, ok := d.(*ast.GenDecl)
			if !ok || gd.Tok != token.TYPE {
				continue
			}
			for _, sp := range gd.Specs {
				ts := sp.(*ast.TypeSpec)
				if ts.Name.Name != "internalConfig" {
					continue
				}
				st, ok := ts.Type.(*ast.StructType)
				if !ok {
					fail(ts, "internalConfig is not a struct")
				}
				n := 0
				for _, f := range st.Fields.List {
					for _, nm := range f.Names {
						if _, ok := icfgFields[nm.Name]; !ok {
							fail(f, "field internalConfig.%s is not part of the modelled configuration", nm.Name)
						}
						n++
					}
				}
				if n != len(icfgFields) {
					fail(ts, "internalConfig has %d fields, the model %d", n, len(icfgFields))
				}
			}
		}
		sb.WriteString("Section Oracles.\nVariable ace_ok : bytes -> bool.\nVariable ip6 : bytes -> ipres.\nVariable is_psl : bytes -> bool.\n\n")
		for _, n := range order {
			if decls[n] == nil {
				fail(nil, "function %s not found", n)
			}
			sb.WriteString(translateValidator(decls[n]))
			sb.WriteString("\n")
		}
		if decls["newInternalConfig"] == nil || decls["newConfig"] == nil {
			fail(nil, "newInternalConfig / newConfig not found")
		}
		sb.WriteString(translateNewInternalConfig(decls["newInternalConfig"]))
		sb.WriteString("\nEnd Oracles.\n\n")
		sb.WriteString(translateNewConfig(decls["newConfig"]))
	}()
	text := sb.String()
	if errMsg != "" {
		esc := strings.NewReplacer("\n", " ", "*)", "* )").Replace(errMsg)
		text = header + "(* the translator stopped: the source is outside the translated fragment *)\n" +
			"Definition gencfg_failed : bool := true.\n(* reason: " + esc + " *)\n"
		fmt.Fprintln(os.Stderr, "gencfg: "+errMsg)
	}
	if err := os.WriteFile(out, []byte(text), 0o644); err != nil {
		fmt.Fprintln(os.Stderr, err)
		os.Exit(1)
	}
	if errMsg != "" {
		os.Exit(3)
	}
}
